/-
Property C13 — change and cumulation transforms follow their formulas and invert each other.

Property theorems only (helper lemmas live in IrisVerif/Lemmas/Temporal.lean).  Every theorem is about the
executable model `IrisVerif.Temporal` (Model/Temporal.lean), whose formulas are the definitions of
`IrisVerif.Gen.Temporal`, regenerated from /repo/src/irispie/series/_temporal.py on every run: the proofs below
unfold those definitions, so a changed formula in the code re-checks (and, if wrong, breaks) them.

Sections
  1. structure: a change is the NaN-strict cell-wise formula of `x_t` and the reference value, for negative integer
     shifts and for the keyword shifts yoy / soy / eopy / tty (reference period = the calendar model of C09);
     malformed shifts and empty series are rejected
  2. the documented formulas, period by period: diff pct roc adiff over an arbitrary field, diff_log adiff_log apct
     aroc over ℝ; start-of-year periods under "tty"
  3. the conversion helpers are consistent with the change functions
  4. inversion: cumulating a change series with the original series as initial condition reproduces it,
     forward and backward, every span / step / negative shift (forward: every keyword shift too);
     stronger initial-condition form for unit-step spans
  5. several variants: trim removes exactly the rows missing in all variants; variant locality of change, conversion
     and cumulation (broadcast rule for `initial`); the change depends on the cells only (shared rows do not leak)
  6. the shift argument as the caller passes it (int / float / keyword / other string); default initial values
  7. keyword shifts at the series level with the C09 calendar rule made explicit; the neutral-value fill of "tty"
  9. the default call `cum_X(X(s,k), k, initial=s)` without a span
  10. de-annualising with the factor 1 (yearly, integer periods): consistent with pct/roc for data of any sign
  8. chain-by-chain inversion through series WITH missing values (both directions, every lag); the rejection branches of
     the cumulation; reference periods before the start read as missing; the annualisation factor of every frequency
-/
import Mathlib.Analysis.SpecialFunctions.Pow.Real
import Mathlib.Tactic.FieldSimp
import Mathlib.Tactic.Ring
import Mathlib.Tactic.Linarith
import IrisVerif.Lemmas.Temporal
import IrisVerif.Props.C09

set_option linter.unusedSectionVars false
set_option linter.unusedVariables false

namespace IrisVerif.C13
open IrisVerif.Dates IrisVerif.Temporal IrisVerif.Gen.Temporal IrisVerif.Gen.Dates

/-! ## 1. Structure of a temporal change -/

section structure_
variable {α : Type} [Add α] [Sub α] [Mul α] [Div α] [NatCast α] [IntCast α]

/-- the cell-wise function a change applies: the generated lambda on its numpy domain, NaN-strict -/
def cellFn (S : Sym α) (kind : ChangeKind) (f : Freq) : Option α → Option α → Option α :=
  lift2 (kind.dom S) (kind.fn S (factorOf f))

/-- **Negative integer shift.** For every non-empty series and every `k < 0` the change exists and its value in
every period `t` (inside or outside the rows of the series) is the formula applied to `x_t` and `x_{t+k}`,
missing as soon as one of the two is missing. -/
theorem change_int (S : Sym α) (kind : ChangeKind) (hflex : kind.fixedShift = none) (s : Ser α)
    (k : Int) (hk : k < 0) :
    ∃ o, change S kind (.by_ k) s = .ok o ∧ o.freq = s.freq ∧
      ∀ t, o.get t = cellFn S kind s.freq (s.get t) (s.get (t + k)) := by
  refine ⟨Ser.binop (cellFn S kind s.freq) s (s.shiftBy k), ?_, by simp, ?_⟩
  · simp [change, hflex, temporalChange, validShift, hk, Ser.shift, bind, Except.bind, pure, Except.pure, cellFn]
  · intro t
    rw [Ser.get_binop _ (by simp [cellFn]), Ser.get_shiftBy]

/-- **Annualised variants** take no shift: the reference period is always the previous one. -/
theorem change_annual (S : Sym α) (kind : ChangeKind) (hann : kind.fixedShift.isSome = true) (s : Ser α)
    (by_ : ShiftBy) :
    ∃ o, change S kind by_ s = .ok o ∧ o.freq = s.freq ∧
      ∀ t, o.get t = cellFn S kind s.freq (s.get t) (s.get (t + (-1))) := by
  have hshift : kind.fixedShift = some (-1) := by
    cases kind <;> simp [ChangeKind.fixedShift] at hann ⊢ <;> rfl
  refine ⟨Ser.binop (cellFn S kind s.freq) s (s.shiftBy (-1)), ?_, by simp, ?_⟩
  · simp [change, hshift, temporalChange, validShift, Ser.shift, bind, Except.bind, pure, Except.pure, cellFn]
  · intro t
    rw [Ser.get_binop _ (by simp [cellFn]), Ser.get_shiftBy]

/-- **Leads are rejected** (`_catch_invalid_shift`): a non-negative number is not a valid shift. -/
theorem change_rejects_leads (S : Sym α) (kind : ChangeKind) (hflex : kind.fixedShift = none) (s : Ser α)
    (k : Int) (hk : 0 ≤ k) : change S kind (.by_ k) s = .error .badInput := by
  have : ¬ k < 0 := by omega
  simp [change, hflex, temporalChange, validShift, this]
  rfl

/-- the change of an empty series (no start period) is an empty series, whatever the (valid) shift -/
theorem change_empty (S : Sym α) (kind : ChangeKind) (s : Ser α) (he : s.isEmpty = true) (by_ : ShiftBy)
    (o : Ser α) (h : change S kind by_ s = .ok o) (t : Int) : o.get t = none := by
  have key : ∀ by' : ShiftBy, temporalChange S kind by' s = .ok o → o.get t = none := by
    intro by' h'
    unfold temporalChange at h'
    cases hv : validShift by' with
    | false => simp [hv] at h'
    | true =>
      simp only [hv, Bool.not_true, Bool.false_eq_true, if_false, bind, Except.bind] at h'
      cases hsft : s.shift by' (kind.neutral.map (fun (n : Int) => (n : α))) with
      | error e => simp [hsft] at h'
      | ok other =>
        simp only [hsft, pure, Except.pure] at h'
        injection h' with h'
        subst h'
        rw [Ser.get_binop _ (by simp)]
        simp [Ser.get_of_isEmpty s he]
  unfold change at h
  cases hfx : kind.fixedShift with
  | none => rw [hfx] at h; exact key _ h
  | some k => rw [hfx] at h; exact key _ h

/-- **Year-on-year**: the reference period is `t − a`, `a` the number of periods of the frequency in a year. -/
theorem change_yoy (S : Sym α) (kind : ChangeKind) (hflex : kind.fixedShift = none) (s : Ser α)
    :
    ∃ o, change S kind .yoy s = .ok o ∧ o.freq = s.freq ∧
      ∀ t, o.get t = cellFn S kind s.freq (s.get t) (s.get (t - s.freq.value)) := by
  refine ⟨Ser.binop (cellFn S kind s.freq) s (s.shiftBy (-(s.freq.value))), ?_, by simp, ?_⟩
  · simp [change, hflex, temporalChange, validShift, Ser.shift, bind, Except.bind, pure, Except.pure, cellFn]
  · intro t
    rw [Ser.get_binop _ (by simp [cellFn]), Ser.get_shiftBy]
    have : t + -s.freq.value = t - s.freq.value := by omega
    rw [this]

/-- shared shape of the three calendar keywords: reference periods computed by `ref`, which never raises -/
theorem change_ref (S : Sym α) (kind : ChangeKind) (s : Ser α) (ref : Int → R Int) (neutral : Option α)
    (o' : Ser α) (ho' : s.shiftRef ref neutral = .ok o') (hget : ∀ t, o'.get t =
      if s.lo ≤ t ∧ t ≤ s.hi then s.refCell neutral (ref t) else none) (t : Int) :
    (Ser.binop (cellFn S kind s.freq) s o').get t = cellFn S kind s.freq (s.get t) (s.refCell neutral (ref t)) := by
  rw [Ser.get_binop _ (by simp [cellFn]), hget]
  by_cases r : s.lo ≤ t ∧ t ≤ s.hi
  · rw [if_pos r]
  · rw [if_neg r]
    have : s.get t = none := by simp [Ser.get, r]
    simp [this, cellFn]

/-- **Start of year**: wherever `create_soy` yields the period `p`, the reference value is `x_p`. -/
theorem change_soy (S : Sym α) (kind : ChangeKind) (hflex : kind.fixedShift = none) (s : Ser α)
    (hf : s.freq ≠ .I) :
    ∃ o, change S kind .soy s = .ok o ∧ o.freq = s.freq ∧
      ∀ t p, createSoy ⟨s.freq, t⟩ = .ok p → o.get t = cellFn S kind s.freq (s.get t) (s.get p.serial) := by
  have hok : ∀ t, s.lo ≤ t → t ≤ s.hi → Ser.refOk (Ser.refSoy s.freq t) = true := by
    intro t _ _
    obtain ⟨ys, h⟩ := toYearSegment_ok s.freq hf t
    simp [Ser.refSoy, createSoy, h, bind, Except.bind, pure, Except.pure, Except.map, Ser.refOk]
  obtain ⟨o', ho', hget⟩ := Ser.get_shiftRef s (Ser.refSoy s.freq) none hok
  refine ⟨Ser.binop (cellFn S kind s.freq) s o', ?_, by simp, ?_⟩
  · simp [change, hflex, temporalChange, validShift, Ser.shift, ho', bind, Except.bind, pure, Except.pure]
    rfl
  · intro t p hp
    rw [change_ref S kind s _ _ o' ho' hget]
    simp [Ser.refSoy, hp, Except.map, Ser.refCell]

/-- **End of previous year**: wherever `create_eopy` yields the period `p`, the reference value is `x_p`. -/
theorem change_eopy (S : Sym α) (kind : ChangeKind) (hflex : kind.fixedShift = none) (s : Ser α)
    (hf : s.freq ≠ .I) :
    ∃ o, change S kind .eopy s = .ok o ∧ o.freq = s.freq ∧
      ∀ t p, createEopy ⟨s.freq, t⟩ = .ok p → o.get t = cellFn S kind s.freq (s.get t) (s.get p.serial) := by
  have hok : ∀ t, s.lo ≤ t → t ≤ s.hi → Ser.refOk (Ser.refEopy s.freq t) = true := by
    intro t _ _
    obtain ⟨ys, h⟩ := toYearSegment_ok s.freq hf t
    cases hfr : s.freq <;>
      simp_all [Ser.refEopy, createEopy, bind, Except.bind, pure, Except.pure, Except.map, Ser.refOk]
  obtain ⟨o', ho', hget⟩ := Ser.get_shiftRef s (Ser.refEopy s.freq) none hok
  refine ⟨Ser.binop (cellFn S kind s.freq) s o', ?_, by simp, ?_⟩
  · simp [change, hflex, temporalChange, validShift, Ser.shift, ho', bind, Except.bind, pure, Except.pure]
    rfl
  · intro t p hp
    rw [change_ref S kind s _ _ o' ho' hget]
    simp [Ser.refEopy, hp, Except.map, Ser.refCell]

/-- **Throughout the year**: the previous period while it lies in the same year (`create_tty` yields `p = t − 1`,
C09 `shift_tty`); in a start-of-year period (`create_tty` yields nothing) the reference value is the method's
`neutral_value` (missing when that is `None`). -/
theorem change_tty (S : Sym α) (kind : ChangeKind) (hflex : kind.fixedShift = none) (s : Ser α)
    (hf : s.freq ≠ .I) :
    ∃ o, change S kind .tty s = .ok o ∧ o.freq = s.freq ∧
      (∀ t p, createTty ⟨s.freq, t⟩ = .ok p → o.get t = cellFn S kind s.freq (s.get t) (s.get p.serial)) ∧
      (∀ t, createTty ⟨s.freq, t⟩ = .error .noPeriod →
        o.get t = cellFn S kind s.freq (s.get t) (kind.neutral.map (fun (n : Int) => (n : α)))) := by
  have hok : ∀ t, s.lo ≤ t → t ≤ s.hi → Ser.refOk (Ser.refTty s.freq t) = true := by
    intro t _ _
    obtain ⟨ys, h⟩ := toYearSegment_ok s.freq hf t
    simp only [Ser.refTty, createTty, h, bind, Except.bind, pure, Except.pure]
    by_cases hs : ys.2 > 1
    · simp [hs, Except.map, Ser.refOk]
    · simp [hs, Except.map, Ser.refOk, throw, throwThe, MonadExceptOf.throw]
  obtain ⟨o', ho', hget⟩ := Ser.get_shiftRef s (Ser.refTty s.freq) (kind.neutral.map (fun (n : Int) => (n : α))) hok
  refine ⟨Ser.binop (cellFn S kind s.freq) s o', ?_, by simp, ?_, ?_⟩
  · simp [change, hflex, temporalChange, validShift, Ser.shift, ho', bind, Except.bind, pure, Except.pure]
    rfl
  · intro t p hp
    rw [change_ref S kind s _ _ o' ho' hget]
    simp [Ser.refTty, hp, Except.map, Ser.refCell]
  · intro t hp
    rw [change_ref S kind s _ _ o' ho' hget]
    simp [Ser.refTty, hp, Except.map, Ser.refCell]

/-- integer periods have no calendar: soy / eopy / tty raise (as `IntegerPeriod` has no `create_*` methods) -/
theorem change_keyword_integer_rejected (S : Sym α) (kind : ChangeKind) (hflex : kind.fixedShift = none) (s : Ser α)
    (hne : s.isEmpty = false) (hf : s.freq = .I) (by_ : ShiftBy) (hby : by_ = .soy ∨ by_ = .eopy ∨ by_ = .tty) :
    change S kind by_ s = .error .badInput := by
  have hlo : s.lo ∈ s.rows := by
    rw [Ser.mem_rows]
    simp [Ser.isEmpty] at hne
    omega
  have hall : ∀ ref : Int → R Int, ref s.lo = .error .badInput → (s.rows.all fun t => Ser.refOk (ref t)) = false := by
    intro ref h
    rw [List.all_eq_false]
    exact ⟨s.lo, hlo, by simp [h, Ser.refOk]⟩
  rcases hby with h | h | h <;> subst h
  · have := hall (Ser.refSoy s.freq) (by simp [Ser.refSoy, createSoy, toYearSegment, hf, bind, Except.bind, Except.map, throw, throwThe, MonadExceptOf.throw])
    simp [change, hflex, temporalChange, validShift, Ser.shift, Ser.shiftRef, this, bind, Except.bind]
    rfl
  · have := hall (Ser.refEopy s.freq) (by simp [Ser.refEopy, createEopy, toYearSegment, hf, bind, Except.bind, Except.map, throw, throwThe, MonadExceptOf.throw])
    simp [change, hflex, temporalChange, validShift, Ser.shift, Ser.shiftRef, this, bind, Except.bind]
    rfl
  · have := hall (Ser.refTty s.freq) (by simp [Ser.refTty, createTty, toYearSegment, hf, bind, Except.bind, Except.map, throw, throwThe, MonadExceptOf.throw])
    simp [change, hflex, temporalChange, validShift, Ser.shift, Ser.shiftRef, this, bind, Except.bind]
    rfl

end structure_

/-! ## 2. The documented formulas, period by period -/

/-- the annualisation factor `a` of every frequency: periods per year, 1 for integer periods -/
theorem annualFactor_values :
    annualFactor Freq.I.value = 1 ∧ annualFactor Freq.Y.value = 1 ∧ annualFactor Freq.H.value = 2 ∧
    annualFactor Freq.Q.value = 4 ∧ annualFactor Freq.M.value = 12 ∧ annualFactor Freq.D.value = 365 := by
  decide

theorem annualFactor_pos (f : Freq) : 0 < annualFactor f.value := by
  cases f <;> decide

section field
variable {K : Type} [Field K]

/-- the carrier's zero test is the field's -/
def ZeroTest (S : Sym K) : Prop := ∀ x, S.isZero x = true ↔ x = 0

theorem ZeroTest.ne {S : Sym K} (hz : ZeroTest S) {x : K} (hx : x ≠ 0) : S.isZero x = false := by
  cases h : S.isZero x
  · rfl
  · exact absurd ((hz x).mp h) hx

/-- `diff`: `y_t = x_t − x_s` -/
theorem cell_diff (S : Sym K) (f : Freq) (x y : K) : cellFn S .diff f (some x) (some y) = some (x - y) := by
  simp [cellFn, ChangeKind.dom, ChangeKind.fn, diffF]

/-- `adiff`: `y_t = a·(x_t − x_{t−1})` -/
theorem cell_adiff (S : Sym K) (f : Freq) (x y : K) :
    cellFn S .adiff f (some x) (some y) = some (((annualFactor f.value : ℤ) : K) * (x - y)) := by
  simp [cellFn, ChangeKind.dom, ChangeKind.fn, adiffF, factorOf]

/-- `pct`: `y_t = 100·(x_t/x_s − 1)` when `x_s ≠ 0`; not a number when `x_s = 0` -/
theorem cell_pct (S : Sym K) (hz : ZeroTest S) (f : Freq) (x y : K) :
    (y ≠ 0 → cellFn S .pct f (some x) (some y) = some (100 * (x / y - 1))) ∧
    (y = 0 → cellFn S .pct f (some x) (some y) = none) := by
  constructor
  · intro hy
    simp [cellFn, ChangeKind.dom, ChangeKind.fn, pctF, hz.ne hy]
  · intro hy
    simp [cellFn, ChangeKind.dom, (hz y).mpr hy]

/-- `roc`: `y_t = x_t/x_s` when `x_s ≠ 0` -/
theorem cell_roc (S : Sym K) (hz : ZeroTest S) (f : Freq) (x y : K) :
    (y ≠ 0 → cellFn S .roc f (some x) (some y) = some (x / y)) ∧
    (y = 0 → cellFn S .roc f (some x) (some y) = none) := by
  constructor
  · intro hy
    simp [cellFn, ChangeKind.dom, ChangeKind.fn, rocF, hz.ne hy]
  · intro hy
    simp [cellFn, ChangeKind.dom, (hz y).mpr hy]

/-- a missing `x_t` or `x_s` gives a missing change, for every function -/
theorem cell_missing (S : Sym K) (kind : ChangeKind) (f : Freq) (u : Option K) :
    cellFn S kind f none u = none ∧ cellFn S kind f u none = none := by
  simp [cellFn]

/-- **diff, period by period**, every negative shift -/
theorem diff_formula (S : Sym K) (s : Ser K) (k : Int) (hk : k < 0) :
    ∃ o, change S .diff (.by_ k) s = .ok o ∧
      ∀ t x y, s.get t = some x → s.get (t + k) = some y → o.get t = some (x - y) := by
  obtain ⟨o, ho, _, h⟩ := change_int S .diff rfl s k hk
  exact ⟨o, ho, fun t x y hx hy => by rw [h t, hx, hy, cell_diff]⟩

/-- **pct, period by period**, every negative shift, reference value non-zero -/
theorem pct_formula (S : Sym K) (hz : ZeroTest S) (s : Ser K) (k : Int) (hk : k < 0) :
    ∃ o, change S .pct (.by_ k) s = .ok o ∧
      ∀ t x y, s.get t = some x → s.get (t + k) = some y → y ≠ 0 → o.get t = some (100 * (x / y - 1)) := by
  obtain ⟨o, ho, _, h⟩ := change_int S .pct rfl s k hk
  exact ⟨o, ho, fun t x y hx hy hy0 => by rw [h t, hx, hy, (cell_pct S hz _ x y).1 hy0]⟩

/-- **roc, period by period** -/
theorem roc_formula (S : Sym K) (hz : ZeroTest S) (s : Ser K) (k : Int) (hk : k < 0) :
    ∃ o, change S .roc (.by_ k) s = .ok o ∧
      ∀ t x y, s.get t = some x → s.get (t + k) = some y → y ≠ 0 → o.get t = some (x / y) := by
  obtain ⟨o, ho, _, h⟩ := change_int S .roc rfl s k hk
  exact ⟨o, ho, fun t x y hx hy hy0 => by rw [h t, hx, hy, (cell_roc S hz _ x y).1 hy0]⟩

/-- **adiff, period by period** -/
theorem adiff_formula (S : Sym K) (s : Ser K) (by_ : ShiftBy) :
    ∃ o, change S .adiff by_ s = .ok o ∧
      ∀ t x y, s.get t = some x → s.get (t - 1) = some y →
        o.get t = some (((annualFactor s.freq.value : ℤ) : K) * (x - y)) := by
  obtain ⟨o, ho, _, h⟩ := change_annual S .adiff rfl s by_
  exact ⟨o, ho, fun t x y hx hy => by
    have e : t + -1 = t - 1 := by omega
    rw [h t, e, hx, hy, cell_adiff]⟩

/-- **pct year-on-year**: the keyword theorems of section 1 combine with the cell formulas in the same way -/
theorem pct_yoy_formula (S : Sym K) (hz : ZeroTest S) (s : Ser K) :
    ∃ o, change S .pct .yoy s = .ok o ∧
      ∀ t x y, s.get t = some x → s.get (t - s.freq.value) = some y → y ≠ 0 → o.get t = some (100 * (x / y - 1)) := by
  obtain ⟨o, ho, _, h⟩ := change_yoy S .pct rfl s
  exact ⟨o, ho, fun t x y hx hy hy0 => by rw [h t, hx, hy, (cell_pct S hz _ x y).1 hy0]⟩

/-- **"tty" in a start-of-year period**: `diff` and `roc` leave the value unchanged (documented); `pct` is missing -/
theorem tty_start_of_year (S : Sym K) (hz : ZeroTest S) (f : Freq) (x : K) :
    cellFn S .diff f (some x) (ChangeKind.diff.neutral.map (fun (n : Int) => (n : K))) = some x ∧
    cellFn S .roc f (some x) (ChangeKind.roc.neutral.map (fun (n : Int) => (n : K))) = some x ∧
    cellFn S .pct f (some x) (ChangeKind.pct.neutral.map (fun (n : Int) => (n : K))) = none := by
  refine ⟨?_, ?_, ?_⟩
  · simp [ChangeKind.neutral, diffNeutral, cell_diff]
  · have := (cell_roc S hz f x 1).1 one_ne_zero
    simpa [ChangeKind.neutral, rocNeutral] using this
  · simp [ChangeKind.neutral, pctNeutral, cellFn]

end field

/-! ### over the reals: logarithms and powers -/

/-- the real carrier: `Real.log`, `Real.exp`, real powers -/
noncomputable def symReal : Sym ℝ :=
  { log := Real.log, exp := Real.exp, pw := fun x y => x ^ y,
    isZero := fun x => decide (x = 0), isPos := fun x => decide (0 < x) }

theorem symReal_zeroTest : ZeroTest symReal := by
  intro x; simp [symReal]

/-- `diff_log`: `y_t = log x_t − log x_s` for positive values; not a number otherwise -/
theorem cell_diff_log (f : Freq) (x y : ℝ) :
    cellFn symReal .diffLog f (some x) (some y) = if 0 < x ∧ 0 < y then some (Real.log x - Real.log y) else none := by
  by_cases h : 0 < x ∧ 0 < y
  · simp [cellFn, ChangeKind.dom, ChangeKind.fn, diffLogF, symReal, h.1, h.2]
  · simp only [cellFn, ChangeKind.dom, symReal, lift2_some, if_neg h]
    simp only [Bool.and_eq_true, decide_eq_true_eq, h, if_false]

/-- `adiff_log`: `y_t = a·(log x_t − log x_{t−1})` -/
theorem cell_adiff_log (f : Freq) (x y : ℝ) (hx : 0 < x) (hy : 0 < y) :
    cellFn symReal .adiffLog f (some x) (some y) = some (((annualFactor f.value : ℤ) : ℝ) * (Real.log x - Real.log y)) := by
  simp [cellFn, ChangeKind.dom, ChangeKind.fn, adiffLogF, symReal, hx, hy, factorOf]

/-- `aroc`: `y_t = (x_t/x_{t−1})^a` (`a` an integer: an ordinary power) -/
theorem cell_aroc (f : Freq) (x y : ℝ) (hy : y ≠ 0) :
    cellFn symReal .aroc f (some x) (some y) = some ((x / y) ^ (annualFactor f.value)) := by
  simp [cellFn, ChangeKind.dom, ChangeKind.fn, arocF, symReal, hy, factorOf, Real.rpow_intCast]

/-- `apct`: `y_t = 100·((x_t/x_{t−1})^a − 1)` -/
theorem cell_apct (f : Freq) (x y : ℝ) (hy : y ≠ 0) :
    cellFn symReal .apct f (some x) (some y) = some (100 * ((x / y) ^ (annualFactor f.value) - 1)) := by
  simp [cellFn, ChangeKind.dom, ChangeKind.fn, apctF, symReal, hy, factorOf, Real.rpow_intCast]

/-- **diff_log, period by period**, every negative shift, positive data -/
theorem diff_log_formula (s : Ser ℝ) (k : Int) (hk : k < 0) :
    ∃ o, change symReal .diffLog (.by_ k) s = .ok o ∧
      ∀ t x y, s.get t = some x → s.get (t + k) = some y → 0 < x → 0 < y →
        o.get t = some (Real.log x - Real.log y) := by
  obtain ⟨o, ho, _, h⟩ := change_int symReal .diffLog rfl s k hk
  exact ⟨o, ho, fun t x y hx hy hx0 hy0 => by rw [h t, hx, hy, cell_diff_log, if_pos ⟨hx0, hy0⟩]⟩

/-- **adiff_log, apct, aroc, period by period** -/
theorem annualised_formulas (s : Ser ℝ) (by_ : ShiftBy) :
    ∃ o1 o2 o3, change symReal .adiffLog by_ s = .ok o1 ∧ change symReal .apct by_ s = .ok o2 ∧
      change symReal .aroc by_ s = .ok o3 ∧
      ∀ t x y, s.get t = some x → s.get (t - 1) = some y → 0 < x → 0 < y →
        o1.get t = some (((annualFactor s.freq.value : ℤ) : ℝ) * (Real.log x - Real.log y)) ∧
        o2.get t = some (100 * ((x / y) ^ (annualFactor s.freq.value) - 1)) ∧
        o3.get t = some ((x / y) ^ (annualFactor s.freq.value)) := by
  obtain ⟨o1, ho1, _, h1⟩ := change_annual symReal .adiffLog rfl s by_
  obtain ⟨o2, ho2, _, h2⟩ := change_annual symReal .apct rfl s by_
  obtain ⟨o3, ho3, _, h3⟩ := change_annual symReal .aroc rfl s by_
  refine ⟨o1, o2, o3, ho1, ho2, ho3, fun t x y hx hy hx0 hy0 => ?_⟩
  have e : t + -1 = t - 1 := by omega
  rw [h1 t, h2 t, h3 t, e, hx, hy, cell_adiff_log _ _ _ hx0 hy0, cell_apct _ _ _ hy0.ne', cell_aroc _ _ _ hy0.ne']
  exact ⟨rfl, rfl, rfl⟩

/-- `diff_log` with "tty" in a start-of-year period: the neutral value 0 has no logarithm, the result is not a number
(the code returns `inf`; a quirk the model reproduces, not the documented "unchanged") -/
theorem diff_log_tty_start_of_year (f : Freq) (x : ℝ) :
    cellFn symReal .diffLog f (some x) (ChangeKind.diffLog.neutral.map (fun (n : Int) => (n : ℝ))) = none := by
  simp [ChangeKind.neutral, diffLogNeutral, cell_diff_log]

/-! ## 3. The conversion helpers are consistent with the change functions -/

section conversions
variable {K : Type} [Field K]

/-- `roc_from_pct(pct(x, k)) = roc(x, k)` and `pct_from_roc(roc(x, k)) = pct(x, k)`: in every period, for every
series (missing values and zero reference values included: both sides are then missing) and every negative shift -/
theorem pct_roc_conversions (S : Sym K) (hz : ZeroTest S) (h100 : (100 : K) ≠ 0) (s : Ser K)
    (k : Int) (hk : k < 0) :
    ∃ p r, change S .pct (.by_ k) s = .ok p ∧ change S .roc (.by_ k) s = .ok r ∧
      (∀ t, (convert S .rocFromPct p).get t = r.get t) ∧ (∀ t, (convert S .pctFromRoc r).get t = p.get t) := by
  obtain ⟨p, hp, _, hpg⟩ := change_int S .pct rfl s k hk
  obtain ⟨r, hr, _, hrg⟩ := change_int S .roc rfl s k hk
  refine ⟨p, r, hp, hr, fun t => ?_, fun t => ?_⟩
  · rw [convert, Ser.get_mapCells _ _ (by simp), hpg, hrg]
    cases hx : s.get t with
    | none => simp [cellFn]
    | some x =>
      cases hy : s.get (t + k) with
      | none => simp [cellFn]
      | some y =>
        by_cases hy0 : y = 0
        · rw [(cell_pct S hz _ x y).2 hy0, (cell_roc S hz _ x y).2 hy0]; simp
        · rw [(cell_pct S hz _ x y).1 hy0, (cell_roc S hz _ x y).1 hy0]
          simp only [lift1_some, ConvKind.dom, ConvKind.fn, rocFromPct, if_true]
          congr 1
          push_cast
          field_simp
          ring
  · rw [convert, Ser.get_mapCells _ _ (by simp), hpg, hrg]
    cases hx : s.get t with
    | none => simp [cellFn]
    | some x =>
      cases hy : s.get (t + k) with
      | none => simp [cellFn]
      | some y =>
        by_cases hy0 : y = 0
        · rw [(cell_pct S hz _ x y).2 hy0, (cell_roc S hz _ x y).2 hy0]; simp
        · rw [(cell_pct S hz _ x y).1 hy0, (cell_roc S hz _ x y).1 hy0]
          simp only [lift1_some, ConvKind.dom, ConvKind.fn, pctFromRoc, if_true]
          congr 1
          push_cast
          ring

end conversions

/-- the `a`-th root of the `a`-th power of a positive gross rate -/
theorem root_of_power (a : ℤ) (ha : 0 < a) (r : ℝ) (hr : 0 < r) : (r ^ a) ^ ((1 : ℝ) / (a : ℝ)) = r := by
  have ha' : (a : ℝ) ≠ 0 := by exact_mod_cast ha.ne'
  rw [← Real.rpow_intCast, ← Real.rpow_mul hr.le, mul_one_div_cancel ha', Real.rpow_one]

/-- cell level: the three annualised helpers undo the annualisation of a positive gross rate -/
theorem annualised_conversion_cells (f : Freq) (x y : ℝ) (hx0 : 0 < x) (hy0 : 0 < y) :
    lift1 (ConvKind.dom symReal f .pctFromApct) (ConvKind.fn symReal .pctFromApct (factorOf f))
        (cellFn symReal .apct f (some x) (some y)) = cellFn symReal .pct f (some x) (some y) ∧
    lift1 (ConvKind.dom symReal f .rocFromApct) (ConvKind.fn symReal .rocFromApct (factorOf f))
        (cellFn symReal .apct f (some x) (some y)) = cellFn symReal .roc f (some x) (some y) ∧
    lift1 (ConvKind.dom symReal f .rocFromAroc) (ConvKind.fn symReal .rocFromAroc (factorOf f))
        (cellFn symReal .aroc f (some x) (some y)) = cellFn symReal .roc f (some x) (some y) := by
  have hA := annualFactor_pos f
  have hr0 : 0 < x / y := div_pos hx0 hy0
  have hpw : 0 < (x / y) ^ (annualFactor f.value) := zpow_pos hr0 _
  have hroot := root_of_power _ hA (x / y) hr0
  have e : (1 : ℝ) + 100 * ((x / y) ^ (annualFactor f.value) - 1) / 100 = (x / y) ^ (annualFactor f.value) := by ring
  rw [cell_apct _ _ _ hy0.ne', cell_aroc _ _ _ hy0.ne', (cell_pct symReal symReal_zeroTest _ x y).1 hy0.ne',
    (cell_roc symReal symReal_zeroTest _ x y).1 hy0.ne']
  refine ⟨?_, ?_, ?_⟩
  · simp only [lift1_some, ConvKind.dom, ConvKind.fn, pctFromApct, symReal, factorOf]
    push_cast
    rw [e, hroot]
    simp [hpw]
  · simp only [lift1_some, ConvKind.dom, ConvKind.fn, rocFromApct, symReal, factorOf]
    push_cast
    rw [e, hroot]
    simp [hpw]
  · simp only [lift1_some, ConvKind.dom, ConvKind.fn, rocFromAroc, symReal, factorOf]
    push_cast
    rw [hroot]
    simp [hpw]

/-- `pct_from_apct(apct(x)) = pct(x)`, `roc_from_apct(apct(x)) = roc(x)`, `roc_from_aroc(aroc(x)) = roc(x)`:
in every period, for every series of positive values (missing values allowed), every frequency -/
theorem annualised_conversions (s : Ser ℝ) (hpos : ∀ t x, s.get t = some x → 0 < x) :
    ∃ ap ar p r, change symReal .apct (.by_ (-1)) s = .ok ap ∧ change symReal .aroc (.by_ (-1)) s = .ok ar ∧
      change symReal .pct (.by_ (-1)) s = .ok p ∧ change symReal .roc (.by_ (-1)) s = .ok r ∧
      (∀ t, (convert symReal .pctFromApct ap).get t = p.get t) ∧
      (∀ t, (convert symReal .rocFromApct ap).get t = r.get t) ∧
      (∀ t, (convert symReal .rocFromAroc ar).get t = r.get t) := by
  obtain ⟨ap, hap, hapf, hapg⟩ := change_annual symReal .apct rfl s (.by_ (-1))
  obtain ⟨ar, har, harf, harg⟩ := change_annual symReal .aroc rfl s (.by_ (-1))
  obtain ⟨p, hp, _, hpg⟩ := change_int symReal .pct rfl s (-1) (by omega)
  obtain ⟨r, hr, _, hrg⟩ := change_int symReal .roc rfl s (-1) (by omega)
  have key : ∀ t,
      lift1 (ConvKind.dom symReal s.freq .pctFromApct) (ConvKind.fn symReal .pctFromApct (factorOf s.freq))
          (cellFn symReal .apct s.freq (s.get t) (s.get (t + -1))) = cellFn symReal .pct s.freq (s.get t) (s.get (t + -1)) ∧
      lift1 (ConvKind.dom symReal s.freq .rocFromApct) (ConvKind.fn symReal .rocFromApct (factorOf s.freq))
          (cellFn symReal .apct s.freq (s.get t) (s.get (t + -1))) = cellFn symReal .roc s.freq (s.get t) (s.get (t + -1)) ∧
      lift1 (ConvKind.dom symReal s.freq .rocFromAroc) (ConvKind.fn symReal .rocFromAroc (factorOf s.freq))
          (cellFn symReal .aroc s.freq (s.get t) (s.get (t + -1))) = cellFn symReal .roc s.freq (s.get t) (s.get (t + -1)) := by
    intro t
    cases hx : s.get t with
    | none => simp [cellFn]
    | some x =>
      cases hy : s.get (t + -1) with
      | none => simp [cellFn]
      | some y => exact annualised_conversion_cells s.freq x y (hpos t x hx) (hpos _ y hy)
  refine ⟨ap, ar, p, r, hap, har, hp, hr, fun t => ?_, fun t => ?_, fun t => ?_⟩
  · rw [convert, Ser.get_mapCells _ _ (by simp), hapg, hpg, hapf]; exact (key t).1
  · rw [convert, Ser.get_mapCells _ _ (by simp), hapg, hrg, hapf]; exact (key t).2.1
  · rw [convert, Ser.get_mapCells _ _ (by simp), harg, hrg, harf]; exact (key t).2.2

/-! ## 4. Inversion: cumulating a change series with the original as initial condition reproduces the original -/

section inversion
variable {α : Type} [Add α] [Sub α] [Mul α] [Div α] [NatCast α] [IntCast α]

theorem nonempty_of_get {s : Ser α} {t : Int} {x : α} (h : s.get t = some x) : s.isEmpty = false := by
  cases he : s.isEmpty
  · rfl
  · rw [Ser.get_of_isEmpty s he] at h; cases h

/-- **Forward loop, general form.** Any shift (negative number or keyword), any positive step: if every step of the
loop, fed with correct values, regenerates the original value (`h`), the result agrees with the original series on
the whole initial span `[min_period, span.end]` computed by the code -/
theorem cumulate_forward_reproduces (S : Sym α) (cum : CumKind) (by_ : ShiftBy) (f : Freq) (a b step : Int)
    (s change : Ser α) (hab : a ≤ b) (hcf : change.freq = f) (hsf : s.freq = f)
    (zs : List (Int × Int)) (hzs : zipShift f by_ (pyRange a (b + 1) step) = .ok zs)
    (hle : ∀ p ∈ zs, p.2 ≤ b)
    (h : ∀ p ∈ zs, lift2 (cum.domF S) (cum.forward S) (s.get p.2) (change.get p.1) = s.get p.1) :
    ∃ o, cumulateForward S cum by_ (.series s) f a b step change = .ok o ∧
      ∀ t, minOr a (zs.map (·.2)) ≤ t → t ≤ b → o.get t = s.get t := by
  have hba : ¬ b < a := by omega
  refine ⟨Ser.trim (zs.foldl (stepForward S cum change) ⟨f, minOr a (zs.map (·.2)), b, fun t => (Init.series s).get t⟩), ?_, ?_⟩
  · simp [cumulateForward, hzs, bind, Except.bind, hba, hcf, hsf, Init.freqOk, pure, Except.pure]
  · intro t h1 h2
    rw [Ser.get_trim]
    refine foldl_stepForward_inv S cum change s.get (fun u => minOr a (zs.map (·.2)) ≤ u ∧ u ≤ b) zs _ ?_ ?_ t ⟨h1, h2⟩
    · intro u hu
      simp [Ser.get, hu.1, hu.2, Init.get]
    · intro p hp
      refine ⟨⟨minOr_le _ _ _ (List.mem_map_of_mem hp), hle p hp⟩, h p hp⟩

/-- **Backward loop, general form** (`k < 0`, any negative step): agreement on `[min(span), span.start − k]` -/
theorem cumulate_backward_reproduces (S : Sym α) (cum : CumKind) (k : Int) (hk : k < 0) (f : Freq) (a b step : Int)
    (s orig : Ser α) (hstep : step < 0) (hba : b ≤ a) (hcf : orig.freq = f) (hsf : s.freq = f)
    (h : ∀ sh ∈ pyRange a (b - 1) step,
      lift2 (cum.domB S) (cum.backward S) (s.get (sh - k)) (orig.get (sh - k)) = s.get sh) :
    ∃ o, cumulateBackward S cum (.by_ k) (.series s) f a b step orig = .ok o ∧
      ∀ t, minOr a (pyRange a (b - 1) step) ≤ t → t ≤ a - k → o.get t = s.get t := by
  have hmem : a ∈ pyRange a (b - 1) step :=
    (mem_pyRange a (b - 1) step a (by omega)).mpr ⟨0, by simp, fun h => by omega, fun _ => by omega⟩
  have hne : (pyRange a (b - 1) step).isEmpty = false := by
    cases hl : pyRange a (b - 1) step with
    | nil => rw [hl] at hmem; simp at hmem
    | cons x xs => rfl
  refine ⟨Ser.trim ((pyRange a (b - 1) step).foldl (stepBackward S cum k orig)
    ⟨f, minOr a (pyRange a (b - 1) step), a - k, fun t => (Init.series s).get t⟩), ?_, ?_⟩
  · simp [cumulateBackward, hne, hcf, hsf, Init.freqOk, pure, Except.pure]
  · intro t h1 h2
    rw [Ser.get_trim]
    refine foldl_stepBackward_inv S cum k orig s.get (fun u => minOr a (pyRange a (b - 1) step) ≤ u ∧ u ≤ a - k) _ _ ?_ ?_ t ⟨h1, h2⟩
    · intro u hu
      simp [Ser.get, hu.1, hu.2, Init.get]
    · intro sh hsh
      have hm := minOr_le a _ sh hsh
      obtain ⟨i, hi, _, _⟩ := (mem_pyRange a (b - 1) step sh (by omega)).mp hsh
      have : (i : Int) * step ≤ 0 := Int.mul_nonpos_of_nonneg_of_nonpos (by omega) (by omega)
      exact ⟨⟨by omega, by omega⟩, h sh hsh⟩

/-- **Inversion, forward**, for a change function `ck` and a cumulation function `cum` whose generated formulas
satisfy the round-trip law on admissible values `ok`: for every series, every negative shift `k`, every span
`a, a+step, … ≤ b` (any positive step) such that the series is defined and admissible on `[a + k, b]`,
`cum(ck(s, k), k, initial = s, span)` exists and equals `s` on `[a + k, b]` — in particular on the span. -/
theorem inverts_forward (S : Sym α) (ck : ChangeKind) (cum : CumKind) (ok : α → Prop) (hflex : ck.fixedShift = none)
    (law : ∀ fac x y, ok x → ok y →
      lift2 (cum.domF S) (cum.forward S) (some y) (lift2 (ck.dom S) (ck.fn S fac) (some x) (some y)) = some x)
    (s : Ser α) (k : Int) (hk : k < 0) (a b step : Int) (hstep : 0 < step) (hab : a ≤ b)
    (hs : ∀ t, a + k ≤ t → t ≤ b → ∃ x, s.get t = some x ∧ ok x) :
    ∃ c o, change S ck (.by_ k) s = .ok c ∧
      temporalCumulation S cum (.by_ k) (some (.series s))
        (some ⟨.res ⟨s.freq, a⟩, .res ⟨s.freq, b⟩, step⟩) c = .ok o ∧
      ∀ t, a + k ≤ t → t ≤ b → o.get t = s.get t := by
  obtain ⟨xa, hxa, _⟩ := hs a (by omega) hab
  obtain ⟨c, hc, hcf, hcg⟩ := change_int S ck hflex s k hk
  have hmemI : ∀ t, t ∈ pyRange a (b + 1) step → a ≤ t ∧ t ≤ b := by
    intro t ht
    obtain ⟨i, hi, h1, _⟩ := (mem_pyRange a (b + 1) step t (by omega)).mp ht
    have : 0 ≤ (i : Int) * step := Int.mul_nonneg (by omega) (by omega)
    have := h1 hstep
    omega
  have hzs := zipShift_int s.freq k (pyRange a (b + 1) step)
  obtain ⟨o, ho, hog⟩ := cumulate_forward_reproduces S cum (.by_ k) s.freq a b step s c hab hcf rfl _ hzs
    (by
      intro p hp
      obtain ⟨t, ht, rfl⟩ := List.mem_map.mp hp
      have := hmemI t ht
      simp only; omega)
    (by
      intro p hp
      obtain ⟨t, ht, rfl⟩ := List.mem_map.mp hp
      obtain ⟨h1, h2⟩ := hmemI t ht
      obtain ⟨x, hx, okx⟩ := hs t (by omega) h2
      obtain ⟨y, hy, oky⟩ := hs (t + k) (by omega) (by omega)
      simp only
      rw [hcg t, hx, hy]
      exact law _ x y okx oky)
  refine ⟨c, o, hc, ?_, ?_⟩
  · have hstep' : ¬ step ≤ 0 := by omega
    simp [temporalCumulation, validShift, hk, Span.needsResolve, Endpoint.needsResolve, Span.resolve,
      Endpoint.resolve, Span.make, bind, Except.bind, pure, Except.pure, hstep, ho]
  · intro t h1 h2
    apply hog t _ h2
    have hmem : (a, a + k) ∈ (pyRange a (b + 1) step).map (fun t => (t, t + k)) :=
      List.mem_map.mpr ⟨a, (mem_pyRange a (b + 1) step a (by omega)).mpr ⟨0, by simp, fun _ => by omega, fun h => by omega⟩, rfl⟩
    have hm2 : a + k ∈ ((pyRange a (b + 1) step).map (fun t => (t, t + k))).map (·.2) :=
      List.mem_map.mpr ⟨(a, a + k), hmem, rfl⟩
    have := minOr_le a _ (a + k) hm2
    omega

/-- **Inversion, backward**: for every series, every negative shift `k`, every backward span `a, a+step, … ≥ b`
(any negative step) such that the series is defined and admissible on `[b, a − k]`,
`cum(ck(s, k), k, initial = s, span)` exists and equals `s` on every period of the span and on the `|k|` initial
periods after it. -/
theorem inverts_backward (S : Sym α) (ck : ChangeKind) (cum : CumKind) (ok : α → Prop) (hflex : ck.fixedShift = none)
    (law : ∀ fac x y, ok x → ok y →
      lift2 (cum.domB S) (cum.backward S) (some x) (lift2 (ck.dom S) (ck.fn S fac) (some x) (some y)) = some y)
    (s : Ser α) (k : Int) (hk : k < 0) (a b step : Int) (hstep : step < 0) (hba : b ≤ a)
    (hs : ∀ t, b ≤ t → t ≤ a - k → ∃ x, s.get t = some x ∧ ok x) :
    ∃ c o, change S ck (.by_ k) s = .ok c ∧
      temporalCumulation S cum (.by_ k) (some (.series s))
        (some ⟨.res ⟨s.freq, a⟩, .res ⟨s.freq, b⟩, step⟩) c = .ok o ∧
      (∀ t ∈ pyRange a (b - 1) step, o.get t = s.get t) ∧ (∀ t, a ≤ t → t ≤ a - k → o.get t = s.get t) := by
  obtain ⟨xa, hxa, _⟩ := hs a hba (by omega)
  obtain ⟨c, hc, hcf, hcg⟩ := change_int S ck hflex s k hk
  have hmemI : ∀ t, t ∈ pyRange a (b - 1) step → b ≤ t ∧ t ≤ a := by
    intro t ht
    obtain ⟨i, hi, _, h2⟩ := (mem_pyRange a (b - 1) step t (by omega)).mp ht
    have : (i : Int) * step ≤ 0 := Int.mul_nonpos_of_nonneg_of_nonpos (by omega) (by omega)
    have := h2 hstep
    omega
  obtain ⟨o, ho, hog⟩ := cumulate_backward_reproduces S cum k hk s.freq a b step s c hstep hba hcf rfl
    (by
      intro sh hsh
      obtain ⟨h1, h2⟩ := hmemI sh hsh
      obtain ⟨x, hx, okx⟩ := hs (sh - k) (by omega) (by omega)
      obtain ⟨y, hy, oky⟩ := hs sh h1 (by omega)
      have e : sh - k + k = sh := by omega
      rw [hcg (sh - k), e, hx, hy]
      exact law _ x y okx oky)
  have hamem : a ∈ pyRange a (b - 1) step :=
    (mem_pyRange a (b - 1) step a (by omega)).mpr ⟨0, by simp, fun h => by omega, fun _ => by omega⟩
  refine ⟨c, o, hc, ?_, ?_, ?_⟩
  · have h1 : ¬ step > 0 := by omega
    simp [temporalCumulation, validShift, hk, Span.needsResolve, Endpoint.needsResolve, Span.resolve,
      Endpoint.resolve, Span.make, bind, Except.bind, pure, Except.pure, hstep, h1, ho]
  · intro t ht
    obtain ⟨h1, h2⟩ := hmemI t ht
    exact hog t (minOr_le a _ t ht) (by omega)
  · intro t h1 h2
    have := minOr_le a _ a hamem
    exact hog t (by omega) h2

end inversion

/-! ### the round-trip laws of the generated formulas, and the eight inversion theorems -/

section laws
variable {K : Type} [Field K]

theorem law_diff_forward (S : Sym K) (fac x y : K) :
    lift2 (CumKind.diff.domF S) (CumKind.diff.forward S) (some y)
      (lift2 (ChangeKind.diff.dom S) (ChangeKind.diff.fn S fac) (some x) (some y)) = some x := by
  simp [CumKind.domF, CumKind.forward, ChangeKind.dom, ChangeKind.fn, cumDiffForward, diffF]

theorem law_diff_backward (S : Sym K) (fac x y : K) :
    lift2 (CumKind.diff.domB S) (CumKind.diff.backward S) (some x)
      (lift2 (ChangeKind.diff.dom S) (ChangeKind.diff.fn S fac) (some x) (some y)) = some y := by
  simp [CumKind.domB, CumKind.backward, ChangeKind.dom, ChangeKind.fn, cumDiffBackward, diffF]

theorem law_pct_forward (S : Sym K) (hz : ZeroTest S) (h100 : (100 : K) ≠ 0) (fac x y : K) (hy : y ≠ 0) :
    lift2 (CumKind.pct.domF S) (CumKind.pct.forward S) (some y)
      (lift2 (ChangeKind.pct.dom S) (ChangeKind.pct.fn S fac) (some x) (some y)) = some x := by
  simp only [CumKind.domF, CumKind.forward, ChangeKind.dom, ChangeKind.fn, cumPctForward, pctF, lift2_some, hz.ne hy,
    Bool.not_false, if_true]
  congr 1
  push_cast
  field_simp
  ring

theorem law_pct_backward (S : Sym K) (hz : ZeroTest S) (h100 : (100 : K) ≠ 0) (fac x y : K) (hx : x ≠ 0) (hy : y ≠ 0) :
    lift2 (CumKind.pct.domB S) (CumKind.pct.backward S) (some x)
      (lift2 (ChangeKind.pct.dom S) (ChangeKind.pct.fn S fac) (some x) (some y)) = some y := by
  have e : (((1 : ℕ) : K) + ((100 : ℕ) : K) * (x / y - ((1 : ℕ) : K)) / ((100 : ℕ) : K)) = x / y := by
    push_cast; field_simp; ring
  have hxy : x / y ≠ 0 := div_ne_zero hx hy
  simp only [CumKind.domB, CumKind.backward, ChangeKind.dom, ChangeKind.fn, cumPctBackward, pctF, lift2_some, hz.ne hy,
    Bool.not_false, if_true, e, hz.ne hxy]
  congr 1
  field_simp

theorem law_roc_forward (S : Sym K) (hz : ZeroTest S) (fac x y : K) (hy : y ≠ 0) :
    lift2 (CumKind.roc.domF S) (CumKind.roc.forward S) (some y)
      (lift2 (ChangeKind.roc.dom S) (ChangeKind.roc.fn S fac) (some x) (some y)) = some x := by
  simp only [CumKind.domF, CumKind.forward, ChangeKind.dom, ChangeKind.fn, cumRocForward, rocF, lift2_some, hz.ne hy,
    Bool.not_false, if_true]
  congr 1
  field_simp

theorem law_roc_backward (S : Sym K) (hz : ZeroTest S) (fac x y : K) (hx : x ≠ 0) (hy : y ≠ 0) :
    lift2 (CumKind.roc.domB S) (CumKind.roc.backward S) (some x)
      (lift2 (ChangeKind.roc.dom S) (ChangeKind.roc.fn S fac) (some x) (some y)) = some y := by
  have hxy : x / y ≠ 0 := div_ne_zero hx hy
  simp only [CumKind.domB, CumKind.backward, ChangeKind.dom, ChangeKind.fn, cumRocBackward, rocF, lift2_some, hz.ne hy,
    Bool.not_false, if_true, hz.ne hxy]
  congr 1
  field_simp

end laws

theorem law_diff_log_forward (fac x y : ℝ) (hx : 0 < x) (hy : 0 < y) :
    lift2 (CumKind.diffLog.domF symReal) (CumKind.diffLog.forward symReal) (some y)
      (lift2 (ChangeKind.diffLog.dom symReal) (ChangeKind.diffLog.fn symReal fac) (some x) (some y)) = some x := by
  simp only [CumKind.domF, CumKind.forward, ChangeKind.dom, ChangeKind.fn, cumDiffLogForward, diffLogF, lift2_some,
    symReal, hx, hy, decide_true, Bool.and_self, if_true]
  congr 1
  rw [Real.exp_sub, Real.exp_log hx, Real.exp_log hy]
  field_simp

theorem law_diff_log_backward (fac x y : ℝ) (hx : 0 < x) (hy : 0 < y) :
    lift2 (CumKind.diffLog.domB symReal) (CumKind.diffLog.backward symReal) (some x)
      (lift2 (ChangeKind.diffLog.dom symReal) (ChangeKind.diffLog.fn symReal fac) (some x) (some y)) = some y := by
  simp only [CumKind.domB, CumKind.backward, ChangeKind.dom, ChangeKind.fn, cumDiffLogBackward, diffLogF, lift2_some,
    symReal, hx, hy, decide_true, Bool.and_self, if_true]
  congr 1
  rw [Real.exp_sub, Real.exp_log hx, Real.exp_log hy]
  field_simp

/-! ### the inversion theorems of the four cumulation functions -/

section final
variable {K : Type} [Field K]

/-- the span `Span(a, b, step)` of the series' own frequency -/
def spanOf (f : Freq) (a b step : Int) : Span := ⟨.res ⟨f, a⟩, .res ⟨f, b⟩, step⟩

/-- **cum_diff ∘ diff = id, forward**: every series, every `k < 0`, every forward span on which (from `a + k`) the
series has no missing value -/
theorem cum_diff_inverts_forward (S : Sym K) (s : Ser K) (k : Int) (hk : k < 0) (a b step : Int) (hstep : 0 < step)
    (hab : a ≤ b) (hs : ∀ t, a + k ≤ t → t ≤ b → ∃ x, s.get t = some x) :
    ∃ c o, change S .diff (.by_ k) s = .ok c ∧
      temporalCumulation S .diff (.by_ k) (some (.series s)) (some (spanOf s.freq a b step)) c = .ok o ∧
      ∀ t, a + k ≤ t → t ≤ b → o.get t = s.get t :=
  inverts_forward S .diff .diff (fun _ => True) rfl (fun fac x y _ _ => law_diff_forward S fac x y) s k hk a b step
    hstep hab (fun t h1 h2 => by obtain ⟨x, hx⟩ := hs t h1 h2; exact ⟨x, hx, trivial⟩)

/-- **cum_diff ∘ diff = id, backward** -/
theorem cum_diff_inverts_backward (S : Sym K) (s : Ser K) (k : Int) (hk : k < 0) (a b step : Int) (hstep : step < 0)
    (hba : b ≤ a) (hs : ∀ t, b ≤ t → t ≤ a - k → ∃ x, s.get t = some x) :
    ∃ c o, change S .diff (.by_ k) s = .ok c ∧
      temporalCumulation S .diff (.by_ k) (some (.series s)) (some (spanOf s.freq a b step)) c = .ok o ∧
      (∀ t ∈ pyRange a (b - 1) step, o.get t = s.get t) ∧ (∀ t, a ≤ t → t ≤ a - k → o.get t = s.get t) :=
  inverts_backward S .diff .diff (fun _ => True) rfl (fun fac x y _ _ => law_diff_backward S fac x y) s k hk a b step
    hstep hba (fun t h1 h2 => by obtain ⟨x, hx⟩ := hs t h1 h2; exact ⟨x, hx, trivial⟩)

/-- **cum_pct ∘ pct = id, forward** (non-zero data; a field in which `100 ≠ 0`) -/
theorem cum_pct_inverts_forward (S : Sym K) (hz : ZeroTest S) (h100 : (100 : K) ≠ 0) (s : Ser K) (k : Int) (hk : k < 0)
    (a b step : Int) (hstep : 0 < step) (hab : a ≤ b) (hs : ∀ t, a + k ≤ t → t ≤ b → ∃ x, s.get t = some x ∧ x ≠ 0) :
    ∃ c o, change S .pct (.by_ k) s = .ok c ∧
      temporalCumulation S .pct (.by_ k) (some (.series s)) (some (spanOf s.freq a b step)) c = .ok o ∧
      ∀ t, a + k ≤ t → t ≤ b → o.get t = s.get t :=
  inverts_forward S .pct .pct (· ≠ 0) rfl (fun fac x y _ hy => law_pct_forward S hz h100 fac x y hy) s k hk a b step
    hstep hab hs

/-- **cum_pct ∘ pct = id, backward** -/
theorem cum_pct_inverts_backward (S : Sym K) (hz : ZeroTest S) (h100 : (100 : K) ≠ 0) (s : Ser K) (k : Int) (hk : k < 0)
    (a b step : Int) (hstep : step < 0) (hba : b ≤ a) (hs : ∀ t, b ≤ t → t ≤ a - k → ∃ x, s.get t = some x ∧ x ≠ 0) :
    ∃ c o, change S .pct (.by_ k) s = .ok c ∧
      temporalCumulation S .pct (.by_ k) (some (.series s)) (some (spanOf s.freq a b step)) c = .ok o ∧
      (∀ t ∈ pyRange a (b - 1) step, o.get t = s.get t) ∧ (∀ t, a ≤ t → t ≤ a - k → o.get t = s.get t) :=
  inverts_backward S .pct .pct (· ≠ 0) rfl (fun fac x y hx hy => law_pct_backward S hz h100 fac x y hx hy) s k hk a b
    step hstep hba hs

/-- **cum_roc ∘ roc = id, forward** (non-zero data) -/
theorem cum_roc_inverts_forward (S : Sym K) (hz : ZeroTest S) (s : Ser K) (k : Int) (hk : k < 0)
    (a b step : Int) (hstep : 0 < step) (hab : a ≤ b) (hs : ∀ t, a + k ≤ t → t ≤ b → ∃ x, s.get t = some x ∧ x ≠ 0) :
    ∃ c o, change S .roc (.by_ k) s = .ok c ∧
      temporalCumulation S .roc (.by_ k) (some (.series s)) (some (spanOf s.freq a b step)) c = .ok o ∧
      ∀ t, a + k ≤ t → t ≤ b → o.get t = s.get t :=
  inverts_forward S .roc .roc (· ≠ 0) rfl (fun fac x y _ hy => law_roc_forward S hz fac x y hy) s k hk a b step
    hstep hab hs

/-- **cum_roc ∘ roc = id, backward** -/
theorem cum_roc_inverts_backward (S : Sym K) (hz : ZeroTest S) (s : Ser K) (k : Int) (hk : k < 0)
    (a b step : Int) (hstep : step < 0) (hba : b ≤ a) (hs : ∀ t, b ≤ t → t ≤ a - k → ∃ x, s.get t = some x ∧ x ≠ 0) :
    ∃ c o, change S .roc (.by_ k) s = .ok c ∧
      temporalCumulation S .roc (.by_ k) (some (.series s)) (some (spanOf s.freq a b step)) c = .ok o ∧
      (∀ t ∈ pyRange a (b - 1) step, o.get t = s.get t) ∧ (∀ t, a ≤ t → t ≤ a - k → o.get t = s.get t) :=
  inverts_backward S .roc .roc (· ≠ 0) rfl (fun fac x y hx hy => law_roc_backward S hz fac x y hx hy) s k hk a b
    step hstep hba hs

end final

/-- **cum_diff_log ∘ diff_log = id, forward** (positive data, over ℝ with `Real.log` / `Real.exp`) -/
theorem cum_diff_log_inverts_forward (s : Ser ℝ) (k : Int) (hk : k < 0)
    (a b step : Int) (hstep : 0 < step) (hab : a ≤ b) (hs : ∀ t, a + k ≤ t → t ≤ b → ∃ x, s.get t = some x ∧ 0 < x) :
    ∃ c o, change symReal .diffLog (.by_ k) s = .ok c ∧
      temporalCumulation symReal .diffLog (.by_ k) (some (.series s)) (some (spanOf s.freq a b step)) c = .ok o ∧
      ∀ t, a + k ≤ t → t ≤ b → o.get t = s.get t :=
  inverts_forward symReal .diffLog .diffLog (0 < ·) rfl (fun fac x y hx hy => law_diff_log_forward fac x y hx hy)
    s k hk a b step hstep hab hs

/-- **cum_diff_log ∘ diff_log = id, backward** -/
theorem cum_diff_log_inverts_backward (s : Ser ℝ) (k : Int) (hk : k < 0)
    (a b step : Int) (hstep : step < 0) (hba : b ≤ a) (hs : ∀ t, b ≤ t → t ≤ a - k → ∃ x, s.get t = some x ∧ 0 < x) :
    ∃ c o, change symReal .diffLog (.by_ k) s = .ok c ∧
      temporalCumulation symReal .diffLog (.by_ k) (some (.series s)) (some (spanOf s.freq a b step)) c = .ok o ∧
      (∀ t ∈ pyRange a (b - 1) step, o.get t = s.get t) ∧ (∀ t, a ≤ t → t ≤ a - k → o.get t = s.get t) :=
  inverts_backward symReal .diffLog .diffLog (0 < ·) rfl (fun fac x y hx hy => law_diff_log_backward fac x y hx hy)
    s k hk a b step hstep hba hs

/-! ### stronger form for unit-step spans: only the `|k|` initial periods of `initial` matter -/

section initial_periods
variable {α : Type} [Add α] [Sub α] [Mul α] [Div α] [NatCast α] [IntCast α]

/-- **Forward from the initial periods.** Span `a, a+1, …, b`; the `initial` series only has to agree with the
original on the `|k|` periods `a + k … a − 1` before the span (anything, also missing values, elsewhere): the
cumulation still reproduces the original on `[a + k, b]` — by induction along the span. -/
theorem inverts_forward_from_initial_periods (S : Sym α) (ck : ChangeKind) (cum : CumKind) (ok : α → Prop)
    (hflex : ck.fixedShift = none)
    (law : ∀ fac x y, ok x → ok y →
      lift2 (cum.domF S) (cum.forward S) (some y) (lift2 (ck.dom S) (ck.fn S fac) (some x) (some y)) = some x)
    (s ini : Ser α) (hif : ini.freq = s.freq) (k : Int) (hk : k < 0) (a b : Int) (hab : a ≤ b)
    (hs : ∀ t, a + k ≤ t → t ≤ b → ∃ x, s.get t = some x ∧ ok x)
    (hini : ∀ t, a + k ≤ t → t < a → ini.get t = s.get t) :
    ∃ c o, change S ck (.by_ k) s = .ok c ∧
      temporalCumulation S cum (.by_ k) (some (.series ini)) (some ⟨.res ⟨s.freq, a⟩, .res ⟨s.freq, b⟩, 1⟩) c = .ok o ∧
      ∀ t, a + k ≤ t → t ≤ b → o.get t = s.get t := by
  obtain ⟨xa, hxa, _⟩ := hs a (by omega) hab
  obtain ⟨c, hc, hcf, hcg⟩ := change_int S ck hflex s k hk
  have hzs := zipShift_int s.freq k (pyRange a (b + 1) 1)
  have hba : ¬ b < a := by omega
  have hlen : ((pyRangeLen a (b + 1) 1 : Nat) : Int) = b + 1 - a := by
    unfold pyRangeLen
    have h1 : a < b + 1 := by omega
    simp only [h1, if_true]
    simp
    omega
  let zs := (pyRange a (b + 1) 1).map (fun t => (t, t + k))
  have hzs' : zs = (List.range (pyRangeLen a (b + 1) 1)).map
      (fun (i : Nat) => ((a + (i : Int) * 1, a + (i : Int) * 1 + k) : Int × Int)) := by
    simp [zs, pyRange, List.map_map, Function.comp_def]
  refine ⟨c, Ser.trim (zs.foldl (stepForward S cum c) ⟨s.freq, minOr a (zs.map (·.2)), b, fun t => (Init.series ini).get t⟩), hc, ?_, ?_⟩
  · simp [temporalCumulation, validShift, hk, Span.needsResolve, Endpoint.needsResolve, Span.resolve,
      Endpoint.resolve, Span.make, bind, Except.bind, pure, Except.pure, cumulateForward, hzs, hba, hcf, hif,
      Init.freqOk, zs]
  · intro t h1 h2
    rw [Ser.get_trim]
    have hmin : minOr a (zs.map (·.2)) ≤ a + k := by
      apply minOr_le
      have hmem : (a, a + k) ∈ zs :=
        List.mem_map.mpr ⟨a, (mem_pyRange a (b + 1) 1 a (by omega)).mpr ⟨0, by simp, fun _ => by omega, fun h => by omega⟩, rfl⟩
      exact List.mem_map.mpr ⟨(a, a + k), hmem, rfl⟩
    have h0 : ∀ u, a + k ≤ u → u < a →
        (⟨s.freq, minOr a (zs.map (·.2)), b, fun t => (Init.series ini).get t⟩ : Ser α).get u = s.get u := by
      intro u hu1 hu2
      have h3 : minOr a (zs.map (·.2)) ≤ u ∧ u ≤ b := ⟨by omega, by omega⟩
      have e : (⟨s.freq, minOr a (zs.map (·.2)), b, fun t => (Init.series ini).get t⟩ : Ser α).get u = ini.get u := by
        simp [Ser.get, h3, Init.get]
      rw [e]
      exact hini u hu1 hu2
    generalize (⟨s.freq, minOr a (zs.map (·.2)), b, fun t => (Init.series ini).get t⟩ : Ser α) = init at h0 ⊢
    rw [hzs']
    refine foldl_stepForward_consecutive S cum c s.get k hk a init (pyRangeLen a (b + 1) 1) h0 ?_ t h1 (by omega)
    intro u hu1 hu2
    obtain ⟨x, hx, okx⟩ := hs u (by omega) (by omega)
    obtain ⟨y, hy, oky⟩ := hs (u + k) (by omega) (by omega)
    rw [hcg u, hx, hy]
    exact law _ x y okx oky

/-- **Backward from the initial periods.** Span `a, a−1, …, b`; `initial` only has to agree with the original on the
`|k|` periods `a + 1 … a − k` after the first period written. -/
theorem inverts_backward_from_initial_periods (S : Sym α) (ck : ChangeKind) (cum : CumKind) (ok : α → Prop)
    (hflex : ck.fixedShift = none)
    (law : ∀ fac x y, ok x → ok y →
      lift2 (cum.domB S) (cum.backward S) (some x) (lift2 (ck.dom S) (ck.fn S fac) (some x) (some y)) = some y)
    (s ini : Ser α) (hif : ini.freq = s.freq) (k : Int) (hk : k < 0) (a b : Int) (hba : b ≤ a)
    (hs : ∀ t, b ≤ t → t ≤ a - k → ∃ x, s.get t = some x ∧ ok x)
    (hini : ∀ t, a < t → t ≤ a - k → ini.get t = s.get t) :
    ∃ c o, change S ck (.by_ k) s = .ok c ∧
      temporalCumulation S cum (.by_ k) (some (.series ini)) (some ⟨.res ⟨s.freq, a⟩, .res ⟨s.freq, b⟩, -1⟩) c = .ok o ∧
      ∀ t, b ≤ t → t ≤ a - k → o.get t = s.get t := by
  obtain ⟨xa, hxa, _⟩ := hs a hba (by omega)
  obtain ⟨c, hc, hcf, hcg⟩ := change_int S ck hflex s k hk
  have hamem : a ∈ pyRange a (b - 1) (-1) :=
    (mem_pyRange a (b - 1) (-1) a (by omega)).mpr ⟨0, by simp, fun h => by omega, fun _ => by omega⟩
  have hnil : (pyRange a (b - 1) (-1)).isEmpty = false := by
    cases hl : pyRange a (b - 1) (-1) with
    | nil => rw [hl] at hamem; simp at hamem
    | cons x xs => rfl
  have hlen : ((pyRangeLen a (b - 1) (-1) : Nat) : Int) = a - b + 1 := by
    unfold pyRangeLen
    have h1 : b - 1 < a := by omega
    simp only [h1, if_true]
    simp
    omega
  have hmin : minOr a (pyRange a (b - 1) (-1)) ≤ b := by
    apply minOr_le
    exact (mem_pyRange a (b - 1) (-1) b (by omega)).mpr ⟨(a - b).toNat, by omega, fun h => by omega, fun _ => by omega⟩
  refine ⟨c, Ser.trim ((pyRange a (b - 1) (-1)).foldl (stepBackward S cum k c)
    ⟨s.freq, minOr a (pyRange a (b - 1) (-1)), a - k, fun t => (Init.series ini).get t⟩), hc, ?_, ?_⟩
  · simp [temporalCumulation, validShift, hk, Span.needsResolve, Endpoint.needsResolve, Span.resolve,
      Endpoint.resolve, Span.make, bind, Except.bind, pure, Except.pure, cumulateBackward, hnil, hcf, hif, Init.freqOk]
  · intro t h1 h2
    rw [Ser.get_trim]
    show (((List.range (pyRangeLen a (b - 1) (-1))).map (fun (i : Nat) => a + (i : Int) * (-1))).foldl
      (stepBackward S cum k c) _).get t = s.get t
    refine foldl_stepBackward_consecutive S cum c s.get k hk a _ (pyRangeLen a (b - 1) (-1)) ?_ ?_ t (by omega) h2
    · intro u hu1 hu2
      have : minOr a (pyRange a (b - 1) (-1)) ≤ u ∧ u ≤ a - k := ⟨by omega, by omega⟩
      simp only [Ser.get, this, and_self, if_true, Init.get]
      exact hini u hu1 hu2
    · intro sh h3 h4
      obtain ⟨x, hx, okx⟩ := hs (sh - k) (by omega) (by omega)
      obtain ⟨y, hy, oky⟩ := hs sh (by omega) (by omega)
      have e : sh - k + k = sh := by omega
      rw [hcg (sh - k), e, hx, hy]
      exact law _ x y okx oky

end initial_periods

/-! ### forward inversion with a keyword shift (yoy / soy / eopy / tty) -/

section keyword
variable {α : Type} [Add α] [Sub α] [Mul α] [Div α] [NatCast α] [IntCast α]

/-- for every keyword the change's cell at `t` is the formula of `x_t` and the value at the period that
`Period.shift` (the function the cumulation loop calls) yields -/
theorem change_keyword (S : Sym α) (kind : ChangeKind) (hflex : kind.fixedShift = none) (s : Ser α)
    (hf : s.freq ≠ .I) (by_ : ShiftBy)
    (hkw : by_ = .yoy ∨ by_ = .soy ∨ by_ = .eopy ∨ by_ = .tty) :
    ∃ o, change S kind by_ s = .ok o ∧ o.freq = s.freq ∧
      ∀ t q, Period.shift ⟨s.freq, t⟩ by_ = .ok q → o.get t = cellFn S kind s.freq (s.get t) (s.get q.serial) := by
  rcases hkw with h | h | h | h <;> subst h
  · obtain ⟨o, ho, hof, hg⟩ := change_yoy S kind hflex s
    refine ⟨o, ho, hof, fun t q hq => ?_⟩
    simp [Period.shift, Period.add, pure, Except.pure] at hq
    subst hq
    rw [hg t]
    have : t - s.freq.value = t + -s.freq.value := by omega
    simp [this]
  · obtain ⟨o, ho, hof, hg⟩ := change_soy S kind hflex s hf
    exact ⟨o, ho, hof, fun t q hq => hg t q hq⟩
  · obtain ⟨o, ho, hof, hg⟩ := change_eopy S kind hflex s hf
    exact ⟨o, ho, hof, fun t q hq => hg t q hq⟩
  · obtain ⟨o, ho, hof, hg, _⟩ := change_tty S kind hflex s hf
    exact ⟨o, ho, hof, fun t q hq => hg t q hq⟩

/-- **Inversion, forward, keyword shifts.** For every series with a calendar frequency, every keyword shift and every
forward span (any step): the code's zip of the span with the shifted periods succeeds, and if the series is defined
and admissible on the initial span `[min_period, b]` the code computes, the cumulation of the change with the
original as initial condition equals the original there.  (The property statement asks this for negative integer
shifts only; for keywords the initial span need not contain every period of a stepped span — see notes/C13.md.) -/
theorem inverts_forward_keyword (S : Sym α) (ck : ChangeKind) (cum : CumKind) (ok : α → Prop)
    (hflex : ck.fixedShift = none)
    (law : ∀ fac x y, ok x → ok y →
      lift2 (cum.domF S) (cum.forward S) (some y) (lift2 (ck.dom S) (ck.fn S fac) (some x) (some y)) = some x)
    (s : Ser α) (hf : s.freq ≠ .I) (by_ : ShiftBy)
    (hkw : by_ = .yoy ∨ by_ = .soy ∨ by_ = .eopy ∨ by_ = .tty)
    (a b step : Int) (hstep : 0 < step) (hab : a ≤ b) :
    ∃ zs, zipShift s.freq by_ (pyRange a (b + 1) step) = .ok zs ∧
      ((∀ t, minOr a (zs.map (·.2)) ≤ t → t ≤ b → ∃ x, s.get t = some x ∧ ok x) →
        ∃ c o, change S ck by_ s = .ok c ∧
          temporalCumulation S cum by_ (some (.series s))
            (some ⟨.res ⟨s.freq, a⟩, .res ⟨s.freq, b⟩, step⟩) c = .ok o ∧
          ∀ t, minOr a (zs.map (·.2)) ≤ t → t ≤ b → o.get t = s.get t) := by
  obtain ⟨zs, hzs⟩ := zipShift_ok s.freq hf by_ (pyRange a (b + 1) step)
  refine ⟨zs, hzs, fun hs => ?_⟩
  have hvalid : validShift by_ = true := by rcases hkw with h | h | h | h <;> subst h <;> rfl
  obtain ⟨c, hc, hcf, hcg⟩ := change_keyword S ck hflex s hf by_ hkw
  have hmemI : ∀ t, t ∈ pyRange a (b + 1) step → a ≤ t ∧ t ≤ b := by
    intro t ht
    obtain ⟨i, hi, h1, _⟩ := (mem_pyRange a (b + 1) step t (by omega)).mp ht
    have : 0 ≤ (i : Int) * step := Int.mul_nonneg (by omega) (by omega)
    have := h1 hstep
    omega
  have hp : ∀ p ∈ zs, a ≤ p.1 ∧ p.1 ≤ b ∧ p.2 ≤ p.1 ∧ ∃ q, Period.shift ⟨s.freq, p.1⟩ by_ = .ok q ∧ q.serial = p.2 := by
    intro p hp
    obtain ⟨h1, q, hq, hqs⟩ := zipShift_mem s.freq by_ _ zs hzs p hp
    have := shift_serial_le s.freq p.1 by_ hvalid q hq
    exact ⟨(hmemI _ h1).1, (hmemI _ h1).2, by omega, q, hq, hqs⟩
  obtain ⟨o, ho, hog⟩ := cumulate_forward_reproduces S cum by_ s.freq a b step s c hab hcf rfl zs hzs
    (by intro p hp'; obtain ⟨_, h2, h3, _⟩ := hp p hp'; omega)
    (by
      intro p hp'
      obtain ⟨h1, h2, h3, q, hq, hqs⟩ := hp p hp'
      have hm := minOr_le a (zs.map (·.2)) p.2 (List.mem_map_of_mem hp')
      obtain ⟨x, hx, okx⟩ := hs p.1 (by omega) h2
      obtain ⟨y, hy, oky⟩ := hs p.2 hm (by omega)
      rw [hcg p.1 q hq, hqs, hx, hy]
      exact law _ x y okx oky)
  refine ⟨c, o, hc, ?_, hog⟩
  have hstep' : ¬ step ≤ 0 := by omega
  simp [temporalCumulation, hvalid, Span.needsResolve, Endpoint.needsResolve, Span.resolve,
    Endpoint.resolve, Span.make, bind, Except.bind, pure, Except.pure, hstep, ho]

end keyword

/-! ### the variant broadcast rule used when `initial` carries fewer variants than the change series -/

/-- while supplied variants last, receiving variant `j` takes supplied variant `j` -/
theorem pickVariant_lt {β : Type} (l : List β) (j : Nat) (h : j < l.length) : pickVariant l j = l[j]? := by
  unfold pickVariant
  have : min j (l.length - 1) = j := by omega
  rw [this]

/-- afterwards every receiving variant takes the LAST supplied one (not the first) -/
theorem pickVariant_ge {β : Type} (l : List β) (j : Nat) (h : l.length ≤ j + 1) : pickVariant l j = l.getLast? := by
  unfold pickVariant
  have : min j (l.length - 1) = l.length - 1 := by omega
  rw [this, List.getLast?_eq_getElem?]

/-! ## Non-vacuity: the hypotheses are met by concrete non-trivial values -/

/-- a quarterly series `1, 2, 4, …` (no missing values, non-zero, positive) over ℚ -/
def exSer : Ser ℚ := ⟨.Q, 8080, 8091, fun t => some (2 ^ (t - 8080).toNat)⟩

def exSym : Sym ℚ := ⟨id, id, fun x _ => x, fun x => decide (x = 0), fun x => decide (0 < x)⟩

example : ZeroTest exSym := by intro x; simp [exSym]
example : (100 : ℚ) ≠ 0 := by norm_num
example : exSer.isEmpty = false := by decide
example : exSer.freq ≠ .I := by decide
/-- the hypotheses of the forward inversion theorems: shift −3, span 8084 … 8090 step 2 -/
example : ∀ t, 8084 + (-3) ≤ t → t ≤ 8090 → ∃ x, exSer.get t = some x ∧ x ≠ 0 := by
  intro t h1 h2
  have : exSer.lo ≤ t ∧ t ≤ exSer.hi := by simp [exSer]; omega
  exact ⟨_, by simp only [Ser.get, this, if_true]; rfl, by positivity⟩
/-- … and of the backward ones: shift −3, span 8088 … 8082 step −1 -/
example : ∀ t, (8082 : Int) ≤ t → t ≤ 8088 - (-3) → ∃ x, exSer.get t = some x ∧ x ≠ 0 := by
  intro t h1 h2
  have : exSer.lo ≤ t ∧ t ≤ exSer.hi := by simp [exSer]; omega
  exact ⟨_, by simp only [Ser.get, this, if_true]; rfl, by positivity⟩
/-- a positive real series for the logarithmic theorems -/
noncomputable def exSerR : Ser ℝ := ⟨.M, 24240, 24260, fun t => some (Real.exp (t : ℝ))⟩
example : ∀ t x, exSerR.get t = some x → 0 < x := by
  intro t x h
  unfold Ser.get at h
  by_cases r : exSerR.lo ≤ t ∧ t ≤ exSerR.hi
  · rw [if_pos r] at h; simp [exSerR] at h; rw [← h]; exact Real.exp_pos _
  · rw [if_neg r] at h; cases h
/-- the model computes: pct of `1, 2, 4` at lag 1 is `100, 100` -/
example : (change exSym .pct (.by_ (-1)) (Ser.ofCells .Q 8080 #[some 1, some 2, some 4])).toOption.map
    (fun o => (o.lo, o.cells)) = some (8081, [some 100, some 100]) := by decide +kernel

example : pickVariant [10, 20] 2 = some 20 ∧ pickVariant [10, 20] 0 = some 10 ∧ pickVariant ([] : List Nat) 1 = none := by decide

/-! ## 5. Several variants: trim, variant locality, rows of other variants do not leak -/

section variants
variable {α : Type}

/-- **Trim with several variants is invisible**: no cell of any variant changes. -/
theorem mtrim_get (m : MSer α) (t : Int) (j : Nat) : m.trim.get t j = m.get t j := MSer.get_trim m t j

/-- **Trim removes exactly the leading and trailing rows that are missing in ALL variants.** If the result is not
empty, its rows lie inside the old rows, its first and its last row each carry an observation in at least one
variant, and every removed row is missing in every variant; if it is empty, every old row was missing in every
variant. -/
theorem mtrim_spec (m : MSer α) :
    (m.trim.isEmpty = false →
      m.lo ≤ m.trim.lo ∧ m.trim.hi ≤ m.hi ∧
      (∃ j, j < m.nv ∧ (m.val m.trim.lo j).isSome = true) ∧ (∃ j, j < m.nv ∧ (m.val m.trim.hi j).isSome = true) ∧
      ∀ t, m.lo ≤ t → t ≤ m.hi → (t < m.trim.lo ∨ m.trim.hi < t) → ∀ j, j < m.nv → m.val t j = none) ∧
    (m.trim.isEmpty = true → ∀ t, m.lo ≤ t → t ≤ m.hi → ∀ j, j < m.nv → m.val t j = none) := by
  rw [MSer.trim_eq]
  generalize hn : (m.hi + 1 - m.lo).toNat = n
  cases hf : Ser.firstSomeFrom m.rowMark m.lo n with
  | none =>
    have h0 := Ser.firstSomeFrom_none m.rowMark m.lo n hf
    refine ⟨fun h => by simp [MSer.isEmpty] at h, fun _ t h1 h2 j hj => ?_⟩
    exact (MSer.rowMark_eq_none m t).mp (h0 t h1 (by omega)) j hj
  | some a =>
    obtain ⟨a1, a2, a3⟩ := Ser.firstSomeFrom_some m.rowMark m.lo n a hf
    have a4 := Ser.firstSomeFrom_isSome m.rowMark m.lo n a hf
    cases hl : Ser.lastSomeFrom m.rowMark m.hi n with
    | none =>
      have h0 := Ser.lastSomeFrom_none m.rowMark m.hi n hl
      refine ⟨fun h => by simp [MSer.isEmpty] at h, fun _ t h1 h2 j hj => ?_⟩
      exact (MSer.rowMark_eq_none m t).mp (h0 t (by omega) h2) j hj
    | some b =>
      obtain ⟨b1, b2, b3⟩ := Ser.lastSomeFrom_some m.rowMark m.hi n b hl
      have b4 := Ser.lastSomeFrom_isSome m.rowMark m.hi n b hl
      refine ⟨fun _ => ⟨a1, b1, MSer.rowMark_isSome m a a4, MSer.rowMark_isSome m b b4, ?_⟩, ?_⟩
      · intro t h1 h2 h3 j hj
        rcases h3 with h3 | h3
        · exact (MSer.rowMark_eq_none m t).mp (a3 t h1 h3) j hj
        · exact (MSer.rowMark_eq_none m t).mp (b3 t h3 h2) j hj
      · intro h
        -- the first marked row is not after the last one, so the result is not empty
        exfalso
        simp only [MSer.isEmpty, decide_eq_true_eq] at h
        have : ¬ b < a := by
          intro hba
          have := b3 a hba (by omega)
          rw [this] at a4; cases a4
        omega

/-- a column on the shared rows and the same column trimmed on its own have the same cells -/
theorem column_get (m : MSer α) (j : Nat) (t : Int) : (m.column j).get t = m.get t j := by
  simp only [MSer.column, Ser.get, MSer.get]
  by_cases h : m.lo ≤ t ∧ t ≤ m.hi
  · by_cases hj : j < m.nv
    · simp [h, hj]
    · simp [h, hj]
  · have : ¬ (m.lo ≤ t ∧ t ≤ m.hi ∧ j < m.nv) := fun h' => h ⟨h'.1, h'.2.1⟩
    simp [h, this]

variable [Add α] [Sub α] [Mul α] [Div α] [NatCast α] [IntCast α]

/-- **Variant locality of the change functions.** On a series with several variants every change function (any
shift argument) either fails in some variant's computation, or returns a series with the same number of variants
whose variant `j` is, cell by cell, the change of variant `j` alone (taken on the shared rows). -/
theorem mchange_variant_local (S : Sym α) (kind : ChangeKind) (a : ShiftArg) (m o : MSer α)
    (h : mchange S kind a m = .ok o) :
    o.nv = m.nv ∧ ∀ j, j < m.nv → ∃ oj, changeArg S kind a (m.column j) = .ok oj ∧ ∀ t, o.get t j = oj.get t := by
  unfold mchange at h
  cases hm : mapR (fun j => changeArg S kind a (m.column j)) (List.range m.nv) with
  | error e => simp [hm] at h
  | ok outs =>
    simp [hm] at h
    subst h
    obtain ⟨hlen, hget⟩ := mapR_ok _ _ outs hm
    refine ⟨by simp [hlen], fun j hj => ?_⟩
    obtain ⟨c, hc1, hc2⟩ := hget j (by simpa using hj)
    refine ⟨c, by simpa using hc1, fun t => ?_⟩
    rw [MSer.get_ofSers, hc2]; rfl

/-- … and it fails only if the change of one of the variants fails (with that error) -/
theorem mchange_error (S : Sym α) (kind : ChangeKind) (a : ShiftArg) (m : MSer α) (e : Err)
    (h : mchange S kind a m = .error e) : ∃ j, j < m.nv ∧ changeArg S kind a (m.column j) = .error e := by
  unfold mchange at h
  cases hm : mapR (fun j => changeArg S kind a (m.column j)) (List.range m.nv) with
  | ok outs => simp [hm] at h
  | error e' =>
    simp [hm] at h; subst h
    obtain ⟨j, hj, hg⟩ := mapR_error _ _ _ hm
    exact ⟨j, List.mem_range.mp hj, hg⟩

/-- **Variant locality of the conversion helpers.** -/
theorem mconvert_variant_local (S : Sym α) (c : ConvKind) (m : MSer α) (j : Nat) (hj : j < m.nv) (t : Int) :
    (mconvert S c m).get t j = (convert S c (m.column j)).get t := by
  unfold mconvert
  rw [MSer.get_ofSers]
  simp [hj]

/-- **Variant locality of the cumulation functions, with the broadcast rule for `initial`.** Variant `j` of the result
is the cumulation of variant `j` of the change series started from the initial condition `pickVariant initials j`
(supplied variant `j` while they last, then the last supplied one). -/
theorem mcum_variant_local (S : Sym α) (kind : CumKind) (a : ShiftArg) (initials : List (Option (Init α)))
    (span : Option Span) (m o : MSer α) (h : mcum S kind a initials span m = .ok o) :
    o.nv = m.nv ∧ ∀ j, j < m.nv → ∃ ini oj, pickVariant initials j = some ini ∧
      cumArg S kind a ini span (m.column j) = .ok oj ∧ ∀ t, o.get t j = oj.get t := by
  unfold mcum at h
  generalize hg : (fun j => match pickVariant initials j with
      | some ini => cumArg S kind a ini span (m.column j)
      | none => Except.error Err.badInput) = g at h
  cases hm : mapR g (List.range m.nv) with
  | error e => simp [hm] at h
  | ok outs =>
    simp [hm] at h
    subst h
    obtain ⟨hlen, hget⟩ := mapR_ok _ _ outs hm
    refine ⟨by simp [hlen], fun j hj => ?_⟩
    obtain ⟨c, hc1, hc2⟩ := hget j (by simpa using hj)
    subst hg
    simp only [List.getElem_range] at hc1
    cases hp : pickVariant initials j with
    | none => simp [hp] at hc1
    | some ini =>
      simp only [hp] at hc1
      refine ⟨ini, c, rfl, hc1, fun t => ?_⟩
      rw [MSer.get_ofSers, hc2]; rfl

end variants

/-! ### the rows a variant shares with the others do not leak into its change -/

section congruence
variable {α : Type} [Add α] [Sub α] [Mul α] [Div α] [NatCast α] [IntCast α]

/-- **The change depends on the cells only.** Two series with the same frequency and the same cells (whatever their
row ranges -- e.g. a variant on the rows it shares with other variants, and the same variant trimmed on its own) have
changes with the same cells, for every change function and every shift (calendar keywords: calendar frequencies). -/
theorem change_cells_only (S : Sym α) (kind : ChangeKind) (by_ : ShiftBy) (s s' : Ser α) (hf : s.freq = s'.freq)
    (hg : ∀ t, s.get t = s'.get t)
    (hcal : (by_ = .soy ∨ by_ = .eopy ∨ by_ = .tty) → kind.fixedShift = none → s.freq ≠ .I)
    (o o' : Ser α) (h : change S kind by_ s = .ok o) (h' : change S kind by_ s' = .ok o') (t : Int) :
    o.get t = o'.get t := by
  cases hfx : kind.fixedShift with
  | some k =>
    obtain ⟨o1, ho1, _, hg1⟩ := change_annual S kind (by simp [hfx]) s by_
    obtain ⟨o2, ho2, _, hg2⟩ := change_annual S kind (by simp [hfx]) s' by_
    rw [h] at ho1; rw [h'] at ho2
    injection ho1 with e1; injection ho2 with e2
    subst e1; subst e2
    rw [hg1, hg2, hf, hg, hg]
  | none =>
    cases by_ with
    | by_ k =>
      by_cases hk : k < 0
      · obtain ⟨o1, ho1, _, hg1⟩ := change_int S kind hfx s k hk
        obtain ⟨o2, ho2, _, hg2⟩ := change_int S kind hfx s' k hk
        rw [h] at ho1; rw [h'] at ho2
        injection ho1 with e1; injection ho2 with e2
        subst e1; subst e2
        rw [hg1, hg2, hf, hg, hg]
      · rw [change_rejects_leads S kind hfx s k (by omega)] at h; cases h
    | yoy =>
      obtain ⟨o1, ho1, _, hg1⟩ := change_yoy S kind hfx s
      obtain ⟨o2, ho2, _, hg2⟩ := change_yoy S kind hfx s'
      rw [h] at ho1; rw [h'] at ho2
      injection ho1 with e1; injection ho2 with e2
      subst e1; subst e2
      rw [hg1, hg2, hf, hg, hg]
    | soy =>
      have hI := hcal (Or.inl rfl) hfx
      obtain ⟨o1, ho1, _, hg1⟩ := change_soy S kind hfx s hI
      obtain ⟨o2, ho2, _, hg2⟩ := change_soy S kind hfx s' (hf ▸ hI)
      rw [h] at ho1; rw [h'] at ho2
      injection ho1 with e1; injection ho2 with e2
      subst e1; subst e2
      obtain ⟨q, hq⟩ := (shift_soy_eopy_ok s.freq hI t).1
      rw [hg1 t q hq, hg2 t q (hf ▸ hq), hf, hg, hg]
    | eopy =>
      have hI := hcal (Or.inr (Or.inl rfl)) hfx
      obtain ⟨o1, ho1, _, hg1⟩ := change_eopy S kind hfx s hI
      obtain ⟨o2, ho2, _, hg2⟩ := change_eopy S kind hfx s' (hf ▸ hI)
      rw [h] at ho1; rw [h'] at ho2
      injection ho1 with e1; injection ho2 with e2
      subst e1; subst e2
      obtain ⟨q, hq⟩ := (shift_soy_eopy_ok s.freq hI t).2
      rw [hg1 t q hq, hg2 t q (hf ▸ hq), hf, hg, hg]
    | tty =>
      have hI := hcal (Or.inr (Or.inr rfl)) hfx
      obtain ⟨o1, ho1, _, hg1, hn1⟩ := change_tty S kind hfx s hI
      obtain ⟨o2, ho2, _, hg2, hn2⟩ := change_tty S kind hfx s' (hf ▸ hI)
      rw [h] at ho1; rw [h'] at ho2
      injection ho1 with e1; injection ho2 with e2
      subst e1; subst e2
      rcases shift_ok_or_noPeriod s.freq hI t .tty with ⟨q, hq⟩ | hq
      · rw [hg1 t q hq, hg2 t q (hf ▸ hq), hf, hg, hg]
      · rw [hn1 t hq, hn2 t (hf ▸ hq), hf, hg]

end congruence

/-! ## 6. The shift argument as passed by the caller; default initial values -/

section shiftarg
variable {α : Type} [Add α] [Sub α] [Mul α] [Div α] [NatCast α] [IntCast α]

/-- `_catch_invalid_shift` lets a number through exactly when it is a negative whole number (strings always pass) -/
theorem shiftArg_invalid_iff :
    (∀ k : Int, (ShiftArg.int k).invalid = false ↔ k < 0) ∧
    (∀ q : Rat, (ShiftArg.float q).invalid = false ↔ (q.den = 1 ∧ q < 0)) ∧
    (∀ b, (ShiftArg.kw b).invalid = false) ∧ ShiftArg.otherString.invalid = false := by
  refine ⟨fun k => ?_, fun q => ?_, fun _ => rfl, rfl⟩
  · simp [ShiftArg.invalid]
  · simp [ShiftArg.invalid, Rat.not_le]

/-- a change function given a Python `int` or a keyword is the change of section 1 -/
theorem changeArg_int_kw (S : Sym α) (kind : ChangeKind) (s : Ser α) :
    (∀ k, changeArg S kind (.int k) s = change S kind (.by_ k) s) ∧
    (∀ b, (∀ k, b ≠ .by_ k) → changeArg S kind (.kw b) s = change S kind b s) := by
  constructor
  · intro k
    unfold changeArg change
    cases hfx : kind.fixedShift with
    | some k' => rfl
    | none =>
      by_cases hk : k < 0
      · have : ¬ (0 ≤ k) := by omega
        simp [ShiftArg.invalid, this]
      · have : 0 ≤ k := by omega
        simp [ShiftArg.invalid, this, temporalChange, validShift, hk]
  · intro b hb
    unfold changeArg change
    cases hfx : kind.fixedShift with
    | some k' => rfl
    | none => cases b <;> first | rfl | exact absurd rfl (hb _)

/-- **A float-valued shift is rejected by every flexible change function**, also when it is a negative whole number
(`diff(x, -1.0)`): after the validity test `Series.shift` looks for a method named `_shift_-1.0`. The same for a string
that is not one of the four keywords. -/
theorem change_float_or_unknown_string_rejected (S : Sym α) (kind : ChangeKind) (hflex : kind.fixedShift = none)
    (s : Ser α) : (∀ q, changeArg S kind (.float q) s = .error .badInput) ∧
      changeArg S kind .otherString s = .error .badInput := by
  constructor
  · intro q
    unfold changeArg
    rw [hflex]
    by_cases h : (ShiftArg.float q).invalid = true
    · simp [h]; rfl
    · simp [h]; rfl
  · unfold changeArg
    rw [hflex]
    simp [ShiftArg.invalid]; rfl

/-- **A cumulation function takes a negative whole-number float as the integer** (`cum_diff(c, -1.0, …)`), rejects every
other number that is not a negative integer, and rejects unknown strings. -/
theorem cumArg_float (S : Sym α) (kind : CumKind) (initial : Option (Init α)) (span : Option Span) (self : Ser α) :
    (∀ k : Int, k < 0 → cumArg S kind (.float (k : Rat)) initial span self =
        temporalCumulation S kind (.by_ k) initial span self) ∧
    (∀ q : Rat, (q.den ≠ 1 ∨ 0 ≤ q) → cumArg S kind (.float q) initial span self = .error .badInput) ∧
    cumArg S kind .otherString initial span self = .error .badInput := by
  refine ⟨fun k hk => ?_, fun q hq => ?_, ?_⟩
  · have h1 : ((k : Rat)).den = 1 := by simp
    have h2 : ¬ (0 : Rat) ≤ (k : Rat) := by
      have : (k : Rat) < 0 := by exact_mod_cast hk
      exact Rat.not_le.mpr this
    have h3 : ((k : Rat)).num = k := by simp
    simp [cumArg, ShiftArg.invalid, h1, h2, h3]
  · have : (ShiftArg.float q).invalid = true := by
      rcases hq with h | h <;> simp [ShiftArg.invalid, h]
    simp [cumArg, this]; rfl
  · simp [cumArg, ShiftArg.invalid]; rfl

/-- **Default initial values** as documented ("0 for diff and diff_log, 1 for pct and roc"), read from the regenerated
`_CUMULATIVE_FACTORY` -/
theorem default_initial_documented :
    CumKind.diff.initial = 0 ∧ CumKind.diffLog.initial = 0 ∧ CumKind.pct.initial = 1 ∧ CumKind.roc.initial = 1 := by
  decide

/-- … and `initial=None` is that number: the cumulation is the one started from the constant series -/
theorem cum_default_initial (S : Sym α) (kind : CumKind) (by_ : ShiftBy) (span : Option Span) (self : Ser α) :
    temporalCumulation S kind by_ none span self =
      temporalCumulation S kind by_ (some (.scalar ((kind.initial : Int) : α))) span self := rfl

end shiftarg

/-! ## 7. Keyword shifts at the series level, with the calendar rule of C09 made explicit -/

section keywords_explicit
variable {α : Type} [Add α] [Sub α] [Mul α] [Div α] [NatCast α] [IntCast α]

/-- the model does not restate the calendar: the period-level function used by the series-level shifts is
`IrisVerif.Dates.Period.shift` of Model/Dates.lean (the subject of the C09 `shift_*` theorems) -/
theorem series_shift_uses_period_shift (f : Freq) (t : Int) :
    Ser.refSoy f t = (Period.shift ⟨f, t⟩ .soy).map (·.serial) ∧
    Ser.refEopy f t = (Period.shift ⟨f, t⟩ .eopy).map (·.serial) ∧
    Ser.refTty f t = (Period.shift ⟨f, t⟩ .tty).map (·.serial) := ⟨rfl, rfl, rfl⟩

/-- **"soy" and "eopy" on a regular frequency, explicitly**: with `(year, segment)` of period `t` (C09), the reference
period of `soy` is `t − (segment − 1)` (segment 1 of the same year) and that of `eopy` is `t − segment` (the last
segment of the previous year) -/
theorem change_soy_eopy_regular (S : Sym α) (kind : ChangeKind) (hflex : kind.fixedShift = none) (s : Ser α)
    (hf : s.freq ∈ IrisVerif.Dates.C09.regularFreqs) :
    ∃ o1 o2, change S kind .soy s = .ok o1 ∧ change S kind .eopy s = .ok o2 ∧
      ∀ t y seg, toYearSegment ⟨s.freq, t⟩ = .ok (y, seg) →
        o1.get t = cellFn S kind s.freq (s.get t) (s.get (t - (seg - 1))) ∧
        o2.get t = cellFn S kind s.freq (s.get t) (s.get (t - seg)) := by
  have hI : s.freq ≠ .I := by
    intro h; rw [h] at hf; simp [IrisVerif.Dates.C09.regularFreqs] at hf
  obtain ⟨o1, ho1, _, hg1⟩ := change_soy S kind hflex s hI
  obtain ⟨o2, ho2, _, hg2⟩ := change_eopy S kind hflex s hI
  refine ⟨o1, o2, ho1, ho2, fun t y seg hys => ?_⟩
  obtain ⟨y1, seg1, q1, h1, hq1, _, _, hs1⟩ := IrisVerif.Dates.C09.shift_soy_regular s.freq hf t
  obtain ⟨y2, seg2, q2, h2, hq2, _, _, hs2⟩ := IrisVerif.Dates.C09.shift_eopy_regular s.freq hf t
  rw [hys] at h1 h2
  injection h1 with h1; injection h2 with h2
  injection h1 with _ e1; injection h2 with _ e2
  subst e1; subst e2
  rw [hg1 t q1 hq1, hg2 t q2 hq2, hs1, hs2]
  exact ⟨rfl, rfl⟩

/-- **"tty", explicitly, including the neutral-value fill**: in a period with segment > 1 the reference is the previous
period; in a start-of-year period (segment 1) the reference value is the method's neutral value -/
theorem change_tty_explicit (S : Sym α) (kind : ChangeKind) (hflex : kind.fixedShift = none) (s : Ser α)
    (hf : s.freq ≠ .I) :
    ∃ o, change S kind .tty s = .ok o ∧ ∀ t y seg, toYearSegment ⟨s.freq, t⟩ = .ok (y, seg) →
      (1 < seg → o.get t = cellFn S kind s.freq (s.get t) (s.get (t - 1))) ∧
      (seg ≤ 1 → o.get t = cellFn S kind s.freq (s.get t) (kind.neutral.map (fun (n : Int) => (n : α)))) := by
  obtain ⟨o, ho, _, hg, hn⟩ := change_tty S kind hflex s hf
  refine ⟨o, ho, fun t y seg hys => ⟨fun hseg => ?_, fun hseg => ?_⟩⟩
  · have : createTty ⟨s.freq, t⟩ = .ok ⟨s.freq, t + -1⟩ := by
      simp [createTty, hys, bind, Except.bind, pure, Except.pure, hseg, Period.add]
    rw [hg t _ this]
    have e : t + -1 = t - 1 := by omega
    simp [e]
  · have : createTty ⟨s.freq, t⟩ = .error .noPeriod := by
      have : ¬ seg > 1 := by omega
      simp [createTty, hys, bind, Except.bind, this, throw, throwThe, MonadExceptOf.throw]
    exact hn t this

end keywords_explicit

/-- **The neutral-value fill of "tty" for the three neutral values 0 / 1 / none**, at the series level over a field:
in a start-of-year period `diff` returns `x_t − 0 = x_t`, `roc` returns `x_t / 1 = x_t`, `pct` (neutral `None`) is
missing -/
theorem tty_neutral_fill {K : Type} [Field K] (S : Sym K) (hz : ZeroTest S) (s : Ser K) (hf : s.freq ≠ .I) :
    ∃ od orr op, change S .diff .tty s = .ok od ∧ change S .roc .tty s = .ok orr ∧ change S .pct .tty s = .ok op ∧
      ∀ t y x, toYearSegment ⟨s.freq, t⟩ = .ok (y, 1) → s.get t = some x →
        od.get t = some x ∧ orr.get t = some x ∧ op.get t = none := by
  obtain ⟨od, hod, hd⟩ := change_tty_explicit S .diff rfl s hf
  obtain ⟨orr, hor, hr⟩ := change_tty_explicit S .roc rfl s hf
  obtain ⟨op, hop, hp⟩ := change_tty_explicit S .pct rfl s hf
  refine ⟨od, orr, op, hod, hor, hop, fun t y x hys hx => ?_⟩
  obtain ⟨h1, h2, h3⟩ := tty_start_of_year S hz s.freq x
  rw [(hd t y 1 hys).2 (by omega), (hr t y 1 hys).2 (by omega), (hp t y 1 hys).2 (by omega), hx]
  exact ⟨h1, h2, h3⟩

/-! ### non-vacuity of sections 5–7 -/

/-- two variants missing at different edges: rows 0..4, variant 0 observed on 1..2, variant 1 on 2..3 -/
def exM : MSer ℚ := ⟨.Q, 0, 4, 2, fun t j => if (j = 0 ∧ 1 ≤ t ∧ t ≤ 2) ∨ (j = 1 ∧ 2 ≤ t ∧ t ≤ 3) then some 1 else none⟩

example : exM.trim.isEmpty = false ∧ exM.trim.lo = 1 ∧ exM.trim.hi = 3 := by decide
example : (mchange exSym .diff (.int (-1)) exM).toOption.map (fun o => (o.nv, o.lo, o.hi)) = some (2, 2, 3) := by
  decide +kernel
example : (ShiftArg.float (-1 : Rat)).invalid = false ∧ (ShiftArg.float ((-3 : Rat) / 2)).invalid = true := by
  decide +kernel
example : exSer.freq ∈ IrisVerif.Dates.C09.regularFreqs := by decide
example : toYearSegment ⟨exSer.freq, 8080⟩ = .ok (2020, 1) := by decide

/-! ## 8. Chains: the round trip through a series WITH missing values; rejection branches of the cumulation;
reference periods before the start of the series -/

section chains
variable {α : Type} [Add α] [Sub α] [Mul α] [Div α] [NatCast α] [IntCast α]

/-- period `u` lies on the chain of period `T` for the lag `k`: `u = T + n·k`. A cumulation at lag `k` consists of
`|k|` interleaved chains that never touch each other. -/
def OnChain (k T u : Int) : Prop := ∃ n : Int, u = T + n * k

theorem OnChain.self (k T : Int) : OnChain k T T := ⟨0, by simp⟩

theorem OnChain.step {k T u : Int} (h : OnChain k T u) : OnChain k T (u + k) ∧ OnChain k T (u - k) := by
  obtain ⟨n, rfl⟩ := h
  refine ⟨⟨n + 1, ?_⟩, ⟨n - 1, ?_⟩⟩
  · rw [Int.add_mul, Int.one_mul]; omega
  · rw [Int.sub_mul, Int.one_mul]; omega

/-- forward loop restricted to a region `P` inside the initial span that the loop respects (see
`foldl_stepForward_inv_on`) -/
theorem cumulate_forward_reproduces_on (S : Sym α) (cum : CumKind) (by_ : ShiftBy) (f : Freq) (a b step : Int)
    (s change : Ser α) (hab : a ≤ b) (hcf : change.freq = f) (hsf : s.freq = f)
    (zs : List (Int × Int)) (hzs : zipShift f by_ (pyRange a (b + 1) step) = .ok zs) (P : Int → Prop)
    (hP : ∀ u, P u → minOr a (zs.map (·.2)) ≤ u ∧ u ≤ b)
    (h : ∀ p ∈ zs, P p.1 → P p.2 ∧
      lift2 (cum.domF S) (cum.forward S) (s.get p.2) (change.get p.1) = s.get p.1) :
    ∃ o, cumulateForward S cum by_ (.series s) f a b step change = .ok o ∧ ∀ t, P t → o.get t = s.get t := by
  have hba : ¬ b < a := by omega
  refine ⟨Ser.trim (zs.foldl (stepForward S cum change) ⟨f, minOr a (zs.map (·.2)), b, fun t => (Init.series s).get t⟩), ?_, ?_⟩
  · simp [cumulateForward, hzs, bind, Except.bind, hba, hcf, hsf, Init.freqOk, pure, Except.pure]
  · intro t ht
    rw [Ser.get_trim]
    refine foldl_stepForward_inv_on S cum change s.get P zs _ ?_ h t ht
    intro u hu
    obtain ⟨h1, h2⟩ := hP u hu
    simp [Ser.get, h1, h2, Init.get]

/-- **Inversion, forward, chain by chain — series with missing values allowed.** Every `k < 0`, every forward span:
the cumulation of the change with the original as initial condition reproduces the original value in period `T`
(anywhere in `[a + k, b]`) as soon as the original is defined and admissible on `T`'s own chain `T, T + k, T + 2k, …`
down to the initial periods — whatever is missing on the other `|k| − 1` chains or later on the same chain. -/
theorem inverts_forward_chainwise (S : Sym α) (ck : ChangeKind) (cum : CumKind) (ok : α → Prop)
    (hflex : ck.fixedShift = none)
    (law : ∀ fac x y, ok x → ok y →
      lift2 (cum.domF S) (cum.forward S) (some y) (lift2 (ck.dom S) (ck.fn S fac) (some x) (some y)) = some x)
    (s : Ser α) (k : Int) (hk : k < 0) (a b step : Int) (hstep : 0 < step) (hab : a ≤ b)
    (T : Int) (hT1 : a + k ≤ T) (hT2 : T ≤ b)
    (hs : ∀ u, a + k ≤ u → u ≤ T → OnChain k T u → ∃ x, s.get u = some x ∧ ok x) :
    ∃ c o, change S ck (.by_ k) s = .ok c ∧
      temporalCumulation S cum (.by_ k) (some (.series s))
        (some ⟨.res ⟨s.freq, a⟩, .res ⟨s.freq, b⟩, step⟩) c = .ok o ∧
      o.get T = s.get T := by
  obtain ⟨c, hc, hcf, hcg⟩ := change_int S ck hflex s k hk
  have hmemI : ∀ t, t ∈ pyRange a (b + 1) step → a ≤ t ∧ t ≤ b := by
    intro t ht
    obtain ⟨i, hi, h1, _⟩ := (mem_pyRange a (b + 1) step t (by omega)).mp ht
    have : 0 ≤ (i : Int) * step := Int.mul_nonneg (by omega) (by omega)
    have := h1 hstep
    omega
  have hzs := zipShift_int s.freq k (pyRange a (b + 1) step)
  have hmem : (a, a + k) ∈ (pyRange a (b + 1) step).map (fun t => (t, t + k)) :=
    List.mem_map.mpr ⟨a, (mem_pyRange a (b + 1) step a (by omega)).mpr ⟨0, by simp, fun _ => by omega, fun h => by omega⟩, rfl⟩
  have hm2 : a + k ∈ ((pyRange a (b + 1) step).map (fun t => (t, t + k))).map (·.2) :=
    List.mem_map.mpr ⟨(a, a + k), hmem, rfl⟩
  have hmin := minOr_le a _ (a + k) hm2
  obtain ⟨o, ho, hog⟩ := cumulate_forward_reproduces_on S cum (.by_ k) s.freq a b step s c hab hcf rfl _ hzs
    (fun u => a + k ≤ u ∧ u ≤ T ∧ OnChain k T u)
    (by intro u hu; exact ⟨by omega, by omega⟩)
    (by
      intro p hp hP
      obtain ⟨t, ht, rfl⟩ := List.mem_map.mp hp
      obtain ⟨h1, h2⟩ := hmemI t ht
      simp only at hP ⊢
      obtain ⟨hP1, hP2, hP3⟩ := hP
      refine ⟨⟨by omega, by omega, hP3.step.1⟩, ?_⟩
      obtain ⟨x, hx, okx⟩ := hs t hP1 hP2 hP3
      obtain ⟨y, hy, oky⟩ := hs (t + k) (by omega) (by omega) hP3.step.1
      rw [hcg t, hx, hy]
      exact law _ x y okx oky)
  refine ⟨c, o, hc, ?_, hog T ⟨hT1, Int.le_refl _, OnChain.self k T⟩⟩
  have hstep' : ¬ step ≤ 0 := by omega
  simp [temporalCumulation, validShift, hk, Span.needsResolve, Endpoint.needsResolve, Span.resolve,
    Endpoint.resolve, Span.make, bind, Except.bind, pure, Except.pure, hstep, ho]

/-- **Inversion, backward, chain by chain.** Every `k < 0`, every backward span `a, a+step, … ≥ b`: the original value
in a period `T` of the span (or among the `|k|` initial periods after its start) is reproduced as soon as the original is
defined and admissible on `T`'s chain `T, T − k, T − 2k, …` up to the initial periods. -/
theorem inverts_backward_chainwise (S : Sym α) (ck : ChangeKind) (cum : CumKind) (ok : α → Prop)
    (hflex : ck.fixedShift = none)
    (law : ∀ fac x y, ok x → ok y →
      lift2 (cum.domB S) (cum.backward S) (some x) (lift2 (ck.dom S) (ck.fn S fac) (some x) (some y)) = some y)
    (s : Ser α) (k : Int) (hk : k < 0) (a b step : Int) (hstep : step < 0) (hba : b ≤ a)
    (T : Int) (hT : T ∈ pyRange a (b - 1) step ∨ (a ≤ T ∧ T ≤ a - k))
    (hs : ∀ u, T ≤ u → u ≤ a - k → OnChain k T u → ∃ x, s.get u = some x ∧ ok x) :
    ∃ c o, change S ck (.by_ k) s = .ok c ∧
      temporalCumulation S cum (.by_ k) (some (.series s))
        (some ⟨.res ⟨s.freq, a⟩, .res ⟨s.freq, b⟩, step⟩) c = .ok o ∧
      o.get T = s.get T := by
  obtain ⟨c, hc, hcf, hcg⟩ := change_int S ck hflex s k hk
  have hmemI : ∀ t, t ∈ pyRange a (b - 1) step → b ≤ t ∧ t ≤ a := by
    intro t ht
    obtain ⟨i, hi, _, h2⟩ := (mem_pyRange a (b - 1) step t (by omega)).mp ht
    have : (i : Int) * step ≤ 0 := Int.mul_nonpos_of_nonneg_of_nonpos (by omega) (by omega)
    have := h2 hstep
    omega
  have hamem : a ∈ pyRange a (b - 1) step :=
    (mem_pyRange a (b - 1) step a (by omega)).mpr ⟨0, by simp, fun h => by omega, fun _ => by omega⟩
  have hne : (pyRange a (b - 1) step).isEmpty = false := by
    cases hl : pyRange a (b - 1) step with
    | nil => rw [hl] at hamem; simp at hamem
    | cons x xs => rfl
  have hTle : T ≤ a - k := by
    rcases hT with h | h
    · have := hmemI T h; omega
    · exact h.2
  have hminT : minOr a (pyRange a (b - 1) step) ≤ T := by
    rcases hT with h | h
    · exact minOr_le a _ T h
    · have := minOr_le a _ a hamem; omega
  refine ⟨c, Ser.trim ((pyRange a (b - 1) step).foldl (stepBackward S cum k c)
    ⟨s.freq, minOr a (pyRange a (b - 1) step), a - k, fun t => (Init.series s).get t⟩), hc, ?_, ?_⟩
  · have h1 : ¬ step > 0 := by omega
    simp [temporalCumulation, validShift, hk, Span.needsResolve, Endpoint.needsResolve, Span.resolve,
      Endpoint.resolve, Span.make, bind, Except.bind, pure, Except.pure, hstep, h1, cumulateBackward, hne, hcf,
      Init.freqOk]
  · rw [Ser.get_trim]
    refine foldl_stepBackward_inv_on S cum k c s.get (fun u => T ≤ u ∧ u ≤ a - k ∧ OnChain k T u) _ _ ?_ ?_ T
      ⟨Int.le_refl _, hTle, OnChain.self k T⟩
    · intro u hu
      have h1 : minOr a (pyRange a (b - 1) step) ≤ u ∧ u ≤ a - k := ⟨by omega, hu.2.1⟩
      simp [Ser.get, h1, Init.get]
    · intro sh hsh hP
      obtain ⟨h1, h2⟩ := hmemI sh hsh
      obtain ⟨hP1, hP2, hP3⟩ := hP
      refine ⟨⟨by omega, by omega, hP3.step.2⟩, ?_⟩
      obtain ⟨x, hx, okx⟩ := hs (sh - k) (by omega) (by omega) hP3.step.2
      obtain ⟨y, hy, oky⟩ := hs sh hP1 hP2 hP3
      have e : sh - k + k = sh := by omega
      rw [hcg (sh - k), e, hx, hy]
      exact law _ x y okx oky

end chains

/-- the chain-wise round trip for the differences over any field: a series may have missing values on other chains -/
theorem cum_diff_inverts_chainwise {K : Type} [Field K] (S : Sym K) (s : Ser K) (k : Int) (hk : k < 0)
    (a b step : Int) (hstep : 0 < step) (hab : a ≤ b) (T : Int) (hT1 : a + k ≤ T) (hT2 : T ≤ b)
    (hs : ∀ u, a + k ≤ u → u ≤ T → OnChain k T u → ∃ x, s.get u = some x) :
    ∃ c o, change S .diff (.by_ k) s = .ok c ∧
      temporalCumulation S .diff (.by_ k) (some (.series s)) (some (spanOf s.freq a b step)) c = .ok o ∧
      o.get T = s.get T :=
  inverts_forward_chainwise S .diff .diff (fun _ => True) rfl (fun fac x y _ _ => law_diff_forward S fac x y) s k hk
    a b step hstep hab T hT1 hT2 (fun u h1 h2 h3 => by obtain ⟨x, hx⟩ := hs u h1 h2 h3; exact ⟨x, hx, trivial⟩)

/-! ### rejection branches of the cumulation (the model rejects what the code rejects) -/

section rejections
variable {α : Type} [Add α] [Sub α] [Mul α] [Div α] [NatCast α] [IntCast α]

/-- a non-negative number is not a valid shift for a cumulation either -/
theorem cum_rejects_leads (S : Sym α) (kind : CumKind) (k : Int) (hk : 0 ≤ k) (initial : Option (Init α))
    (span : Option Span) (self : Ser α) :
    temporalCumulation S kind (.by_ k) initial span self = .error .badInput := by
  have : ¬ k < 0 := by omega
  simp [temporalCumulation, validShift, this]; rfl

/-- a keyword shift cannot be used in a backward cumulation (`Span.shift` of a string raises) -/
theorem cum_backward_keyword_rejected (S : Sym α) (kind : CumKind) (by_ : ShiftBy) (hkw : ∀ k, by_ ≠ .by_ k)
    (initial : Init α) (f : Freq) (a b step : Int) (orig : Ser α) :
    cumulateBackward S kind by_ initial f a b step orig = .error .badInput := by
  cases by_ with
  | by_ k => exact absurd rfl (hkw k)
  | yoy => rfl
  | soy => rfl
  | eopy => rfl
  | tty => rfl

/-- an empty backward span (`start < end` with a negative step) is rejected (`min()` of nothing) -/
theorem cum_backward_empty_span_rejected (S : Sym α) (kind : CumKind) (k : Int) (initial : Init α) (f : Freq)
    (a b step : Int) (hstep : step < 0) (hab : a < b) (orig : Ser α) :
    cumulateBackward S kind (.by_ k) initial f a b step orig = .error .badInput := by
  have hnil : pyRange a (b - 1) step = [] := by
    have : pyRangeLen a (b - 1) step = 0 := by
      unfold pyRangeLen
      have h1 : ¬ step > 0 := by omega
      have h2 : ¬ b - 1 < a := by omega
      simp [h1, hstep, h2]
    simp [pyRange, this]
  simp [cumulateBackward, hnil]; rfl

/-- an empty forward span: a series as `initial` is rejected, a number gives the empty series -/
theorem cum_forward_empty_span (S : Sym α) (kind : CumKind) (by_ : ShiftBy) (f : Freq) (a b step : Int)
    (hstep : 0 < step) (hba : b < a) (change : Ser α) :
    (∀ s : Ser α, cumulateForward S kind by_ (.series s) f a b step change = .error .badInput) ∧
    (∀ x : α, ∃ o, cumulateForward S kind by_ (.scalar x) f a b step change = .ok o ∧ ∀ t, o.get t = none) := by
  have hnil : pyRange a (b + 1) step = [] := by
    have : pyRangeLen a (b + 1) step = 0 := by
      unfold pyRangeLen
      have h2 : ¬ a < b + 1 := by omega
      simp [hstep, h2]
    simp [pyRange, this]
  constructor
  · intro s
    simp [cumulateForward, hnil, zipShift, bind, Except.bind, pure, Except.pure, hba]; rfl
  · intro x
    refine ⟨Ser.empty f, ?_, fun t => ?_⟩
    · simp [cumulateForward, hnil, zipShift, bind, Except.bind, pure, Except.pure, hba]
    · have : ¬ ((0 : Int) ≤ t ∧ t ≤ -1) := by omega
      simp [Ser.empty, Ser.get, this]

/-- mixing frequencies is rejected: a non-empty change series, or a non-empty `initial` series, of another frequency
than the span -/
theorem cum_forward_mixed_frequency_rejected (S : Sym α) (kind : CumKind) (k : Int) (initial : Init α) (f : Freq)
    (a b step : Int) (hab : a ≤ b) (change : Ser α)
    (hmix : (change.isEmpty = false ∧ change.freq ≠ f) ∨ initial.freqOk f = false) :
    cumulateForward S kind (.by_ k) initial f a b step change = .error .mixedFreq := by
  have hba : ¬ b < a := by omega
  rcases hmix with ⟨h1, h2⟩ | h
  · simp [cumulateForward, zipShift_int, bind, Except.bind, hba, h1, h2]; rfl
  · simp [cumulateForward, zipShift_int, bind, Except.bind, hba, h]; rfl

/-- resolving an open span against a series without a start is rejected -/
theorem cum_open_span_on_empty_rejected (S : Sym α) (kind : CumKind) (k : Int) (hk : k < 0) (initial : Option (Init α))
    (self : Ser α) (he : self.isEmpty = true) :
    temporalCumulation S kind (.by_ k) initial none self = .error .badInput := by
  simp [temporalCumulation, validShift, hk, Span.make, bind, Except.bind, pure, Except.pure, he, Span.needsResolve,
    Endpoint.needsResolve]
  rfl

end rejections

/-! ### reference periods before the start of the series; the annualisation factor of every frequency -/

section edges
variable {α : Type} [Add α] [Sub α] [Mul α] [Div α] [NatCast α] [IntCast α]

/-- **A reference period outside the rows of the series reads as missing — it never wraps.** For `soy`, `eopy` and
any negative shift: when the reference period lies before the first row (a series that starts in the middle of a year
and `soy`, say) the change in that period is missing. -/
theorem change_reference_before_start_missing (S : Sym α) (kind : ChangeKind) (hflex : kind.fixedShift = none)
    (s : Ser α) :
    (∀ k, k < 0 → ∃ o, change S kind (.by_ k) s = .ok o ∧ ∀ t, t + k < s.lo → o.get t = none) ∧
    (s.freq ≠ .I → ∃ o, change S kind .soy s = .ok o ∧
      ∀ t p, createSoy ⟨s.freq, t⟩ = .ok p → p.serial < s.lo → o.get t = none) ∧
    (s.freq ≠ .I → ∃ o, change S kind .eopy s = .ok o ∧
      ∀ t p, createEopy ⟨s.freq, t⟩ = .ok p → p.serial < s.lo → o.get t = none) := by
  have hout : ∀ u, u < s.lo → s.get u = none := by
    intro u hu
    have : ¬ (s.lo ≤ u ∧ u ≤ s.hi) := by omega
    simp [Ser.get, this]
  refine ⟨fun k hk => ?_, fun hf => ?_, fun hf => ?_⟩
  · obtain ⟨o, ho, _, hg⟩ := change_int S kind hflex s k hk
    exact ⟨o, ho, fun t ht => by rw [hg t, hout _ ht]; simp [cellFn]⟩
  · obtain ⟨o, ho, _, hg⟩ := change_soy S kind hflex s hf
    exact ⟨o, ho, fun t p hp hlt => by rw [hg t p hp, hout _ hlt]; simp [cellFn]⟩
  · obtain ⟨o, ho, _, hg⟩ := change_eopy S kind hflex s hf
    exact ⟨o, ho, fun t p hp hlt => by rw [hg t p hp, hout _ hlt]; simp [cellFn]⟩

end edges

/-- **The annualisation factor of every frequency**, on any field: 1 (integer), 1, 2, 4, 12 and 365 (daily). The same
`factorOf s.freq` enters `adiff/adiff_log/apct/aroc` (`ChangeKind.fn`) and the de-annualising helpers
`pct_from_apct/roc_from_apct/roc_from_aroc` (`ConvKind.fn`), so `annualised_conversions` holds for every frequency,
daily and integer included. -/
theorem factorOf_values {K : Type} [Field K] :
    (factorOf .I : K) = 1 ∧ (factorOf .Y : K) = 1 ∧ (factorOf .H : K) = 2 ∧ (factorOf .Q : K) = 4 ∧
    (factorOf .M : K) = 12 ∧ (factorOf .D : K) = 365 := by
  have h := annualFactor_values
  simp only [factorOf, h.1, h.2.1, h.2.2.1, h.2.2.2.1, h.2.2.2.2.1, h.2.2.2.2.2]
  norm_num

/-! ### non-vacuity of section 8 -/

/-- a quarterly series that starts in the third quarter and has a hole on the odd chain: rows 8082..8091, period 8085
missing -/
def exHole : Ser ℚ := ⟨.Q, 8082, 8091, fun t => if t = 8085 then none else some (2 ^ (t - 8080).toNat)⟩

/-- lag −2, span 8084..8090: the even chain of `T = 8090` (8090, 8088, …, 8082) avoids the hole at 8085 -/
example : ∀ u, (8084 : Int) + (-2) ≤ u → u ≤ 8090 → OnChain (-2) 8090 u → ∃ x, exHole.get u = some x := by
  intro u h1 h2 ⟨n, hn⟩
  have hne : u ≠ 8085 := by omega
  have hr : exHole.lo ≤ u ∧ u ≤ exHole.hi := by simp [exHole]; omega
  exact ⟨2 ^ (u - 8080).toNat, by simp only [Ser.get, hr, if_true]; simp [exHole, hne]⟩
example : createSoy ⟨exHole.freq, 8083⟩ = .ok ⟨.Q, 8080⟩ ∧ (8080 : Int) < exHole.lo := by decide
example : (cumulateBackward exSym .diff (.by_ (-1)) (.series exSer) .Q 8082 8085 (-1) exSer) = .error .badInput :=
  cum_backward_empty_span_rejected exSym .diff (-1) (.series exSer) .Q 8082 8085 (-1) (by omega) (by omega) exSer

/-! ## 9. The default call without a span (composition: change, span resolution, forward loop) -/

section default_span
variable {α : Type} [Add α] [Sub α] [Mul α] [Div α] [NatCast α] [IntCast α]

/-- `span=None` is the span of the (non-empty) series being cumulated: `Span(None, None)` resolved against `self` -/
theorem cum_default_span (S : Sym α) (kind : CumKind) (by_ : ShiftBy) (initial : Option (Init α)) (self : Ser α)
    (hne : self.isEmpty = false) :
    temporalCumulation S kind by_ initial none self =
      temporalCumulation S kind by_ initial (some ⟨.res ⟨self.freq, self.lo⟩, .res ⟨self.freq, self.hi⟩, 1⟩) self := by
  unfold temporalCumulation
  cases hv : validShift by_ with
  | false => simp
  | true =>
    simp [Span.make, Span.resolve, Endpoint.resolve, Span.needsResolve, Endpoint.needsResolve, hne, bind, Except.bind,
      pure, Except.pure, Period.add]

/-- **Inversion for the default call** `cum_X(X(s, k), k, initial = s)` (no span): the span is that of the change
series `c` itself; wherever the original is defined and admissible on `[c.lo + k, c.hi]` the cumulation reproduces it
there. (End-to-end: change, span resolution, forward loop.) -/
theorem inverts_forward_default_span (S : Sym α) (ck : ChangeKind) (cum : CumKind) (ok : α → Prop)
    (hflex : ck.fixedShift = none)
    (law : ∀ fac x y, ok x → ok y →
      lift2 (cum.domF S) (cum.forward S) (some y) (lift2 (ck.dom S) (ck.fn S fac) (some x) (some y)) = some x)
    (s : Ser α) (k : Int) (hk : k < 0) :
    ∃ c, change S ck (.by_ k) s = .ok c ∧
      (c.isEmpty = false → (∀ t, c.lo + k ≤ t → t ≤ c.hi → ∃ x, s.get t = some x ∧ ok x) →
        ∃ o, temporalCumulation S cum (.by_ k) (some (.series s)) none c = .ok o ∧
          ∀ t, c.lo + k ≤ t → t ≤ c.hi → o.get t = s.get t) := by
  obtain ⟨c, hc, hcf, _⟩ := change_int S ck hflex s k hk
  refine ⟨c, hc, fun hne hs => ?_⟩
  have hle : c.lo ≤ c.hi := by simp [Ser.isEmpty] at hne; omega
  obtain ⟨c', o, hc', ho, hog⟩ := inverts_forward S ck cum ok hflex law s k hk c.lo c.hi 1 (by omega) hle hs
  rw [hc] at hc'
  injection hc' with e
  subst e
  refine ⟨o, ?_, hog⟩
  rw [cum_default_span S cum (.by_ k) _ c hne, hcf]
  exact ho

end default_span
/-- the change of the example series is not empty and spans 8081..8091: the default span of its cumulation -/
example : (change exSym .diff (.by_ (-1)) exSer).toOption.map (fun c => (c.isEmpty, c.lo, c.hi)) = some (false, 8081, 8091) := by
  decide +kernel

/-! ## 10. De-annualising with the factor 1 (yearly and integer periods): data of any sign -/

/-- cell level: with the annualisation factor 1 the root is the power `gross ^ (1/1)`, defined for every gross rate -/
theorem annualised_conversion_cells_factor_one (f : Freq) (hf : annualFactor f.value = 1) (x y : ℝ) (hy : y ≠ 0) :
    lift1 (ConvKind.dom symReal f .pctFromApct) (ConvKind.fn symReal .pctFromApct (factorOf f))
        (cellFn symReal .apct f (some x) (some y)) = cellFn symReal .pct f (some x) (some y) ∧
    lift1 (ConvKind.dom symReal f .rocFromApct) (ConvKind.fn symReal .rocFromApct (factorOf f))
        (cellFn symReal .apct f (some x) (some y)) = cellFn symReal .roc f (some x) (some y) ∧
    lift1 (ConvKind.dom symReal f .rocFromAroc) (ConvKind.fn symReal .rocFromAroc (factorOf f))
        (cellFn symReal .aroc f (some x) (some y)) = cellFn symReal .roc f (some x) (some y) := by
  have e : (1 : ℝ) + 100 * (x / y - 1) / 100 = x / y := by ring
  rw [cell_apct _ _ _ hy, cell_aroc _ _ _ hy, (cell_pct symReal symReal_zeroTest _ x y).1 hy,
    (cell_roc symReal symReal_zeroTest _ x y).1 hy, hf]
  refine ⟨?_, ?_, ?_⟩
  · simp only [lift1_some, ConvKind.dom, ConvKind.fn, pctFromApct, symReal, factorOf, hf]
    push_cast
    simp [e]
  · simp only [lift1_some, ConvKind.dom, ConvKind.fn, rocFromApct, symReal, factorOf, hf]
    push_cast
    simp [e]
  · simp only [lift1_some, ConvKind.dom, ConvKind.fn, rocFromAroc, symReal, factorOf, hf]
    push_cast
    simp

/-- **Yearly and integer periods: the de-annualising helpers are consistent with `pct` / `roc` for EVERY series** — data
of any sign (negative gross rates included), missing values and zero reference values (both sides are then missing). -/
theorem annualised_conversions_factor_one (s : Ser ℝ) (hf : annualFactor s.freq.value = 1) :
    ∃ ap ar p r, change symReal .apct (.by_ (-1)) s = .ok ap ∧ change symReal .aroc (.by_ (-1)) s = .ok ar ∧
      change symReal .pct (.by_ (-1)) s = .ok p ∧ change symReal .roc (.by_ (-1)) s = .ok r ∧
      (∀ t, (convert symReal .pctFromApct ap).get t = p.get t) ∧
      (∀ t, (convert symReal .rocFromApct ap).get t = r.get t) ∧
      (∀ t, (convert symReal .rocFromAroc ar).get t = r.get t) := by
  obtain ⟨ap, hap, hapf, hapg⟩ := change_annual symReal .apct rfl s (.by_ (-1))
  obtain ⟨ar, har, harf, harg⟩ := change_annual symReal .aroc rfl s (.by_ (-1))
  obtain ⟨p, hp, _, hpg⟩ := change_int symReal .pct rfl s (-1) (by omega)
  obtain ⟨r, hr, _, hrg⟩ := change_int symReal .roc rfl s (-1) (by omega)
  have key : ∀ t,
      lift1 (ConvKind.dom symReal s.freq .pctFromApct) (ConvKind.fn symReal .pctFromApct (factorOf s.freq))
          (cellFn symReal .apct s.freq (s.get t) (s.get (t + -1))) = cellFn symReal .pct s.freq (s.get t) (s.get (t + -1)) ∧
      lift1 (ConvKind.dom symReal s.freq .rocFromApct) (ConvKind.fn symReal .rocFromApct (factorOf s.freq))
          (cellFn symReal .apct s.freq (s.get t) (s.get (t + -1))) = cellFn symReal .roc s.freq (s.get t) (s.get (t + -1)) ∧
      lift1 (ConvKind.dom symReal s.freq .rocFromAroc) (ConvKind.fn symReal .rocFromAroc (factorOf s.freq))
          (cellFn symReal .aroc s.freq (s.get t) (s.get (t + -1))) = cellFn symReal .roc s.freq (s.get t) (s.get (t + -1)) := by
    intro t
    cases hx : s.get t with
    | none => simp [cellFn]
    | some x =>
      cases hy : s.get (t + -1) with
      | none => simp [cellFn]
      | some y =>
        by_cases hy0 : y = 0
        · subst hy0
          simp [cellFn, ChangeKind.dom, symReal]
        · exact annualised_conversion_cells_factor_one s.freq hf x y hy0
  refine ⟨ap, ar, p, r, hap, har, hp, hr, fun t => ?_, fun t => ?_, fun t => ?_⟩
  · rw [convert, Ser.get_mapCells _ _ (by simp), hapg, hpg, hapf]; exact (key t).1
  · rw [convert, Ser.get_mapCells _ _ (by simp), hapg, hrg, hapf]; exact (key t).2.1
  · rw [convert, Ser.get_mapCells _ _ (by simp), harg, hrg, harf]; exact (key t).2.2

example : annualFactor Freq.Y.value = 1 ∧ annualFactor Freq.I.value = 1 := by decide

end IrisVerif.C13
