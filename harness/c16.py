"""
C16 -- Block decomposition of an incidence matrix is a valid sequential ordering.

Correspondence (class E, staged): the Lean model (IrisVerif/Model/Blazer.lean, driver C16) against
irispie.incidences.blazer on the same matrices and id labellings.  Per matrix one reply line with the
stages  F/L/I (what `prefetch` returns: pairs ordered first, pairs ordered last, inner ids),
R (inner ids after `triangularize_inner_block`, whose permutations are *fed* to the model after being
checked to be permutations) and B (the blocks, or err:bad when `blaze` raises).  Sequential models:
incidence matrix, is_sequential, outcome of sequentialize() and the equation order afterwards.
Simultaneous.split_into_blocks runs through the same comparison with the steady incidence matrix.

Oracle (independent of the model, straight from the property statement): for a square matrix with a
perfect matching (augmenting-path matching written here, cross-checked by brute force for n <= 5) the
blocks returned by the implementation must (i) partition eids and qids, (ii) be square, (iii) have
incidences only in columns of the same or earlier blocks, (iv) have a perfect matching on every diagonal
block, (v) the prefetched singleton blocks have exactly one unknown given the earlier blocks.
Sequential: a returned order must be a permutation in which every zero-shift LHS name read by an
equation (other than its own) is the LHS of an earlier equation, and the model must then be in that
order; a raise must leave the equations untouched and (by brute-force/greedy search) no valid order
may exist.
"""
from __future__ import annotations
import itertools, json, os

import numpy as np
import irispie as ir
from irispie.incidences import blazer

from .common import Ctx, err_kind, VERIF

DRIVERS = ["C16"]
LEVEL = "proof"
MANIFEST = {
    "category": "proof",
    "text": ("Lean 4 theorems about an executable model of incidences/blazer.py (prefetch with its size-guarded recursion, "
             "_generate_inner_blocks, blaze with ids and Block sorting, is_sequential, sequentialize_strictly), of Sequential.sequentialize / "
             "reorder_equations / copy as a state machine over call histories, and of Simultaneous.split_into_blocks (unknowns of a steady plan, "
             "any-shift incidence matrix): for every n, every n-by-n boolean matrix with a perfect matching, every id labelling and every pair of inner "
             "permutations (the heuristic triangularize_inner_block is an arbitrary permutation input) the blocks partition rows and columns, are "
             "square, have no incidence in a column of a later block, every diagonal block has a perfect matching, prefetched singleton blocks have "
             "exactly one unknown given the earlier ones, blaze never raises; the same at the level of ids after Block sorting (blaze_ids_valid), and "
             "blaze commutes with every re-labelling of the ids for every matrix whatsoever (blaze_relabel_equivariant); the merge order of prefetch "
             "across recursion rounds is pinned (prefetch_merge_order, with a 4x4 witness that the other order is invalid); when the steady system is "
             "square with a perfect matching split_into_blocks puts a qid in exactly one block iff it can be exogenized and is not exogenized by the "
             "plan or is endogenized by it -- and when a plan leaves more unknowns than equations no list of square blocks can partition both "
             "(split_into_blocks_not_square_not_valid: nothing is claimed there). Sequential models, ALL of them (repeated LHS names included): "
             "sequentialize never returns a non-permutation, never drops an equation, and an error leaves the state unchanged; lags and leads do not "
             "count; with pairwise distinct LHS names the incidence matrix is square with full diagonal and sequentialize returns a valid order iff one "
             "exists (an equation reading its own LHS at zero shift is not counted as a dependency), after any history of calls; the known finding "
             "about repeated LHS names is itself machine-checked on the model (three counterexamples by kernel evaluation). "
             "Tie: staged exact correspondence with blazer.prefetch / triangularize_inner_block / blaze(return_info=True) -- exhaustive over all boolean "
             "matrices n<=3 (quick) / n<=4 (thorough, 2^16 matrices, those with a perfect matching under two labellings; the others and non-square "
             "shapes feed the malformed stream), sampled block-structured, triangular, dense, banded, permuted matrices 5<=n<=40, re-labelling "
             "equivariance of the implementation, random Sequential models and call histories (state, incidence matrix, is_sequential, executable "
             "validity after every call), Simultaneous.split_into_blocks on models with measurement equations, parameters, steady autovalues and "
             "steady plans (unknowns, steady incidence matrix and blocks compared stage by stage); an independent matching-based oracle on the "
             "implementation's blocks and an order oracle on every sequentialize() supply the replay."),
    "design": "7/C16",
    "note": ("numpy's argsort tie-breaking inside triangularize_inner_block is not modelled (any permutation is allowed); Sequential models "
             "with repeated LHS names are outside the correctness theorems (known finding sequential-repeated-lhs, exhibited on the model); parsing of "
             "model sections and steady() itself are not modelled."),
    "technique": "Lean 4 proof over executable model + staged exhaustive/sampled differential correspondence + independent matching oracle",
}
ASSUMPTIONS = [
    "triangularize_inner_block is treated as an arbitrary pair of permutations (checked to be permutations on every case)",
    "the matrix passed to blaze is a numpy array of zeros and ones (bool, or an integer/float type holding 0/1) whose shape agrees with the id tuples",
    "an equation reading its own LHS at zero shift is not counted as a violation (the incidence matrix cannot distinguish it from the LHS occurrence)",
]


# ---------------------------------------------------------------------------------------
# matching (independent oracle machinery)
# ---------------------------------------------------------------------------------------

def max_matching(adj: list[list[int]], ncols: int) -> int:
    """size of a maximum bipartite matching, augmenting paths (Kuhn); adj[r] = columns of row r"""
    match_col = [-1] * ncols

    def try_row(r, seen):
        for c in adj[r]:
            if not seen[c]:
                seen[c] = True
                if match_col[c] < 0 or try_row(match_col[c], seen):
                    match_col[c] = r
                    return True
        return False

    size = 0
    for r in range(len(adj)):
        if try_row(r, [False] * ncols):
            size += 1
    return size


def has_pm(im) -> bool:
    im = np.asarray(im, dtype=bool)
    if im.ndim != 2 or im.shape[0] != im.shape[1]:
        return False
    n = im.shape[0]
    adj = [list(np.flatnonzero(im[r])) for r in range(n)]
    return max_matching(adj, n) == n


def has_pm_brute(im) -> bool:
    n = im.shape[0]
    return any(all(im[r, p[r]] for r in range(n)) for p in itertools.permutations(range(n)))


# ---------------------------------------------------------------------------------------
# blaze: implementation side of the line protocol
# ---------------------------------------------------------------------------------------

def csv(xs) -> str:
    return ",".join(str(int(x)) for x in xs)


def bits_of(im) -> str:
    s = "".join("1" if x else "0" for x in np.asarray(im, dtype=bool).ravel())
    return s or "-"


def show_blocks(blocks) -> str:
    return "".join("[" + csv(b.eids) + "/" + csv(b.qids) + "]" for b in blocks)


def impl_blaze(im: np.ndarray, eids, qids):
    """returns (request line, implementation reply line, blocks or None, staging problems)"""
    nr, nc = im.shape
    problems = []
    ef, qf, el, ql, ei, qi, im_in = blazer.prefetch(im, eids=tuple(eids), qids=tuple(qids))
    rp, cp = (), ()
    if im_in.size:
        k, m = im_in.shape
        re_, rq_, im_re, _ = blazer.triangularize_inner_block(im_in, eids=tuple(range(k)), qids=tuple(range(m)))
        rp, cp = tuple(int(x) for x in re_), tuple(int(x) for x in rq_)
        if sorted(rp) != list(range(k)) or sorted(cp) != list(range(m)):
            problems.append("triangularize_inner_block did not return permutations")
        elif not np.array_equal(im_re, im_in[list(rp), :][:, list(cp)]):
            problems.append("triangularize_inner_block: returned matrix is not the permuted input")
    ri = tuple(ei[i] for i in rp) if im_in.size else tuple(ei)
    rq = tuple(qi[i] for i in cp) if im_in.size else tuple(qi)
    blocks = None
    try:
        blocks, info = blazer.blaze(im, tuple(eids), tuple(qids), return_info=True)
        b = show_blocks(blocks)
        if (tuple(info["eids_first"]), tuple(info["qids_first"]), tuple(info["eids_last"]), tuple(info["qids_last"])) != (ef, qf, el, ql):
            problems.append("blaze info first/last differ from prefetch()")
        if tuple(int(x) for x in info["eids_inner"]) != tuple(int(x) for x in ri) or tuple(int(x) for x in info["qids_inner"]) != tuple(int(x) for x in rq):
            problems.append("blaze info inner ids are not the triangularize permutation of prefetch()'s inner ids")
        # plain call must agree with return_info=True (small sizes only: it doubles the cost)
        if nr <= 3 and show_blocks(blazer.blaze(im, tuple(eids), tuple(qids))) != b:
            problems.append("blaze(return_info=False) differs")
    except Exception as e:
        b = err_kind(e)
    reply = ("F=" + ",".join(f"{int(e)}:{int(q)}" for e, q in zip(ef, qf)) + ";L=" + ",".join(f"{int(e)}:{int(q)}" for e, q in zip(el, ql))
             + ";I=" + csv(ei) + "/" + csv(qi) + ";R=" + csv(ri) + "/" + csv(rq) + ";B=" + b)
    if len(ef) != len(qf) or len(el) != len(ql):
        problems.append("prefetch returned id tuples of different lengths")
    req = f"blaze {nr} {nc} {bits_of(im)} | {csv(eids) or '-'} | {csv(qids) or '-'} | {csv(rp) or '-'} | {csv(cp) or '-'}"
    return req, reply, blocks, problems, (ef, qf, el, ql)


def oracle_blocks(ctx: Ctx, site: str, case, im, eids, qids, blocks, pre=None):
    """(i)-(v) of the property on the implementation's blocks; only called for square matrices with a perfect matching"""
    n = im.shape[0]
    if blocks is None:
        ctx.fail(site, case, "blaze raised on a square matrix with a perfect matching")
        return
    rowpos = {int(e): i for i, e in enumerate(eids)}
    colpos = {int(q): j for j, q in enumerate(qids)}
    all_e = [int(e) for b in blocks for e in b.eids]
    all_q = [int(q) for b in blocks for q in b.qids]
    if sorted(all_e) != sorted(int(e) for e in eids) or sorted(all_q) != sorted(int(q) for q in qids):
        ctx.fail(site, case, f"(i) blocks do not partition the ids: eids {all_e} qids {all_q}")
        return
    seen_cols: set[int] = set()
    for k, b in enumerate(blocks):
        if len(b.eids) != len(b.qids):
            ctx.fail(site, case, f"(ii) block {k} is {len(b.eids)}x{len(b.qids)}")
            return
        rows = [rowpos[int(e)] for e in b.eids]
        cols = [colpos[int(q)] for q in b.qids]
        allowed = seen_cols | set(cols)
        for r in rows:
            bad = [int(qids[c]) for c in np.flatnonzero(im[r]) if c not in allowed]
            if bad:
                ctx.fail(site, case, f"(iii) block {k}: equation {int(eids[r])} involves quantities {bad} of later blocks")
                return
        sub = im[np.ix_(rows, cols)]
        if not has_pm(sub):
            ctx.fail(site, case, f"(iv) diagonal block {k} (eids {list(b.eids)}, qids {list(b.qids)}) has no perfect matching")
            return
        seen_cols |= set(cols)
    if pre is not None:
        ef, qf, el, ql = pre
        nf, nl = len(ef), len(el)
        ok = (nf + nl <= len(blocks)
              and all(blocks[k].eids == (ef[k],) and blocks[k].qids == (qf[k],) for k in range(nf))
              and all(blocks[len(blocks) - nl + k].eids == (el[k],) and blocks[len(blocks) - nl + k].qids == (ql[k],) for k in range(nl)))
        if not ok:
            ctx.fail(site, case, "(v) prefetched pairs are not the leading/trailing singleton blocks")
            return
        # exactly one unknown given the earlier blocks
        known: set[int] = set()
        for k, b in enumerate(blocks):
            if k < nf or k >= len(blocks) - nl:
                r = rowpos[int(b.eids[0])]
                unknown = [int(qids[c]) for c in np.flatnonzero(im[r]) if c not in known]
                if unknown != [int(b.qids[0])]:
                    ctx.fail(site, case, f"(v) prefetched block {k}: unknowns {unknown} instead of [{int(b.qids[0])}]")
                    return
            known |= {colpos[int(q)] for q in b.qids}


# ---------------------------------------------------------------------------------------
# matrix generators
# ---------------------------------------------------------------------------------------

def labelling(rng, n, kind):
    if kind == 0:
        return list(range(n))
    ids = rng.sample(range(-3 * n - 5, 5 * n + 50), n)
    return ids


def perm_matrix(rng, n):
    p = list(range(n)); rng.shuffle(p)
    m = np.zeros((n, n), dtype=bool)
    m[np.arange(n), p] = True
    return m


def rand_bool(rng, shape, density):
    return np.array([[rng.random() < density for _ in range(shape[1])] for _ in range(shape[0])], dtype=bool).reshape(shape)


def shuffle_rc(rng, im):
    r = list(range(im.shape[0])); c = list(range(im.shape[1]))
    rng.shuffle(r); rng.shuffle(c)
    return im[r, :][:, c]


def gen_matrix(rng, kind, n):
    if kind == "triangular":
        im = np.tril(rand_bool(rng, (n, n), rng.choice([0.1, 0.3, 0.6]))) | np.eye(n, dtype=bool)
        return shuffle_rc(rng, im)
    if kind == "block":
        # lower block-triangular, dense-ish diagonal blocks that contain a permutation
        im = np.zeros((n, n), dtype=bool)
        pos = 0
        while pos < n:
            k = min(n - pos, rng.choice([1, 1, 2, 3, 4, 6]))
            blk = rand_bool(rng, (k, k), rng.choice([0.4, 0.8, 1.0])) | perm_matrix(rng, k)
            im[pos:pos + k, pos:pos + k] = blk
            im[pos:pos + k, :pos] = rand_bool(rng, (k, pos), rng.choice([0.0, 0.1, 0.3])) if pos else im[pos:pos + k, :pos]
            pos += k
        return shuffle_rc(rng, im) if rng.chance(0.8) else im
    if kind == "dense":
        return rand_bool(rng, (n, n), rng.choice([0.3, 0.5, 0.9])) | perm_matrix(rng, n)
    if kind == "banded":
        w = rng.choice([1, 1, 2, 3])
        im = np.zeros((n, n), dtype=bool)
        for i in range(n):
            for j in range(max(0, i - w), min(n, i + w + 1)):
                im[i, j] = j == i or rng.random() < 0.6
        if rng.chance(0.5):
            im = np.tril(im) if rng.chance(0.5) else im
        return shuffle_rc(rng, im) if rng.chance(0.5) else im
    if kind == "sparse-perm":
        im = rand_bool(rng, (n, n), rng.choice([0.02, 0.05, 0.1])) | perm_matrix(rng, n)
        return im
    if kind == "nopm":
        im = rand_bool(rng, (n, n), rng.choice([0.05, 0.15, 0.4]))
        if rng.chance(0.5) and n > 1:
            im[rng.randint(0, n - 1), :] = False
        return im
    if kind == "nonsquare":
        nr = rng.randint(0, n); nc = rng.randint(0, n)
        return rand_bool(rng, (nr, nc), rng.choice([0.1, 0.3, 0.6]))
    raise ValueError(kind)


def small_matrices(n):
    for bits in range(1 << (n * n)):
        yield np.array([(bits >> k) & 1 for k in range(n * n)], dtype=bool).reshape(n, n)


# ---------------------------------------------------------------------------------------
# blaze streams
# ---------------------------------------------------------------------------------------

class Batch:
    """collects request/reply lines of one stream and compares them with the model at the end"""
    def __init__(self, ctx, stream):
        self.ctx, self.stream = ctx, stream
        self.cases, self.reqs, self.impl = [], [], []

    def add(self, case, req, reply):
        self.cases.append(case); self.reqs.append(req); self.impl.append(reply)

    def flush(self):
        if not self.reqs:
            return
        model = self.ctx.model("C16", self.reqs)
        self.ctx.compare(self.stream, self.cases, self.impl, model)
        self.cases, self.reqs, self.impl = [], [], []


def check_equivariance(ctx: Ctx, im, blocks0, blocks1, lab1, lab2):
    """blaze under a re-labelling = the re-labelled blocks of blaze under the identity labelling (theorem blaze_relabel_equivariant);
    called right after the same pattern went through blaze with other ids, which is when a result remembered per pattern would show"""
    ctx.count("blaze:equivariance-checked")
    show = lambda bs: None if bs is None else [(tuple(int(x) for x in b.eids), tuple(int(x) for x in b.qids)) for b in bs]
    want = None if blocks0 is None else [(tuple(sorted(lab1[e] for e in b.eids)), tuple(sorted(lab2[q] for q in b.qids))) for b in blocks0]
    if want != show(blocks1):
        ctx.disagree("relabel-equivariance", {"kind": "blaze", "shape": list(im.shape), "bits": bits_of(im), "eids": lab1, "qids": lab2, "tag": "equivariance"},
                     str(show(blocks1)), str(want))


DTYPES = ["bool", "bool", "bool", "bool", "int64", "int8", "uint8", "float64"]


def blaze_case(ctx: Ctx, batch: Batch | None, im, eids, qids, tag: str, check_hpm_model=False, dtype="bool"):
    """`dtype`: the numpy type in which the 0/1 incidence matrix is handed to the implementation (the pattern, the model request and the
    oracle are the same: an incidence matrix of zeros and ones is an incidence matrix whatever its element type)"""
    case = {"kind": "blaze", "shape": list(im.shape), "bits": bits_of(im), "eids": [int(e) for e in eids], "qids": [int(q) for q in qids], "tag": tag}
    im = np.asarray(im, dtype=bool)
    if dtype != "bool":
        case["dtype"] = dtype
        ctx.count(f"blaze:dtype:{dtype}")
    req, reply, blocks, problems, pre = impl_blaze(im if dtype == "bool" else im.astype(dtype), eids, qids)
    blaze_case.last_blocks = blocks
    ctx.evaluations += 1
    for p in problems:
        ctx.disagree("staging", case, p, "the implementation's stages must be consistent with each other")
    square = im.shape[0] == im.shape[1]
    pm = square and has_pm(im)
    if square and im.shape[0] <= 5 and pm != has_pm_brute(im):
        raise AssertionError("harness matching algorithms disagree")
    if batch is not None:
        batch.add(case, req, reply)
    if pm:
        oracle_blocks(ctx, "blaze-blocks", case, im, eids, qids, blocks, pre)
        ctx.count(f"blaze:{tag}:pm")
        nin = reply.split(";I=")[1].split("/")[0]
        nblk_in = 0
        if blocks is not None:
            sizes = tuple(sorted(len(b.eids) for b in blocks if len(b.eids) > 1))
            if nin:
                ctx.nontriv(("inner", im.shape[0], sizes, len(pre[0]), len(pre[2])))
                ctx.count("blaze:inner-nonempty")
            if len(sizes) >= 2:
                ctx.count("blaze:two-or-more-nontrivial-blocks")
    else:
        ctx.count(f"blaze:{tag}:malformed")
        if reply.endswith("err:bad"):
            ctx.count("blaze:malformed-raises")
    return pm


def run_blaze(ctx: Ctx, oracle_only=False, scale=1):
    rng = ctx.rng.fork("blaze")
    mk = (lambda s: None) if oracle_only else (lambda s: Batch(ctx, s))
    # exhaustive small scope
    nmax = 3 if ctx.quick else 4
    b = mk("blaze-exhaustive")
    npm = 0
    for n in range(0, nmax + 1):
        lab1 = [7 * i - 3 for i in reversed(range(n))]
        lab2 = [100 - 11 * i for i in range(n)]
        for im in small_matrices(n):
            pm = blaze_case(ctx, b, im, list(range(n)), list(range(n)), f"exh{n}")
            if pm or n <= 3:
                # second labelling: every matrix for n <= 3, the ones with a perfect matching for n = 4
                first = blaze_case.last_blocks
                blaze_case(ctx, b, im, lab1, lab2, f"exh{n}-relabelled")
                check_equivariance(ctx, im, first, blaze_case.last_blocks, lab1, lab2)
            if n <= 3:
                # every small pattern also as an integer-typed 0/1 matrix
                blaze_case(ctx, b, im, list(range(n)), list(range(n)), f"exh{n}-int", dtype="int64" if n % 2 else "uint8")
            npm += pm
        if b is not None and len(b.reqs) > 40000:
            b.flush()
    if b is not None:
        b.flush()
    ctx.extra["exhaustive_n_max"] = nmax
    ctx.extra["exhaustive_matrices_with_perfect_matching"] = npm
    # n = 4 sampled in quick
    if ctx.quick:
        b = mk("blaze-n4-sampled")
        for _ in range(1000 * scale):
            bits = rng.next() & 0xFFFF
            im = np.array([(bits >> k) & 1 for k in range(16)], dtype=bool).reshape(4, 4)
            if rng.chance(0.5):
                im = im | perm_matrix(rng, 4)
            blaze_case(ctx, b, im, labelling(rng, 4, rng.randint(0, 1)), labelling(rng, 4, rng.randint(0, 1)), "n4", dtype=rng.choice(DTYPES))
        if b is not None:
            b.flush()
    # sampled larger matrices
    b = mk("blaze-sampled")
    kinds = [("block", 6), ("triangular", 3), ("dense", 2), ("banded", 3), ("sparse-perm", 4), ("nopm", 2), ("nonsquare", 2)]
    for _ in range(ctx.n(2000, 25000) * scale):
        kind = rng.weighted(kinds)
        n = rng.randint(5, 12) if rng.chance(0.6) else rng.randint(13, 40)
        if kind == "nonsquare":
            n = rng.randint(1, 9)
        im = gen_matrix(rng, kind, n)
        lk = rng.randint(0, 1)
        blaze_case(ctx, b, im, labelling(rng, im.shape[0], lk), labelling(rng, im.shape[1], lk), kind, dtype=rng.choice(DTYPES))
        ctx.count(f"blaze:size:{'5-12' if n <= 12 else '13-40'}")
        if b is not None and len(b.reqs) > 20000:
            b.flush()
    if b is not None:
        b.flush()


def run_hpm(ctx: Ctx):
    """the decidable HasPerfectMatching of the theorems (executable form) against the harness matching, all n <= 3 (4 in thorough)"""
    reqs, impl, cases = [], [], []
    for n in range(0, (3 if ctx.quick else 4) + 1):
        for im in small_matrices(n):
            reqs.append(f"hpm {n} {bits_of(im)}")
            impl.append("T" if has_pm(im) else "F")
            cases.append({"kind": "hpm", "n": n, "bits": bits_of(im)})
    ctx.compare("has-perfect-matching", cases, impl, ctx.model("C16", reqs))


# ---------------------------------------------------------------------------------------
# Sequential models
# ---------------------------------------------------------------------------------------

def seq_source(eqs):
    """eqs: list of (lhs, reads0, lagged, exo) over name numbers; a distinct constant makes every equation text unique"""
    lines = []
    for k, (lhs, r0, rl, exo) in enumerate(eqs):
        # rl: shifted references to LHS names, which must not count: v >= 0 is a lag of v, v < 0 a LEAD of variable -v-1
        terms = ([f"v{v}" for v in r0] + [f"v{v}{{-{1 + (v % 2)}}}" if v >= 0 else f"v{-v - 1}{{+{1 + ((-v - 1) % 2)}}}" for v in rl]
                 + [f"x{v}" for v in exo] + [f"{k + 1}.5"])
        lines.append(f"  v{lhs} = " + " + ".join(terms) + ";")
    return "!equations\n" + "\n".join(lines) + "\n"


def tok_text(e) -> str:
    """request form of an equation: `lhs:tok,tok..` with zero-shift names as `n` and lags/leads of LHS names as `n@shift`
    (the same shifts that seq_source writes); dropping the shifted ones is the model's business (SEq.ofTokens), as it is the code's"""
    zero = [str(v) for v in sorted(set(e[1]) | {1000 + x for x in e[3]})]
    shifted = [f"{v}@-{1 + (v % 2)}" if v >= 0 else f"{-v - 1}@+{1 + ((-v - 1) % 2)}" for v in e[2]]
    return f"{e[0]}:" + ",".join(zero + shifted)


def name_num(name: str) -> int:
    return int(name[1:]) + (1000 if name[0] == "x" else 0)


def seq_valid(eqs_in_order) -> bool:
    lhs_all = {e[0] for e in eqs_in_order}
    done = set()
    for lhs, r0, _, _ in eqs_in_order:
        for v in r0:
            if v in lhs_all and v != lhs and v not in done:
                return False
        done.add(lhs)
    return True


def seq_order_exists(eqs) -> bool:
    """greedy: place any equation all of whose zero-shift LHS reads are determined (complete because `done` only grows)"""
    lhs_all = {e[0] for e in eqs}
    left = list(range(len(eqs)))
    done = set()
    while left:
        pick = next((i for i in left if all((v not in lhs_all) or v == eqs[i][0] or v in done for v in eqs[i][1])), None)
        if pick is None:
            return False
        left.remove(pick); done.add(eqs[pick][0])
    return True


def gen_seq(rng, kind):
    n = rng.randint(1, 9) if rng.chance(0.8) else rng.randint(10, 24)
    names = list(range(n)); rng.shuffle(names)
    eqs = []
    if kind in ("dag", "cyclic"):
        order = list(range(n)); rng.shuffle(order)          # order[k] = k-th equation in a valid order
        dens = rng.choice([0.15, 0.3, 0.6])
        for k, i in enumerate(order):
            r0 = [names[order[j]] for j in range(k) if rng.random() < dens]
            eqs.append([names[i], r0])
        if kind == "cyclic" and n >= 2:
            for _ in range(rng.randint(1, 2)):
                a, bq = rng.sample(range(n), 2)
                lo, hi = min(a, bq), max(a, bq)
                if eqs[hi][0] not in eqs[lo][1]:
                    eqs[lo][1].append(eqs[hi][0])   # an earlier equation reads a later one: a cycle whenever a path lo -> hi exists
                if eqs[lo][0] not in eqs[hi][1]:
                    eqs[hi][1].append(eqs[lo][0])
        if rng.chance(0.85):
            rng.shuffle(eqs)
    elif kind == "repeated":
        pool = names[: max(1, n - rng.randint(1, max(1, n // 2)))]
        for k in range(n):
            lhs = rng.choice(pool)
            r0 = [v for v in pool if v != lhs and rng.random() < 0.25]
            eqs.append([lhs, r0])
    elif kind == "selfref":
        order = list(range(n)); rng.shuffle(order)
        for k, i in enumerate(order):
            r0 = [names[order[j]] for j in range(k) if rng.random() < 0.3]
            eqs.append([names[i], r0])
        eqs[rng.randint(0, n - 1)][1].append(None)  # replaced by its own lhs below
        for e in eqs:
            e[1] = [e[0] if v is None else v for v in e[1]]
        rng.shuffle(eqs)
    out = []
    for lhs, r0 in eqs:
        rl = [v for v in range(n) if rng.random() < 0.15]                # lagged references to LHS names: must be ignored
        rl += [-v - 1 for v in range(n) if rng.random() < 0.15]          # ... and leads of LHS names, likewise
        exo = [v for v in range(3) if rng.random() < 0.3]              # names that are nobody's LHS
        out.append((lhs, sorted(set(r0)), rl, exo))
    return out


def seq_case(ctx: Ctx, batch: Batch | None, eqs, kind):
    case = {"kind": "seq", "eqs": [[e[0], list(e[1]), list(e[2]), list(e[3])] for e in eqs], "tag": kind}
    src = seq_source(eqs)
    m = ir.Sequential.from_string(src)
    humans = [e.human for e in m.equations]
    if len(set(humans)) != len(eqs):
        raise AssertionError("equation texts are not unique")
    idx = {h: i for i, h in enumerate(humans)}
    names = ",".join(str(name_num(s)) for s in m.lhs_names)
    im = m.incidence_matrix
    isseq = bool(m.is_sequential)
    try:
        order = m.sequentialize()
        res = "ok:[" + csv(order) + "]"
    except Exception as e:
        order = None
        res = err_kind(e)
    after = [idx.get(e.human, -1) for e in m.equations]
    reads = lambda e: sorted(set(e[1]) | {1000 + x for x in e[3]})
    state = ";".join(f"{eqs[i][0]}:" + csv(reads(eqs[i])) for i in after) if all(i >= 0 for i in after) else "state-has-unknown-equations"
    valid = "T" if all(i >= 0 for i in after) and seq_valid([eqs[i] for i in after]) else "F"
    reply = f"names={names};im={bits_of(im) if im.size else ''};isseq={'T' if isseq else 'F'};res={res};state={state};valid={valid}"
    req = "seq " + ";".join(tok_text(e) for e in eqs)
    ctx.evaluations += 1
    ctx.count(f"seq:{kind}")
    ctx.count(f"seq:{kind}:{'ok' if order is not None else 'raises'}")
    # decided from the data, not from the generator tag: any model in which two equations share an LHS name
    repeated = len({e[0] for e in eqs}) < len(eqs)
    if repeated:
        ctx.count("seq:models-with-repeated-lhs")
    if batch is not None and not repeated:
        # repeated LHS names are outside the model's claim (known finding sequential-repeated-lhs): oracle only
        batch.add(case, req, reply)
    # ---- oracle (property statement) ----
    # clauses that hold for EVERY model (theorems sequentialize_never_returns_non_permutation, sequentialize_error_state_unchanged):
    # a returned order is a permutation, the equations are then in that order, a raise leaves them untouched -> always site `sequentialize`;
    # only validity / existence of an order are excused for repeated LHS names (known finding)
    site = "sequential-repeated-lhs" if repeated else "sequentialize"
    if kind == "selfref":
        ctx.count("seq:selfref:accepted" if order is not None else "seq:selfref:rejected")
    if order is not None:
        order = [int(i) for i in order]
        if sorted(order) != list(range(len(eqs))):
            ctx.fail("sequentialize", case, f"returned order {order} is not a permutation")
        elif after != ([order[i] for i in range(len(order))] if not isseq else list(range(len(eqs)))):
            ctx.fail("sequentialize", case, f"equations after sequentialize() are {after}, returned order {order}")
        elif not seq_valid([eqs[i] for i in after]):
            ctx.fail(site, case, f"order {order}: an equation reads a zero-shift LHS name that no earlier equation determines")
        else:
            if not bool(m.is_sequential) and not repeated:
                # not literally part of the property statement: reported as a broken tie, not as a violation
                ctx.disagree("is-sequential-after-sequentialize", case, "is_sequential is False", "True after a successful sequentialize()")
            if not isseq:
                ctx.nontriv(("seq-reordered", len(eqs), tuple(order[:6])))
    else:
        if after != list(range(len(eqs))):
            ctx.fail("sequentialize", case, f"sequentialize() raised but the equations are now in order {after}")
        elif seq_order_exists(eqs):
            ctx.fail(site, case, "sequentialize() raised although a valid order exists")
        else:
            ctx.nontriv(("seq-rejected", len(eqs)))


def run_seq(ctx: Ctx, oracle_only=False, scale=1):
    rng = ctx.rng.fork("seq")
    b = None if oracle_only else Batch(ctx, "sequential")
    kinds = [("dag", 6), ("cyclic", 3), ("selfref", 1), ("repeated", 2)]
    for _ in range(ctx.n(250, 4000) * scale):
        kind = rng.weighted(kinds)
        seq_case(ctx, b, gen_seq(rng, kind), kind)
    if b is not None:
        b.flush()


# ---------------------------------------------------------------------------------------
# histories: several calls on one and the same Sequential object
# ---------------------------------------------------------------------------------------

def gen_ops(rng, n):
    ops = []
    for _ in range(rng.randint(2, 5)):
        k = rng.weighted([("r", 4), ("s", 4), ("c", 1)])
        if k == "r":
            p = list(range(n)); rng.shuffle(p)
            if rng.chance(0.15) and n >= 1:      # not a permutation: must be rejected without touching the model
                how = rng.randint(0, 2)
                if how == 0: p[rng.randint(0, n - 1)] = p[rng.randint(0, n - 1)] if n > 1 else n
                elif how == 1: p = p[:-1]
                else: p[rng.randint(0, n - 1)] = n
            elif rng.chance(0.5) and n >= 3:
                # keep some equations in place, move the others (an equation that stays while what it reads moves)
                p = list(range(n)); i, j = rng.sample(range(n), 2); p[i], p[j] = p[j], p[i]
            ops.append(["r", p])
        else:
            ops.append([k])
    if not any(o[0] == "s" for o in ops):
        ops.append(["s"])
    return ops


def seq_state_text(m, eqs, idx):
    """names / incidence matrix / is_sequential / current equation order of the object, and that order as indices"""
    after = [idx.get(e.human, -1) for e in m.equations]
    reads = lambda e: sorted(set(e[1]) | {1000 + x for x in e[3]})
    names = ",".join(str(name_num(s)) for s in m.lhs_names)
    im = m.incidence_matrix
    state = ";".join(f"{eqs[i][0]}:" + csv(reads(eqs[i])) for i in after) if all(i >= 0 for i in after) else "state-has-unknown-equations"
    valid = "T" if all(i >= 0 for i in after) and seq_valid([eqs[i] for i in after]) else "F"
    return f"names={names};im={bits_of(im) if im.size else ''};isseq={'T' if m.is_sequential else 'F'};state={state};valid={valid}", after


def seqops_case(ctx: Ctx, batch: Batch | None, eqs, ops, kind):
    """a history of reorder_equations / sequentialize / copy calls on one object; every sequentialize() is judged by the order oracle
    against the order the equations were in just before that call"""
    case = {"kind": "seqops", "eqs": [[e[0], list(e[1]), list(e[2]), list(e[3])] for e in eqs], "ops": ops, "tag": kind}
    n = len(eqs)
    repeated = len({e[0] for e in eqs}) < n
    if repeated:
        # repeated LHS names (known finding): only the clauses that hold for every model are judged (permutation, state = order applied,
        # a raise leaves the equations untouched); nothing is compared with the Lean model
        batch = None
        ctx.count("seqops:models-with-repeated-lhs")
    m = ir.Sequential.from_string(seq_source(eqs))
    humans = [e.human for e in m.equations]
    idx = {h: i for i, h in enumerate(humans)}
    reads = lambda e: sorted(set(e[1]) | {1000 + x for x in e[3]})
    text, state = seq_state_text(m, eqs, idx)
    segs = [text]
    ctx.evaluations += 1
    ctx.count("seqops:cases")
    for k_op, op in enumerate(ops):
        before = list(state)
        ctx.count(f"seqops:op:{op[0]}")
        if op[0] == "r":
            try:
                m.reorder_equations(list(op[1]))
                res = "ok"
            except Exception as e:
                res = err_kind(e)
        elif op[0] == "c":
            original = m
            m = m.copy()
            res = "ok"
            if [e.human for e in original.equations] != [humans[i] for i in before]:
                ctx.disagree("sequential-histories", case, "copy() changed the original", "original untouched")
        else:
            try:
                order = [int(i) for i in m.sequentialize()]
                res = "ok:[" + csv(order) + "]"
            except Exception as e:
                order = None
                res = err_kind(e)
        text, state = seq_state_text(m, eqs, idx)
        segs.append("res=" + res + ";" + text)
        if op[0] == "s":
            # ---- order oracle, relative to the order just before the call ----
            cur = [eqs[i] for i in before]
            if order is not None:
                if sorted(order) != list(range(n)):
                    ctx.fail("sequentialize", case, f"after {ops}: returned order {order} is not a permutation")
                elif state != [before[i] for i in order]:
                    ctx.fail("sequentialize", case, f"after {ops}: equations were {before}, returned order {order}, equations now {state}")
                elif repeated:
                    pass
                elif not seq_valid([eqs[i] for i in state]):
                    ctx.fail("sequentialize", case, f"after {ops}: sequentialize() returned {order} and left the equations in order {state}, "
                                                    "in which an equation reads a zero-shift LHS name that no earlier equation determines")
                elif order != list(range(n)):
                    ctx.nontriv(("seqops-reordered", n, len(ops), tuple(order[:5])))
            else:
                if state != before:
                    ctx.fail("sequentialize", case, f"after {ops}: sequentialize() raised but the equations moved from {before} to {state}")
                elif not repeated and seq_order_exists(cur):
                    ctx.fail("sequentialize", case, f"after {ops}: sequentialize() raised although a valid order of the equations exists")
                else:
                    ctx.count("seqops:raise-left-order-untouched")
            if any(o[0] == "r" for o in ops[:k_op]) and before != list(range(n)):
                ctx.count("seqops:sequentialize-after-reorder")
        if -1 in state:
            break
    req = "seqops " + ";".join(tok_text(e) for e in eqs) + " | " + " | ".join(
        ("r " + (csv(o[1]) or "-")) if o[0] == "r" else o[0] for o in ops[: len(segs) - 1])
    if batch is not None:
        batch.add(case, req, " | ".join(segs))


def run_seqops(ctx: Ctx, oracle_only=False, scale=1):
    rng = ctx.rng.fork("seqops")
    b = None if oracle_only else Batch(ctx, "sequential-histories")
    for _ in range(ctx.n(250, 3000) * scale):
        kind = rng.weighted([("dag", 6), ("cyclic", 3), ("repeated", 2)])
        eqs = gen_seq(rng, kind)
        if len(eqs) > 9 and rng.chance(0.7):
            eqs = gen_seq(rng, kind)
        seqops_case(ctx, b, eqs, gen_ops(rng, len(eqs)), kind)
    if b is not None:
        b.flush()


# ---------------------------------------------------------------------------------------
# Simultaneous.split_into_blocks (steady incidence matrix path)
# ---------------------------------------------------------------------------------------

def sim_source(n, pattern, shifts):
    lines = ["!variables", "  " + ", ".join(f"v{j}" for j in range(n)), "!equations"]
    for i in range(n):
        terms = []
        for j in range(n):
            if pattern[i][j]:
                s = shifts[i][j]
                terms.append(f"0.{1 + (i + j) % 8}*v{j}" + ("" if s == 0 else "{%+d}" % s))
        lines.append(f"  0 = " + " + ".join(terms + [f"{i + 1}.25"]) + ";")
    return "\n".join(lines) + "\n"


def gen_sim(rng):
    n = rng.randint(2, 9)
    kind = rng.choice(["block", "triangular", "sparse-perm", "dense", "banded"])
    im = gen_matrix(rng, kind, n)
    shifts = [[rng.choice([0, 0, -1, 1, -2]) for _ in range(n)] for _ in range(n)]
    return {"kind": "sim", "n": n, "bits": bits_of(im), "shifts": shifts, "flat": bool(rng.chance(0.5)), "tag": kind}


class _B:
    """same attributes as blazer.Block, for the oracle"""
    def __init__(self, e, q):
        self.eids, self.qids = tuple(e), tuple(q)


def sim_case(ctx: Ctx, batch: Batch | None, case):
    n = case["n"]
    im = np.array([ch == "1" for ch in case["bits"]], dtype=bool).reshape(n, n)
    src = sim_source(n, im, case["shifts"])
    ctx.evaluations += 1
    ctx.count("sim:cases")
    try:
        m = ir.Simultaneous.from_string(src, flat=case["flat"])
        hb = m.split_into_blocks(None)
        # equation index read off the unique constant that ends every generated equation, not off a getter of the model
        got = [(tuple(sorted(int(_TAG.search(h).group(1)) - 1 for h in b.equations)), tuple(sorted(int(q[1:]) for q in b.quantities))) for b in hb]
    except Exception as e:
        ctx.disagree("split-into-blocks", case, f"raised {e!r}", "blocks expected")
        if has_pm(im):
            ctx.fail("split-into-blocks", case, f"split_into_blocks raised {e!r} on an incidence pattern with a perfect matching")
        return
    blocks = [_B(e, q) for e, q in got]
    # split_into_blocks must be blaze on the any-shift incidence pattern: same request as a plain blaze case
    req, reply, _, problems, pre = impl_blaze(im, list(range(n)), list(range(n)))
    got_text = "".join("[" + csv(e) + "/" + csv(q) + "]" for e, q in got)
    if batch is not None:
        batch.add(case, req, reply.split(";B=")[0] + ";B=" + got_text)
    if has_pm(im):
        oracle_blocks(ctx, "split-into-blocks", case, im, list(range(n)), list(range(n)), blocks, None)
        ctx.count("sim:pm")


def run_sim(ctx: Ctx, oracle_only=False, scale=1):
    rng = ctx.rng.fork("sim")
    b = None if oracle_only else Batch(ctx, "split-into-blocks")
    for _ in range(ctx.n(40, 600) * scale):
        sim_case(ctx, b, gen_sim(rng.fork("case")))
    if b is not None:
        b.flush()


# ---------------------------------------------------------------------------------------
# Simultaneous.split_into_blocks on fuller models: measurement equations, parameters, !steady-autovalues, steady plans.
# Everything the oracle uses (which equations are solved, which names are unknown, who involves whom) is read off the
# generated model description here, never from a getter of the implementation.
# ---------------------------------------------------------------------------------------

import re as _re
_TAG = _re.compile(r"\+(\d+)\.25$")


def gen_simw(rng):
    nt = rng.randint(2, 7)
    nm = rng.randint(0, 2)
    npar = rng.randint(1, 3)
    nauto = rng.randint(1, 2) if rng.chance(0.6) else 0
    nswap = rng.randint(1, min(2, npar, nt)) if rng.chance(0.4) else 0
    exo = sorted(rng.sample(range(nt), nswap))           # transition variables exogenized by the steady plan
    endo = sorted(rng.sample(range(npar), nswap))        # parameters endogenized instead
    kind = rng.choice(["block", "triangular", "sparse-perm", "dense", "banded"])
    T = gen_matrix(rng, kind, nt)                          # transition equations x transition unknowns (has a perfect matching)
    M = rand_bool(rng, (nm, nt), 0.4) if nm else np.zeros((0, nt), dtype=bool)
    Y = (rand_bool(rng, (nm, nm), 0.3) | perm_matrix(rng, nm)) if nm else np.zeros((0, 0), dtype=bool)
    if nm == 2 and rng.chance(0.5):
        Y = np.tril(Y) | np.eye(2, dtype=bool)
    case = {
        "kind": "simw", "nt": nt, "nm": nm, "npar": npar, "nauto": nauto, "exo": exo, "endo": endo, "tag": kind,
        "T": bits_of(T), "M": bits_of(M), "Y": bits_of(Y), "flat": bool(rng.chance(0.5)),
        "shifts": [[rng.choice([0, 0, -1, 1, -2]) for _ in range(nt)] for _ in range(nt + nm)],
        # known quantities mentioned on top of the pattern: exogenized variables, parameters that stay parameters
        "extra_exo": [[bool(rng.chance(0.4)) for _ in exo] for _ in range(nt + nm)],
        "extra_par": [[bool(rng.chance(0.3)) for _ in range(npar)] for _ in range(nt)],
        "nonlinear": [bool(rng.chance(0.4)) for _ in range(nt)] if rng.chance(0.5) else [False] * nt,
        "auto": [[bool(rng.chance(0.5)) for _ in range(nt)] for _ in range(nauto)],
    }
    # `dynamic !! steady` equations: the dynamic version of some transition equations involves other quantities than the steady version
    # (drawn last so that the rest of the case does not depend on it)
    bang = [None] * nt
    if rng.chance(0.5):
        for i in rng.sample(range(nt), rng.randint(1, min(2, nt))):
            bang[i] = [bool(rng.chance(0.5)) for _ in range(nt)]
            bang[i][rng.randint(0, nt - 1)] = True
    case["bang"] = bang
    # a plan that makes the steady system NON-square: one more parameter endogenized than variables exogenized, and a variable fixed in
    # level and change (which does not take it out of the unknowns). Outside the C16 statement (square matrices with a perfect matching;
    # recorded under C05 as split-blocks-fully-fixed-quantity): compared with the model stage by stage, never judged by the oracle.
    case["extra_endo"] = None
    free = [j for j in range(npar) if j not in endo]
    if free and rng.chance(0.15):
        case["extra_endo"] = rng.choice(free)
        case["fix"] = rng.randint(0, nt - 1)
    return case


def simw_layout(case):
    """unknown names in the column order of the pattern, the pattern itself, the source text"""
    nt, nm, npar, nauto = case["nt"], case["nm"], case["npar"], case["nauto"]
    unb = lambda b, shape: np.array([ch == "1" for ch in (b if b != "-" else "")], dtype=bool).reshape(shape)
    T, M, Y = unb(case["T"], (nt, nt)), unb(case["M"], (nm, nt)), unb(case["Y"], (nm, nm))
    exo, endo = case["exo"], case["endo"]
    tcols = [f"t{j}" for j in range(nt) if j not in exo] + [f"p{j}" for j in endo]     # transition-block unknowns, qid order
    extra = case.get("extra_endo")
    pcols = sorted([j for j in endo] + ([extra] if extra is not None else []))
    unknowns = [n for n in tcols if n[0] == "t"] + [f"y{j}" for j in range(nm)] + [f"p{j}" for j in pcols]
    col = {name: k for k, name in enumerate(unknowns)}
    im = np.zeros((nt + nm, len(unknowns)), dtype=bool)
    shifted = lambda name, s: name + ("" if s == 0 or name[0] != "t" else "[%+d]" % s)
    teqs, meqs, steady_texts = [], [], []
    bang = case.get("bang") or [None] * nt
    for i in range(nt + nm):
        terms = []
        row = T[i] if i < nt else M[i - nt]
        for j in range(nt):
            if row[j]:
                name = tcols[j]
                im[i, col[name]] = True
                coef = f"0.{1 + (i + j) % 8}"
                if i < nt and case["nonlinear"][i] and name[0] == "t" and not terms:
                    terms.append(f"{coef}*{name}*{name}")
                else:
                    terms.append(f"{coef}*{shifted(name, case['shifts'][i][j])}")
        if i >= nt:
            for j in range(nm):
                if Y[i - nt, j]:
                    im[i, col[f"y{j}"]] = True
                    terms.append(f"0.{2 + j}*y{j}")
        for k, j in enumerate(exo):
            if case["extra_exo"][i][k]:
                terms.append(f"0.3*t{j}")
        if i < nt:
            for j in range(npar):
                if j not in endo and case["extra_par"][i][j]:
                    terms.append(f"p{j}")
                    if j == extra:
                        im[i, col[f"p{j}"]] = True
        steady = "0 = " + " + ".join(terms + [f"{i + 1}.25"])
        steady_texts.append(steady)
        if i < nt and bang[i]:
            # dynamic version: other variables (always all transition variables by name, so it is a legal equation), its own constant
            dyn = [f"0.7*t{j}" + ("" if (i + j) % 2 else "[-1]") for j in range(nt) if bang[i][j]]
            teqs.append("  0 = " + " + ".join(dyn + [f"{900 + i + 1}.25"]) + " !! " + steady + ";")
        else:
            (teqs if i < nt else meqs).append("  " + steady + ";")
    aeqs = []
    for k in range(nauto):
        terms = [f"t{j}" for j in range(nt) if case["auto"][k][j]] or ["t0"]
        aeqs.append(f"  s{k} = " + " + ".join(terms + [f"{nt + nm + k + 1}.25"]) + ";")
    lines = ["!transition-variables", "  " + ", ".join(f"t{j}" for j in range(nt)),
             "!parameters", "  " + ", ".join([f"p{j}" for j in range(npar)] + [f"s{k}" for k in range(nauto)]),
             "!transition-equations"] + teqs
    if nm:
        lines += ["!measurement-variables", "  " + ", ".join(f"y{j}" for j in range(nm)), "!measurement-equations"] + meqs
    if nauto:
        lines += ["!steady-autovalues"] + aeqs
    return unknowns, im, "\n".join(lines) + "\n", steady_texts


def simw_blocks_by_name(got_names, unknowns, n):
    """HumanBlock-like (equations, quantities) pairs -> index blocks by my own identification (equation = the constant ending its steady text,
    quantity = its name); second value: why the blocks fail clause (i) by name, or None"""
    col = {name: k for k, name in enumerate(unknowns)}
    blocks, bad = [], None
    for eqs_h, qs in got_names:
        rows = []
        for h in eqs_h:
            t = _TAG.search(h)
            r = int(t.group(1)) - 1 if t else -1
            if not (0 <= r < n):
                bad = bad or f"(i) block contains the equation '{h}', which is not one of the {n} steady transition/measurement equations being solved"
            rows.append(r)
        for q in qs:
            if q not in col:
                bad = bad or f"(i) block contains the quantity '{q}', which is not one of the unknowns {unknowns}"
        blocks.append(_B(sorted(rows), sorted(col.get(q, -1) for q in qs)))
    return blocks, bad


def simw_second_way(ctx: Ctx, case, src, unknowns, im, n, got_names):
    """the other public way to the blocks: steady(return_info=True)["blocks"] (needs a successful numerical solve: flat models, when it
    converges); its blocks are judged by the same clauses and compared with split_into_blocks"""
    import contextlib, io
    try:
        m2 = ir.Simultaneous.from_string(src, flat=True)
        values = {f"t{j}": 1.0 for j in range(case["nt"])} | {f"y{j}": 1.0 for j in range(case["nm"])} | {f"p{j}": 0.5 for j in range(case["npar"])}
        m2.assign(**values)
        kwargs = {}
        if case["exo"]:
            plan2 = ir.SteadyPlan(m2)
            plan2.exogenize(tuple(f"t{j}" for j in case["exo"]))
            plan2.endogenize(tuple(f"p{j}" for j in case["endo"]))
            kwargs["plan"] = plan2
        with contextlib.redirect_stdout(io.StringIO()):
            info = m2.steady(return_info=True, **kwargs)
        got2 = [(tuple(b["equations"]), tuple(b["quantities"])) for b in info["blocks"]]
    except Exception:
        ctx.count("simw:steady()-did-not-return-blocks")
        return
    ctx.count("simw:steady()-blocks-judged")
    blocks2, bad2 = simw_blocks_by_name(got2, unknowns, n)
    if bad2:
        ctx.fail("split-into-blocks", case, "steady(return_info=True)['blocks']: " + bad2 + f"; blocks: {got2}")
        return
    oracle_blocks(ctx, "split-into-blocks", case, im, list(range(n)), list(range(n)), blocks2, None)
    if got_names is not None and got2 != got_names:
        ctx.disagree("blocks-two-ways", case, f"split_into_blocks: {got_names}", f"steady(return_info=True)['blocks']: {got2}")


def simw_nonsquare_case(ctx: Ctx, batch: Batch | None, case):
    """more unknowns than equations (see gen_simw): what split_into_blocks does there is compared with the model (unknowns, steady incidence
    matrix, blocks or the raise), nothing is demanded of it"""
    unknowns, im, src, steady_texts = simw_layout(case)
    neq = im.shape[0]
    ctx.evaluations += 1
    ctx.count("simw:nonsquare-plan")
    try:
        from irispie.simultaneous import _steady
        m = ir.Simultaneous.from_string(src, flat=case["flat"])
        plan = ir.SteadyPlan(m)
        if case["exo"]:
            plan.exogenize(tuple(f"t{j}" for j in case["exo"]))
        plan.endogenize(tuple(f"p{j}" for j in sorted(case["endo"] + [case["extra_endo"]])))
        plan.fix((f"t{case['fix']}", ))
        name_to_qid = m.create_name_to_qid()
        wrt = _steady._resolve_steady_wrt(m, plan, is_flat=m.resolve_flags().is_flat)
        sim = _steady._calculate_steady_incidence_matrix(wrt.equations, wrt.qids)
    except Exception as e:
        ctx.disagree("split-into-blocks-nonsquare-plan", case, f"setting up raised {e!r}", "a plan and its unknowns")
        return
    try:
        hb = m.split_into_blocks(plan)
        blocks, bad = simw_blocks_by_name([(tuple(b.equations), tuple(b.quantities)) for b in hb], unknowns, neq)
        btext = "unmappable: " + bad if bad else "".join(
            "[" + csv(b.eids) + "/" + csv(sorted(name_to_qid[unknowns[c]] for c in b.qids)) + "]" for b in blocks)
        ctx.count("simw:nonsquare-plan:returns")
    except Exception as e:
        btext = err_kind(e)
        ctx.count("simw:nonsquare-plan:raises")
    req, _, _, _, _ = impl_blaze(im, list(range(neq)), list(range(im.shape[1])))
    tokens = [sorted({name_to_qid[x] for x in _re.findall(r"\b([tpys]\d+)\b", l)}) for l in steady_texts]
    can_exo = [name_to_qid[f"t{j}"] for j in range(case["nt"])] + [name_to_qid[f"y{j}"] for j in range(case["nm"])]
    exo_q = [name_to_qid[f"t{j}"] for j in case["exo"]]
    endo_q = [name_to_qid[f"p{j}"] for j in sorted(case["endo"] + [case["extra_endo"]])]
    sreq = ("split " + ";".join(csv(t) or "-" for t in tokens) + " | " + csv(range(neq)) + " | " + csv(can_exo) + " | " + (csv(exo_q) or "-")
            + " | " + csv(endo_q) + " | " + " | ".join(x.strip() for x in req.split("|")[-2:]))
    sreply = "W=" + csv(wrt.qids) + ";M=" + "".join("1" if x else "0" for x in np.asarray(sim, dtype=bool).ravel()) + ";B=" + btext
    if batch is not None:
        batch.add(dict(case, stage="split-nonsquare"), sreq, sreply)


def simw_case(ctx: Ctx, batch: Batch | None, case):
    if case.get("extra_endo") is not None:
        return simw_nonsquare_case(ctx, batch, case)
    unknowns, im, src, steady_texts = simw_layout(case)
    n = len(unknowns)
    if any(case.get("bang") or []):
        ctx.count("simw:with-dynamic!!steady-equations")
    ctx.evaluations += 1
    ctx.count("simw:cases")
    for key in ("nm", "nauto"):
        if case[key]:
            ctx.count(f"simw:with-{key}")
    if case["exo"]:
        ctx.count("simw:with-steady-plan")
    try:
        m = ir.Simultaneous.from_string(src, flat=case["flat"])
        plan = None
        if case["exo"]:
            plan = ir.SteadyPlan(m)
            plan.exogenize(tuple(f"t{j}" for j in case["exo"]))
            plan.endogenize(tuple(f"p{j}" for j in case["endo"]))
        hb = m.split_into_blocks(plan)
        got_names = [(tuple(b.equations), tuple(b.quantities)) for b in hb]
    except Exception as e:
        ctx.disagree("split-into-blocks-full-models", case, f"raised {e!r}", "blocks expected")
        ctx.fail("split-into-blocks", case, f"split_into_blocks raised {e!r} on a model whose solved steady system is square with a perfect matching")
        return
    # (i) by name: the blocks must hold exactly the solved steady (transition + measurement) equations and exactly the unknowns
    blocks, bad = simw_blocks_by_name(got_names, unknowns, n)
    if bad:
        ctx.fail("split-into-blocks", case, bad + f"; blocks: {got_names}")
        return
    if not has_pm(im):
        raise AssertionError("generated steady pattern has no perfect matching")
    oracle_blocks(ctx, "split-into-blocks", case, im, list(range(n)), list(range(n)), blocks, None)
    ctx.nontriv(("simw", n, case["nm"], case["nauto"], len(case["exo"]), tuple(sorted(len(b.eids) for b in blocks if len(b.eids) > 1))))
    if case["flat"] and not any(case["nonlinear"]):
        # linear flat models only: one Newton step; a solve that does not converge costs seconds
        simw_second_way(ctx, case, src, unknowns, im, n, got_names)
    # correspondence: split_into_blocks = blaze on the pattern of the solved equations x unknowns (rows: transition then measurement
    # equations in source order; columns: unknowns by qid, i.e. variables in declaration order, then endogenized parameters)
    req, reply, _, problems, pre = impl_blaze(im, list(range(n)), list(range(n)))
    got_text = "".join("[" + csv(b.eids) + "/" + csv(b.qids) + "]" for b in blocks)
    if batch is not None:
        batch.add(case, req, reply.split(";B=")[0] + ";B=" + got_text)
    # staged correspondence with the model of split_into_blocks itself (unknowns of the plan, steady incidence matrix, blocks in qids):
    # request from my own reading of the generated equations (names mentioned, whatever their shift) and of the plan
    try:
        from irispie.simultaneous import _steady
        name_to_qid = m.create_name_to_qid()
        tokens = [sorted({name_to_qid[x] for x in _re.findall(r"\b([tpys]\d+)\b", l)}) for l in steady_texts]
        can_exo = [name_to_qid[f"t{j}"] for j in range(case["nt"])] + [name_to_qid[f"y{j}"] for j in range(case["nm"])]
        exo_q = [name_to_qid[f"t{j}"] for j in case["exo"]]
        endo_q = [name_to_qid[f"p{j}"] for j in case["endo"]]
        rp_cp = " | ".join(x.strip() for x in req.split("|")[-2:])
        sreq = ("split " + ";".join(csv(t) or "-" for t in tokens) + " | " + csv(range(n)) + " | " + csv(can_exo) + " | " + (csv(exo_q) or "-")
                + " | " + (csv(endo_q) or "-") + " | " + rp_cp)
        wrt = _steady._resolve_steady_wrt(m, plan, is_flat=m.resolve_flags().is_flat)
        sim = _steady._calculate_steady_incidence_matrix(wrt.equations, wrt.qids)
        idb = "".join("[" + csv(b.eids) + "/" + csv(sorted(name_to_qid[unknowns[c]] for c in b.qids)) + "]" for b in blocks)
        sreply = "W=" + csv(wrt.qids) + ";M=" + ("".join("1" if x else "0" for x in np.asarray(sim, dtype=bool).ravel())) + ";B=" + idb
        if batch is not None:
            batch.add(dict(case, stage="split"), sreq, sreply)
            ctx.count("simw:split-op")
    except Exception as e:
        ctx.disagree("split-into-blocks-full-models", case, f"staging raised {e!r}", "W/M/B stages")


def run_simw(ctx: Ctx, oracle_only=False, scale=1):
    rng = ctx.rng.fork("simw")
    b = None if oracle_only else Batch(ctx, "split-into-blocks-full-models")
    for _ in range(ctx.n(60, 800) * scale):
        simw_case(ctx, b, gen_simw(rng.fork("case")))
    if b is not None:
        b.flush()


# ---------------------------------------------------------------------------------------
# corpus / entry points
# ---------------------------------------------------------------------------------------

def replay_case(ctx: Ctx, case, batches):
    kind = case.get("kind")
    if kind == "blaze":
        shape = tuple(case["shape"])
        bits = case["bits"]
        im = np.array([ch == "1" for ch in (bits if bits != "-" else "")], dtype=bool).reshape(shape)
        blaze_case(ctx, batches.get("blaze"), im, case["eids"], case["qids"], case.get("tag", "replay"), dtype=case.get("dtype", "bool"))
    elif kind == "seq":
        eqs = [(e[0], e[1], e[2], e[3]) for e in case["eqs"]]
        seq_case(ctx, batches.get("seq"), eqs, case.get("tag", "dag"))
    elif kind == "sim":
        sim_case(ctx, batches.get("sim"), case)
    elif kind == "simw":
        simw_case(ctx, batches.get("sim"), case)
    elif kind == "seqops":
        eqs = [(e[0], e[1], e[2], e[3]) for e in case["eqs"]]
        seqops_case(ctx, batches.get("seq"), eqs, case["ops"], case.get("tag", "dag"))


def run_corpus(ctx: Ctx):
    d = os.path.join(VERIF, "corpus", "C16")
    if not os.path.isdir(d):
        return
    batches = {"blaze": Batch(ctx, "corpus-blaze"), "seq": Batch(ctx, "corpus-sequential"), "sim": Batch(ctx, "corpus-split-into-blocks")}
    for f in sorted(os.listdir(d)):
        if f.endswith(".json"):
            payload = json.load(open(os.path.join(d, f)))
            replay_case(ctx, payload.get("case", payload), batches)
            ctx.count("corpus")
    for b in batches.values():
        b.flush()


def run(ctx: Ctx):
    ctx.rule = ("blaze: every boolean n-by-n matrix for n<=3 (quick) / n<=4 (thorough) under two labellings, plus sampled block-structured, "
                "triangular, dense, banded, sparse-with-a-permutation matrices 5<=n<=40 and malformed ones (no perfect matching, non-square); "
                "distinct_nontrivial counts distinct (n, sizes of the non-singleton blocks, #first, #last) among matrices with a perfect matching "
                "whose inner block is non-empty, distinct re-ordered Sequential models (size, order prefix) and rejected sizes")
    run_corpus(ctx)
    run_hpm(ctx)
    run_blaze(ctx)
    run_seq(ctx)
    run_seqops(ctx)
    run_sim(ctx)
    run_simw(ctx)
    ctx.exhaustive = True   # the small scope (all matrices up to exhaustive_n_max) is enumerated completely; larger sizes are sampled


def search(ctx: Ctx, seeds):
    """failing-input search on the real code when a tie broke: the oracles alone, disagreements first, bigger budget"""
    for c in seeds:
        if isinstance(c, dict) and c.get("kind") in ("blaze", "seq", "sim", "simw", "seqops"):
            try:
                replay_case(ctx, c, {})
            except Exception:
                pass
    ctx.tier = "quick"
    run_blaze(ctx, oracle_only=True, scale=4)
    run_seq(ctx, oracle_only=True, scale=6)
    run_seqops(ctx, oracle_only=True, scale=4)
    run_sim(ctx, oracle_only=True, scale=3)
    run_simw(ctx, oracle_only=True, scale=3)


def replay(ctx: Ctx, payload):
    case = payload.get("case", payload)
    batches = {"blaze": Batch(ctx, "replay"), "seq": Batch(ctx, "replay"), "sim": Batch(ctx, "replay")}
    replay_case(ctx, case, batches)
    for b in batches.values():
        b.flush()
