/-
Executable model (exact rationals, no Mathlib) of irispie's Kalman filter / smoother / likelihood:
`fords/kalmans.py` `predict`, `update`, `smooth`, `one_step_back`, `Cache.calculate_likelihood`,
`calculate_likelihood_contributions`, `_calculate_variance_scale`, `estimate_unknown_init`,
`correct_for_unknown_init`, and the per-period observed-row selection of
`simultaneous/_kalmans.py` (`_generate_period_system`, `_generate_period_data`).

The transcription keeps the operation structure of the Python (same products, same association,
the same `symmetrize` calls, the same `None` branches of the backward pass).  Everything is rational
arithmetic except `log det F_t`: the model returns `det Fi_t` (as the code computes it) and the
harness takes the logarithm.  `np.linalg.inv` is `QMat.inverse` (= `solveChecked`: the result is
re-checked `F * Fi = I` exactly), `np.linalg.lstsq` of the non-singular GLS system is `solveChecked`.
Partial operations are explicit: a singular `F_t` is `Err.singular`, inconsistent shapes are `Err.shape`,
a zero variance scale is `Err.zeroScale` (numpy would give inf/nan).
-/
import IrisVerif.Model.QMat

namespace IrisVerif.Kalman
open IrisVerif

inductive Err
  | singular | shape | zeroScale
  deriving Repr, DecidableEq, Inhabited

abbrev R := Except Err

/-- `covariances.symmetrize`: `(X + X.T) / 2` -/
def symmetrize (x : QMat) : QMat := QMat.smul (1/2) (x + x.transpose)

/-- time-invariant system of the triangular state: `a_t = T a_{t-1} + K + P u_t`, `y_t = Z a_t + D + H w_t` -/
structure Sys where
  T : QMat     -- n × n
  P : QMat     -- n × nu
  K : QMat     -- n × 1
  Z : QMat     -- ny × n   (all measurement rows; the observed ones are selected per period)
  H : QMat     -- ny × nw
  D : QMat     -- ny × 1
  deriving Repr, Inhabited

/-- what `_generate_period_system` / `_generate_period_data` deliver for one period -/
structure PeriodIn where
  obs : List Nat     -- positions of the observed measurement rows (`inx_y`), increasing
  y : QMat           -- observed values, `obs.length × 1`
  stdU : QMat        -- nu × 1   (time-varying std of transition shocks)
  stdW : QMat        -- nw × 1
  u0 : QMat          -- nu × 1   (means of the shocks, zero unless shocks_from_data)
  w0 : QMat          -- nw × 1
  deriving Repr, Inhabited

/-- `np.diag(std**2)` -/
def covOfStd (s : QMat) : QMat := QMat.ofFn s.rows s.rows (fun i j => if i = j then s.get i 0 * s.get i 0 else 0)

/-- everything `predict` keeps in `Cache` for one period (plus the updated moments) -/
structure PeriodCache where
  numObs : Nat
  Z : QMat
  H : QMat
  D : QMat
  y : QMat
  u0 : QMat
  w0 : QMat
  a0 : QMat
  y0 : QMat
  pe : QMat
  Q0 : QMat
  F : QMat
  Fi : QMat
  ZtFi : QMat
  G : QMat
  Q1 : QMat
  a1 : QMat
  PcovU : QMat
  HcovW : QMat
  deriving Repr, Inhabited

def shapesOk (s : Sys) (a Q : QMat) : Bool :=
  let n := s.T.rows
  s.T.cols == n && s.P.rows == n && s.K.rows == n && s.K.cols == 1 && s.Z.cols == n &&
  s.H.rows == s.Z.rows && s.D.rows == s.Z.rows && s.D.cols == 1 &&
  a.rows == n && a.cols == 1 && Q.rows == n && Q.cols == n

def periodOk (s : Sys) (p : PeriodIn) : Bool :=
  p.obs.all (· < s.Z.rows) && p.y.rows == p.obs.length && p.y.cols == 1 &&
  p.stdU.rows == s.P.cols && p.stdW.rows == s.H.cols &&
  p.u0.rows == s.P.cols && p.u0.cols == 1 && p.w0.rows == s.H.cols && p.w0.cols == 1

/-- one pass of the loop body of `predict` (prediction and updating step of period `t`) -/
def predictStep (s : Sys) (a1p Q1p : QMat) (p : PeriodIn) : R PeriodCache := do
  if !periodOk s p then throw .shape
  let Z := s.Z.selectRows p.obs
  let H := s.H.selectRows p.obs
  let D := s.D.selectRows p.obs
  let covU := covOfStd p.stdU
  let covW := covOfStd p.stdW
  -- MSE prediction step
  let Pu0 := s.P * p.u0
  let PcovU := s.P * covU
  let PcovUPt := PcovU * s.P.transpose
  let Q0 := symmetrize (s.T * Q1p * s.T.transpose + PcovUPt)
  let HcovW := H * covW
  let F := symmetrize (Z * Q0 * Z.transpose + HcovW * H.transpose)
  let Fi ← match QMat.inverse F with
    | some x => pure (symmetrize x)
    | none => throw Err.singular
  -- median prediction step
  let a0 := s.T * a1p + s.K + Pu0
  let y0 := Z * a0 + D + H * p.w0
  -- MSE updating step
  let ZtFi := Z.transpose * Fi
  let G := Q0 * ZtFi
  let Q1 := symmetrize (Q0 - G * Z * Q0)
  -- median updating step
  let pe := p.y - y0
  let a1 := a0 + G * pe
  pure { numObs := p.obs.length, Z, H, D, y := p.y, u0 := p.u0, w0 := p.w0, a0, y0, pe, Q0, F, Fi, ZtFi, G, Q1, a1,
         PcovU, HcovW }

/-- `predict`: the forward loop -/
def predict (s : Sys) (a Q : QMat) : List PeriodIn → R (List PeriodCache)
  | [] => pure []
  | p :: rest => do
    let c ← predictStep s a Q p
    let cs ← predict s c.a1 c.Q1 rest
    pure (c :: cs)

/-- `cache.last_period_of_observations` (−1 when no period has observations) -/
def lastObs (cs : List PeriodCache) : Int :=
  (cs.zipIdx.foldl (fun (acc : Int) (ct : PeriodCache × Nat) => if ct.1.numObs > 0 then (ct.2 : Int) else acc) (-1))

/-- result of `one_step_back` for one period -/
structure Back where
  a : QMat
  u : QMat
  w : QMat
  Q : QMat
  Nr : Option (QMat × QMat)
  deriving Repr, Inhabited

/-- `one_step_back(t, cache, N, r)`; `active` is `t <= cache.last_period_of_observations`.
`all_T_G_prev[t] = T @ G_t` and `all_L[t] = T - T_G_prev @ Z_t` are formed here (the code forms them at `t+1`;
`T` is time-invariant in `_generate_period_system`). -/
def oneStepBack (s : Sys) (c : PeriodCache) (active : Bool) (Nr : Option (QMat × QMat)) : Back :=
  if !active then { a := c.a0, u := c.u0, w := c.w0, Q := c.Q0, Nr := Nr } else
  let TG := s.T * c.G
  let L := s.T - TG * c.Z
  let Fipe := c.Fi * c.pe
  let ZtFipe := c.ZtFi * c.pe
  let ZtFiZ := c.ZtFi * c.Z
  let N' := match Nr with
    | none => ZtFiZ
    | some (N, _) => ZtFiZ + L.transpose * N * L
  let Qk := symmetrize (c.Q0 - c.Q0 * N' * c.Q0)
  let (wk, r') := match Nr with
    | none => (c.w0 + c.HcovW.transpose * Fipe, ZtFipe)
    | some (_, r) => (c.w0 + c.HcovW.transpose * (Fipe - TG.transpose * r), ZtFipe + L.transpose * r)
  { a := c.a0 + c.Q0 * r', u := c.u0 + c.PcovU.transpose * r', w := wk, Q := Qk, Nr := some (N', r') }

/-- `update`: `one_step_back(t, cache)` with `N = r = None` for every period -/
def update (s : Sys) (cs : List PeriodCache) : List Back :=
  let lo := lastObs cs
  cs.zipIdx.map (fun ct => oneStepBack s ct.1 (decide ((ct.2 : Int) ≤ lo)) none)

/-- backward pass over periods `t, t+1, …` (the head of the list is period `t`) -/
def smoothFrom (s : Sys) (lo : Int) : Nat → List PeriodCache → List Back × Option (QMat × QMat)
  | _, [] => ([], none)
  | t, c :: rest =>
    let (bs, st) := smoothFrom s lo (t + 1) rest
    let b := oneStepBack s c (decide ((t : Int) ≤ lo)) st
    (b :: bs, b.Nr)

/-- `smooth`: `for t in reversed(range(num_periods))` threading `N`, `r` -/
def smooth (s : Sys) (cs : List PeriodCache) : List Back := (smoothFrom s (lastObs cs) 0 cs).1

/-! ### likelihood -/

def quad (pe Fi : QMat) : Rat := (pe.transpose * Fi * pe).get 0 0

structure Lik where
  numObs : List Nat
  detFi : List Rat          -- `det(Fi_t)`; `log_det_F_t = -log det(Fi_t)` is taken by the harness
  peFiPe : List Rat
  sumNumObs : Nat
  sumPeFiPe : Rat           -- after `_calculate_variance_scale`
  varScale : Rat
  logScaleCount : Nat       -- the total has the extra term `logScaleCount * log(varScale)` (0 unless rescaled)
  deriving Repr, Inhabited

/-- `Cache.calculate_likelihood(rescale_variance)`; the value is
`(sumNumObs*log(2π) + Σ_t -log detFi_t + logScaleCount*log(varScale) + sumPeFiPe) / 2` -/
def likelihood (cs : List PeriodCache) (rescale : Bool) : R Lik := do
  let numObs := cs.map (·.numObs)
  let detFi := cs.map (fun c => c.Fi.det)
  let peFiPe := cs.map (fun c => quad c.pe c.Fi)
  let n := numObs.foldl (· + ·) 0
  let q := peFiPe.foldl (· + ·) 0
  if !rescale then
    pure { numObs, detFi, peFiPe, sumNumObs := n, sumPeFiPe := q, varScale := 1, logScaleCount := 0 }
  else if n = 0 then
    pure { numObs, detFi, peFiPe, sumNumObs := n, sumPeFiPe := 0, varScale := 1, logScaleCount := 0 }
  else
    let vs := q / (n : Rat)
    if vs = 0 then throw .zeroScale
    pure { numObs, detFi, peFiPe, sumNumObs := n, sumPeFiPe := q / vs, varScale := vs, logScaleCount := n }

/-- rational part of one likelihood contribution (`calculate_likelihood_contributions`, which runs after
`calculate_likelihood` and uses its `var_scale`): the contribution of period `t` is
`(-log detFi_t + numObs_t*log(varScale) + contribRat_t.1 + contribRat_t.2 * log(2π)) / 2` with
`contribRat_t = (peFiPe_t / varScale, numObs_t)`, and exactly `0` when `numObs_t = 0` -/
def contribRat (varScale : Rat) (c : PeriodCache) : Option (Rat × Nat) :=
  if c.numObs = 0 then none else some (quad c.pe c.Fi / varScale, c.numObs)

/-! ### unknown (fixed) initial condition: `estimate_unknown_init`, `correct_for_unknown_init` -/

/-- `all_Xi`: `Xi_0 = T Xi_init`, `Xi_t = (T - T G_{t-1} Z_{t-1}) Xi_{t-1}` -/
def xiPath (s : Sys) (xi0 : QMat) (cs : List PeriodCache) : List QMat :=
  let rec go (prev : Option PeriodCache) (xi : QMat) : List PeriodCache → List QMat
    | [] => []
    | c :: rest =>
      let x := match prev with
        | none => s.T * xi
        | some p => (s.T - s.T * p.G * p.Z) * xi
      x :: go (some c) x rest
  go none xi0 cs

/-- GLS estimate `delta` of the unknown initial condition; `lstsq` of the (non-singular) normal equations -/
def estimateUnknownInit (s : Sys) (xi0 : QMat) (cs : List PeriodCache) : R (QMat × List QMat × List QMat) := do
  let xis := xiPath s xi0 cs
  let ms := (cs.zip xis).map (fun cx => cx.1.Z * cx.2)
  let k := xi0.cols
  let mfm := ((cs.zip ms).foldl (fun acc cm => acc + (cm.2.transpose * cm.1.Fi) * cm.2) (QMat.zero k k))
  let mfp := ((cs.zip ms).foldl (fun acc cm => acc + (cm.2.transpose * cm.1.Fi) * cm.1.pe) (QMat.zero k 1))
  match QMat.solveChecked (symmetrize mfm) mfp with
  | some d => pure (d, xis, ms)
  | none => throw .singular

/-- `correct_for_unknown_init`: `a0 += Xi δ`, `y0 += M δ`, `pe -= M δ` -/
def correctForUnknownInit (delta : QMat) (xis ms : List QMat) (cs : List PeriodCache) : List PeriodCache :=
  (cs.zip (xis.zip ms)).map (fun c =>
    let md := c.2.2 * delta
    { c.1 with a0 := c.1.a0 + c.2.1 * delta, y0 := c.1.y0 + md, pe := c.1.pe - md })

/-! ### initial condition of a stationary system (`initializers._initialize_med`, Lyapunov certificate) -/

/-- `(I - T)⁻¹ K` -/
def initMed (s : Sys) : R QMat :=
  match QMat.solveChecked (QMat.identity s.T.rows - s.T) s.K with
  | some x => pure x
  | none => throw .singular

/-- residual of the discrete Lyapunov equation `Q = T Q Tᵀ + P Σ Pᵀ` (certificate for the library's `init_mse`) -/
def lyapResidual (s : Sys) (covU Q : QMat) : QMat := Q - (s.T * Q * s.T.transpose + s.P * covU * s.P.transpose)

/-! ### the per-variant loop of `kalman_filter` with variance rescaling

`kalman_filter` loops over the parameter variants; each variant is filtered on its own solution, initial moments, stds and data,
its MSEs are rescaled by ITS OWN variance scale (`output_store_v.rescale_stds(cache.var_scale)`: std ↦ std·√var_scale, i.e.
variance ↦ var_scale·variance) and only then appended to the output.  `rnd` is the hand-over rounding of the driver (identity for
the exact model). -/

/-- `predict` with the state handed to the next period passed through `rnd` -/
def predictWith (rnd : QMat → QMat) (s : Sys) (a Q : QMat) : List PeriodIn → R (List PeriodCache)
  | [] => pure []
  | p :: rest => do
    let c ← predictStep s a Q p
    let cs ← predictWith rnd s (rnd c.a1) (rnd c.Q1) rest
    pure (c :: cs)

/-- `smoothFrom` with `N`, `r` handed to the previous period passed through `rnd` -/
def smoothFromWith (rnd : QMat → QMat) (s : Sys) (lo : Int) : Nat → List PeriodCache → List Back × Option (QMat × QMat)
  | _, [] => ([], none)
  | t, c :: rest =>
    let (bs, st) := smoothFromWith rnd s lo (t + 1) rest
    let b := oneStepBack s c (decide ((t : Int) ≤ lo)) (st.map (fun nr => (rnd nr.1, rnd nr.2)))
    (b :: bs, b.Nr)

structure VariantIn where
  sys : Sys
  a : QMat
  Q : QMat
  periods : List PeriodIn
  deriving Repr, Inhabited

structure VariantOut where
  caches : List PeriodCache
  back : List Back
  lik : Lik
  predictVar : List QMat     -- reported (rescaled) prediction MSEs
  updateVar : List QMat
  smoothVar : List QMat
  deriving Repr, Inhabited

/-- `rescale_stds` on the level of variances -/
def scaleMse (vs : Rat) (q : QMat) : QMat := QMat.smul vs q

/-- one pass of the variant loop -/
def runVariant (rnd : QMat → QMat) (rescale : Bool) (v : VariantIn) : R VariantOut := do
  if !shapesOk v.sys v.a v.Q then throw .shape
  let cs ← predictWith rnd v.sys v.a v.Q v.periods
  let lk ← likelihood cs rescale
  let sb := (smoothFromWith rnd v.sys (lastObs cs) 0 cs).1
  pure { caches := cs, back := sb, lik := lk,
         predictVar := cs.map (fun c => scaleMse lk.varScale c.Q0),
         updateVar := cs.map (fun c => scaleMse lk.varScale c.Q1),
         smoothVar := sb.map (fun b => scaleMse lk.varScale b.Q) }

/-- the variant loop: variants in order, each on its own -/
def filterVariants (rnd : QMat → QMat) (rescale : Bool) : List VariantIn → R (List VariantOut)
  | [] => pure []
  | v :: rest => do
    let o ← runVariant rnd rescale v
    let os ← filterVariants rnd rescale rest
    pure (o :: os)

/-- the measurement block of the simulator with its mode flag (`_simulate_measurement(deviation=…)`) -/
def simulateMeasurement (dev : Bool) (c : PeriodCache) (b : Back) : QMat :=
  if dev then c.Z * b.a + c.H * b.w else c.Z * b.a + c.H * b.w + c.D

/-! ### the identities of C08, evaluated exactly on the model's own output -/

/-- `Z a₂ + H w₂ + D = y` on the observed rows of one period -/
def measurementHolds (c : PeriodCache) (b : Back) : Bool := QMat.eqv (c.Z * b.a + c.H * b.w + c.D) c.y

/-- `a₂(t) = T a₂(t-1) + K + P u₂(t)` -/
def transitionHolds (s : Sys) (bprev b : Back) : Bool := QMat.eqv b.a (s.T * bprev.a + s.K + s.P * b.u)

def allMeasurement (cs : List PeriodCache) (bs : List Back) : Bool := (cs.zip bs).all (fun cb => measurementHolds cb.1 cb.2)

def allTransition (s : Sys) : List Back → Bool
  | b0 :: b1 :: rest => transitionHolds s b0 b1 && allTransition s (b1 :: rest)
  | _ => true

/-- re-simulation `x_t = T x_{t-1} + K + P u_t` from `x0` -/
def simulate (s : Sys) (x0 : QMat) : List QMat → List QMat
  | [] => []
  | u :: us => let x := s.T * x0 + s.K + s.P * u; x :: simulate s x us

end IrisVerif.Kalman
