"""
C20 -- Sequential and RedVAR models: operation histories with behavioural oracles (no Lean model of their object layout).

Sequential: assign (all variants), assign through a temporary view (one variant), reorder_equations, sequentialize,
set_description, alter_num_variants, copy, deepcopy / dill / save+load round trips, persistent views.
RedVAR: estimate (random data, span, dof_correction, omit_missing, num_variants), alter_num_variants, copy,
pickle / deepcopy / dill / save+load round trips, persistent views.

Oracles after every op (public API only): the observables of every model of another copy family are unchanged (bit
level); a fresh copy / round trip has the observables of its source (RedVAR: system matrices, eigenvalues, stability,
mean, autocovariances, simulation, residuals returned by a re-estimate; Sequential: parameters, description, equation
order, simulation); object-graph walk: no mutable object reachable from two models of different families, EXCEPT objects
that no public operation can mutate (RedVAR: the invariant, which `RedVAR.copy` shares by design, and the cached
`_companion_T` array, which is only ever rebound, and the immutable Period objects of `fitted_periods`) -- these are counted and listed in the evidence, and the
mutate-and-observe oracle is what decides that sharing them is harmless.
"""
from __future__ import annotations

import copy as _copy
import hashlib
import pickle

import numpy as np

import irispie as ir

from .common import Ctx


def _H():
    from . import c20
    return c20


def _digest(*arrays) -> str:
    h = hashlib.sha256()
    for a in arrays:
        _H().canon_bytes(h, a)
    return h.hexdigest()[:16]


def _db_digest(db, names) -> str:
    h = hashlib.sha256()
    for n in names:
        if n in db.keys():
            s = db[n]
            h.update(n.encode()); h.update(str(getattr(s, "start", None)).encode())
            d = getattr(s, "data", None)
            if d is not None:
                h.update(str(d.shape).encode()); h.update(np.ascontiguousarray(d, dtype=float).tobytes())
    return h.hexdigest()[:16]


def _roundtrip(m, via):
    return _H().roundtrip(m, via)


# ---------------------------------------------------------------------------------------
# Sequential
# ---------------------------------------------------------------------------------------

SEQ_SRC = r"""
!parameters
    c0, c1, c2
!equations
    z = y + c2;
    x = c0*x[-1] + c1;
    y = x + 0.5*y[-1];
    w = z[-1] + x;
"""
SEQ_NAMES = ("x", "y", "z", "w")


def seq_make():
    m = ir.Sequential.from_string(SEQ_SRC)
    m.assign(c0=0.5, c1=1.0, c2=0.25)
    return m


def seq_sim(m) -> str:
    d = ir.Databox()
    t0 = ir.qq(2020, 1)
    for n in SEQ_NAMES:
        d[n] = ir.Series(start=t0 - 1, values=np.array([1.0]))
    try:
        s = m.simulate(d, t0 >> t0 + 4, when_simulates_nan="silent")
        s = s[0] if isinstance(s, tuple) else s
        return _db_digest(s, SEQ_NAMES)
    except Exception as e:
        return "raises:" + type(e).__name__


def seq_pub(m) -> dict:
    par = m.get_parameters(unpack_singleton=False)
    return {"nv": m.num_variants, "desc": m.get_description(),
            "params": tuple(sorted((k, tuple(repr(float(x)) for x in v)) for k, v in par.items())),
            "order": tuple(m.lhs_names), "is_sequential": bool(m.is_sequential),
            "equations": tuple(str(getattr(e, "human", e)) for e in m.equations), "sim": seq_sim(m)}


def seq_gen_op(rng, handles):
    h = rng.randint(0, len(handles) - 1)
    m = handles[h]
    nv = m.num_variants
    can = len(handles) < 5
    kind = rng.weighted([("assign", 4), ("vassign", 3), ("reorder", 2), ("sequentialize", 1.5), ("desc", 1), ("alter", 2),
                         ("copy", 2 if can else 0), ("roundtrip", 2.5 if can else 0), ("view", 1.5 if can else 0)])
    if kind == "assign":
        return {"op": "assign", "h": h, "name": rng.choice(["c0", "c1", "c2"]), "x": rng.randint(-6, 6) / 8.0}
    if kind == "vassign":
        return {"op": "vassign", "h": h, "k": rng.randint(0, nv - 1), "name": rng.choice(["c0", "c1", "c2"]), "x": rng.randint(-6, 6) / 8.0}
    if kind == "reorder":
        return {"op": "reorder", "h": h, "perm": rng.shuffle([0, 1, 2, 3])}
    if kind == "sequentialize":
        return {"op": "sequentialize", "h": h}
    if kind == "desc":
        return {"op": "desc", "h": h, "s": "s" + str(rng.randint(0, 99))}
    if kind == "alter":
        return {"op": "alter", "h": h, "n": rng.choice([1, 2, 3, nv + 1])}
    if kind == "copy":
        return {"op": "copy", "h": h}
    if kind == "roundtrip":
        return {"op": "roundtrip", "h": h, "via": rng.weighted([("deepcopy", 3), ("dill", 3), ("saveload", 1), ("pickle", 1)])}
    return {"op": "view", "h": h, "k": _view_index(rng, nv)}


def _view_index(rng, nv):
    """mostly -nv .. nv-1 (Python indexing), sometimes just outside (must be rejected)"""
    if rng.chance(0.2):
        return rng.choice([nv, nv + 1, -nv - 1, 2 * nv])
    return rng.randint(-nv, nv - 1)


def seq_apply(ctx, handles, fam, op):
    m = handles[op["h"]]
    k = op["op"]
    if k == "assign":
        m.assign(**{op["name"]: op["x"]})
    elif k == "vassign":
        m[op["k"]].assign(**{op["name"]: op["x"]})
    elif k == "reorder":
        m.reorder_equations(list(op["perm"]))
    elif k == "sequentialize":
        m.sequentialize()
    elif k == "desc":
        m.set_description(op["s"])
    elif k == "alter":
        m.alter_num_variants(op["n"])
    elif k == "copy":
        handles.append(m.copy()); fam.append(max(fam) + 1)
    elif k == "roundtrip":
        if op["via"] == "pickle":
            try:
                new = pickle.loads(pickle.dumps(m))
            except Exception:
                ctx.count("sequential_plain_pickle_raises")     # compiled functions; dill / save+load is the supported route
                return
            ctx.count("sequential_plain_pickle_ok")
        else:
            new = _roundtrip(m, op["via"])
        handles.append(new); fam.append(max(fam) + 1)
    elif k == "view":
        handles.append(m[op["k"]]); fam.append(fam[op["h"]])


# ---------------------------------------------------------------------------------------
# RedVAR
# ---------------------------------------------------------------------------------------

T0 = None


def t0():
    global T0
    if T0 is None:
        T0 = ir.qq(2000, 1)
    return T0


def rv_data(case) -> "ir.Databox":
    """deterministic data from the case: `nd` data sets (columns = data variants), dyadic innovations"""
    H = _H()
    from .common import Rng
    rng = Rng(case["data_seed"])
    n, T, ncol = case["n"], case["T"], case["ncol"]
    db = ir.Databox()
    cols = {f"y{i}": np.zeros((T, ncol)) for i in range(n)}
    for c in range(ncol):
        y = np.zeros((T, n))
        for t in range(1, T):
            for i in range(n):
                y[t, i] = 0.5 * y[t - 1, i] + (0.25 * y[t - 1, (i + 1) % n] if n > 1 else 0.0) + 0.5 * (i + 1) + rng.randint(-16, 16) / 8.0
        for i in range(n):
            cols[f"y{i}"][:, c] = y[:, i]
    for k, v in cols.items():
        db[k] = ir.Series(start=t0(), values=v if ncol > 1 else v[:, 0].copy())
    if case["exog"]:
        g = np.array([[rng.randint(-8, 8) / 4.0 for _ in range(ncol)] for _ in range(T + 8)])
        db["g"] = ir.Series(start=t0(), values=g if ncol > 1 else g[:, 0].copy())
    if case.get("missing"):
        db["y0"][t0() + 7] = float("nan")
    return db


def rv_make(case):
    names = [f"y{i}" for i in range(case["n"])]
    return ir.RedVAR(names, exogenous_names=(["g"] if case["exog"] else None), order=case["order"], intercept=case["intercept"])


def rv_sim(m, case, db) -> str:
    names = [f"y{i}" for i in range(case["n"])]
    try:
        s = m.simulate(db, t0() + case["T"] >> t0() + case["T"] + 3)
        return _db_digest(s, names)
    except Exception as e:
        return "raises:" + type(e).__name__


def rv_pub(m, case, db) -> dict:
    out = {"nv": m.num_variants, "names": (tuple(m.get_endogenous_names()), tuple(m.get_exogenous_names()), tuple(m.get_residual_names())),
           "order": m.order, "intercept": m.has_intercept}
    try:
        ss = m.get_system_matrices(unpack_singleton=False)
        out["system"] = tuple(_digest(s.A, s.B, s.c, s.cov_residuals) for s in ss)
        out["eig"] = _digest(m.get_eigenvalues(unpack_singleton=False), m.get_stability(unpack_singleton=False),
                             m.get_max_abs_eigenvalue(unpack_singleton=False))
        out["mean"] = _digest(m.get_mean(unpack_singleton=False))
        out["acov"] = _digest(m.get_acov(up_to_order=1, unpack_singleton=False))
        out["companion"] = tuple(_digest(s.T, s.P, s.K) for s in m.get_companion_matrices(unpack_singleton=False))
    except Exception as e:
        out["system"] = "raises:" + type(e).__name__
    out["sim"] = rv_sim(m, case, db)
    return out


def rv_gen_op(rng, handles, case):
    h = rng.randint(0, len(handles) - 1)
    m = handles[h]
    nv = max(1, m.num_variants)
    can = len(handles) < 5
    kind = rng.weighted([("estimate", 4), ("alter", 2), ("copy", 2.5 if can else 0), ("roundtrip", 3 if can else 0), ("view", 1.5 if can else 0)])
    if kind == "estimate":
        return {"op": "estimate", "h": h, "from": rng.randint(case["order"], 8), "dof": rng.chance(0.4), "omit": rng.chance(0.8),
                "nv": rng.choice([None, None, 1, case["ncol"]])}
    if kind == "alter":
        return {"op": "alter", "h": h, "n": rng.choice([1, 2, 3, nv + 1])}
    if kind == "copy":
        return {"op": "copy", "h": h}
    if kind == "roundtrip":
        return {"op": "roundtrip", "h": h, "via": rng.weighted([("pickle", 3), ("deepcopy", 2), ("dill", 2), ("saveload", 1)])}
    return {"op": "view", "h": h, "k": _view_index(rng, nv)}


def rv_apply(ctx, handles, fam, op, case, db):
    m = handles[op["h"]]
    k = op["op"]
    if k == "estimate":
        span = t0() + op["from"] >> t0() + case["T"] - 1
        est = m.estimate(db, span, dof_correction=op["dof"], omit_missing=op["omit"], num_variants=op["nv"])
        return _db_digest(est, [f"res_y{i}" for i in range(case["n"])])
    if k == "alter":
        m.alter_num_variants(op["n"])
    elif k == "copy":
        handles.append(m.copy()); fam.append(max(fam) + 1)
    elif k == "roundtrip":
        handles.append(_roundtrip(m, op["via"])); fam.append(max(fam) + 1)
    elif k == "view":
        handles.append(m[op["k"]] if hasattr(type(m), "__getitem__") else m.get_variant(op["k"])); fam.append(fam[op["h"]])
    return None


# objects that `RedVAR.copy` shares on purpose and that no public operation mutates in place
def rv_share_allowed(type_name: str, path: str) -> bool:
    return "/_invariant" in path or path.endswith("/_companion_T") or "/fitted_periods" in path


def rv_walk(ctx: Ctx, case, handles, fam, where):
    H = _H()
    reaches = [H.mutable_reach(m) for m in handles]
    ctx.count("heap_walks")
    for i in range(len(handles)):
        for j in range(i + 1, len(handles)):
            if fam[i] == fam[j]:
                continue
            common = [k for k in reaches[i] if k != "__keep__" and k in reaches[j]]
            bad = [k for k in common if not (rv_share_allowed(*reaches[i][k]) and rv_share_allowed(*reaches[j][k]))]
            if common and not bad:
                ctx.count("redvar_shared_but_never_mutated_objects", len(common))
            if bad:
                # RedVAR has no operation that writes into a variant, a system or an array in place (estimate rebinds
                # `_variants`), so extra sharing is not by itself a violation of the statement: it is reported as a change of the
                # expected reference structure (a tie that no longer checks); the mutate-and-observe oracle supplies a replay when
                # the sharing is observable (e.g. a shared `_variants` list, which alter_num_variants appends to in place)
                k = bad[0]
                ctx.disagree("redvar-structure", case,
                             f"{where}: handles {i} and {j} (different copy families) both reach a {reaches[i][k][0]} via {reaches[i][k][1]} and {reaches[j][k][1]}",
                             "fresh in every copy family except the invariant, the cached _companion_T and the fitted periods")
                return


def rv_getter_write_observation(ctx: Ctx):
    """the one way to observe what RedVAR.copy shares: write into the matrix a getter hands out (outside the statement's
    operations; it corrupts the cache of a single model just as well).  Counted so that notes/C20.md stays truthful."""
    case = {"n": 1, "order": 1, "intercept": True, "exog": False, "T": 30, "ncol": 1, "missing": False, "data_seed": 3}
    db = rv_data(case)
    v = rv_make(case)
    v.estimate(db, t0() + 1 >> t0() + 29)
    v.get_companion_matrices()
    c, d = v.copy(), _copy.deepcopy(v)
    v.get_companion_matrices().T[0, 0] = 99.0
    ctx.count("redvar_copy_sees_write_into_returned_companion_T", int(c.get_companion_matrices().T[0, 0] == 99.0))
    ctx.count("redvar_deepcopy_sees_write_into_returned_companion_T", int(d.get_companion_matrices().T[0, 0] == 99.0))
    ctx.count("redvar_copy_system_A_after_that_write_unchanged", int(_digest(c.get_system_matrices().A) == _digest(d.get_system_matrices().A)))


# ---------------------------------------------------------------------------------------
# the common history runner
# ---------------------------------------------------------------------------------------

def gen_other_case(rng) -> dict:
    if rng.chance(0.5):
        return {"kind": "other", "model": "sequential", "ops": [], "n_ops": rng.randint(5, 12), "seed": rng.next() % (1 << 30)}
    order = rng.choice([1, 1, 2])
    return {"kind": "other", "model": "redvar", "n": rng.randint(1, 3), "order": order, "intercept": rng.chance(0.75), "exog": rng.chance(0.4),
            "T": rng.randint(30, 44), "ncol": rng.choice([1, 1, 2]), "missing": rng.chance(0.3), "data_seed": rng.next() % (1 << 30),
            "ops": [], "n_ops": rng.randint(4, 10), "seed": rng.next() % (1 << 30)}


def other_case(ctx: Ctx, case: dict):
    """runs the recorded ops of `case`; generates the missing ones (up to n_ops) from case['seed']"""
    from .common import Rng
    if "model" not in case:      # first-round corpus/replay format
        case = {"kind": "other", "model": "sequential", "ops": [], "n_ops": 6, "seed": 1}
    seq = case["model"] == "sequential"
    rng = Rng(case["seed"])
    db = None
    if seq:
        handles, fam = [seq_make()], [0]
        pub = seq_pub
    else:
        db = rv_data(case)
        m = rv_make(case)
        m.estimate(db, t0() + case["order"] >> t0() + case["T"] - 1)
        handles, fam = [m], [0]
        pub = lambda x: rv_pub(x, case, db)
    ops = case["ops"]
    i = 0
    site = "sequential" if seq else "redvar"
    while i < max(len(ops), case.get("n_ops", 0)):
        if i >= len(ops):
            ops.append(seq_gen_op(rng, handles) if seq else rv_gen_op(rng, handles, case))
        op = ops[i]; i += 1
        if op["h"] >= len(handles):
            continue
        tgt = op["h"]
        creating = op["op"] in ("copy", "roundtrip", "view")
        before = [pub(m) if (creating or fam[k] != fam[tgt]) else None for k, m in enumerate(handles)]
        nh = len(handles)
        ctx.count(f"{site}_op_{op['op']}")
        snap = {"kind": "other", **{k: v for k, v in case.items() if k not in ("ops", "n_ops")}, "ops": list(ops[:i]), "n_ops": 0}
        vbefore = None
        if seq and op["op"] == "vassign":
            vbefore = {k: list(v) for k, v in handles[tgt].get_parameters(unpack_singleton=False).items()}
        try:
            ret = seq_apply(ctx, handles, fam, op) if seq else rv_apply(ctx, handles, fam, op, case, db)
            if vbefore is not None:
                # assigning through the view m[k] changes variant k of m and no other variant (every handle here holds pairwise
                # distinct variants by construction: views take a single index)
                vnow = {k: list(v) for k, v in handles[tgt].get_parameters(unpack_singleton=False).items()}
                want = {k: list(v) for k, v in vbefore.items()}
                want[op["name"]][op["k"]] = op["x"]
                if vnow != want:
                    ctx.fail("sequential-variant-assign-leaks", snap,
                             f"op #{i - 1} {op}: parameters became {vnow}, expected {want}")
        except Exception as e:
            if len(handles) != nh:
                del handles[nh:]; del fam[nh:]
            ctx.count(f"{site}_op_raises:{type(e).__name__}")
            # an operation that raises must still leave the other families alone (checked below)
            ret = None
        ctx.evaluations += 1
        if op["op"] == "view":
            N = before[tgt]["nv"]
            if not (-N <= op["k"] < N) and len(handles) > nh:
                ctx.fail("variant-index-out-of-range-accepted", snap,
                         f"op #{i - 1} {op}: index {op['k']} on a {site} model with {N} variant(s) returned a model instead of raising IndexError")
            elif (-N <= op["k"] < N) and len(handles) == nh:
                ctx.fail("variant-view-wrong-variant", snap, f"op #{i - 1} {op}: an in-range index on a {site} model with {N} variant(s) was rejected")
        for k in range(nh):
            if before[k] is None:
                continue
            now = pub(handles[k])
            if now != before[k]:
                ctx.fail(f"{site}-mutation-leaks", snap,
                         f"op #{i - 1} {op} on handle {tgt} (family {fam[tgt]}) changed {_H().pub_diff(before[k], now)} of handle {k} (family {fam[k]})")
        if len(handles) > nh and op["op"] in ("copy", "roundtrip"):
            a, b = pub(handles[tgt]), pub(handles[-1])
            if a != b:
                ctx.fail(f"{site}-copy-not-equivalent", snap, f"op #{i - 1} {op}: the new model differs from its source in {_H().pub_diff(a, b)}")
            if not seq:
                # the same re-estimate on both returns the same residuals and leaves both with the same system
                x, y = handles[tgt].copy(), handles[-1].copy()
                span = t0() + case["order"] + 1 >> t0() + case["T"] - 1
                try:
                    rx = _db_digest(x.estimate(db, span), [f"res_y{j}" for j in range(case["n"])])
                    ry = _db_digest(y.estimate(db, span), [f"res_y{j}" for j in range(case["n"])])
                    if rx != ry or rv_pub(x, case, db) != rv_pub(y, case, db):
                        ctx.fail("redvar-copy-behaves-differently", snap, f"op #{i - 1} {op}: re-estimating the new model and its source gives different residuals/systems")
                except Exception as e:
                    ctx.count("redvar_reestimate_raises:" + type(e).__name__)
            if seq:
                _H().walk_oracle(ctx, snap, handles, fam, f"Sequential after op #{i - 1}")
            else:
                rv_walk(ctx, snap, handles, fam, f"RedVAR after op #{i - 1}")
    if len(handles) >= 2 and len(set(fam)) >= 2:
        ctx.nontriv(site + ":" + repr([(o["op"], o["h"]) for o in ops]) + str(case.get("data_seed", "")))


def other_models_stream(ctx: Ctx, n: int):
    rng = ctx.rng.fork("other")
    rv_getter_write_observation(ctx)
    for i in range(n):
        case = gen_other_case(rng.fork(i))
        other_case(ctx, case)
        if i < 2:
            ctx.sample({k: v for k, v in case.items() if k != "n_ops"})
