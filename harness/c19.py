"""
C19 -- Databox, dataslate and CSV conversions are lossless on selected names and span.

Correspondence (class E): the Lean model (IrisVerif/Model/{Databox,Grid,Dataslate}.lean, driver C19) against
  * csv    the grid `csv.reader` parses from the file `Databox.to_csv_file` wrote, and the databox
           `Databox.from_csv_file` reads back (numeric cells compared as the exact value of the parsed float);
  * slate  `Dataslate.from_databox(...)` data arrays per variant and `.to_databox(trim=...)`;
  * ext    `dataslates.main._get_extended_span`;
  * op     one databox operation at a time on the shape of the real object: the model answers with the new
           dictionary whose series are symbolic terms over the old ones (`ov(s1,o2)`, `cl(s3,-,8081)` ...),
           the harness evaluates the terms with the real Series methods on copies and compares with what the
           real Databox method did; the model's `touched` set is checked as a frame on the real objects.
Oracles (independent of the model, written from the property statement): direct comparison of the input and the
re-imported databox; cell-by-cell comparison of dataslate output with the input series; selected / unselected
names of every databox operation computed in plain Python.
"""
from __future__ import annotations
import os, csv, copy, math, tempfile, shutil, json, warnings

import numpy as np
import irispie as ir
from irispie import dates as D
from irispie import Databox, Series, Dataslate
from irispie.dataslates import main as _ds_main

from .common import Ctx, err_kind, rat_of_float, VERIF

DRIVERS = ["C19"]
LEVEL = "proof"
MANIFEST = {
    "category": "proof",
    "text": ("Lean 4 theorems about an executable model of databoxes/_exports.py, _imports.py, main.py, _merge.py and dataslates, for "
             "arbitrary numbers of blocks, series, variants, rows and operations. CSV: `csv_roundtrip` -- for every well-formed "
             "databox (series of any mix of frequencies incl. integer and empty series, 1..k variants, any starts, lengths and NaN "
             "patterns; names distinct, non-empty, not `*`, not starting with `__`; data trimmed as Series keeps it; a series with "
             "data whenever there is an empty one) and every cell codec whose parsing inverts its printing, importing the exported "
             "grid returns exactly the series of the databox: names (grouped by frequency in block order), descriptions when the row "
             "is on (unrestricted, even `*`), frequency, start, length, variants, NaN mask and every cell token; scalars and lists "
             "are not exported; `csv_selection_roundtrip` -- for any selection of frequencies and periods (span=, frequency_span=; any "
             "order, step or repetition) what comes back for each selected series is set_data of its own rows at the written "
             "periods: the restriction to lo..hi, trimmed, for consecutive runs, and for ANY periods (stepped, descending, repeated) the "
             "final trimmed series has the original's row at every written period and a NaN row elsewhere (`csv_selection_rowAt`, "
             "`trim_changes_no_row`, end to end with input-level hypotheses: `csv_selection_end_to_end`); the written grid is rectangular for any mix of block lengths and variant counts "
             "(`csv_grid_rectangular`). "
             "Dataslate: `slate_roundtrip_cells/_series/_absent` -- to_databox(from_databox(db, names, span)) binds every selected "
             "name to a series on the span whose cell (period i, variant v) is the input cell of column min(v, k-1) (NaN outside the "
             "series, NaN for absent names), changed only by a declared fallback (NaN cells) or overwrite (all cells); other "
             "frequencies are rejected; clipping is applied before fallbacks and overwrites (`nonbase_columns_carry_declared_fills`); to_databox(trim=True) is the trimmed and to_databox(span='base') the base-column restriction of "
             "the full output; after any sequence of remove_periods_from_start/_end and add_periods_to_end (induction) a cell is the "
             "converted value iff no operation removed its period (also as one statement with the final to_databox: "
             "`slate_ops_then_output`), and the base periods are the declared ones still alive. Databox "
             "operations (rename, remove, keep, copy, overlay, underlay, clip, prepend, merge): every operation and every sequence "
             "(induction) leaves all entries outside the selected names identical and in order; the selected names become the "
             "abstract series op of the two inputs (overlay/underlay/prepend/clip) resp. satisfy the dictionary equations of "
             "keep/remove/rename (simultaneous: `rename_no_value_lost` -- swaps, chains and cycles lose nothing)/copy with renaming (non-strict)/merge (`mergeSpec`); names are resolved as (source, target) pairs (`resolvePairs_filters_pairs`); the rejection branches are theorems too (missing names, non-series under overlay, a file without data rows); overlay/underlay/prepend apply exactly "
             "when both items are series of the same known frequency, integer included; in a sequence a name ends up as the last "
             "operation selecting it left it; option resolution of the spellings of one call (`merge_strategy_resolution`: the legacy "
             "`action=` decides when given, else the explicit strategy, else stack; `by_merging` = merge into an empty databox; "
             "`legacy_option_resolution` of the reader), every operation being exercised through all its public spellings. The model is tied to the code on "
             "every run by exact comparison of the parsed CSV grid, the re-imported databox, dataslate arrays and period operations, "
             "and one-step databox operations (symbolic series terms evaluated with the real Series methods), plus independent "
             "oracles on the real objects that supply the replay."),
    "design": "7/C19",
    "note": ("repr(float), numpy.round, numpy.genfromtxt, csv quoting and Period.from_sdmx_string are runtime facts: observed on "
             "every generated case, not proved; the series-level semantics of overlay/underlay/clip/hstack are property C10's."),
    "technique": "Lean 4 proof over executable model + differential correspondence on real files and objects",
}
ASSUMPTIONS = [
    "float(repr(x)) == x, numpy.round(x, 12) within 0.5e-12 + 4e-16|x| of x, csv.writer/csv.reader quoting and numpy.genfromtxt "
    "cell parsing are runtime facts (checked on every generated case by the oracle, not proved)",
    "Period.from_sdmx_string(str(p), frequency=f) == p is the codec law the round-trip theorem assumes (checked on every generated "
    "period; proved only for the model's own SDMX codec by correspondence)",
    "names / descriptions containing line breaks are a separate stream (see notes/C19.md)",
]

CLS = {"I": D.IntegerPeriod, "Y": D.YearlyPeriod, "H": D.HalfyearlyPeriod, "Q": D.QuarterlyPeriod,
       "M": D.MonthlyPeriod, "D": D.DailyPeriod}
FREQ_LETTER = {ir.Frequency.INTEGER: "I", ir.Frequency.YEARLY: "Y", ir.Frequency.HALFYEARLY: "H", ir.Frequency.QUARTERLY: "Q",
               ir.Frequency.MONTHLY: "M", ir.Frequency.DAILY: "D", ir.Frequency.UNKNOWN: "U", ir.Frequency.WEEKLY: "W"}
BASE = {"Y": 2020, "H": 4040, "Q": 8080, "M": 24240, "D": 737425, "I": 0}
FREQS = ["Y", "H", "Q", "M", "D", "I"]
ROUND = 12


# ---------------------------------------------------------------------------------------
# encoding shared with IrisVerif/Driver/C19.lean
# ---------------------------------------------------------------------------------------

def enc(s: str) -> str:
    return ".".join(str(ord(c)) for c in s)


def tok(x) -> str:
    return rat_of_float(x)


def enc_rows(a: np.ndarray) -> str:
    return "|".join(",".join(tok(x) for x in row) for row in a)


def freq_letter(s: Series) -> str:
    return FREQ_LETTER[s.frequency]


def start_serial(s: Series) -> int:
    return int(s.start.serial) if s.start is not None else 0


def enc_series(name: str, s: Series, data: np.ndarray | None = None, desc: str | None = None) -> str:
    data = s.data if data is None else data
    desc = (s.get_description() or "") if desc is None else desc
    return "~".join(["S", enc(name), enc(desc), freq_letter(s), str(start_serial(s)), str(s.data.shape[1]), enc_rows(data)])


def show_series(name: str, s: Series) -> str:
    """canonical text of an output series = the driver's `showSer`"""
    f = freq_letter(s)
    start = start_serial(s) if f != "U" else 0
    return "~".join([enc(name), enc(s.get_description() or ""), f, str(start), str(s.data.shape[1]), enc_rows(s.data)])


def round_declared(a: np.ndarray, digits: int) -> np.ndarray:
    """the declared rounding of the exporter: to `digits` decimals; a finite value too large for numpy.round's scaling (it would
    overflow to inf) is not changed by any rounding to decimals"""
    with np.errstate(over="ignore"):
        r = np.round(a, digits)
    return np.where(np.isinf(r) & np.isfinite(a), a, r)


def enc_item(name: str, v, round_to=None) -> str:
    if isinstance(v, Series):
        data = v.data if round_to is None else round_declared(v.data, round_to)
        return enc_series(name, v, data)
    if isinstance(v, list):
        return "~".join(["L", enc(name), ",".join(tok(x) for x in v)])
    return "~".join(["C", enc(name), tok(v)])


def enc_box(db: dict, round_to=None) -> str:
    return ";".join(enc_item(k, v, round_to) for k, v in db.items()) if db else "-"


def period(f: str, serial: int):
    return CLS[f](int(serial))


# ---------------------------------------------------------------------------------------
# generators
# ---------------------------------------------------------------------------------------

PLAIN_NAMES = ["x", "y", "gdp", "cpi_1", "a", "b", "c", "long_name_with_underscores", "Z9", "q", "rate", "u2", "k"]
ODD_NAMES = ["x y", "a,b", 'q"uote', "semi;colon", "hash#1", "_lead", "tail__", "é_accent", "αβ", "n*", "*n", "1st", "a~b", "x.y", " lead", "U__x"]
DESCS = ["", "", "GDP", "Consumer prices, all items", 'He said "hi"', "*", "semi;colon", "trailing space ", "# hash", "__yearly__",
         "ünïcode ✓", "a,b,c", "'single'", "tab\there", "~tilde~", "=1+1", "-"]


def gen_value(rng) -> float:
    k = rng.weighted([("dyadic", 4), ("int", 2), ("decimal", 4), ("big", 1), ("tiny", 1), ("third", 1), ("inf", 0.15), ("negzero", 0.1),
                      ("huge", 0.12)])
    if k == "huge":
        return (1.0 + rng.random()) * (-1.0 if rng.chance(0.5) else 1.0) * 10.0 ** rng.randint(290, 307)
    if k == "dyadic":
        return rng.dyadic(-64, 64, 4)
    if k == "int":
        return float(rng.randint(-10**6, 10**6))
    if k == "decimal":
        return rng.randint(-10**9, 10**9) / float(10 ** rng.randint(0, 15))
    if k == "big":
        return (rng.random() - 0.5) * 10.0 ** rng.randint(3, 14)
    if k == "tiny":
        return (rng.random() - 0.5) * 10.0 ** (-rng.randint(8, 18))
    if k == "third":
        return rng.randint(-50, 50) / 3.0
    if k == "inf":
        return float("inf") if rng.chance(0.5) else float("-inf")
    return -0.0


def gen_array(rng, nrows: int, nv: int, nan_rate: float, trimmed=True) -> np.ndarray:
    a = np.array([[gen_value(rng) for _ in range(nv)] for _ in range(nrows)], dtype=float).reshape(nrows, nv)
    for i in range(nrows):
        for j in range(nv):
            if rng.chance(nan_rate):
                a[i, j] = np.nan
    if rng.chance(0.15) and nrows >= 3:
        a[rng.randint(1, nrows - 2), :] = np.nan          # an interior all-NaN row
    if trimmed:
        for i in (0, nrows - 1):
            if np.all(np.isnan(a[i, :])):
                a[i, rng.randint(0, nv - 1)] = gen_value(rng) if not rng.chance(0.3) else 1.0
    return a


def gen_series(rng, f: str, center_shift=12, max_len=7, desc=True) -> Series:
    n = rng.weighted([(1, 2), (2, 2), (3, 2), (rng.randint(4, max_len), 4)])
    nv = rng.weighted([(1, 5), (2, 3), (3, 2)])
    start = BASE[f] + rng.randint(-center_shift, center_shift)
    a = gen_array(rng, n, nv, rng.choice([0.0, 0.1, 0.3, 0.6]))
    d = rng.choice(DESCS) if desc else ""
    return Series(start=period(f, start), values=a, description=d)


def gen_names(rng, k: int, odd_rate=0.25) -> list[str]:
    out = []
    pool = PLAIN_NAMES + ODD_NAMES
    while len(out) < k:
        n = rng.choice(ODD_NAMES) if rng.chance(odd_rate) else rng.choice(PLAIN_NAMES)
        if rng.chance(0.3):
            n = n + str(rng.randint(0, 99))
        if n not in out:
            out.append(n)
    return out


def gen_csv_box(rng) -> Databox:
    """well-formed for the CSV format: names non-empty, not `*`, not starting with `__`; at least one non-empty series
    whenever there is an empty one"""
    kind = rng.weighted([("mixed", 6), ("one-freq", 3), ("single", 1), ("no-series", 0.3)])
    db = Databox()
    if kind == "no-series":
        k = 0
    elif kind == "single":
        k = 1
    else:
        k = rng.randint(2, 9)
    freqs = FREQS if kind != "one-freq" else [rng.choice(FREQS)]
    names = gen_names(rng, k + 3)
    items = []
    for i in range(k):
        items.append((names[i], gen_series(rng, rng.choice(freqs))))
    if k and rng.chance(0.2):
        items.append((names[k], Series(num_variants=rng.randint(1, 3), description=rng.choice(DESCS))))   # empty series
    if rng.chance(0.4):
        items.append((names[k + 1], gen_value(rng)))
    if rng.chance(0.3):
        items.append((names[k + 2], [gen_value(rng) for _ in range(rng.randint(1, 3))]))
    if k and rng.chance(0.15):
        # a clipped (possibly untrimmed) series: clip() keeps leading/trailing NaN rows
        f = rng.choice(freqs)
        s = gen_series(rng, f, max_len=8)
        a = s.data.copy()
        if a.shape[0] >= 3:
            a[1, :] = np.nan
            s = Series(start=s.start, values=a, description=s.get_description())
            s.clip(s.start + 1, s.end)
            items.append((names[k] + "_clipped", s))
    rng.shuffle(items)
    for n, v in items:
        db[n] = v
    return db


# ---------------------------------------------------------------------------------------
# csv stream
# ---------------------------------------------------------------------------------------

def canon_grid(rows: list[list[str]], nh: int) -> str:
    if not rows:
        return "-"
    name_row = rows[0]
    date_cols = {i for i, c in enumerate(name_row) if c.startswith("__")}
    out = []
    for r, row in enumerate(rows):
        cells = []
        for i, c in enumerate(row):
            if r >= nh and i not in date_cols and c != "":
                c = tok(float(c))
            cells.append(enc(c))
        out.append(",".join(cells))
    return ";".join(out)


LETTER_FREQ = {v: k for k, v in FREQ_LETTER.items()}


def export_options(case) -> dict:
    """the non-default selection options of `to_csv_file` of a case: span=, frequency_span=, names="""
    kw = {}
    if case.get("span"):
        kw["span"] = [period(case["span"]["f"], t) for t in case["span"]["periods"]]
    if case.get("fspan") is not None:
        kw["frequency_span"] = {LETTER_FREQ[f]: (... if ps is None else [period(f, t) for t in ps]) for f, ps in case["fspan"]}
    if case.get("names") is not None:
        kw["names"] = list(case["names"])
    return kw


def has_options(case) -> bool:
    return bool(case.get("span")) or case.get("fspan") is not None or case.get("names") is not None


def impl_csv(db: Databox, desc_row: bool, tmpdir: str, tag: str, delimiter: str = ",", options: dict | None = None, alias: dict | None = None):
    """(canonical line, re-imported databox or exception); `alias`: which public spelling of the writer / reader is used"""
    path = os.path.join(tmpdir, f"{tag}.csv")
    kw = {} if delimiter == "," else {"delimiter": delimiter}
    alias = alias or {}
    getattr(db, alias.get("writer", "to_csv_file"))(path, description_row=desc_row, when_empty="silent", **kw, **(options or {}))
    with open(path, "rt", encoding="utf-8-sig", newline="") as fid:
        rows = list(csv.reader(fid, delimiter=delimiter))
    grid = canon_grid(rows, 2 if desc_row else 1)
    try:
        rkw = dict(kw)
        with warnings.catch_warnings():
            warnings.simplefilter("ignore")
            if alias.get("period_option") == "legacy":
                rkw["date_creator"] = D.Period.from_sdmx_string            # deprecated spelling of period_from_string
            elif alias.get("period_option") == "new":
                rkw["period_from_string"] = D.Period.from_sdmx_string
            back = getattr(Databox, alias.get("reader", "from_csv_file"))(path, description_row=desc_row, **rkw)
        imp = ";".join(show_series(k, v) for k, v in back.items()) if len(back) else "-"
    except Exception as e:
        back = e
        imp = err_kind(e)
    return grid + " # " + imp, back


def csv_request(db: Databox, desc_row: bool, case=None) -> str:
    items = "".join(" " + enc_item(k, v, ROUND) for k, v in db.items())
    if case is None or not has_options(case):
        return "csv " + ("1" if desc_row else "0") + items
    if case.get("span"):
        fs = "span:" + case["span"]["f"] + "=" + ",".join(str(t) for t in case["span"]["periods"])
    elif case.get("fspan") is not None:
        fs = "fs:" + ";".join(f + "=" + ("*" if ps is None else ",".join(str(t) for t in ps)) for f, ps in case["fspan"])
    else:
        fs = "*"
    ns = "*" if case.get("names") is None else "n=" + ",".join(enc(n) for n in case["names"])
    return "csvx " + ("1" if desc_row else "0") + " " + fs + " " + ns + items


def oracle_csv_selected(ctx: Ctx, db: Databox, desc_row: bool, back, case):
    """export of a selection (span=, frequency_span=, names=): for every selected series and every selected period the file read
    back holds the value the series has in that very period (to the rounding), NaN in the periods that were not selected;
    names, frequencies, variant counts and descriptions as in the input"""
    ctx.evaluations += 1
    if isinstance(back, Exception):
        ctx.fail("csv-selection", case, f"from_csv_file raised {back!r}")
        return
    names = [n for n in (case["names"] if case.get("names") is not None else db.keys()) if n in db and isinstance(db[n], Series)]
    if case.get("span"):
        sel = {case["span"]["f"]: list(case["span"]["periods"])}
    elif case.get("fspan") is not None:
        sel = {f: ps for f, ps in case["fspan"]}
    else:
        sel = {f: None for f in ["Y", "H", "Q", "M", "D", "I", "U"]}
    want = {n: db[n] for n in names if freq_letter(db[n]) in sel}
    if set(back.keys()) != set(want.keys()):
        ctx.fail("csv-selection", case, f"selected series {sorted(want)} read back {sorted(back.keys())}")
        return
    for n, s in want.items():
        t = back[n]
        f = freq_letter(s)
        if t.data.shape[1] != s.data.shape[1]:
            ctx.fail("csv-selection", case, f"{n!r}: {s.data.shape[1]} variants -> {t.data.shape[1]}"); continue
        if desc_row and t.data.shape[0] and (t.get_description() or "") != (s.get_description() or ""):
            ctx.fail("csv-selection", case, f"{n!r}: description {s.get_description()!r} -> {t.get_description()!r}")
        if f == "U":
            continue
        if t.data.shape[0] and t.frequency != s.frequency:
            ctx.fail("csv-selection", case, f"{n!r}: frequency {s.frequency.name} -> {t.frequency.name}"); continue
        peers = [v for v in want.values() if freq_letter(v) == f]
        lo = min(start_serial(v) for v in peers); hi = max(start_serial(v) + v.data.shape[0] - 1 for v in peers)
        chosen = list(range(lo, hi + 1)) if sel[f] is None else list(sel[f])
        probe = sorted(set(chosen) | set(range(min(chosen + [lo]) - 1, max(chosen + [hi]) + 2)))
        def cell(x: Series, p, j):
            r = p - start_serial(x)
            return x.data[r, j] if x.data.shape[0] and 0 <= r < x.data.shape[0] else np.nan
        for p in probe:
            for j in range(s.data.shape[1]):
                a = cell(s, p, j) if p in chosen else np.nan
                b = cell(t, p, j)
                ok = (a != a and b != b) or (a == b) or (math.isfinite(a) and abs(a - b) <= 0.5 * 10.0 ** -ROUND + 4e-16 * abs(a))
                if not ok:
                    ctx.fail("csv-selection", case, f"{n!r} period {f}:{p} variant {j}: the series has {a!r}"
                                                    f"{'' if p in chosen else ' (period not selected)'}, the file read back has {b!r}")
                    return
    if want and (case.get("span") or case.get("fspan") is not None):
        ctx.nontriv(("csv-selection", "span" if case.get("span") else "fspan", case.get("names") is not None, len(want) > 1))


def trimmed_view(s: Series):
    """(start serial, data) after dropping leading/trailing all-NaN rows; None when nothing is left"""
    a = s.data
    obs = ~np.all(np.isnan(a), axis=1) if a.size else np.array([], dtype=bool)
    if not obs.any():
        return None
    i0 = int(np.argmax(obs)); i1 = len(obs) - int(np.argmax(obs[::-1]))
    return start_serial(s) + i0, a[i0:i1, :]


def oracle_csv(ctx: Ctx, db: Databox, desc_row: bool, back, case):
    """property statement: same names, descriptions, frequencies, spans and values (to the declared rounding); scalars and
    lists are not series and are not expected back"""
    ctx.evaluations += 1
    if case.get("delimiter", ",") != ",":
        # the same checks, reported under one site: the `delimiter` option of to_csv_file / from_csv_file
        class _Sub:
            def __getattr__(self, a): return getattr(ctx, a)
            def fail(self, site, c, detail): ctx.fail("csv-delimiter", c, f"delimiter={case['delimiter']!r}: {detail}")
        sub = dict(case); sub["delimiter"] = ","
        return oracle_csv(_Sub(), db, desc_row, back, sub)
    if isinstance(back, Exception):
        ctx.fail("csv-import-raises", case, f"from_csv_file raised {back!r}")
        return
    want = {k: v for k, v in db.items() if isinstance(v, Series)}
    if set(back.keys()) != set(want.keys()):
        ctx.fail("csv-names", case, f"names written {sorted(want)} read back {sorted(back.keys())}")
        return
    for k, s in want.items():
        t = back[k]
        if not isinstance(t, Series):
            ctx.fail("csv-names", case, f"{k!r} is not a series after import"); continue
        tv = trimmed_view(s)
        if desc_row and (t.get_description() or "") != (s.get_description() or ""):
            ctx.fail("csv-description", case, f"{k!r}: {s.get_description()!r} -> {t.get_description()!r}")
        if t.data.shape[1] != s.data.shape[1]:
            ctx.fail("csv-variants", case, f"{k!r}: {s.data.shape[1]} variants -> {t.data.shape[1]}")
            continue
        if tv is None:
            if t.data.shape[0] != 0:
                ctx.fail("csv-span", case, f"{k!r}: no observations written, {t.data.shape[0]} rows read")
            continue
        start, a = tv
        if t.frequency != s.frequency:
            ctx.fail("csv-frequency", case, f"{k!r}: {s.frequency.name} -> {t.frequency.name}"); continue
        if start_serial(t) != start or t.data.shape[0] != a.shape[0]:
            ctx.fail("csv-span", case, f"{k!r}: start {start} len {a.shape[0]} -> start {start_serial(t)} len {t.data.shape[0]}"); continue
        b = t.data
        if not np.array_equal(np.isnan(a), np.isnan(b)):
            ctx.fail("csv-nan-mask", case, f"{k!r}: NaN pattern changed"); continue
        with np.errstate(invalid="ignore"):
            fin = np.isfinite(a)
            bad = (~fin & ~np.isnan(a) & (a != b)) | (fin & ~(np.abs(a - b) <= 0.5 * 10.0 ** -ROUND + 4e-16 * np.abs(a)))
        if bad.any():
            i, j = map(int, np.argwhere(bad)[0])
            ctx.fail("csv-values", case, f"{k!r}[{i},{j}]: {a[i, j]!r} -> {b[i, j]!r}")
        # runtime facts the theorem takes as the codec law
        for i in range(a.shape[0]):
            p = period(freq_letter(s), start + i)
            if D.Period.from_sdmx_string(str(p), frequency=s.frequency) != p:
                ctx.fail("sdmx-codec", case, f"from_sdmx_string(str({p!r})) differs")
    if len(want) >= 2 and len({v.frequency for v in want.values()}) >= 2 and any(v.data.shape[1] > 1 for v in want.values()) \
            and any(np.isnan(v.data).any() for v in want.values()):
        ctx.nontriv(("csv", case.get("sub")))


def describe_box(db) -> list:
    out = []
    for k, v in db.items():
        if isinstance(v, Series):
            out.append({"name": k, "freq": freq_letter(v), "start": start_serial(v), "desc": v.get_description(),
                        "data": [[None if x != x else (repr(x)) for x in row] for row in v.data.tolist()], "nv": int(v.data.shape[1])})
        elif isinstance(v, list):
            out.append({"name": k, "list": [repr(float(x)) for x in v]})
        else:
            out.append({"name": k, "scalar": repr(float(v))})
    return out


def box_from_description(desc: list) -> Databox:
    db = Databox()
    for it in desc:
        if "scalar" in it:
            db[it["name"]] = float(it["scalar"])
        elif "list" in it:
            db[it["name"]] = [float(x) for x in it["list"]]
        elif it["freq"] == "U" or not it["data"]:
            db[it["name"]] = Series(num_variants=it["nv"], description=it["desc"])
        else:
            a = np.array([[np.nan if x is None else float(x) for x in row] for row in it["data"]], dtype=float).reshape(len(it["data"]), it["nv"])
            s = Series(description=it["desc"])
            s.start = period(it["freq"], it["start"])
            s.data = a                                # keeps untrimmed rows as they were
            db[it["name"]] = s
    return db


def run_csv_cases(ctx: Ctx, cases: list, stream="csv"):
    """cases: list of (databox, desc_row, case-dict)"""
    tmpdir = tempfile.mkdtemp(prefix="verif-c19-")
    try:
        reqs, impls = [], []
        for i, (db, desc_row, case) in enumerate(cases):
            try:
                line, back = impl_csv(db, desc_row, tmpdir, f"f{i}", case.get("delimiter", ","), export_options(case), case.get("alias"))
                if case.get("alias"):
                    ctx.count("csv_writer_" + case["alias"].get("writer", "to_csv_file")); ctx.count("csv_reader_" + case["alias"].get("reader", "from_csv_file"))
            except Exception as e:
                line, back = "export-raises " + err_kind(e), e
                ctx.fail("csv-export-raises", case, f"to_csv_file raised {e!r}")
                reqs.append(csv_request(db, desc_row, case)); impls.append(line)
                continue
            reqs.append(csv_request(db, desc_row, case)); impls.append(line)
            if has_options(case):
                oracle_csv_selected(ctx, db, desc_row, back, case)
                ctx.count("csv_selection_" + ("span" if case.get("span") else "frequency_span" if case.get("fspan") is not None else "names"))
                if case.get("span"):
                    ctx.count("csv_span_shape_" + case["span"].get("shape", "other"))
            else:
                oracle_csv(ctx, db, desc_row, back, case)
            for v in db.values():
                if isinstance(v, Series):
                    ctx.count("csv_series_freq_" + freq_letter(v)); ctx.count(f"csv_series_variants_{v.data.shape[1]}")
                else:
                    ctx.count("csv_nonseries_items")
            ctx.count("csv_desc_row_on" if desc_row else "csv_desc_row_off")
            ctx.count("csv_delimiter_" + {",": "comma", ";": "semicolon", "\t": "tab"}.get(case.get("delimiter", ","), "other"))
            if i < 2:
                ctx.sample({"stream": stream, "case": case, "implementation": line[:300]})
        # the reader is a function of (file, options): reading the first files again, after all the other calls of this batch
        # (other delimiters, description rows, shapes), gives what the first reading gave
        for i, (db, desc_row, case) in list(enumerate(cases))[:8]:
            path = os.path.join(tmpdir, f"f{i}.csv")
            if not os.path.exists(path) or i >= len(impls) or impls[i].startswith("export-raises"):
                continue
            delim = case.get("delimiter", ",")
            try:
                again = Databox.from_csv_file(path, description_row=desc_row, **({} if delim == "," else {"delimiter": delim}))
                text = ";".join(show_series(k, v) for k, v in again.items()) if len(again) else "-"
            except Exception as e:
                text = err_kind(e)
            ctx.evaluations += 1
            ctx.count("csv_reread_after_other_calls")
            if text != impls[i].partition(" # ")[2]:
                ctx.fail("csv-reader-history", case, f"reading the same file with the same options again, after {len(cases)} other calls, "
                                                      f"gives a different databox: {text[:120]} vs {impls[i].partition(' # ')[2][:120]}")
        ctx.compare(stream, [c for _, _, c in cases], impls, ctx.model("C19", reqs))
    finally:
        shutil.rmtree(tmpdir, ignore_errors=True)


def gen_csv_cases(ctx: Ctx, n: int, tag="csv"):
    out = []
    for i in range(n):
        rng = ctx.rng.fork(f"{tag}{i}")
        db = gen_csv_box(rng)
        desc_row = rng.chance(0.5)
        delim = rng.weighted([(",", 9), (";", 0.7), ("\t", 0.3)])
        case = {"kind": "csv", "sub": i, "desc_row": desc_row, "delimiter": delim, "box": describe_box(db)}
        case.update(gen_export_selection(rng, db))
        # the public spellings of the same writer / reader (aliases, deprecated option names)
        case["alias"] = {"writer": rng.weighted([("to_csv_file", 5), ("to_csv", 2), ("to_sheet", 2)]),
                         "reader": rng.weighted([("from_csv_file", 5), ("from_csv", 2), ("from_sheet", 2)]),
                         "period_option": rng.weighted([("default", 6), ("new", 2), ("legacy", 2)])}
        out.append((db, desc_row, case))
    return out


def gen_period_selection(rng, lo: int, hi: int):
    """(shape, periods): selections of periods around [lo, hi] that are and are not ascending consecutive runs"""
    a, b = lo - rng.randint(0, 2), hi + rng.randint(0, 2)
    shape = rng.weighted([("consecutive", 2), ("step", 3), ("descending", 3), ("picked", 3), ("repeated", 1), ("outside", 0.5)])
    if shape == "consecutive":
        x = rng.randint(a, b); ps = list(range(x, rng.randint(x, b) + 1))
    elif shape == "step":
        ps = list(range(a, b + 1, rng.randint(2, 3))) or [a]
    elif shape == "descending":
        ps = list(range(b, a - 1, -rng.randint(1, 2)))
    elif shape == "picked":
        pool = list(range(a, b + 1)); ps = rng.sample(pool, rng.randint(1, min(5, len(pool))))
    elif shape == "repeated":
        ps = [a, a, a + 1]
    else:
        ps = [b + 3, b + 4]
    return shape, ps


def gen_export_selection(rng, db: Databox) -> dict:
    """options of to_csv_file that select what is written: span=, frequency_span=, names="""
    ser = {n: v for n, v in db.items() if isinstance(v, Series) and v.data.shape[0]}
    out = {}
    k = rng.weighted([("default", 6), ("span", 3), ("fspan", 1.2)])
    if not ser:
        return out
    rng_of = {}
    for v in ser.values():
        f = freq_letter(v); lo, hi = start_serial(v), start_serial(v) + v.data.shape[0] - 1
        rng_of[f] = (min(lo, rng_of.get(f, (lo, hi))[0]), max(hi, rng_of.get(f, (lo, hi))[1]))
    if k == "span":
        f = rng.choice(sorted(rng_of))
        shape, ps = gen_period_selection(rng, *rng_of[f])
        out["span"] = {"f": f, "periods": ps, "shape": shape}
    elif k == "fspan":
        fs = rng.sample(sorted(rng_of), rng.randint(1, len(rng_of)))
        if rng.chance(0.3):
            fs.append("U")
        ent = []
        for f in fs:
            ent.append([f, None if (f == "U" or rng.chance(0.4)) else gen_period_selection(rng, *rng_of[f])[1]])
        out["fspan"] = ent
    if rng.chance(0.15):
        names = [n for n in db.keys() if rng.chance(0.7)] + (["zz_missing"] if rng.chance(0.3) else [])
        rng.shuffle(names)
        if any(isinstance(db.get(n), Series) and db[n].data.shape[0] for n in names):
            out["names"] = names
    return out


def fixed_csv_cases():
    """small systematic cases: 1x1, one row with several variants, one column, every frequency alone"""
    out = []
    for f in FREQS:
        for (n, nv) in ((1, 1), (1, 3), (3, 1), (2, 2)):
            db = Databox()
            a = np.arange(1.0, 1.0 + n * nv).reshape(n, nv) / 8.0
            db["s"] = Series(start=period(f, BASE[f] + 3), values=a, description="d")
            if nv == 2:
                db["t"] = Series(start=period(f, BASE[f] - 2), values=np.array([[1.5], [np.nan], [2.5]]), description="")
            for desc_row in (False, True):
                out.append((db, desc_row, {"kind": "csv", "sub": f"fixed-{f}-{n}x{nv}-{int(desc_row)}", "desc_row": desc_row, "box": describe_box(db)}))
    return out


# ---------------------------------------------------------------------------------------
# dataslate stream
# ---------------------------------------------------------------------------------------

def gen_slate_case(rng):
    f = rng.choice(FREQS)
    db = Databox()
    k = rng.randint(1, 6)
    names = gen_names(rng, k + 4, odd_rate=0.1)
    for i in range(k):
        g = f if not rng.chance(0.06) else rng.choice(FREQS)
        db[names[i]] = gen_series(rng, g, center_shift=4, max_len=8, desc=False)
    if rng.chance(0.4):
        db[names[k]] = gen_value(rng)
    if rng.chance(0.3):
        db[names[k + 1]] = [gen_value(rng) for _ in range(rng.randint(1, 3))]
    if rng.chance(0.15):
        db[names[k + 2]] = Series(num_variants=rng.randint(1, 2))
    start = BASE[f] + rng.randint(-8, 8)
    ln = rng.randint(1, 9)
    nvar = rng.weighted([(1, 4), (2, 3), (3, 2), (4, 1)])
    if rng.chance(0.15):
        sel = None
    else:
        sel = [n for n in db.keys() if rng.chance(0.7)]
        if rng.chance(0.4):
            sel.append(names[k + 3])                      # not in the databox
        if rng.chance(0.1) and sel:
            sel.append(sel[0])                            # a repeated name
        rng.shuffle(sel)
    cand = list(sel if sel is not None else db.keys()) + [names[k + 3]]
    def fill():
        t = {}
        for n in cand:
            if rng.chance(0.25):
                t[n] = gen_value(rng) if rng.chance(0.6) else [gen_value(rng) for _ in range(rng.randint(1, 3))]
        return t
    fb = fill() if rng.chance(0.5) else {}
    ow = fill() if rng.chance(0.3) else {}
    clip = rng.chance(0.25)
    base = sorted(rng.sample(range(ln), rng.randint(1, ln))) if (clip or rng.chance(0.2)) else []
    trim = rng.chance(0.5)
    return {"kind": "slate", "f": f, "start": start, "len": ln, "nvar": nvar, "names": sel, "box": describe_box(db),
            "fallbacks": {k: (v if isinstance(v, list) else float(v)) for k, v in fb.items()},
            "overwrites": {k: (v if isinstance(v, list) else float(v)) for k, v in ow.items()},
            "clip": clip, "base": base, "trim": trim}


def _fill_box(t: dict) -> str:
    return ";".join(enc_item(k, v) for k, v in t.items()) if t else "-"


def slate_request(c) -> str:
    db = box_from_description(c["box"])
    names = "*" if c["names"] is None else "=" + ",".join(enc(n) for n in c["names"])
    base = ",".join(str(i) for i in c["base"]) if c["base"] else "-"
    return " ".join(["slate", c["f"], str(c["start"]), str(c["len"]), str(c["nvar"]), "1" if c["clip"] else "0", base, names,
                     enc_box(db), _fill_box(c["fallbacks"]), _fill_box(c["overwrites"]), "1" if c["trim"] else "0"])


def impl_slate(c):
    db = box_from_description(c["box"])
    span = [period(c["f"], c["start"] + i) for i in range(c["len"])]
    kw = {}
    if c["base"]:
        kw["base_columns"] = tuple(c["base"])
    try:
        ds = Dataslate.from_databox(db, c["names"], span, num_variants=c["nvar"], fallbacks=dict(c["fallbacks"]) or None,
                                    overwrites=dict(c["overwrites"]) or None, clip_data_to_base_span=c["clip"], **kw)
    except Exception as e:
        return err_kind(e), None, None
    vs = ";".join(enc_rows(ds.get_data_variant(v)) for v in range(ds.num_variants)) or "-"
    try:
        out = ds.to_databox(trim=c["trim"])
        back = ";".join(show_series(k, v) for k, v in out.items()) if len(out) else "-"
    except Exception as e:
        out, back = e, err_kind(e)
    return vs + " # " + back, ds, out


def same(x, y) -> bool:
    x, y = float(x), float(y)
    return (x != x and y != y) or x == y


def oracle_slate(ctx: Ctx, c, ds, out):
    """`to_databox(from_databox(db, names, span))` = the input values on the span, NaN elsewhere, except cells filled by the
    declared fallbacks (NaN cells) and overwrites (all cells)"""
    ctx.evaluations += 1
    if ds is None or isinstance(out, Exception):
        return            # rejections (mixed frequencies, empty lists) are compared with the model, not demanded by the property
    db = box_from_description(c["box"])
    names = list(db.keys()) if c["names"] is None else c["names"]
    ln, nvar = c["len"], c["nvar"]
    def pick(v, j):
        return v[min(j, len(v) - 1)] if isinstance(v, list) else v
    for n in set(names):
        if n not in out:
            ctx.fail("slate-names", c, f"{n!r} missing from to_databox()"); continue
        s = out[n]
        for j in range(nvar):
            for i in range(ln):
                t = c["start"] + i
                # what the input says
                src = db.get(n)
                if isinstance(src, Series):
                    if src.data.shape[0] and src.frequency == ir.Frequency[{"Y": "YEARLY", "H": "HALFYEARLY", "Q": "QUARTERLY", "M": "MONTHLY", "D": "DAILY", "I": "INTEGER"}[c["f"]]]:
                        r = t - start_serial(src)
                        x = src.data[r, min(j, src.data.shape[1] - 1)] if 0 <= r < src.data.shape[0] else np.nan
                    else:
                        x = np.nan
                elif src is None:
                    x = np.nan
                else:
                    x = pick(src, j)
                if c["clip"] and c["base"] and i not in c["base"]:
                    x = np.nan
                if n in c["fallbacks"] and x != x:
                    x = pick(c["fallbacks"][n], j)
                if n in c["overwrites"]:
                    x = pick(c["overwrites"][n], j)
                # what came out (a trimmed output series is NaN outside its rows)
                if s.data.shape[0] == 0:
                    y = np.nan
                else:
                    r = t - start_serial(s)
                    y = s.data[r, j] if 0 <= r < s.data.shape[0] else np.nan
                if not same(x, y):
                    ctx.fail("slate-roundtrip", c, f"{n!r} variant {j} period {t}: expected {x!r} got {y!r}")
                    return
    if any(isinstance(v, Series) and v.data.shape[1] > 1 for v in db.values()) and nvar > 1 and ln > 1:
        ctx.nontriv(("slate", c["f"], ln, nvar, bool(c["fallbacks"]), bool(c["overwrites"]), c["clip"]))


def run_slate_cases(ctx: Ctx, cases):
    reqs, impls = [], []
    for i, c in enumerate(cases):
        line, ds, out = impl_slate(c)
        reqs.append(slate_request(c)); impls.append(line)
        oracle_slate(ctx, c, ds, out)
        ctx.count("slate_" + ("error" if ds is None else "ok"))
        ctx.count(f"slate_num_variants_{c['nvar']}")
        if c["fallbacks"]: ctx.count("slate_with_fallbacks")
        if c["overwrites"]: ctx.count("slate_with_overwrites")
        if c["clip"]: ctx.count("slate_clip_to_base")
        if i < 1:
            ctx.sample({"stream": "slate", "case": c, "implementation": line[:300]})
    ctx.compare("slate", cases, impls, ctx.model("C19", reqs))


# --- sequences of period operations on one dataslate -----------------------------------------------------------------

def gen_slateops_case(rng):
    """a dataslate as a model with lags/leads needs it (presample before, terminal periods after the base span), then a sequence of
    remove_initial / remove_terminal / remove_periods_from_start|end / add_periods_to_end on that one object"""
    for _ in range(50):
        c = gen_slate_case(rng)
        db = box_from_description(c["box"])
        if all((not isinstance(v, Series)) or (not v.data.shape[0]) or freq_letter(v) == c["f"] for v in db.values()):
            break
    c["kind"] = "slateops"
    c["len"] = ln = rng.randint(3, 10)
    k = rng.weighted([(0, 1), (1, 3), (2, 3), (3, 1)])           # presample periods
    m = rng.weighted([(0, 3), (1, 3), (2, 1)])                    # terminal periods
    k, m = min(k, ln - 1), min(m, max(0, ln - 1 - k))
    if rng.chance(0.75):
        base = list(range(k, ln - m))                             # the base span of a model with max lag k, max lead m
    else:
        base = sorted(rng.sample(range(ln), rng.randint(1, ln)))
    c["base"] = base
    c["shifts"] = [-k, m]
    c["clip"] = c["clip"] and bool(base)
    ops, cur = [], ln
    for _ in range(rng.randint(1, 4)):
        o = rng.weighted([("ri", 4), ("rt", 2), ("rs", 4), ("re", 3), ("ae", 2)])
        if o == "ri" and cur - k >= 1:
            ops.append("ri"); cur -= k
        elif o == "rt" and cur - m >= 1:
            ops.append("rt"); cur -= m
        elif o == "rs":
            n = rng.choice([0, 1, 1, 2, k, k, k + 1]); n = min(n, cur - 1); ops.append(f"rs:{n}"); cur -= n
        elif o == "re":
            n = rng.choice([0, 1, 2, m, m]); n = min(n, cur - 1); ops.append(f"re:{n}"); cur -= n
        elif o == "ae":
            n = rng.randint(0, 3); ops.append(f"ae:{n}"); cur += n
    c["ops"] = ops
    return c


def slateops_request(c) -> str:
    base = slate_request(c).split(" ")
    return " ".join(["slateops"] + base[1:] + [str(c["shifts"][0]), str(c["shifts"][1]), ",".join(c["ops"]) or "-"])


def _slate_state(ds) -> str:
    ps = [int(p.serial) for p in ds.periods]
    inv = ds._invariant
    return f"{ps[0] if ps else '-'},{len(ps)},[{', '.join(str(i) for i in inv.base_columns)}],[{', '.join(str(int(p.serial)) for p in inv.base_periods)}]"


def impl_slateops(ctx: Ctx, c):
    """runs the sequence on the real object; the oracle is evaluated after every step"""
    db = box_from_description(c["box"])
    span = [period(c["f"], c["start"] + i) for i in range(c["len"])]
    kw = {"min_max_shift": tuple(c["shifts"])}
    if c["base"]:
        kw["base_columns"] = tuple(c["base"])
    try:
        ds = Dataslate.from_databox(db, c["names"], span, num_variants=c["nvar"], fallbacks=dict(c["fallbacks"]) or None,
                                    overwrites=dict(c["overwrites"]) or None, clip_data_to_base_span=c["clip"], **kw)
    except Exception as e:
        return err_kind(e)
    ctx.evaluations += 1
    # what the property is about: value of (name row, period, variant) as converted, and the base periods as declared
    original = {}
    for v in range(ds.num_variants):
        a = ds.get_data_variant(v)
        for r in range(a.shape[0]):
            for i, p in enumerate(ds.periods):
                original[(v, r, int(p.serial))] = a[r, i]
    base0 = [int(p.serial) for p in ds._invariant.base_periods]
    states = [_slate_state(ds)]
    alive = {int(p.serial) for p in ds.periods}       # periods converted from the databox and never removed since
    failed = False
    def fail(site, msg):
        nonlocal failed
        if not failed:
            ctx.fail(site, c, msg)
        failed = True
    for k, o in enumerate(c["ops"]):
        try:
            if o == "ri": ds.remove_initial()
            elif o == "rt": ds.remove_terminal()
            elif o.startswith("rs:"): ds.remove_periods_from_start(int(o[3:]))
            elif o.startswith("re:"): ds.remove_periods_from_end(int(o[3:]))
            else: ds.add_periods_to_end(int(o[3:]))
        except Exception as e:
            fail("slate-period-op-raises", f"step {k} {o} raised {e!r}")
            return err_kind(e)
        states.append(_slate_state(ds))
        ps = [int(p.serial) for p in ds.periods]
        alive &= set(ps)
        after = f"after {', '.join(c['ops'][:k + 1])}"
        if ps != list(range(ps[0], ps[0] + len(ps))) if ps else False:
            fail("slate-periods", f"{after}: the periods of the dataslate are not consecutive: {ps}")
        for v in range(ds.num_variants):
            a = ds.get_data_variant(v)
            if a.shape[1] != len(ps):
                fail("slate-periods", f"{after}: {len(ps)} periods but {a.shape[1]} data columns"); break
            for r in range(a.shape[0]):
                for i, p in enumerate(ps):
                    x = original.get((v, r, p), np.nan) if p in alive else np.nan
                    if not same(x, a[r, i]):
                        fail("slate-data-after-period-op", f"{after}: row {r} period {p} variant {v}: was {x!r}, is {a[r, i]!r}")
        want_base = [p for p in base0 if p in alive]
        got_base = [int(p.serial) for p in ds._invariant.base_periods]
        if got_base != want_base or ds.num_base_periods != len(want_base):
            fail("slate-base-span", f"{after}: base periods {got_base}, but the declared base periods still in the dataslate are {want_base}")
    vs = ";".join(enc_rows(ds.get_data_variant(v)) for v in range(ds.num_variants)) or "-"
    outs = []
    for sp in ("full", "base"):
        try:
            out = ds.to_databox(span=sp, trim=c["trim"])
            outs.append(";".join(show_series(k, v) for k, v in out.items()) if len(out) else "-")
        except Exception as e:
            out = e; outs.append(err_kind(e))
        # to_databox(span=...) returns the converted values on that span
        if not isinstance(out, Exception) and not failed:
            ps = [int(p.serial) for p in ds.periods]
            got_base = [int(p.serial) for p in ds._invariant.base_periods]
            window = ps if sp == "full" else (list(range(got_base[0], got_base[-1] + 1)) if got_base else [])
            names = list(ds.names)
            for r, n in enumerate(names):
                if names.index(n) != r and n in names[r + 1:]:
                    continue
                s = out[n]
                rr = max(i for i, m in enumerate(names) if m == n)      # a repeated name is bound to its last record
                for v in range(ds.num_variants):
                    for p in window:
                        x = original.get((v, rr, p), np.nan) if p in alive else np.nan
                        q = p - start_serial(s)
                        y = s.data[q, v] if s.data.shape[0] and 0 <= q < s.data.shape[0] else np.nan
                        if not same(x, y):
                            fail("slate-roundtrip-" + sp, f"to_databox(span={sp!r}) after {', '.join(c['ops'])}: {n!r} period {p} variant {v}: "
                                                           f"converted value {x!r}, returned {y!r}")
    if c["base"] and c["base"][0] > 0 and any(o in ("ri",) or o.startswith("rs:") for o in c["ops"]):
        ctx.nontriv(("slateops", c["f"], tuple(o.split(":")[0] for o in c["ops"]), c["base"][0]))
    return ";".join(states) + " # " + vs + " # " + outs[0] + " # " + outs[1]


def run_slateops_cases(ctx: Ctx, cases):
    reqs, impls = [], []
    for i, c in enumerate(cases):
        impls.append(impl_slateops(ctx, c)); reqs.append(slateops_request(c))
        for o in c["ops"]:
            ctx.count("slateop_" + o.split(":")[0])
        ctx.count("slateops_sequences")
        if c["base"] and c["base"][0] > 0:
            ctx.count("slateops_with_presample")
        if i < 1:
            ctx.sample({"stream": "slateops", "case": c, "implementation": impls[-1][:300]})
    ctx.compare("slateops", cases, impls, ctx.model("C19", reqs))


class _FakeSlatable:
    def __init__(self, lag, lead):
        self.max_lag, self.max_lead = lag, lead


def run_ext_cases(ctx: Ctx, n: int):
    rng = ctx.rng.fork("ext")
    reqs, impls, cases = [], [], []
    for _ in range(n):
        f = rng.choice(FREQS)
        bs, bl = BASE[f] + rng.randint(-5, 5), rng.randint(1, 8)
        lag, lead = -rng.randint(0, 4), rng.randint(0, 3)
        pre, app = rng.chance(0.7), rng.chance(0.7)
        span = [period(f, bs + i) for i in range(bl)]
        periods, base_cols, *_ = _ds_main._get_extended_span(_FakeSlatable(lag, lead), span, prepend_initial=pre, append_terminal=app)
        impls.append(f"{periods[0].serial} {len(periods)} [{', '.join(str(i) for i in base_cols)}]")
        reqs.append(f"ext {bs} {bl} {lag} {lead} {int(pre)} {int(app)}")
        cases.append({"kind": "ext", "line": reqs[-1]})
        # oracle: the base periods sit at the base columns of the extended span
        if [periods[i] for i in base_cols] != span:
            ctx.fail("extended-span", cases[-1], "base columns do not point at the base periods")
        ctx.evaluations += 1
    ctx.compare("ext", cases, impls, ctx.model("C19", reqs))


# ---------------------------------------------------------------------------------------
# databox operations
# ---------------------------------------------------------------------------------------

OP_NAMES = ["a", "b", "c", "d", "e", "f", "g", "h"]
PRED_SPECS = [("pre", "a"), ("pre", "b"), ("in", ["a", "c", "zz"]), ("len", 1), ("len", 0), ("pre", "")]
FUNC_SPECS = [("suf", "_1"), ("pre", "n_"), ("const", "k"), ("up", None), ("suf", "")]


def make_pred(spec):
    k, a = spec
    if k == "pre":
        return lambda n: n.startswith(a)
    if k == "in":
        return lambda n: n in a
    return lambda n: len(n) % 2 == a


def make_func(spec):
    k, a = spec
    if k == "suf":
        return lambda n: n + a
    if k == "pre":
        return lambda n: a + n
    if k == "const":
        return lambda n: a
    return lambda n: n.upper()


def enc_pred(spec) -> str:
    k, a = spec
    return f"{k}:" + (",".join(enc(x) for x in a) if k == "in" else (str(a) if k == "len" else enc(a)))


def enc_func(spec) -> str:
    k, a = spec
    return "up" if k == "up" else f"{k}:{enc(a)}"


def sel_py(sel):
    k = sel[0]
    return None if k == "all" else sel[1] if k in ("one", "names") else make_pred(sel[1])


def sel_enc(sel) -> str:
    k = sel[0]
    return "*" if k == "all" else "1=" + enc(sel[1]) if k == "one" else "n=" + ",".join(enc(x) for x in sel[1]) if k == "names" else "p=" + enc_pred(sel[1])


def tgt_py(t):
    k = t[0]
    return None if k == "same" else t[1] if k in ("one", "names") else make_func(t[1])


def tgt_enc(t) -> str:
    k = t[0]
    return "*" if k == "same" else "1=" + enc(t[1]) if k == "one" else "n=" + ",".join(enc(x) for x in t[1]) if k == "names" else "f=" + enc_func(t[1])


def gen_sel(rng, keys, allow_missing=True):
    k = rng.weighted([("all", 1), ("one", 2), ("names", 5), ("pred", 3)])
    pool = list(keys) + (["zz", "yy"] if allow_missing else [])
    if k == "all":
        return ("all",)
    if k == "one":
        return ("one", rng.choice(pool or ["zz"]))
    if k == "names":
        l = rng.sample(pool, rng.randint(0, min(4, len(pool))))
        if l and rng.chance(0.07):
            l.append(l[0])
        return ("names", l)
    return ("pred", rng.choice(PRED_SPECS))


def gen_tgt(rng, keys, nsrc):
    k = rng.weighted([("same", 2), ("one", 1), ("names", 5), ("func", 4)])
    if k == "same":
        return ("same",)
    if k == "one":
        return ("one", rng.choice(["n1", "a", "b"]))
    if k == "names":
        fresh = ["n1", "n2", "n3", "n4", "n5"]
        pool = fresh + (list(keys) if rng.chance(0.25) else [])      # sometimes collide with existing names
        m = max(0, nsrc + rng.choice([0, 0, 0, -1, 1]))
        return ("names", rng.sample(pool, min(m, len(pool))))
    return ("func", rng.choice(FUNC_SPECS))


def gen_op_box(rng, prefix: str, names=None, freqs=("Q", "M", "I")) -> Databox:
    db = Databox()
    names = names if names is not None else rng.sample(OP_NAMES, rng.randint(2, 6))
    for n in names:
        k = rng.weighted([("series", 7), ("scalar", 1.5), ("list", 1), ("empty", 0.5)])
        if k == "series":
            db[n] = gen_series(rng, rng.choice(list(freqs)), center_shift=3, max_len=6, desc=False)
        elif k == "scalar":
            db[n] = float(rng.randint(-9, 9))
        elif k == "list":
            db[n] = [float(rng.randint(-9, 9)) for _ in range(rng.randint(1, 3))]
        else:
            db[n] = Series(num_variants=1)
    return db


def gen_op(rng, db: Databox):
    op = _gen_op(rng, db)
    # the same call through its other public spellings: keyword arguments instead of positional ones, the function taken from the
    # class (`Databox.rename(db, ...)`) instead of the bound method
    op["kw"] = rng.chance(0.4)
    op["unbound"] = rng.chance(0.25)
    return op


def _gen_op(rng, db: Databox):
    kind = rng.weighted([("rename", 3), ("remove", 2), ("keep", 2), ("copy", 2), ("overlay", 3), ("underlay", 3), ("clip", 2),
                         ("prepend", 2), ("merge", 3)])
    keys = list(db.keys())
    strict = rng.chance(0.2)
    if kind == "rename":
        shape = rng.weighted([("any", 5), ("swap", 1.5), ("chain", 1.5), ("cycle3", 1), ("identity", 0.7), ("onto-existing", 1.5)])
        if shape != "any" and len(keys) >= (3 if shape == "cycle3" else 2):
            # targets that are sources or existing names: a swap, a chain a->b, b->new, a cycle of three, a name onto itself,
            # a target onto an existing name that is not a source
            ks = rng.sample(keys, 3 if (shape == "cycle3" or len(keys) >= 3) else 2)
            if shape == "swap":
                src, tg = ks[:2], [ks[1], ks[0]]
            elif shape == "chain":
                src, tg = ks[:2], [ks[1], "n9"]
            elif shape == "cycle3":
                src, tg = ks[:3], [ks[1], ks[2], ks[0]]
            elif shape == "identity":
                src, tg = ks[:2], [ks[0], "n8"]
            else:
                src, tg = ks[:1], [ks[-1]]
            if rng.chance(0.3):
                src, tg = src + ["zz"], tg + ["n7"]               # plus a missing source (ignored unless strict)
            return {"op": "rename", "sel": ("names", src), "tgt": ("names", tg), "strict": strict, "shape": shape}
        s = gen_sel(rng, keys)
        n = len(keys) if s[0] in ("all", "pred") else 1 if s[0] == "one" else len(s[1])
        return {"op": "rename", "sel": s, "tgt": gen_tgt(rng, keys, n), "strict": strict}
    if kind in ("remove", "keep"):
        s = None if rng.chance(0.08) else gen_sel(rng, keys)
        if s is not None and s[0] == "all":
            s = ("names", list(keys))                     # remove(None) / keep(None) mean "nothing to do", not "all"
        return {"op": kind, "sel": s, "strict": strict}
    if kind == "copy":
        s = None if rng.chance(0.3) else gen_sel(rng, keys)
        n = len(keys) if (s is None or s[0] in ("all", "pred")) else 1 if s[0] == "one" else len(s[1])
        t = None if rng.chance(0.5) else gen_tgt(rng, keys, n)
        return {"op": "copy", "sel": s, "tgt": t, "strict": strict}
    if kind in ("overlay", "underlay", "prepend"):
        onames = [n for n in keys if rng.chance(0.7)] + [n for n in ["x1", "x2"] if rng.chance(0.3)]
        other = gen_op_box(rng, "o", onames)
        # mostly the same frequency as the self item, so that the operation applies
        for n in list(other.keys()):
            if n in db and isinstance(db[n], Series) and db[n].data.shape[0] and isinstance(other[n], Series) and rng.chance(0.8):
                f = freq_letter(db[n])
                if f in BASE:
                    other[n] = gen_series(rng, f, center_shift=3, max_len=6, desc=False)
            # Series.overlay broadcasts 1 <-> k variants and rejects k <-> m: keep most pairs compatible
            if n in db and isinstance(db[n], Series) and isinstance(other[n], Series) and other[n].data.shape[0] and rng.chance(0.9):
                ka, kb = db[n].data.shape[1], other[n].data.shape[1]
                if ka != kb and ka != 1 and kb != 1:
                    other[n] = Series(start=other[n].start, values=other[n].data[:, :1].copy())
                    other[n].trim()
                    if not other[n].data.shape[0]:
                        other[n] = Series(start=period(freq_letter(db[n]), BASE[freq_letter(db[n])]), values=np.array([[1.0]])) if freq_letter(db[n]) in BASE else other[n]
        out = {"op": kind, "other": describe_box(other)}
        if kind == "prepend":
            f = rng.choice(["Q", "M", "I"])
            out.update({"f": f, "stop": BASE[f] + rng.randint(-3, 4)})
        else:
            if rng.chance(0.35):
                ser = [n for n in keys if isinstance(db[n], Series) and n in other and isinstance(other[n], Series)]
                pool = ser + (["zz"] if rng.chance(0.3) else []) + ([n for n in keys if n not in ser][:1] if rng.chance(0.1) else [])
                out["names"] = rng.sample(pool, rng.randint(0, len(pool)))
            else:
                out["names"] = None
            out["strict"] = strict
        return out
    if kind == "clip":
        f = rng.choice(["Q", "M", "Y", "I"])
        lo = None if rng.chance(0.3) else BASE[f] + rng.randint(-4, 3)
        hi = None if rng.chance(0.3) else BASE[f] + rng.randint(-2, 6)
        return {"op": "clip", "f": f, "lo": lo, "hi": hi}
    others = []
    kinds = {n: ("S" + freq_letter(v) if isinstance(v, Series) else "N") for n, v in db.items()}
    for _ in range(rng.randint(1, 2)):
        onames = [n for n in keys if rng.chance(0.4)] + [n for n in ["x1", "x2", "x3"] if rng.chance(0.4)]
        o = Databox()
        for n in onames:
            # keep the kind of an existing item (series with series, numbers with numbers): mixing them is outside the model
            if n not in kinds:
                kinds[n] = "N" if rng.chance(0.4) else "SQ"
            if kinds[n] == "N":
                o[n] = float(rng.randint(-9, 9)) if rng.chance(0.6) else [float(rng.randint(-9, 9)) for _ in range(rng.randint(1, 2))]
            else:
                f = kinds[n][1]
                o[n] = gen_series(rng, f if f in BASE else "Q", center_shift=3, max_len=5, desc=False)
        others.append(describe_box(o))
    strategies = ["stack", "stack", "replace", "discard", "silent", "warning", "error", "hstack"]
    spelling = rng.weighted([("positional", 3), ("keyword", 2), ("legacy", 3), ("default", 1), ("both", 0.7), ("by_merging", 1)])
    out = {"op": "merge", "strategy": "stack" if spelling == "default" else rng.choice(strategies), "spelling": spelling, "others": others}
    if spelling == "both":
        out["explicit"] = rng.choice(strategies)          # merge_strategy=<explicit>, action=<strategy>: the code lets `action` decide
    return out


def shape_box(db: dict, prefix: str, registry: dict) -> str:
    """the driver's symbolic databox: series become leaves `<prefix><k>` registered for later evaluation"""
    items = []
    for k, (n, v) in enumerate(db.items()):
        if isinstance(v, Series):
            sid = f"{prefix}{k}"
            registry[sid] = v
            items.append("~".join(["S", enc(n), sid, freq_letter(v)]))
        else:
            items.append(enc_item(n, v))
    return ";".join(items) if items else "-"


def op_request(db: Databox, op: dict, registry: dict) -> tuple[str, list]:
    """request line and the `other` databoxes (real objects) of this step"""
    head = "op " + shape_box(db, "s", registry) + " "
    b = lambda x: "1" if x else "0"
    k = op["op"]
    if k == "rename":
        return head + f"rename {sel_enc(op['sel'])} {tgt_enc(op['tgt'])} {b(op['strict'])}", []
    if k in ("remove", "keep"):
        return head + f"{k} {'-' if op['sel'] is None else sel_enc(op['sel'])} {b(op['strict'])}", []
    if k == "copy":
        return head + f"copy {'-' if op['sel'] is None else sel_enc(op['sel'])} {'-' if op['tgt'] is None else tgt_enc(op['tgt'])} {b(op['strict'])}", []
    if k in ("overlay", "underlay"):
        other = box_from_description(op["other"])
        ns = "*" if op["names"] is None else "n=" + ",".join(enc(x) for x in op["names"])
        return head + f"{k} {shape_box(other, 'o', registry)} {ns} {b(op['strict'])}", [other]
    if k == "prepend":
        other = box_from_description(op["other"])
        return head + f"prepend {shape_box(other, 'o', registry)} {op['f']} {op['stop']}", [other]
    if k == "clip":
        return head + f"clip {op['f']} {'-' if op['lo'] is None else op['lo']} {'-' if op['hi'] is None else op['hi']}", []
    others = [box_from_description(o) for o in op["others"]]
    sp = op.get("spelling", "positional")
    ex, lg = {"positional": (op["strategy"], "-"), "keyword": (op["strategy"], "-"), "legacy": ("-", op["strategy"]),
              "default": ("-", "-"), "both": (op.get("explicit", "stack"), op["strategy"]), "by_merging": (op["strategy"], "-")}[sp]
    shapes = " ".join(shape_box(o, f"o{i}_", registry) for i, o in enumerate(others))
    if sp == "by_merging":
        # Databox.by_merging([db, *others], strategy): an empty databox, then merge
        return "op - " + f"mergecall {ex} {lg} " + shape_box(db, "s", registry) + " " + shapes, others
    return head + f"mergecall {ex} {lg} " + shapes, others


def apply_real(db: Databox, op: dict, others: list):
    """the real Databox call, through the spelling the case asks for; returns the databox that carries on"""
    k = op["op"]
    kw, unbound = bool(op.get("kw")), bool(op.get("unbound"))
    def call(name, pos, named, extra=None):
        """pos: positional arguments, named: their keyword names (used instead when the case says `kw`)"""
        f = (lambda *a, **b: getattr(Databox, name)(db, *a, **b)) if unbound else getattr(db, name)
        if kw:
            return f(**dict(zip(named, pos)), **(extra or {}))
        return f(*pos, **(extra or {}))
    if k == "rename":
        call("rename", [sel_py(op["sel"]), tgt_py(op["tgt"])], ["source_names", "target_names"], {"strict_names": op["strict"]}); return db
    if k == "remove":
        call("remove", [None if op["sel"] is None else sel_py(op["sel"])], ["remove_names"], {"strict_names": op["strict"]}); return db
    if k == "keep":
        call("keep", [None if op["sel"] is None else sel_py(op["sel"])], ["keep_names"], {"strict_names": op["strict"]}); return db
    if k == "copy":
        return call("copy", [None if op["sel"] is None else sel_py(op["sel"]), None if op["tgt"] is None else tgt_py(op["tgt"])],
                    ["source_names", "target_names"], {"strict_names": op["strict"]})
    if k in ("overlay", "underlay"):
        call(k, [others[0]], ["other"], {"names": op["names"], "strict_names": op["strict"]}); return db
    if k == "prepend":
        call("prepend", [others[0], period(op["f"], op["stop"])], ["other", "end_prepending"]); return db
    if k == "clip":
        call("clip", [None if op["lo"] is None else period(op["f"], op["lo"]), None if op["hi"] is None else period(op["f"], op["hi"])],
             ["new_start_date", "new_end_date"]); return db
    sp = op.get("spelling", "positional")
    arg = others if len(others) != 1 else others[0]
    f = (lambda *a, **b: Databox.merge(db, *a, **b)) if unbound else db.merge
    with warnings.catch_warnings():
        warnings.simplefilter("ignore")
        if sp == "positional":
            f(arg, op["strategy"])
        elif sp == "keyword":
            f(arg, merge_strategy=op["strategy"])
        elif sp == "legacy":
            f(arg, action=op["strategy"])
        elif sp == "default":
            f(arg)
        elif sp == "both":
            f(arg, merge_strategy=op.get("explicit", "stack"), action=op["strategy"])
        else:
            return Databox.by_merging([db] + list(others), op["strategy"])
    return db


def eval_term(t: str, registry: dict) -> Series:
    """evaluate a symbolic series term of the model with the real Series methods, on copies"""
    t = t.strip()
    if "(" not in t:
        return registry[t].copy()
    head, body = t[:2], t[3:-1]
    args, depth, cur = [], 0, ""
    for ch in body:
        if ch == "(":
            depth += 1
        if ch == ")":
            depth -= 1
        if ch == "," and depth == 0:
            args.append(cur); cur = ""
        else:
            cur += ch
    args.append(cur)
    x = eval_term(args[0], registry)
    if head == "cl":
        f = freq_letter(x)
        lo = None if args[1] == "-" else period(f, int(args[1]))
        hi = None if args[2] == "-" else period(f, int(args[2]))
        x.clip(lo, hi); return x
    y = eval_term(args[1], registry)
    if head == "ov":
        x.overlay(y); return x
    if head == "un":
        x.underlay(y); return x
    if head == "hs":
        return x | y
    raise ValueError(t)


def series_equal(a: Series, b: Series) -> bool:
    return (a.frequency == b.frequency and start_serial(a) == start_serial(b) and a.data.shape == b.data.shape
            and np.array_equal(a.data, b.data, equal_nan=True))


def value_equal(a, b) -> bool:
    if isinstance(a, Series) or isinstance(b, Series):
        return isinstance(a, Series) and isinstance(b, Series) and series_equal(a, b)
    if isinstance(a, list) != isinstance(b, list):
        return False
    try:
        if isinstance(a, list):
            return len(a) == len(b) and all(same(x, y) for x, y in zip(a, b))
        return same(a, b)
    except TypeError:
        return False


def canon_items(db: dict) -> list:
    """db: name -> (live object, value frozen at the time of the step)"""
    out = []
    for n, (_, v) in db.items():
        if isinstance(v, Series):
            out.append((n, "S", v))
        elif isinstance(v, list):
            out.append((n, "L" + ",".join(tok(x) for x in v), None))
        else:
            out.append((n, "C" + tok(v), None))
    return out


def compare_op_with_model(ctx: Ctx, case, reply: str, post, registry: dict, pre_objs: dict):
    """reply of the model for one step vs what the real call produced; returns a text describing the disagreement or None"""
    body, _, touched = reply.partition(" # ")
    touched = {"".join(chr(int(c)) for c in w.split(".")) if w else "" for w in touched.split(",")} if touched.strip() else set()
    if isinstance(post, Exception):
        if body == err_kind(post):
            return None
        if not body.startswith("err:"):
            # the dictionary layer accepted the call: the exception must then come from one of the Series methods it delegates to
            for it in ([] if body == "-" else body.split(";")):
                val = it.partition("~")[2]
                if val.startswith("S"):
                    try:
                        eval_term(val[1:], registry)
                    except Exception as e:
                        if err_kind(e) == err_kind(post):
                            return None
        return f"real call raised {post!r}, model says {body[:120]}"
    if body.startswith("err:"):
        return f"model says {body}, real call succeeded"
    items = [] if body == "-" else body.split(";")
    real = canon_items(post)
    if len(items) != len(real):
        return f"model has {len(items)} items, real {len(real)}: {list(post.keys())}"
    for it, (n, kind, v) in zip(items, real):
        name_enc, _, val = it.partition("~")
        if name_enc != enc(n):
            return f"order/names differ at {n!r}"
        if kind == "S":
            if not val.startswith("S"):
                return f"{n!r}: real is a series, model {val[:40]}"
            try:
                want = eval_term(val[1:], registry)
            except Exception as e:
                return f"{n!r}: evaluating {val[1:]} raised {e!r}"
            if not series_equal(want, v):
                return f"{n!r}: real result differs from {val[1:]} evaluated with the Series methods"
        elif val != kind:
            return f"{n!r}: real {kind} model {val}"
    # frame on the real objects: names the model does not list as touched are the very same objects, unchanged
    for n, obj in pre_objs.items():
        if n in touched:
            continue
        if case["op"]["op"] == "copy":
            continue                                      # a copy consists of new objects by definition
        if n not in post or post[n][0] is not obj:
            return f"frame: {n!r} is not in the model's touched set but was re-bound or removed"
    return None


def select_py(keys, sel, strict):
    """plain-Python reading of the name selection rules of the docstrings (oracle side)"""
    if sel is None or sel[0] == "all":
        src = list(keys)
    elif sel[0] == "one":
        src = [sel[1]]
    elif sel[0] == "names":
        src = list(sel[1])
    else:
        p = make_pred(sel[1]); src = [n for n in keys if p(n)]
    return src if strict else [n for n in src if n in keys]


def oracle_op(ctx: Ctx, case, pre: Databox, pre_snapshot: Databox, others, post):
    """each operation applies its series / dictionary semantics to exactly the selected names and leaves the rest untouched
    (same object, same value, same relative order)"""
    ctx.evaluations += 1
    op = case["op"]
    k = op["op"]
    keys = list(pre_snapshot.keys())
    if isinstance(post, Exception):
        # only the documented rejections are acceptable: missing / repeated names, non-series under an explicit name list,
        # duplicate keys under the raising merge strategies, or the Series method itself refusing the pair
        if not legit_exception(op, keys, {n: v[1] for n, v in pre_snapshot.items()}, others):
            ctx.fail("op-raises-" + k, case, f"{k} raised {post!r} on an input it should accept")
        return
    if k == "rename":
        src = select_py(keys, op["sel"], op["strict"])
        t = op["tgt"]
        tg = src if t[0] == "same" else [t[1]] if t[0] == "one" else list(t[1]) if t[0] == "names" else [make_func(t[1])(n) for n in src]
        if op["sel"][0] in ("one", "names") and not op["strict"]:
            raw = [op["sel"][1]] if op["sel"][0] == "one" else list(op["sel"][1])
            rawt = raw if t[0] == "same" else [t[1]] if t[0] == "one" else list(t[1]) if t[0] == "names" else [make_func(t[1])(n) for n in raw]
            pairs = [(s, u) for s, u in zip(raw, rawt) if s in keys]
        else:
            pairs = list(zip(src, tg))
        selected = {s for s, _ in pairs} | {u for _, u in pairs}
        # rename is a mapping of names: for distinct sources and distinct targets every target holds, afterwards, the very value
        # its source held before -- also when a target is another source (swap, chain, cycle), its own source (identity) or an
        # existing name -- and a source that is no target is gone
        srcs, tgts = [s for s, _ in pairs], [u for _, u in pairs]
        if len(set(srcs)) == len(srcs) and len(set(tgts)) == len(tgts):
            overlapping = bool((set(tgts) & set(keys)))
            site = "op-rename-overlapping-targets" if overlapping else "op-rename"
            for s, u in pairs:
                if u not in post or post[u] is not pre_snapshot_obj(pre_snapshot, s):
                    ctx.fail(site, case, f"{s!r} -> {u!r}: {u!r} is not bound to the value {s!r} had"
                                         + ("" if u in post else f" ({u!r} is missing)")); break
                if s not in tgts and s in post:
                    ctx.fail(site, case, f"{s!r} -> {u!r}: the source is still there"); break
            if overlapping and pairs:
                ctx.count("op_rename_overlapping")
    elif k == "remove":
        selected = set(select_py(keys, op["sel"], op["strict"])) if op["sel"] is not None else set()
        for n in selected:
            if n in post:
                ctx.fail("op-remove", case, f"{n!r} still present")
    elif k == "keep":
        kept = set(select_py(keys, op["sel"], op["strict"])) if op["sel"] is not None else set(keys)
        selected = set(keys) - kept
        if set(post.keys()) != (set(keys) & kept):
            ctx.fail("op-keep", case, f"kept {sorted(post.keys())}, selected {sorted(kept)}")
    elif k == "copy":
        # the original is untouched; without renaming the copy holds equal, distinct values under the selected names
        for n in keys:
            if n not in pre or pre[n] is not pre_snapshot_obj(pre_snapshot, n):
                ctx.fail("op-copy", case, f"copy() changed the original at {n!r}")
        if op["tgt"] is None:
            src = select_py(keys, op["sel"], op["strict"]) if op["sel"] is not None else keys
            if set(post.keys()) != set(src):
                ctx.fail("op-copy", case, f"copy has {sorted(post.keys())}, selected {sorted(set(src))}")
            for n in post.keys():
                if n in pre_snapshot and not value_equal(post[n], pre_snapshot[n][1]):
                    ctx.fail("op-copy", case, f"copy differs from the original at {n!r}")
                if n in pre_snapshot and isinstance(post[n], Series) and post[n] is pre[n]:
                    ctx.fail("op-copy", case, f"copy shares the series object {n!r}")
        return
    elif k in ("overlay", "underlay", "prepend"):
        other = others[0]
        if k == "prepend":
            other = other.copy(); other.clip(None, period(op["f"], op["stop"]))
            names, strict = None, False
        else:
            names, strict = op["names"], op["strict"]
        if names is None:
            names = [n for n in keys if isinstance(pre_snapshot[n][1], Series) and n in other and isinstance(other[n], Series)]
        names = [n for n in names if n in keys and n in other]
        selected = set()
        for n in names:
            a, b = pre_snapshot[n][1], other[n]
            if a.frequency == ir.Frequency.UNKNOWN or a.frequency != b.frequency:
                continue
            selected.add(n)
            want = a.copy()
            (want.overlay if k == "overlay" else want.underlay)(b.copy())
            if n not in post or not isinstance(post[n], Series) or not series_equal(post[n], want):
                ctx.fail("op-" + k, case, f"{n!r}: result is not Series.{'overlay' if k == 'overlay' else 'underlay'} of the two inputs")
    elif k == "clip":
        selected = set()
        if op["lo"] is not None or op["hi"] is not None:
            for n in keys:
                a = pre_snapshot[n][1]
                if isinstance(a, Series) and freq_letter(a) == op["f"]:
                    selected.add(n)
                    want = a.copy()
                    want.clip(None if op["lo"] is None else period(op["f"], op["lo"]), None if op["hi"] is None else period(op["f"], op["hi"]))
                    if n not in post or not series_equal(post[n], want):
                        ctx.fail("op-clip", case, f"{n!r}: result is not Series.clip of the input")
    else:   # merge
        selected = set()
        for o in others:
            selected |= set(o.keys())
        # the strategy the caller asked for, whatever the spelling; with both keywords given the intention is not defined
        st = None if op.get("spelling") == "both" else op["strategy"]
        for n in selected:
            if n not in post:
                ctx.fail("op-merge", case, f"{n!r} missing after merge"); continue
            incoming = [o[n] for o in others if n in o]
            if st in ("stack", "hstack"):
                have = ([pre_snapshot[n][1]] if n in pre_snapshot else []) + incoming
                if len(have) > 1 and all(isinstance(x, Series) for x in have):
                    want = have[0].copy()
                    for x in have[1:]:
                        want = want | x.copy()
                    if not isinstance(post[n], Series) or not series_equal(post[n], want):
                        ctx.fail("op-merge", case, f"{n!r}: must be the series stacked as variants under {st} (spelling {op.get('spelling')})")
                elif len(have) > 1 and not any(isinstance(x, Series) for x in have):
                    want = [y for x in have for y in (x if isinstance(x, list) else [x])]
                    if not value_equal(post[n], want):
                        ctx.fail("op-merge", case, f"{n!r}: must be the concatenated list {want} under {st} (spelling {op.get('spelling')})")
            if n not in pre_snapshot:
                first = incoming[0]
                if st in ("discard", "silent", "warning", "replace") and len(incoming) == 1 and not value_equal(post[n], first):
                    ctx.fail("op-merge", case, f"{n!r}: a new key must take the first incoming value under {st}")
            elif st in ("discard", "silent", "warning"):
                if not value_equal(post[n], pre_snapshot[n][1]):
                    ctx.fail("op-merge", case, f"{n!r}: existing value must be kept under {st} (spelling {op.get('spelling')})")
            elif st == "replace":
                if not value_equal(post[n], incoming[-1]):
                    ctx.fail("op-merge", case, f"{n!r}: must be replaced by the last incoming value (spelling {op.get('spelling')})")
    # the frame: unselected names keep their object, their value and their relative order
    rest = [n for n in keys if n not in selected]
    for n in rest:
        obj, snap = pre_snapshot[n]
        if n not in post or post[n] is not obj or not value_equal(post[n], snap):
            ctx.fail("op-frame-" + k, case, f"{n!r} is not selected by the operation but was changed, re-bound or removed")
            return
    if [n for n in post.keys() if n in rest] != rest:
        ctx.fail("op-frame-" + k, case, "relative order of the unselected names changed")
    if selected and rest:
        ctx.nontriv(("op", k, len(selected) > 1, len(rest) > 1))


def _raises(f) -> bool:
    try:
        f(); return False
    except Exception:
        return True


def legit_exception(op, keys, pre: dict, others) -> bool:
    k = op["op"]
    if k in ("rename", "copy"):
        sel, t = op["sel"], op.get("tgt")
        if k == "copy" and sel is None and t is None:
            return False
        src = select_py(keys, sel, True)
        if not op["strict"]:
            src = [n for n in src if n in keys]
        return any(n not in keys for n in src) or len(set(src)) != len(src)
    if k == "remove":
        if op["sel"] is None:
            return False
        src = select_py(keys, op["sel"], op["strict"])
        return any(n not in keys for n in src) or len(set(src)) != len(src)
    if k in ("keep", "clip"):
        return False
    if k in ("overlay", "underlay", "prepend"):
        other = others[0]
        if k == "prepend":
            other = other.copy(); other.clip(None, period(op["f"], op["stop"]))
        names = op.get("names")
        if names is not None:
            if op.get("strict") and any(n not in keys or n not in other for n in names):
                return True
            names = [n for n in names if n in keys and n in other]
            if any(not isinstance(pre[n], Series) or (pre[n].frequency != ir.Frequency.UNKNOWN and not isinstance(other[n], Series)) for n in names):
                return True
        else:
            names = [n for n in keys if isinstance(pre[n], Series) and n in other and isinstance(other[n], Series)]
        for n in names:
            a, b = pre[n], other[n]
            if a.frequency == ir.Frequency.UNKNOWN or a.frequency != b.frequency:
                continue
            x = a.copy()
            if _raises(lambda: (x.overlay if k == "overlay" else x.underlay)(b.copy())):
                return True
        return False
    # merge
    seen = dict(pre)
    for o in others:
        for n, v in o.items():
            if n in seen:
                if op["strategy"] in ("error", "critical") or op.get("explicit") in ("error", "critical"):
                    return True
                if op["strategy"] in ("stack", "hstack") or op.get("explicit") in ("stack", "hstack"):
                    if isinstance(v, Series) != isinstance(seen[n], Series):
                        return True
                    if isinstance(v, Series) and _raises(lambda: seen[n] | v):
                        return True
                    if isinstance(v, Series):
                        seen[n] = seen[n] | v
            else:
                seen[n] = v
    return False


def pre_snapshot_obj(snap, n):
    return snap[n][0]


def run_op_sequences(ctx: Ctx, nseq: int, tag="ops", seqs=None):
    """random operation sequences on real databoxes; one model request per step (shape of the current real object)"""
    reqs, metas = [], []
    for q in range(nseq if seqs is None else len(seqs)):
        if seqs is None:
            rng = ctx.rng.fork(f"{tag}{q}")
            db = gen_op_box(rng, "s")
            steps = None
            box0 = describe_box(db)
            nsteps = rng.randint(1, 7)
        else:
            box0, steps = seqs[q]["box"], seqs[q]["ops"]
            db = box_from_description(box0)
            nsteps = len(steps)
        done = []
        for i in range(nsteps):
            op = gen_op(rng, db) if steps is None else steps[i]
            done.append(op)
            case = {"kind": "ops", "sub": q, "box": box0, "ops": list(done), "op": op}
            registry = {}
            req, others = op_request(db, op, registry)
            # registry holds the live objects: evaluate terms on copies taken now
            registry = {k: v.copy() for k, v in registry.items()}
            pre_objs = dict(db.items())
            snapshot = {n: (v, copy.deepcopy(v)) for n, v in db.items()}
            others_real = [copy.deepcopy(o) for o in others]     # what the oracle reasons with (the call may touch `other`)
            try:
                post = apply_real(db, op, others)
            except Exception as e:
                post = e
            if op["op"] == "merge" and op.get("spelling") == "by_merging":
                # Databox.by_merging([db, *others]) = merge into an empty databox: the oracle sees it that way
                oracle_op(ctx, case, Databox(), {}, [Databox({n: v[1] for n, v in snapshot.items()})] + others_real, post)
                pre_objs = {}
            else:
                oracle_op(ctx, case, db, snapshot, others_real, post)
            ctx.count("op_spelling_" + ("kw" if op.get("kw") else "pos") + ("_unbound" if op.get("unbound") else ""))
            if op["op"] == "merge":
                ctx.count("op_merge_spelling_" + op.get("spelling", "positional"))
            reqs.append(req)
            metas.append((case, post if isinstance(post, Exception) else {n: (v, copy.deepcopy(v)) for n, v in post.items()}, registry, pre_objs))
            ctx.count("op_" + op["op"]); ctx.count("op_steps")
            if isinstance(post, Exception):
                ctx.count("op_raises")
                break
            db = post
    replies = ctx.model("C19", reqs)
    if replies is None:
        return
    ctx.streams_compared["op"] = ctx.streams_compared.get("op", 0) + len(reqs)
    for (case, post, registry, pre_objs), reply, req in zip(metas, replies, reqs):
        msg = compare_op_with_model(ctx, case, reply, post, registry, pre_objs)
        if msg is not None:
            if len([d for d in ctx.disagreements if d["stream"] == "op"]) < 25:
                ctx.disagree("op", case, msg, reply[:300])
    if metas:
        ctx.sample({"stream": "op", "request": reqs[0][:200], "model": replies[0][:200]})


# ---------------------------------------------------------------------------------------
# entry points
# ---------------------------------------------------------------------------------------

def corpus_cases():
    d = os.path.join(VERIF, "corpus", "C19")
    out = []
    if os.path.isdir(d):
        for f in sorted(os.listdir(d)):
            if f.endswith(".json"):
                out.append(json.load(open(os.path.join(d, f))))
    return out


def run_case(ctx: Ctx, case):
    k = case.get("kind")
    if k == "csv":
        db = box_from_description(case["box"])
        run_csv_cases(ctx, [(db, bool(case["desc_row"]), case)], stream="replay-csv")
    elif k == "slate":
        run_slate_cases(ctx, [case])
    elif k == "slateops":
        run_slateops_cases(ctx, [case])
    elif k == "ops":
        run_op_sequences(ctx, 0, seqs=[{"box": case["box"], "ops": case["ops"]}])
    elif k == "ext":
        pass


def run(ctx: Ctx):
    ctx.rule = ("csv: databoxes with >= 2 series of >= 2 frequencies, a multi-variant series and a NaN (distinct case ids); slate: distinct "
                "(frequency, span length > 1, num_variants > 1, fallbacks?, overwrites?, clip?) with a multi-variant input series; "
                "op: distinct (operation, several selected?, several unselected?) with both selected and unselected names present")
    for payload in corpus_cases():
        run_case(ctx, payload.get("case", payload))
    run_csv_cases(ctx, fixed_csv_cases(), stream="csv-fixed")
    run_csv_cases(ctx, gen_csv_cases(ctx, ctx.n(500, 12000)))
    rng = ctx.rng.fork("slate")
    run_slate_cases(ctx, [gen_slate_case(rng.fork(i)) for i in range(ctx.n(700, 15000))])
    rng = ctx.rng.fork("slateops")
    run_slateops_cases(ctx, [gen_slateops_case(rng.fork(i)) for i in range(ctx.n(400, 8000))])
    run_ext_cases(ctx, ctx.n(200, 3000))
    run_op_sequences(ctx, ctx.n(500, 12000))


def search(ctx: Ctx, seeds):
    """failing-input search on the real code when a tie broke: the oracles alone, the disagreeing cases first"""
    for c in seeds:
        if isinstance(c, dict):
            try:
                run_case(ctx, c)
            except Exception:
                pass
    run_csv_cases(ctx, fixed_csv_cases(), stream="csv-fixed")
    run_csv_cases(ctx, gen_csv_cases(ctx, 1500, tag="search-csv"))
    rng = ctx.rng.fork("search-slate")
    run_slate_cases(ctx, [gen_slate_case(rng.fork(i)) for i in range(1500)])
    rng = ctx.rng.fork("search-slateops")
    run_slateops_cases(ctx, [gen_slateops_case(rng.fork(i)) for i in range(1500)])
    run_ext_cases(ctx, 300)
    run_op_sequences(ctx, 1500, tag="search-ops")


def replay(ctx: Ctx, payload):
    run_case(ctx, payload.get("case", payload))
