/-
Frame lemmas for the model/variant heap (C20).  The central notion is `Ext W h0 h`:
"`h` was obtained from `h0` by writing only inside the region `W` and into objects allocated since, and
every pointer stored in that part of the heap stays inside it".
-/
import IrisVerif.Model.Heap

namespace IrisVerif.Heap

/-- nothing is stored at or above the allocation pointer -/
def Heap.WF (h : Heap) : Prop := ∀ r, h.next ≤ r → h.get r = none

/-- `C` is closed under the pointers stored in `h` -/
def Closed (C : Ref → Prop) (h : Heap) : Prop :=
  ∀ x o, C x → h.get x = some o → ∀ y, y ∈ o.refs → C y

/-- the region `W` together with everything allocated in `[n0, n1)` -/
def Side (W : Ref → Prop) (n0 n1 : Nat) : Ref → Prop := fun x => W x ∨ (n0 ≤ x ∧ x < n1)

theorem Side.mono {W : Ref → Prop} {n0 n1 n2 : Nat} (h12 : n1 ≤ n2) {x : Ref} (hx : Side W n0 n1 x) :
    Side W n0 n2 x := by
  rcases hx with hx | ⟨h0, h1⟩
  · exact Or.inl hx
  · exact Or.inr ⟨h0, Nat.lt_of_lt_of_le h1 h12⟩

structure Ext (W : Ref → Prop) (h0 h : Heap) : Prop where
  next_le : h0.next ≤ h.next
  frame : ∀ r, r < h0.next → ¬ W r → h.get r = h0.get r
  wf : h.WF
  closed : Closed (Side W h0.next h.next) h

@[simp] theorem Heap.get_set (h : Heap) (x : Ref) (o : Obj) (r : Ref) :
    (h.set x o).get r = if r = x then some o else h.get r := rfl

@[simp] theorem Heap.next_set (h : Heap) (x : Ref) (o : Obj) : (h.set x o).next = h.next := rfl

@[simp] theorem Heap.get_alloc (h : Heap) (o : Obj) (r : Ref) :
    (h.alloc o).2.get r = if r = h.next then some o else h.get r := rfl

@[simp] theorem Heap.next_alloc (h : Heap) (o : Obj) : (h.alloc o).2.next = h.next + 1 := rfl

@[simp] theorem Heap.fst_alloc (h : Heap) (o : Obj) : (h.alloc o).1 = h.next := rfl

theorem Heap.get_set_some (h : Heap) (x : Ref) (o : Obj) {c : Ref} {oc : Obj} (hc : h.get c = some oc) :
    ∃ o', (h.set x o).get c = some o' := by
  by_cases hcx : c = x
  · exact ⟨o, by simp [hcx]⟩
  · exact ⟨oc, by simp [hcx, hc]⟩

theorem Heap.WF.lt_of_get {h : Heap} (hw : h.WF) {x : Ref} {o : Obj} (hx : h.get x = some o) : x < h.next := by
  apply Nat.lt_of_not_le
  intro hle
  rw [hw x hle] at hx
  cases hx

theorem Ext.refl {W : Ref → Prop} {h : Heap} (hw : h.WF) (hc : Closed W h) : Ext W h h where
  next_le := Nat.le_refl _
  frame := fun _ _ _ => rfl
  wf := hw
  closed := by
    intro x o hx hg y hy
    rcases hx with hx | ⟨h0, h1⟩
    · exact Or.inl (hc x o hx hg y hy)
    · exact absurd h1 (Nat.not_lt.mpr h0)

/-- allocation keeps the extension; the new reference is on the side -/
theorem Ext.alloc {W : Ref → Prop} {h0 h : Heap} (e : Ext W h0 h) (o : Obj)
    (ho : ∀ y, y ∈ o.refs → Side W h0.next h.next y) :
    Ext W h0 (h.alloc o).2 ∧ Side W h0.next (h.alloc o).2.next (h.alloc o).1 := by
  refine ⟨⟨?_, ?_, ?_, ?_⟩, ?_⟩
  · simpa using Nat.le_succ_of_le e.next_le
  · intro r hr hW
    have : r ≠ h.next := Nat.ne_of_lt (Nat.lt_of_lt_of_le hr e.next_le)
    simp [this, e.frame r hr hW]
  · intro r hr
    have h1 : h.next ≤ r := Nat.le_of_succ_le (by simpa using hr)
    have h2 : r ≠ h.next := by
      intro heq; subst heq; simp at hr; omega
    simp [h2, e.wf r h1]
  · intro x o' hx hg y hy
    simp only [Heap.get_alloc] at hg
    by_cases hxe : x = h.next
    · simp [hxe] at hg
      subst hg
      exact Side.mono (by simp) (ho y hy)
    · simp [hxe] at hg
      have hxlt : x < h.next := e.wf.lt_of_get hg
      have hx' : Side W h0.next h.next x := by
        rcases hx with hx | ⟨ha, _⟩
        · exact Or.inl hx
        · exact Or.inr ⟨ha, hxlt⟩
      exact Side.mono (by simp) (e.closed x o' hx' hg y hy)
  · exact Or.inr ⟨by simpa using e.next_le, by simp⟩

/-- overwriting an allocated object on the side keeps the extension -/
theorem Ext.set {W : Ref → Prop} {h0 h : Heap} (e : Ext W h0 h) {x : Ref} (o : Obj) {o' : Obj}
    (hx : Side W h0.next h.next x) (hg : h.get x = some o')
    (ho : ∀ y, y ∈ o.refs → Side W h0.next h.next y) :
    Ext W h0 (h.set x o) := by
  refine ⟨e.next_le, ?_, ?_, ?_⟩
  · intro r hr hW
    have : r ≠ x := by
      intro heq; subst heq
      rcases hx with hx | ⟨ha, _⟩
      · exact hW hx
      · exact absurd hr (Nat.not_lt.mpr ha)
    simp [this, e.frame r hr hW]
  · intro r hr
    have hxlt : x < h.next := e.wf.lt_of_get hg
    have : r ≠ x := by
      intro heq; subst heq; exact absurd hxlt (Nat.not_lt.mpr hr)
    simp only [Heap.get_set, this, if_false]
    exact e.wf r hr
  · intro z oz hz hgz y hy
    simp only [Heap.get_set] at hgz
    by_cases hze : z = x
    · simp [hze] at hgz
      subst hgz
      exact ho y hy
    · simp [hze] at hgz
      exact e.closed z oz hz hgz y hy

theorem Ext.side_mono {W : Ref → Prop} {h0 h h' : Heap} (_e : Ext W h0 h) (e' : Ext W h0 h')
    (hle : h.next ≤ h'.next) {x : Ref} (hx : Side W h0.next h.next x) : Side W h0.next h'.next x := by
  have _ := e'
  exact Side.mono hle hx

/-! ### reading -/

theorem getModel_ok {h : Heap} {m i : Ref} {vs : List Ref} {d : InvData} (hm : getModel h m = .ok (i, vs, d)) :
    h.get m = some (.model i vs) ∧ h.get i = some (.inv d) := by
  unfold getModel at hm
  split at hm
  · rename_i i' vs' hg
    split at hm
    · rename_i d' hi
      simp only [Except.ok.injEq, Prod.mk.injEq] at hm
      obtain ⟨rfl, rfl, rfl⟩ := hm
      exact ⟨hg, hi⟩
    · cases hm
  · cases hm

theorem getVar_ok {h : Heap} {v l c : Ref} {s : Option Ref} {lv cv : List Val}
    (hv : getVar h v = .ok (l, c, s, lv, cv)) :
    h.get v = some (.var l c s) ∧ h.get l = some (.dict lv) ∧ h.get c = some (.dict cv) := by
  unfold getVar at hv
  split at hv
  · rename_i l' c' s' hg
    split at hv
    · rename_i lv' cv' hl hc
      simp only [Except.ok.injEq, Prod.mk.injEq] at hv
      obtain ⟨rfl, rfl, rfl, rfl, rfl⟩ := hv
      exact ⟨hg, hl, hc⟩
    · cases hv
  · cases hv

/-- the fields of a variant on the side are on the side -/
theorem Ext.var_fields {W : Ref → Prop} {h0 h : Heap} (e : Ext W h0 h) {v l c : Ref} {s : Option Ref}
    (hv : Side W h0.next h.next v) (hg : h.get v = some (.var l c s)) :
    Side W h0.next h.next l ∧ Side W h0.next h.next c ∧ ∀ sr, s = some sr → Side W h0.next h.next sr := by
  have hc := e.closed v _ hv hg
  refine ⟨hc l (by simp [Obj.refs]), hc c (by simp [Obj.refs]), ?_⟩
  intro sr hs
  subst hs
  exact hc sr (by simp [Obj.refs])

theorem Ext.model_fields {W : Ref → Prop} {h0 h : Heap} (e : Ext W h0 h) {m i : Ref} {vs : List Ref}
    (hm : Side W h0.next h.next m) (hg : h.get m = some (.model i vs)) :
    Side W h0.next h.next i ∧ ∀ v, v ∈ vs → Side W h0.next h.next v := by
  have hc := e.closed m _ hm hg
  exact ⟨hc i (by simp [Obj.refs]), fun v hv => hc v (by simp [Obj.refs, hv])⟩

/-! ### per-variant operations -/

theorem assignVariant_ext {W : Ref → Prop} {h0 h h' : Heap} (e : Ext W h0 h) {d : InvData} {q : Option Nat}
    {va : Ref × AVal} (hv : Side W h0.next h.next va.1) (hr : assignVariant d q h va = .ok h') :
    Ext W h0 h' ∧ h'.next = h.next := by
  unfold assignVariant at hr
  split at hr
  · rename_i l c s lv cv hgv
    obtain ⟨hg, hl, hc⟩ := getVar_ok hgv
    obtain ⟨sl, sc, _⟩ := e.var_fields hv hg
    simp only [Except.ok.injEq] at hr
    subst hr
    have e1 := e.set (.dict (enforceLevels d.quantities (updateAt lv q va.2.level))) sl hl (by simp [Obj.refs])
    have hc' := Heap.get_set_some h l (.dict (enforceLevels d.quantities (updateAt lv q va.2.level))) hc
    obtain ⟨o, ho⟩ := hc'
    exact ⟨e1.set _ (by simpa using sc) ho (by simp [Obj.refs]), rfl⟩
  · cases hr

theorem updVariant_ext {W : Ref → Prop} {h0 h h' : Heap} (e : Ext W h0 h)
    {G : InvData → List Val → List Val → List Val × List Val} {d : InvData}
    {v : Ref} (hv : Side W h0.next h.next v) (hr : updVariant G d h v = .ok h') :
    Ext W h0 h' ∧ h'.next = h.next := by
  unfold updVariant at hr
  split at hr
  · rename_i l c s lv cv hgv
    obtain ⟨hg, hl, hc⟩ := getVar_ok hgv
    obtain ⟨sl, sc, _⟩ := e.var_fields hv hg
    simp only [Except.ok.injEq] at hr
    subst hr
    have e1 := e.set (.dict (G d lv cv).1) sl hl (by simp [Obj.refs])
    have hc' := Heap.get_set_some h l (.dict (G d lv cv).1) hc
    obtain ⟨o, ho⟩ := hc'
    exact ⟨e1.set _ (by simpa using sc) ho (by simp [Obj.refs]), rfl⟩
  · cases hr

theorem solveVariant_ext {W : Ref → Prop} {h0 h h' : Heap} (e : Ext W h0 h)
    {F : InvData → List Val → List Val → Sol} {d : InvData}
    {v : Ref} (hv : Side W h0.next h.next v) (hr : solveVariant F d h v = .ok h') :
    Ext W h0 h' ∧ h.next ≤ h'.next := by
  unfold solveVariant at hr
  split at hr
  · rename_i l c s lv cv hgv
    obtain ⟨hg, _, _⟩ := getVar_ok hgv
    obtain ⟨sl, sc, _⟩ := e.var_fields hv hg
    simp only [Except.ok.injEq] at hr
    subst hr
    obtain ⟨e1, snew⟩ := e.alloc (.sol (F d lv cv)) (by simp [Obj.refs])
    have hlt : v < h.next := e.wf.lt_of_get hg
    have hgv' : (h.alloc (.sol (F d lv cv))).2.get v = some (.var l c s) := by
      simp [Nat.ne_of_lt hlt, hg]
    refine ⟨e1.set _ (Side.mono (by simp) hv) hgv' ?_, by simp⟩
    intro y hy
    simp only [Obj.refs, Option.toList, List.mem_cons, List.not_mem_nil, or_false] at hy
    rcases hy with rfl | rfl | rfl
    · exact Side.mono (by simp) sl
    · exact Side.mono (by simp) sc
    · exact snew
  · cases hr

/-- `Variant.copy` only allocates; the new variant and everything it points to is fresh -/
theorem copyVariant_ext {W : Ref → Prop} {h0 h h' : Heap} (e : Ext W h0 h) {v v' : Ref}
    (hr : copyVariant h v = .ok (v', h')) :
    Ext W h0 h' ∧ h.next ≤ v' ∧ v' < h'.next ∧ h.next ≤ h'.next ∧ (∀ r, r < h.next → h'.get r = h.get r) := by
  unfold copyVariant at hr
  split at hr
  · rename_i l c s lv cv hgv
    obtain ⟨e1, s1⟩ := e.alloc (.dict lv) (by simp [Obj.refs])
    obtain ⟨e2, s2⟩ := e1.alloc (.dict cv) (by simp [Obj.refs])
    split at hr
    · simp only [Except.ok.injEq, Prod.mk.injEq] at hr
      obtain ⟨rfl, rfl⟩ := hr
      obtain ⟨e3, _⟩ := e2.alloc (.var (h.alloc (.dict lv)).1 ((h.alloc (.dict lv)).2.alloc (.dict cv)).1 none) (by
        intro y hy
        simp only [Obj.refs, Option.toList, List.mem_cons, List.not_mem_nil, or_false] at hy
        rcases hy with rfl | rfl
        · exact Side.mono (by simp) s1
        · exact s2)
      refine ⟨e3, by simp only [Heap.next_alloc]; omega, by simp, by simp only [Heap.next_alloc]; omega, ?_⟩
      intro r hr
      have h1 : r ≠ h.next := Nat.ne_of_lt hr
      have h2 : r ≠ h.next + 1 := by omega
      have h3 : r ≠ h.next + 1 + 1 := by omega
      simp [h1, h2, h3]
    · rename_i sr
      split at hr
      · rename_i sd hsd
        simp only [Except.ok.injEq, Prod.mk.injEq] at hr
        obtain ⟨rfl, rfl⟩ := hr
        obtain ⟨e3, s3⟩ := e2.alloc (.sol sd) (by simp [Obj.refs])
        obtain ⟨e4, _⟩ := e3.alloc (.var (h.alloc (.dict lv)).1 ((h.alloc (.dict lv)).2.alloc (.dict cv)).1
            (some (((h.alloc (.dict lv)).2.alloc (.dict cv)).2.alloc (.sol sd)).1)) (by
          intro y hy
          simp only [Obj.refs, Option.toList, List.mem_cons, List.not_mem_nil, or_false] at hy
          rcases hy with rfl | rfl | rfl
          · exact Side.mono (by simp only [Heap.next_alloc]; omega) s1
          · exact Side.mono (by simp) s2
          · exact s3)
        refine ⟨e4, by simp only [Heap.next_alloc]; omega, by simp, by simp only [Heap.next_alloc]; omega, ?_⟩
        intro r hr
        have h1 : r ≠ h.next := Nat.ne_of_lt hr
        have h2 : r ≠ h.next + 1 := by omega
        have h3 : r ≠ h.next + 1 + 1 := by omega
        have h4 : r ≠ h.next + 1 + 1 + 1 := by omega
        simp [h1, h2, h3, h4]
      · cases hr
  · cases hr

/-! ### loops -/

theorem forEach_ext {β : Type} {W : Ref → Prop} {h0 : Heap} {f : Heap → β → R Heap}
    (P : β → Prop) (n : Nat)
    (hf : ∀ h x h', P x → n ≤ h.next → Ext W h0 h → f h x = .ok h' → Ext W h0 h' ∧ h.next ≤ h'.next) :
    ∀ (xs : List β) (h h' : Heap), (∀ x, x ∈ xs → P x) → n ≤ h.next → Ext W h0 h → forEach f h xs = .ok h' →
      Ext W h0 h' ∧ h.next ≤ h'.next := by
  intro xs
  induction xs with
  | nil =>
    intro h h' _ _ e hr
    simp only [forEach, Except.ok.injEq] at hr
    subst hr
    exact ⟨e, Nat.le_refl _⟩
  | cons x xs ih =>
    intro h h' hall hn e hr
    simp only [forEach] at hr
    split at hr
    · rename_i h1 hfx
      obtain ⟨e1, le1⟩ := hf h x h1 (hall x (by simp)) hn e hfx
      obtain ⟨e2, le2⟩ := ih h1 h' (fun y hy => hall y (by simp [hy])) (Nat.le_trans hn le1) e1 hr
      exact ⟨e2, Nat.le_trans le1 le2⟩
    · cases hr

/-- a list of references all of which are fresh w.r.t. `n` and allocated in `h` -/
@[reducible] def FreshIn (n : Nat) (h : Heap) (vs : List Ref) : Prop := ∀ v, v ∈ vs → n ≤ v ∧ v < h.next

theorem copyVars_ext {W : Ref → Prop} {h0 : Heap} :
    ∀ (vs : List Ref) (h h' : Heap) (vs' : List Ref), Ext W h0 h → copyVars h vs = .ok (vs', h') →
      Ext W h0 h' ∧ h.next ≤ h'.next ∧ FreshIn h.next h' vs' ∧ (∀ r, r < h.next → h'.get r = h.get r) := by
  intro vs
  induction vs with
  | nil =>
    intro h h' vs' e hr
    simp only [copyVars, Except.ok.injEq, Prod.mk.injEq] at hr
    obtain ⟨rfl, rfl⟩ := hr
    exact ⟨e, Nat.le_refl _, (by intro v hv; cases hv), fun _ _ => rfl⟩
  | cons v vs ih =>
    intro h h' vs' e hr
    simp only [copyVars] at hr
    split at hr
    · rename_i v1 h1 hcv
      obtain ⟨e1, f1, f2, le1, fr1⟩ := copyVariant_ext e hcv
      split at hr
      · rename_i rest h2 hrest
        obtain ⟨e2, le2, fr, fr2⟩ := ih h1 h2 rest e1 hrest
        simp only [Except.ok.injEq, Prod.mk.injEq] at hr
        obtain ⟨rfl, rfl⟩ := hr
        refine ⟨e2, Nat.le_trans le1 le2, ?_, ?_⟩
        · intro y hy
          simp only [List.mem_cons] at hy
          rcases hy with rfl | hy
          · exact ⟨f1, Nat.lt_of_lt_of_le f2 le2⟩
          · exact ⟨Nat.le_trans le1 (fr y hy).1, (fr y hy).2⟩
        · intro r hr'
          rw [fr2 r (Nat.lt_of_lt_of_le hr' le1), fr1 r hr']
      · cases hr
    · cases hr

theorem pickleVars_ext {W : Ref → Prop} {h0 : Heap} (n : Nat) :
    ∀ (vs : List Ref) (h h' : Heap) (memo : List (Ref × Ref)) (vs' : List Ref), Ext W h0 h → n ≤ h.next →
      (∀ a b, lookupRef memo a = some b → n ≤ b ∧ b < h.next) →
      pickleVars h memo vs = .ok (vs', h') →
      Ext W h0 h' ∧ h.next ≤ h'.next ∧ FreshIn n h' vs' ∧ (∀ r, r < h.next → h'.get r = h.get r) := by
  intro vs
  induction vs with
  | nil =>
    intro h h' memo vs' e _ _ hr
    simp only [pickleVars, Except.ok.injEq, Prod.mk.injEq] at hr
    obtain ⟨rfl, rfl⟩ := hr
    exact ⟨e, Nat.le_refl _, (by intro v hv; cases hv), fun _ _ => rfl⟩
  | cons v vs ih =>
    intro h h' memo vs' e hn hmemo hr
    simp only [pickleVars] at hr
    split at hr
    · rename_i v1 hlook
      split at hr
      · rename_i rest h2 hrest
        obtain ⟨e2, le2, fr, fr2⟩ := ih h h2 memo rest e hn hmemo hrest
        simp only [Except.ok.injEq, Prod.mk.injEq] at hr
        obtain ⟨rfl, rfl⟩ := hr
        refine ⟨e2, le2, ?_, fr2⟩
        intro y hy
        simp only [List.mem_cons] at hy
        rcases hy with rfl | hy
        · exact ⟨(hmemo v _ hlook).1, Nat.lt_of_lt_of_le (hmemo v _ hlook).2 le2⟩
        · exact fr y hy
      · cases hr
    · split at hr
      · rename_i v1 h1 hcv
        obtain ⟨e1, f1, f2, le1, fr1⟩ := copyVariant_ext e hcv
        split at hr
        · rename_i rest h2 hrest
          have hmemo' : ∀ a b, lookupRef ((v, v1) :: memo) a = some b → n ≤ b ∧ b < h1.next := by
            intro a b hab
            simp only [lookupRef] at hab
            split at hab
            · simp only [Option.some.injEq] at hab
              subst hab
              exact ⟨Nat.le_trans hn f1, f2⟩
            · exact ⟨(hmemo a b hab).1, Nat.lt_of_lt_of_le (hmemo a b hab).2 le1⟩
          obtain ⟨e2, le2, fr, fr2⟩ := ih h1 h2 ((v, v1) :: memo) rest e1 (Nat.le_trans hn le1) hmemo' hrest
          simp only [Except.ok.injEq, Prod.mk.injEq] at hr
          obtain ⟨rfl, rfl⟩ := hr
          refine ⟨e2, Nat.le_trans le1 le2, ?_, ?_⟩
          · intro y hy
            simp only [List.mem_cons] at hy
            rcases hy with rfl | hy
            · exact ⟨Nat.le_trans hn f1, Nat.lt_of_lt_of_le f2 le2⟩
            · exact fr y hy
          · intro r hr'
            rw [fr2 r (Nat.lt_of_lt_of_le hr' le1), fr1 r hr']
        · cases hr
      · cases hr

theorem expandVars_ext {W : Ref → Prop} {h0 : Heap} :
    ∀ (k : Nat) (vs : List Ref) (h h' : Heap) (vs' : List Ref), Ext W h0 h →
      (∀ v, v ∈ vs → Side W h0.next h.next v) →
      expandVars h vs k = .ok (vs', h') →
      Ext W h0 h' ∧ h.next ≤ h'.next ∧ (∀ v, v ∈ vs' → Side W h0.next h'.next v) ∧
        (∀ r, r < h.next → h'.get r = h.get r) := by
  intro k
  induction k with
  | zero =>
    intro vs h h' vs' e hvs hr
    simp only [expandVars, Except.ok.injEq, Prod.mk.injEq] at hr
    obtain ⟨rfl, rfl⟩ := hr
    exact ⟨e, Nat.le_refl _, hvs, fun _ _ => rfl⟩
  | succ k ih =>
    intro vs h h' vs' e hvs hr
    simp only [expandVars] at hr
    split at hr
    · cases hr
    · rename_i last _
      split at hr
      · rename_i v1 h1 hcv
        obtain ⟨e1, f1, f2, le1, fr1⟩ := copyVariant_ext e hcv
        have hvs1 : ∀ v, v ∈ vs ++ [v1] → Side W h0.next h1.next v := by
          intro v hv
          simp only [List.mem_append, List.mem_singleton] at hv
          rcases hv with hv | rfl
          · exact Side.mono le1 (hvs v hv)
          · exact Or.inr ⟨Nat.le_trans e.next_le f1, f2⟩
        obtain ⟨e2, le2, hvs2, fr2⟩ := ih (vs ++ [v1]) h1 h' vs' e1 hvs1 hr
        exact ⟨e2, Nat.le_trans le1 le2, hvs2, fun r hr' => by
          rw [fr2 r (Nat.lt_of_lt_of_le hr' le1), fr1 r hr']⟩
      · cases hr

theorem selectVars_mem {vs : List Ref} : ∀ (ks : List Int) (vs' : List Ref), selectVars vs ks = some vs' →
    ∀ v, v ∈ vs' → v ∈ vs := by
  intro ks
  induction ks with
  | nil =>
    intro vs' hs v hv
    simp only [selectVars, Option.some.injEq] at hs
    subst hs
    cases hv
  | cons k ks ih =>
    intro vs' hs v hv
    simp only [selectVars] at hs
    split at hs
    · rename_i v1 rest hk hrest
      simp only [Option.some.injEq] at hs
      subst hs
      simp only [List.mem_cons] at hv
      rcases hv with rfl | hv
      · cases hj : resolveIdx vs.length k with
        | none => simp [hj] at hk
        | some j =>
          simp only [hj, Option.bind_some] at hk
          exact List.mem_of_getElem? hk
      · exact ih rest hrest v hv
    · cases hs

/-- `copy` only allocates: the old heap is untouched and the new model object is fresh -/
theorem copy_ext {W : Ref → Prop} {h0 h : Heap} {m : Ref} {p : Ref × Heap} (e : Ext W h0 h)
    (hr : copy h m = .ok p) :
    Ext W h0 p.2 ∧ h.next ≤ p.2.next ∧ (h.next ≤ p.1 ∧ p.1 < p.2.next) ∧
      (∀ r, r < h.next → p.2.get r = h.get r) := by
  unfold copy at hr
  split at hr
  · rename_i i vs d hm
    obtain ⟨e1, s1⟩ := e.alloc (.inv d) (by simp [Obj.refs])
    dsimp only at hr
    split at hr
    · rename_i vs' h2 hcv
      obtain ⟨e2, le2, fr, fr2⟩ := copyVars_ext vs _ h2 vs' e1 hcv
      simp only [Except.ok.injEq] at hr
      subst hr
      simp only [Heap.next_alloc] at le2
      obtain ⟨e3, _⟩ := e2.alloc (.model (h.alloc (.inv d)).1 vs') (by
        intro y hy
        simp only [Obj.refs, List.mem_cons] at hy
        rcases hy with rfl | hy
        · exact Side.mono (by simpa using le2) s1
        · have := fr y hy
          simp only [Heap.next_alloc] at this
          exact Or.inr ⟨by have := e.next_le; omega, this.2⟩)
      refine ⟨e3, by simp only [Heap.next_alloc]; omega, ⟨by simp only [Heap.fst_alloc]; omega, by simp⟩, ?_⟩
      intro r hr'
      have h1 : r ≠ h2.next := by omega
      have h2' : r ≠ h.next := by omega
      simp only [Heap.get_alloc, h1, if_false]
      rw [fr2 r (by simp only [Heap.next_alloc]; omega)]
      simp [h2']
    · cases hr
  · cases hr

/-- `pickle` only allocates: the old heap is untouched and the new model object is fresh -/
theorem pickle_ext {W : Ref → Prop} {h0 h : Heap} {m : Ref} {p : Ref × Heap} (e : Ext W h0 h)
    (hr : pickle h m = .ok p) :
    Ext W h0 p.2 ∧ h.next ≤ p.2.next ∧ (h.next ≤ p.1 ∧ p.1 < p.2.next) ∧
      (∀ r, r < h.next → p.2.get r = h.get r) := by
  unfold pickle at hr
  split at hr
  · rename_i i vs d hm
    obtain ⟨e1, s1⟩ := e.alloc (.inv d) (by simp [Obj.refs])
    dsimp only at hr
    split at hr
    · rename_i vs' h2 hcv
      obtain ⟨e2, le2, fr, fr2⟩ := pickleVars_ext (h.next + 1) vs _ h2 [] vs' e1 (by simp)
        (by intro a b hab; simp [lookupRef] at hab) hcv
      simp only [Except.ok.injEq] at hr
      subst hr
      simp only [Heap.next_alloc] at le2
      obtain ⟨e3, _⟩ := e2.alloc (.model (h.alloc (.inv d)).1 vs') (by
        intro y hy
        simp only [Obj.refs, List.mem_cons] at hy
        rcases hy with rfl | hy
        · exact Side.mono (by simpa using le2) s1
        · have := fr y hy
          exact Or.inr ⟨by have := e.next_le; omega, this.2⟩)
      refine ⟨e3, by simp only [Heap.next_alloc]; omega, ⟨by simp only [Heap.fst_alloc]; omega, by simp⟩, ?_⟩
      intro r hr'
      have h1 : r ≠ h2.next := by omega
      have h2' : r ≠ h.next := by omega
      simp only [Heap.get_alloc, h1, if_false]
      rw [fr2 r (by simp only [Heap.next_alloc]; omega)]
      simp [h2']
    · cases hr
  · cases hr

/-! ### whole operations -/

/-- every operation of the language keeps the extension when its target is on the side; a returned model is on the side -/
theorem step_ext {W : Ref → Prop} {h0 h h' : Heap} (fs : Funs) (e : Ext W h0 h) (op : Op) {r : Option Ref}
    (ht : Side W h0.next h.next op.target) (hr : step fs h op = .ok (r, h')) :
    Ext W h0 h' ∧ h.next ≤ h'.next ∧ (∀ m', r = some m' → Side W h0.next h'.next m') := by
  cases op with
  | assign m name vals =>
    simp only [step, Op.target] at hr ht
    cases hop : assign h m name vals with
    | error err => simp [hop, Except.map] at hr
    | ok h1 =>
      simp only [hop, Except.map, Except.ok.injEq, Prod.mk.injEq] at hr
      obtain ⟨rfl, rfl⟩ := hr
      unfold assign at hop
      split at hop
      · rename_i i vs d hm
        obtain ⟨hgm, _⟩ := getModel_ok hm
        obtain ⟨_, hvs⟩ := e.model_fields ht hgm
        have := forEach_ext (W := W) (h0 := h0) (f := assignVariant d (qidOf d name))
          (fun va : Ref × AVal => Side W h0.next h.next va.1) h.next
          (fun hh x hh' hx hn ee hf => by
            obtain ⟨e1, hnx⟩ := assignVariant_ext ee (Side.mono hn hx) hf
            exact ⟨e1, Nat.le_of_eq hnx.symm⟩)
          _ h h1 (fun x hx => hvs x.1 (List.of_mem_zip hx).1) (Nat.le_refl _) e hop
        exact ⟨this.1, this.2, by intro m' hm'; cases hm'⟩
      · cases hop
  | solve m =>
    simp only [step, Op.target] at hr ht
    cases hop : solve fs.F h m with
    | error err => simp [hop, Except.map] at hr
    | ok h1 =>
      simp only [hop, Except.map, Except.ok.injEq, Prod.mk.injEq] at hr
      obtain ⟨rfl, rfl⟩ := hr
      unfold solve at hop
      split at hop
      · rename_i i vs d hm
        obtain ⟨hgm, _⟩ := getModel_ok hm
        obtain ⟨_, hvs⟩ := e.model_fields ht hgm
        have := forEach_ext (W := W) (h0 := h0) (f := solveVariant fs.F d)
          (fun v : Ref => Side W h0.next h.next v) h.next
          (fun hh x hh' hx hn ee hf => solveVariant_ext ee (Side.mono hn hx) hf)
          _ h h1 hvs (Nat.le_refl _) e hop
        exact ⟨this.1, this.2, by intro m' hm'; cases hm'⟩
      · cases hop
  | steady m =>
    simp only [step, Op.target] at hr ht
    cases hop : steady fs.G fs.A h m with
    | error err => simp [hop, Except.map] at hr
    | ok h1 =>
      simp only [hop, Except.map, Except.ok.injEq, Prod.mk.injEq] at hr
      obtain ⟨rfl, rfl⟩ := hr
      unfold steady at hop
      split at hop
      · rename_i i vs d hm
        obtain ⟨hgm, _⟩ := getModel_ok hm
        obtain ⟨_, hvs⟩ := e.model_fields ht hgm
        split at hop
        · rename_i hmid hfirst
          have a1 := forEach_ext (W := W) (h0 := h0) (f := updVariant fs.G d)
            (fun v : Ref => Side W h0.next h.next v) h.next
            (fun hh x hh' hx hn ee hf => by
              obtain ⟨e1, hnx⟩ := updVariant_ext ee (Side.mono hn hx) hf
              exact ⟨e1, Nat.le_of_eq hnx.symm⟩)
            _ h hmid hvs (Nat.le_refl _) e hfirst
          have a2 := forEach_ext (W := W) (h0 := h0) (f := updVariant fs.A d)
            (fun v : Ref => Side W h0.next h.next v) h.next
            (fun hh x hh' hx hn ee hf => by
              obtain ⟨e1, hnx⟩ := updVariant_ext ee (Side.mono hn hx) hf
              exact ⟨e1, Nat.le_of_eq hnx.symm⟩)
            _ hmid h1 hvs a1.2 a1.1 hop
          exact ⟨a2.1, Nat.le_trans a1.2 a2.2, by intro m' hm'; cases hm'⟩
        · cases hop
      · cases hop
  | alter m n =>
    simp only [step, Op.target] at hr ht
    cases hop : alter h m n with
    | error err => simp [hop, Except.map] at hr
    | ok h1 =>
      simp only [hop, Except.map, Except.ok.injEq, Prod.mk.injEq] at hr
      obtain ⟨rfl, rfl⟩ := hr
      unfold alter at hop
      split at hop
      · rename_i i vs d hm
        obtain ⟨hgm, _⟩ := getModel_ok hm
        obtain ⟨hi, hvs⟩ := e.model_fields ht hgm
        split at hop
        · split at hop
          · cases hop
          · simp only [Except.ok.injEq] at hop
            subst hop
            refine ⟨e.set _ ht hgm ?_, Nat.le_refl _, by intro m' hm'; cases hm'⟩
            intro y hy
            simp only [Obj.refs, List.mem_cons] at hy
            rcases hy with rfl | hy
            · exact hi
            · exact hvs y (List.mem_of_mem_take hy)
        · split at hop
          · split at hop
            · rename_i vs' hx hexp
              simp only [Except.ok.injEq] at hop
              subst hop
              obtain ⟨e1, le1, hvs', fr⟩ := expandVars_ext _ vs h hx vs' e hvs hexp
              have ho : hx.get m = some (.model i vs) := by
                rw [fr m (e.wf.lt_of_get hgm)]; exact hgm
              refine ⟨e1.set _ (Side.mono le1 ht) ho ?_, le1, by intro m' hm'; cases hm'⟩
              intro y hy
              simp only [Obj.refs, List.mem_cons] at hy
              rcases hy with rfl | hy
              · exact Side.mono le1 hi
              · exact hvs' y hy
            · cases hop
          · simp only [Except.ok.injEq] at hop
            subst hop
            exact ⟨e, Nat.le_refl _, by intro m' hm'; cases hm'⟩
      · cases hop
  | setDesc m s =>
    simp only [step, Op.target] at hr ht
    cases hop : setDesc h m s with
    | error err => simp [hop, Except.map] at hr
    | ok h1 =>
      simp only [hop, Except.map, Except.ok.injEq, Prod.mk.injEq] at hr
      obtain ⟨rfl, rfl⟩ := hr
      unfold setDesc at hop
      split at hop
      · rename_i i vs d hm
        obtain ⟨hgm, hgi⟩ := getModel_ok hm
        obtain ⟨hi, _⟩ := e.model_fields ht hgm
        simp only [Except.ok.injEq] at hop
        subst hop
        exact ⟨e.set _ hi hgi (by simp [Obj.refs]), Nat.le_refl _, by intro m' hm'; cases hm'⟩
      · cases hop
  | setTol m eig x =>
    simp only [step, Op.target] at hr ht
    cases hop : setTol h m eig x with
    | error err => simp [hop, Except.map] at hr
    | ok h1 =>
      simp only [hop, Except.map, Except.ok.injEq, Prod.mk.injEq] at hr
      obtain ⟨rfl, rfl⟩ := hr
      unfold setTol at hop
      split at hop
      · rename_i i vs d hm
        obtain ⟨hgm, hgi⟩ := getModel_ok hm
        obtain ⟨hi, _⟩ := e.model_fields ht hgm
        simp only [Except.ok.injEq] at hop
        subst hop
        exact ⟨e.set _ hi hgi (by simp [Obj.refs]), Nat.le_refl _, by intro m' hm'; cases hm'⟩
      · cases hop
  | copy m =>
    simp only [step, Op.target] at hr ht
    cases hop : copy h m with
    | error err => simp [hop, Except.map] at hr
    | ok p =>
      simp only [hop, Except.map, Except.ok.injEq, Prod.mk.injEq] at hr
      obtain ⟨rfl, rfl⟩ := hr
      obtain ⟨e1, le1, hs, _⟩ := copy_ext e hop
      exact ⟨e1, le1, by intro m' hm'; cases hm'; exact Or.inr ⟨Nat.le_trans e.next_le hs.1, hs.2⟩⟩
  | pickle m =>
    simp only [step, Op.target] at hr ht
    cases hop : pickle h m with
    | error err => simp [hop, Except.map] at hr
    | ok p =>
      simp only [hop, Except.map, Except.ok.injEq, Prod.mk.injEq] at hr
      obtain ⟨rfl, rfl⟩ := hr
      obtain ⟨e1, le1, hs, _⟩ := pickle_ext e hop
      exact ⟨e1, le1, by intro m' hm'; cases hm'; exact Or.inr ⟨Nat.le_trans e.next_le hs.1, hs.2⟩⟩
  | view m ix =>
    simp only [step, Op.target] at hr ht
    cases hop : view h m ix with
    | error err => simp [hop, Except.map] at hr
    | ok p =>
      simp only [hop, Except.map, Except.ok.injEq, Prod.mk.injEq] at hr
      obtain ⟨rfl, rfl⟩ := hr
      unfold view at hop
      split at hop
      · rename_i i vs d hm
        obtain ⟨hgm, _⟩ := getModel_ok hm
        obtain ⟨hi, hvs⟩ := e.model_fields ht hgm
        split at hop
        · rename_i vs' hsel
          simp only [Except.ok.injEq] at hop
          subst hop
          obtain ⟨e1, s1⟩ := e.alloc (.model i vs') (by
            intro y hy
            simp only [Obj.refs, List.mem_cons] at hy
            rcases hy with rfl | hy
            · exact hi
            · exact hvs y (selectVars_mem ix vs' hsel y hy))
          exact ⟨e1, by simp, by intro m' hm'; cases hm'; exact s1⟩
        · cases hop
      · cases hop
  | mutInv m f =>
    simp only [step, Op.target] at hr ht
    cases hop : mutInv h m f with
    | error err => simp [hop, Except.map] at hr
    | ok h1 =>
      simp only [hop, Except.map, Except.ok.injEq, Prod.mk.injEq] at hr
      obtain ⟨rfl, rfl⟩ := hr
      unfold mutInv at hop
      split at hop
      · rename_i i vs d hm
        obtain ⟨hgm, hgi⟩ := getModel_ok hm
        obtain ⟨hi, _⟩ := e.model_fields ht hgm
        simp only [Except.ok.injEq] at hop
        subst hop
        exact ⟨e.set _ hi hgi (by simp [Obj.refs]), Nat.le_refl _, by intro m' hm'; cases hm'⟩
      · cases hop


/-! ### observation only depends on what it reads -/

theorem getVar_congr {h h' : Heap} {v : Ref}
    (hv : h'.get v = h.get v)
    (hf : ∀ l c s, h.get v = some (.var l c s) → h'.get l = h.get l ∧ h'.get c = h.get c) :
    getVar h' v = getVar h v := by
  unfold getVar
  rw [hv]
  cases hg : h.get v with
  | none => rfl
  | some o =>
    cases o with
    | var l c s =>
      obtain ⟨h1, h2⟩ := hf l c s hg
      simp only [h1, h2]
    | _ => rfl

theorem observeVar_congr {h h' : Heap} {v : Ref}
    (hv : h'.get v = h.get v)
    (hf : ∀ l c s, h.get v = some (.var l c s) →
      h'.get l = h.get l ∧ h'.get c = h.get c ∧ ∀ sr, s = some sr → h'.get sr = h.get sr) :
    observeVar h' v = observeVar h v := by
  unfold observeVar
  rw [getVar_congr hv (fun l c s hg => ⟨(hf l c s hg).1, (hf l c s hg).2.1⟩)]
  cases hgv : getVar h v with
  | error e => rfl
  | ok t =>
    obtain ⟨l, c, s, lv, cv⟩ := t
    obtain ⟨hg, _, _⟩ := getVar_ok hgv
    cases s with
    | none => rfl
    | some sr =>
      simp only []
      rw [(hf l c (some sr) hg).2.2 sr rfl]

theorem observeVars_congr {h h' : Heap} : ∀ (vs : List Ref),
    (∀ v, v ∈ vs → observeVar h' v = observeVar h v) → observeVars h' vs = observeVars h vs := by
  intro vs
  induction vs with
  | nil => intro _; rfl
  | cons v vs ih =>
    intro hall
    simp only [observeVars]
    rw [hall v (by simp), ih (fun y hy => hall y (by simp [hy]))]

/-- observation of a variant inside a closed region only depends on that region -/
theorem observeVar_agree {B : Ref → Prop} {h h' : Heap} {v : Ref} (hc : Closed B h)
    (ha : ∀ x, B x → h'.get x = h.get x) (hv : B v) : observeVar h' v = observeVar h v := by
  apply observeVar_congr (ha v hv)
  intro l c s hg
  have hcl := hc v _ hv hg
  refine ⟨ha l (hcl l (by simp [Obj.refs])), ha c (hcl c (by simp [Obj.refs])), ?_⟩
  intro sr hs
  subst hs
  exact ha sr (hcl sr (by simp [Obj.refs]))

/-- observation of a model inside a closed region only depends on that region -/
theorem observe_agree {B : Ref → Prop} {h h' : Heap} {m : Ref} (hc : Closed B h)
    (ha : ∀ x, B x → h'.get x = h.get x) (hm : B m) : observe h' m = observe h m := by
  unfold observe getModel
  rw [ha m hm]
  cases hg : h.get m with
  | none => rfl
  | some o =>
    cases o with
    | model i vs =>
      have hcl := hc m _ hm hg
      simp only []
      rw [ha i (hcl i (by simp [Obj.refs]))]
      cases hi : h.get i with
      | none => rfl
      | some oi =>
        cases oi with
        | inv d =>
          simp only []
          rw [observeVars_congr vs (fun v hv => observeVar_agree hc ha (hcl v (by simp [Obj.refs, hv])))]
        | _ => rfl
    | _ => rfl

/-- a successful observation reads only allocated objects, so it survives any change above `h.next` -/
theorem observeVar_frame {h h' : Heap} {v : Ref} {o : VarObs} (hw : h.WF)
    (hfr : ∀ r, r < h.next → h'.get r = h.get r) (ho : observeVar h v = some o) : observeVar h' v = some o := by
  have hv : ∃ l c s lv cv, getVar h v = .ok (l, c, s, lv, cv) := by
    unfold observeVar at ho
    cases hgv : getVar h v with
    | error e => simp [hgv] at ho
    | ok t => obtain ⟨l, c, s, lv, cv⟩ := t; exact ⟨l, c, s, lv, cv, rfl⟩
  obtain ⟨l, c, s, lv, cv, hgv⟩ := hv
  obtain ⟨hg, hl, hc⟩ := getVar_ok hgv
  rw [← ho]
  apply observeVar_congr (hfr v (hw.lt_of_get hg))
  intro l' c' s' hg'
  rw [hg] at hg'
  simp only [Option.some.injEq, Obj.var.injEq] at hg'
  obtain ⟨rfl, rfl, rfl⟩ := hg'
  refine ⟨hfr l (hw.lt_of_get hl), hfr c (hw.lt_of_get hc), ?_⟩
  intro sr hs
  subst hs
  cases hsr : h.get sr with
  | none =>
    unfold observeVar at ho
    simp [hgv, hsr] at ho
  | some osr => rw [← hsr]; exact hfr sr (hw.lt_of_get hsr)

theorem observeVars_frame {h h' : Heap} (hw : h.WF) (hfr : ∀ r, r < h.next → h'.get r = h.get r) :
    ∀ (vs : List Ref) (os : List VarObs), observeVars h vs = some os → observeVars h' vs = some os := by
  intro vs
  induction vs with
  | nil => intro os ho; simpa [observeVars] using ho
  | cons v vs ih =>
    intro os ho
    simp only [observeVars] at ho ⊢
    cases h1 : observeVar h v with
    | none => simp [h1] at ho
    | some o =>
      cases h2 : observeVars h vs with
      | none => simp [h1, h2] at ho
      | some os' =>
        simp only [h1, h2] at ho
        rw [observeVar_frame hw hfr h1, ih os' h2]
        exact ho


/-! ### a copied variant shows what the original shows -/

theorem Ext.triv {h : Heap} (hw : h.WF) : Ext (fun _ => False) h h :=
  Ext.refl hw (fun _ _ hx => hx.elim)

theorem copyVariant_obs {h h1 : Heap} {v v' : Ref} {o : VarObs} (hw : h.WF) (ho : observeVar h v = some o)
    (hr : copyVariant h v = .ok (v', h1)) : observeVar h1 v' = some o := by
  unfold copyVariant at hr
  unfold observeVar at ho
  cases hgv : getVar h v with
  | error e => simp [hgv] at ho
  | ok t =>
    obtain ⟨l, c, s, lv, cv⟩ := t
    simp only [hgv] at hr ho
    cases s with
    | none =>
      simp only [Except.ok.injEq, Prod.mk.injEq] at hr
      obtain ⟨rfl, rfl⟩ := hr
      simp only [Option.some.injEq] at ho
      subst ho
      have n1 : h.next ≠ h.next + 1 + 1 := by omega
      simp [observeVar, getVar, n1]
    | some sr =>
      simp only [] at hr ho
      cases hsr : h.get sr with
      | none => simp [hsr] at ho
      | some osr =>
        cases osr with
        | sol sd =>
          simp only [hsr, Except.ok.injEq, Prod.mk.injEq] at hr
          simp only [hsr, Option.some.injEq] at ho
          obtain ⟨rfl, rfl⟩ := hr
          subst ho
          have n1 : h.next ≠ h.next + 1 + 1 := by omega
          have n2 : h.next ≠ h.next + 1 + 1 + 1 := by omega
          have n3 : h.next + 1 ≠ h.next + 1 + 1 + 1 := by omega
          simp [observeVar, getVar, n1, n2, n3]
        | _ => simp [hsr] at ho

theorem copyVars_obs : ∀ (vs : List Ref) (h h' : Heap) (vs' : List Ref) (os : List VarObs), h.WF →
    observeVars h vs = some os → copyVars h vs = .ok (vs', h') → observeVars h' vs' = some os := by
  intro vs
  induction vs with
  | nil =>
    intro h h' vs' os _ ho hr
    simp only [copyVars, Except.ok.injEq, Prod.mk.injEq] at hr
    obtain ⟨rfl, rfl⟩ := hr
    simpa [observeVars] using ho
  | cons v vs ih =>
    intro h h' vs' os hw ho hr
    simp only [copyVars] at hr
    simp only [observeVars] at ho
    cases h1 : observeVar h v with
    | none => simp [h1] at ho
    | some o =>
      cases h2 : observeVars h vs with
      | none => simp [h1, h2] at ho
      | some os' =>
        simp only [h1, h2, Option.some.injEq] at ho
        subst ho
        split at hr
        · rename_i v1 hh1 hcv
          obtain ⟨e1, _, _, _, fr1⟩ := copyVariant_ext (Ext.triv hw) hcv
          have ov1 := copyVariant_obs hw h1 hcv
          have ovs := observeVars_frame hw fr1 vs os' h2
          split at hr
          · rename_i rest hh2 hrest
            simp only [Except.ok.injEq, Prod.mk.injEq] at hr
            obtain ⟨rfl, rfl⟩ := hr
            obtain ⟨_, _, _, fr2⟩ := copyVars_ext vs hh1 hh2 rest e1 hrest
            simp only [observeVars]
            rw [observeVar_frame e1.wf fr2 ov1, ih hh1 hh2 rest os' e1.wf ovs hrest]
          · cases hr
        · cases hr

theorem pickleVars_obs : ∀ (vs : List Ref) (h h' : Heap) (memo : List (Ref × Ref)) (vs' : List Ref)
    (os : List VarObs), h.WF →
    (∀ a b, lookupRef memo a = some b → ∃ o, observeVar h a = some o ∧ observeVar h b = some o) →
    observeVars h vs = some os → pickleVars h memo vs = .ok (vs', h') → observeVars h' vs' = some os := by
  intro vs
  induction vs with
  | nil =>
    intro h h' memo vs' os _ _ ho hr
    simp only [pickleVars, Except.ok.injEq, Prod.mk.injEq] at hr
    obtain ⟨rfl, rfl⟩ := hr
    simpa [observeVars] using ho
  | cons v vs ih =>
    intro h h' memo vs' os hw hmemo ho hr
    simp only [pickleVars] at hr
    simp only [observeVars] at ho
    cases h1 : observeVar h v with
    | none => simp [h1] at ho
    | some o =>
      cases h2 : observeVars h vs with
      | none => simp [h1, h2] at ho
      | some os' =>
        simp only [h1, h2, Option.some.injEq] at ho
        subst ho
        split at hr
        · rename_i v1 hlook
          obtain ⟨o', ha, hb⟩ := hmemo v v1 hlook
          rw [h1] at ha
          simp only [Option.some.injEq] at ha
          subst ha
          split at hr
          · rename_i rest hh2 hrest
            simp only [Except.ok.injEq, Prod.mk.injEq] at hr
            obtain ⟨rfl, rfl⟩ := hr
            obtain ⟨_, _, _, fr2⟩ := pickleVars_ext (W := fun _ => False) 0 vs h hh2 memo rest (Ext.triv hw)
              (Nat.zero_le _) (fun a b hab => by
                obtain ⟨ob, _, hob⟩ := hmemo a b hab
                refine ⟨Nat.zero_le _, ?_⟩
                unfold observeVar at hob
                cases hgb : getVar h b with
                | error e => simp [hgb] at hob
                | ok t =>
                  obtain ⟨l, c, s, lv, cv⟩ := t
                  exact hw.lt_of_get (getVar_ok hgb).1) hrest
            simp only [observeVars]
            rw [observeVar_frame hw fr2 hb, ih h hh2 memo rest os' hw hmemo h2 hrest]
          · cases hr
        · split at hr
          · rename_i v1 hh1 hcv
            obtain ⟨e1, _, _, _, fr1⟩ := copyVariant_ext (Ext.triv hw) hcv
            have ov1 := copyVariant_obs hw h1 hcv
            have ovs := observeVars_frame hw fr1 vs os' h2
            have hmemo' : ∀ a b, lookupRef ((v, v1) :: memo) a = some b →
                ∃ o, observeVar hh1 a = some o ∧ observeVar hh1 b = some o := by
              intro a b hab
              simp only [lookupRef] at hab
              split at hab
              · rename_i hav
                simp only [Option.some.injEq] at hab
                subst hab
                subst hav
                exact ⟨o, observeVar_frame hw fr1 h1, ov1⟩
              · obtain ⟨ob, hoa, hob⟩ := hmemo a b hab
                exact ⟨ob, observeVar_frame hw fr1 hoa, observeVar_frame hw fr1 hob⟩
            split at hr
            · rename_i rest hh2 hrest
              simp only [Except.ok.injEq, Prod.mk.injEq] at hr
              obtain ⟨rfl, rfl⟩ := hr
              have hmlt : ∀ a b, lookupRef ((v, v1) :: memo) a = some b → 0 ≤ b ∧ b < hh1.next := by
                intro a b hab
                obtain ⟨ob, _, hob⟩ := hmemo' a b hab
                refine ⟨Nat.zero_le _, ?_⟩
                unfold observeVar at hob
                cases hgb : getVar hh1 b with
                | error e => simp [hgb] at hob
                | ok t =>
                  obtain ⟨l, c, s, lv, cv⟩ := t
                  exact e1.wf.lt_of_get (getVar_ok hgb).1
              obtain ⟨_, _, _, fr2⟩ := pickleVars_ext (W := fun _ => False) 0 vs hh1 hh2 ((v, v1) :: memo) rest e1
                (Nat.zero_le _) hmlt hrest
              simp only [observeVars]
              rw [observeVar_frame e1.wf fr2 ov1, ih hh1 hh2 ((v, v1) :: memo) rest os' e1.wf hmemo' ovs hrest]
            · cases hr
          · cases hr

end IrisVerif.Heap
