/-
Executable model of reduced-form VAR estimation and simulation in irispie
(`red_vars/_estimators.py`, `fords/least_squares.py`, `red_vars/prior_obs.py`,
`red_vars/_variants.py`, `red_vars/_simulators.py` + `fords/simulators.py: simulate_flat`),
over exact rationals with `none` for NaN.  No Mathlib.

Layout of the data as in the code: one row per variable, one column per period; the first
`p` columns are the pre-sample (the dataslate is extended by `max_lag = -order`), the base
periods are the columns `p … cols-1`, indexed `t = 0 … T-1` below.
-/
import IrisVerif.Model.QMat

namespace IrisVerif.RedVar
open IrisVerif

abbrev Cell := Option Rat

/-- matrix of cells (`none` = NaN) -/
structure OMat where
  rows : Nat
  cols : Nat
  data : Array (Array Cell)
  deriving Repr, Inhabited, BEq

namespace OMat
def get (a : OMat) (i j : Nat) : Cell := (a.data.getD i #[]).getD j none
def ofFn (r c : Nat) (f : Nat → Nat → Cell) : OMat :=
  ⟨r, c, (Array.range r).map (fun i => (Array.range c).map (fun j => f i j))⟩
/-- all cells finite -/
def complete (a : OMat) : Bool := a.data.all (fun r => r.all Option.isSome)
/-- NaN → `d` (the dataslate's `fallbacks`) -/
def fill (a : OMat) (d : Rat) : QMat := QMat.ofFn a.rows a.cols (fun i j => (a.get i j).getD d)
def ofQMat (a : QMat) : OMat := ofFn a.rows a.cols (fun i j => some (a.get i j))
end OMat

/-- `Σ_{k<n} f k`, left to right -/
def sumTo (n : Nat) (f : Nat → Rat) : Rat := (List.range n).foldl (fun acc k => acc + f k) 0

/-- `Dimensions` of `red_vars/_dimensions.py` -/
structure Spec where
  n : Nat          -- endogenous variables
  m : Nat          -- exogenous variables
  p : Nat          -- order
  icpt : Bool      -- has_intercept
  deriving Repr, BEq

namespace Spec
def numLagged (s : Spec) : Nat := s.n * s.p
def numNonendog (s : Spec) : Nat := s.m + (if s.icpt then 1 else 0)
def numRhs (s : Spec) : Nat := s.numLagged + s.numNonendog
end Spec

/-! ### `_get_estimation_data`: lag stacking and the complete-column mask -/

/-- `y0 = y[:, order:]` -/
def y0 (s : Spec) (Y : OMat) (i t : Nat) : Cell := Y.get i (s.p + t)

/-- `y1 = vstack([y[:, order-i:-i] for i in 1..order])`: row `l*n + i` is variable `i` at lag `l+1` -/
def y1 (s : Spec) (Y : OMat) (r t : Nat) : Cell := Y.get (r % s.n) (s.p + t - (r / s.n + 1))

/-- `x = data[exogenous_qids, order:]` -/
def xx (s : Spec) (X : OMat) (k t : Nat) : Cell := X.get k (s.p + t)

/-- row `r` of `vstack([y1, x, k])` at base period `t` (`k` = row of ones when there is an intercept) -/
def reg (s : Spec) (Y X : OMat) (r t : Nat) : Cell :=
  if r < s.numLagged then y1 s Y r t
  else if r < s.numLagged + s.m then xx s X (r - s.numLagged) t
  else some 1

/-- all regressors of base period `t` finite -/
def regsFinite (s : Spec) (Y X : OMat) (t : Nat) : Bool :=
  (List.range s.numRhs).all (fun r => (reg s Y X r t).isSome)

/-- `get_where_observations([y0, y1, x, k])` -/
def whereObs (s : Spec) (Y X : OMat) (t : Nat) : Bool :=
  (List.range s.n).all (fun i => (y0 s Y i t).isSome) && regsFinite s Y X t

/-- number of base periods -/
def numBase (s : Spec) (Y : OMat) : Nat := Y.cols - s.p

/-- the fitted base periods, in order (`omit_missing=True`) -/
def fitted (s : Spec) (Y X : OMat) : List Nat := (List.range (numBase s Y)).filter (whereObs s Y X)

/-! ### prior dummy observations (`prior_obs.py`); `y_std` never reaches `generate_y0/y1` (the
`generate_lhs/rhs` wrappers drop it), so the dummies depend on the dimensions only -/

inductive Prior
  | minnesota (rho : Array Rat) (mu : Rat) (kappa : Nat)
  | mean (mbar : Array Rat) (mu : Rat)
  deriving Repr

namespace Prior
def numObs (s : Spec) : Prior → Nat
  | .minnesota .. => s.n * s.p
  | .mean .. => if s.icpt then 1 else 0

/-- `generate_y0`: `n × numObs` -/
def lhs (s : Spec) : Prior → QMat
  | .minnesota rho mu _ => QMat.ofFn s.n (s.n * s.p) (fun i j => if i = j then mu * rho.getD i 0 else 0)
  | .mean mbar mu => QMat.ofFn s.n (if s.icpt then 1 else 0) (fun i _ => mbar.getD i 0 * mu)

/-- `vstack([generate_y1, generate_x, generate_k])`: `numRhs × numObs` -/
def rhs (s : Spec) : Prior → QMat
  | .minnesota _ mu kappa =>
    QMat.ofFn s.numRhs (s.n * s.p) (fun r j =>
      if r < s.numLagged ∧ r = j then mu * (((r / s.n + 1 : Nat) : Rat) ^ kappa) else 0)
  | .mean mbar mu =>
    QMat.ofFn s.numRhs (if s.icpt then 1 else 0) (fun r _ =>
      if r < s.numLagged then mbar.getD (r % s.n) 0 * mu
      else if r < s.numLagged + s.m then 0 else mu)
end Prior

def dummyLhs (s : Spec) (ps : List Prior) : QMat :=
  ps.foldl (fun acc pr => QMat.hstack acc (pr.lhs s)) (QMat.zero s.n 0)
def dummyRhs (s : Spec) (ps : List Prior) : QMat :=
  ps.foldl (fun acc pr => QMat.hstack acc (pr.rhs s)) (QMat.zero s.numRhs 0)

/-! ### `ordinary_least_squares`: `solve(rhs rhsᵀ, rhs lhsᵀ)ᵀ`, with the exact re-check -/

def normalMx (rhs : QMat) : QMat := rhs * rhs.transpose
def normalMy (lhs rhs : QMat) : QMat := rhs * lhs.transpose

def ols (lhs rhs : QMat) : Option QMat :=
  (QMat.solveChecked (normalMx rhs) (normalMy lhs rhs)).map QMat.transpose

/-! ### `_estimate_variant` -/

inductive Err
  | noData        -- "No data available for estimation after removing periods with missing observations"
  | singular      -- numpy.linalg.LinAlgError of the normal equations
  | dofZero       -- division by zero periods in cov_residuals
  deriving Repr, BEq

structure Estimate where
  fittedCols : List Nat      -- base-period indices with complete data
  lhsEst : QMat              -- n × (#fitted + #dummy)
  rhsEst : QMat              -- numRhs × (#fitted + #dummy)
  beta : QMat                -- n × numRhs = [A  B  c]
  u : OMat                   -- n × T residuals on ALL base periods
  cov : QMat                 -- n × n
  deriving Repr

def lhsData (s : Spec) (Y : OMat) (cols : List Nat) : QMat :=
  QMat.ofFn s.n cols.length (fun i k => (y0 s Y i (cols.getD k 0)).getD 0)
def rhsData (s : Spec) (Y X : OMat) (cols : List Nat) : QMat :=
  QMat.ofFn s.numRhs cols.length (fun r k => (reg s Y X r (cols.getD k 0)).getD 0)

/-- the fitted columns followed by the dummy observations (`hstack([lhs_est, lhs_dummy])`) -/
def lhsFull (s : Spec) (Y : OMat) (cols : List Nat) : Option (List Prior) → QMat
  | none => lhsData s Y cols
  | some ps => QMat.hstack (lhsData s Y cols) (dummyLhs s ps)
def rhsFull (s : Spec) (Y X : OMat) (cols : List Nat) : Option (List Prior) → QMat
  | none => rhsData s Y X cols
  | some ps => QMat.hstack (rhsData s Y X cols) (dummyRhs s ps)

/-- with prior observations the code first regresses `y0` on the exogenous regressors and the intercept alone (to
scale the dummies by the residual std; the scale then never reaches the dummies, see above) — that regression
can fail on its own (`LinAlgError`) when the few fitted columns of `[x; 1]` are collinear -/
def priorScalingOk (s : Spec) (Y X : OMat) (cols : List Nat) : Option (List Prior) → Bool
  | none => true
  | some _ => (ols (lhsData s Y cols) (QMat.block (rhsData s Y X cols) s.numLagged s.numRhs 0 cols.length)).isSome

/-- fitted value `A y1 + B x + c` of variable `i` at base period `t` (requires finite regressors) -/
def fitAt (s : Spec) (beta : QMat) (Y X : OMat) (i t : Nat) : Rat :=
  sumTo s.numRhs (fun r => beta.get i r * (reg s Y X r t).getD 0)

/-- `u = y0 - A @ y1 - B @ x - c`: NaN exactly where `y0[i,t]` or any regressor of period `t` is NaN
(a NaN anywhere in a column of `y1`/`x` makes the whole column of the matrix product NaN) -/
def residual (s : Spec) (beta : QMat) (Y X : OMat) (i t : Nat) : Cell :=
  match y0 s Y i t with
  | none => none
  | some y => if regsFinite s Y X t then some (y - fitAt s beta Y X i t) else none

/-- the number subtracted from the number of fitted periods when `dof_correction=True`:
the number of estimated coefficients per equation (`Dimensions.num_rhs`) -/
def dofCount (s : Spec) : Nat := s.numRhs

def covResiduals (s : Spec) (u : OMat) (cols : List Nat) (denom : Int) : QMat :=
  let uw := QMat.ofFn s.n cols.length (fun i k => (u.get i (cols.getD k 0)).getD 0)
  let c := QMat.smul (1 / (denom : Rat)) (uw * uw.transpose)
  QMat.smul (1/2) (c + c.transpose)        -- `symmetrize`

def estimate (s : Spec) (dof : Bool) (Y X : OMat) (priors : Option (List Prior)) : Except Err Estimate :=
  let cols := fitted s Y X
  if cols.length = 0 then .error .noData else
  if !(priorScalingOk s Y X cols priors) then .error .singular else
  let lhsE := lhsFull s Y cols priors
  let rhsE := rhsFull s Y X cols priors
  match ols lhsE rhsE with
  | none => .error .singular
  | some beta =>
    let u := OMat.ofFn s.n (numBase s Y) (residual s beta Y X)
    let denom : Int := (cols.length : Int) - (if dof then (dofCount s : Int) else 0)
    if denom = 0 then .error .dofZero else
    .ok ⟨cols, lhsE, rhsE, beta, u, covResiduals s u cols denom⟩

/-- the split of `beta` into `A`, `B`, `c` -/
def coefA (s : Spec) (beta : QMat) : QMat := QMat.block beta 0 s.n 0 s.numLagged
def coefB (s : Spec) (beta : QMat) : QMat := QMat.block beta 0 s.n s.numLagged (s.numLagged + s.m)
def coefC (s : Spec) (beta : QMat) : Option QVec :=
  if s.icpt then some ((Array.range s.n).map (fun i => beta.get i (s.numLagged + s.m))) else none

/-! ### companion form, mean -/

/-- `_populate_companion_T`: `[A; eye(n(p-1), np)]` -/
def companionT (s : Spec) (A : QMat) : QMat :=
  QMat.ofFn s.numLagged s.numLagged (fun i j => if i < s.n then A.get i j else if j + s.n = i then 1 else 0)

/-- `_get_companion_K` -/
def companionK (s : Spec) (c : Option QVec) : QVec :=
  (Array.range s.numLagged).map (fun i => if i < s.n then (c.getD #[]).getD i 0 else 0)

/-- `A.reshape((n, n, p), order="F").sum(axis=2)` = `Σ_l A_l` -/
def sumA (s : Spec) (A : QMat) : QMat :=
  QMat.ofFn s.n s.n (fun i j => sumTo s.p (fun l => A.get i (l * s.n + j)))

/-- `Variant.get_mean`: zeros when there is no (or a zero) intercept, else `solve(I - ΣA, c)` -/
def mean (s : Spec) (A : QMat) (c : Option QVec) : Option QVec :=
  match c with
  | none => some ((Array.range s.n).map (fun _ => 0))
  | some c =>
    if c.all (· == 0) then some ((Array.range s.n).map (fun _ => 0))
    else (QMat.solveChecked (QMat.identity s.n - sumA s A) (QMat.col c)).map QMat.toVec

/-! ### simulation: `simulate_flat` on the companion form, with exogenous impact.
`path` has one row per endogenous variable and one column per period of the extended span
(pre-sample first); simulating column `t` overwrites that column only. -/

/-- `T ξ + K + P u_t + B x_t` read off the path (the companion state at `t-1` is
`[y_{t-1}; …; y_{t-p}]`), top `n` rows -/
def simValue (s : Spec) (A B : QMat) (c : QVec) (X E : QMat) (path : QMat) (i t : Nat) : Rat :=
  sumTo s.numLagged (fun r => A.get i r * path.get (r % s.n) (t - (r / s.n + 1)))
    + c.getD i 0 + E.get i t + sumTo s.m (fun k => B.get i k * X.get k t)

def simStep (s : Spec) (A B : QMat) (c : QVec) (X E : QMat) (path : QMat) (t : Nat) : QMat :=
  QMat.ofFn path.rows path.cols (fun i col => if col = t then simValue s A B c X E path i t else path.get i col)

/-- simulate the columns `ts` in order -/
def simulate (s : Spec) (A B : QMat) (c : QVec) (X E : QMat) (path0 : QMat) (ts : List Nat) : QMat :=
  ts.foldl (simStep s A B c X E) path0

/-- simulate all base periods `p … cols-1` with the estimated residuals (NaN → 0, the `fallbacks` of
`slatable_for_simulate`); `none` when the initial condition or the exogenous data contain NaN (the result
would be NaN from there on; not compared) -/
def resimulate (s : Spec) (Y X : OMat) (e : Estimate) : Option QMat :=
  let pre := OMat.ofFn s.n s.p (fun i j => Y.get i j)
  if !(pre.complete && X.complete) then none else
  let E := QMat.ofFn s.n Y.cols (fun i j => if j < s.p then 0 else (e.u.get i (j - s.p)).getD 0)
  let path0 := Y.fill 0
  let c : QVec := (coefC s e.beta).getD ((Array.range s.n).map (fun _ => 0))
  some (simulate s (coefA s e.beta) (coefB s e.beta) c (X.fill 0) E path0
    ((List.range (numBase s Y)).map (· + s.p)))

/-! ### the public wrappers: what `estimate(target_db=…)` returns, and an estimated variant as an object with a memo -/

/-- a databox as an insertion-ordered finite map -/
abbrev DB (α : Type) := List (String × α)

def dbLookup {α : Type} (db : DB α) (k : String) : Option α := (db.find? (fun p => p.1 == k)).map (·.2)
def dbHas {α : Type} (db : DB α) (k : String) : Bool := db.any (fun p => p.1 == k)

/-- `left | right` of `Databox` (a `dict`): the keys of `left` keep their places and take the value of `right` when `right`
has the key; the keys only `right` has follow in `right`'s order -/
def dbUnion {α : Type} (left right : DB α) : DB α :=
  left.map (fun p => (p.1, (dbLookup right p.1).getD p.2)) ++ right.filter (fun p => !dbHas left p.1)

/-- `estimate(..., target_db=t)` returns `t | output` (`output` = the databox made from the estimation dataslate: the data
it was given plus the residual series); without a target it returns `output` -/
def estimateReturn {α : Type} (target : Option (DB α)) (output : DB α) : DB α :=
  match target with
  | none => output
  | some t => dbUnion t output

/-- the memo of a `Variant`: the companion matrix is built at the first request and kept (`_companion_T`); the
`Solution` handed out is assembled afresh at every request from the memo, `P` and the constant of the requested mode -/
structure VMemo where
  companionT : Option QMat := none
  deriving Repr

/-- `_get_companion_solution(deviation)`: new memo and the reported `(T, K)` -/
def requestCompanion (s : Spec) (A : QMat) (c : Option QVec) (st : VMemo) (deviation : Bool) : VMemo × (QMat × QVec) :=
  let T := match st.companionT with
    | some T => T
    | none => companionT s A
  (⟨some T⟩, (T, companionK s (if deviation then none else c)))

/-- a history of requests on one variant -/
def runRequests (s : Spec) (A : QMat) (c : Option QVec) : VMemo → List Bool → VMemo × List (QMat × QVec)
  | st, [] => (st, [])
  | st, d :: ds =>
    let (st1, o) := requestCompanion s A c st d
    let (st2, os) := runRequests s A c st1 ds
    (st2, o :: os)

/-! ### the variant loops: `estimate` and `simulate` treat the variants one by one -/

/-- `for vid, dataslate_v in …: _estimate_variant(…)`: one estimate per data variant, same dimensions and options -/
def estimateVariants (s : Spec) (dof : Bool) (priors : Option (List Prior)) (datas : List (OMat × OMat)) :
    List (Except Err Estimate) :=
  datas.map (fun d => estimate s dof d.1 d.2 priors)

/-- one variant of a simulation: its own coefficients (`A`, `B`, `c`), its own exogenous data and residuals, its own path -/
structure SimVariant where
  A : QMat
  B : QMat
  c : QVec
  X : QMat
  E : QMat
  path0 : QMat
  deriving Repr

/-- `for vid, model_v, dataslate_v in zip(…)`: every variant is simulated with ITS OWN system (in particular its own exogenous
impact `B_v x_v`) -/
def simulateVariants (s : Spec) (ts : List Nat) (vs : List SimVariant) : List QMat :=
  vs.map (fun v => simulate s v.A v.B v.c v.X v.E v.path0 ts)

end IrisVerif.RedVar
