/-
Lemmas for the extra object state of C20: the expansion memo, variants added by one `alter_num_variants` call.
-/
import IrisVerif.Model.C20State
import IrisVerif.Lemmas.Heap

namespace IrisVerif.C20State
open IrisVerif.Heap IrisVerif.Portable

theorem range_extend (n f : Nat) (g : Nat → Stamp) :
    (List.range n).map g ++ (List.range' n (f - n)).map g = (List.range (max n f)).map g := by
  rw [← List.map_append, List.range_eq_range', List.range_eq_range']
  have : List.range' 0 n ++ List.range' n (f - n) = List.range' 0 (n + (f - n)) := by
    have := @List.range'_append_1 0 n (f - n)
    simpa using this
  rw [this]
  congr 2
  omega

theorem take_fresh (m f : Nat) (g : Nat → Stamp) (h : f ≤ m) : ((List.range m).map g).take f = (List.range f).map g := by
  rw [← List.map_take, List.take_range, Nat.min_eq_left h]

/-- ONE request: the answer is the fresh answer, and the memo invariant is kept -/
theorem expand_answer (s : SolObj) (h : MemoInv s) (f : Nat) :
    (expand s f).2 = freshAnswer s.version f ∧ MemoInv (expand s f).1 := by
  unfold MemoInv freshAnswer at h
  unfold expand freshAnswer MemoInv
  simp only []
  have hm : s.memo ++ (List.range' s.memo.length (f - s.memo.length)).map (fun k => (s.version, k))
      = (List.range (max s.memo.length f)).map (fun k => (s.version, k)) := by
    conv => lhs; arg 1; rw [h]
    exact range_extend s.memo.length f _
  rw [hm]
  refine ⟨take_fresh _ f _ (by omega), ?_⟩
  simp [freshAnswer]

def AllInv (objs : List SolObj) : Prop := ∀ s, s ∈ objs → MemoInv s

theorem mstep_inv (objs : List SolObj) (op : MOp) (h : AllInv objs) : AllInv (mstep objs op).1 := by
  cases op with
  | expand i f =>
    simp only [mstep]
    cases hi : objs[i]? with
    | none => exact h
    | some s =>
      intro x hx
      rcases List.mem_or_eq_of_mem_set hx with hx | rfl
      · exact h x hx
      · exact (expand_answer s (h s (List.mem_of_getElem? hi)) f).2
  | copy i =>
    simp only [mstep]
    cases hi : objs[i]? with
    | none => exact h
    | some s =>
      intro x hx
      simp only [List.mem_append, List.mem_singleton] at hx
      rcases hx with hx | rfl
      · exact h x hx
      · exact h x (List.mem_of_getElem? hi)
  | resolve i v =>
    simp only [mstep]
    cases hi : objs[i]? with
    | none => exact h
    | some s =>
      intro x hx
      rcases List.mem_or_eq_of_mem_set hx with hx | rfl
      · exact h x hx
      · simp [MemoInv, freshAnswer]

/-! ### variants added by one call -/

/-- `expand_num_variants` adding `k` variants: the result is the old list followed by `k` NEW references, pairwise distinct
and all freshly allocated (so distinct from every old object too) -/
theorem expandVars_fresh_distinct : ∀ (k : Nat) (vs : List Nat) (h h' : Heap) (vs' : List Nat), h.WF →
    expandVars h vs k = .ok (vs', h') →
    ∃ news : List Nat, vs' = vs ++ news ∧ news.length = k ∧ news.Nodup ∧
      (∀ v, v ∈ news → h.next ≤ v ∧ v < h'.next) ∧ h.next ≤ h'.next := by
  intro k
  induction k with
  | zero =>
    intro vs h h' vs' _ hr
    simp only [expandVars, Except.ok.injEq, Prod.mk.injEq] at hr
    obtain ⟨rfl, rfl⟩ := hr
    exact ⟨[], by simp, rfl, List.nodup_nil, (by intro v hv; cases hv), Nat.le_refl _⟩
  | succ k ih =>
    intro vs h h' vs' hw hr
    simp only [expandVars] at hr
    split at hr
    · cases hr
    · split at hr
      · rename_i v1 h1 hcv
        obtain ⟨e1, f1, f2, le1, _⟩ := copyVariant_ext (Ext.triv hw) hcv
        obtain ⟨news, hvs', hlen, hnd, hfr, le2⟩ := ih (vs ++ [v1]) h1 h' vs' e1.wf hr
        refine ⟨v1 :: news, by rw [hvs', List.append_assoc]; rfl, by simp [hlen], ?_, ?_, Nat.le_trans le1 le2⟩
        · apply List.nodup_cons.mpr
          refine ⟨?_, hnd⟩
          intro hmem
          exact absurd f2 (Nat.not_lt.mpr (hfr v1 hmem).1)
        · intro v hv
          simp only [List.mem_cons] at hv
          rcases hv with rfl | hv
          · exact ⟨f1, Nat.lt_of_lt_of_le f2 le2⟩
          · exact ⟨Nat.le_trans le1 (hfr v hv).1, (hfr v hv).2⟩
      · cases hr

end IrisVerif.C20State
