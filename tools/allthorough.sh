#!/bin/bash
cd /verif
for p in "$@"; do
  cp evidence/$p.json /tmp/evid-$p.json 2>/dev/null
  s=$(date +%s)
  out=$(timeout 3600 ./check $p --tier thorough 2>&1); rc=$?
  e=$(date +%s)
  echo "$p thorough rc=$rc $((e-s))s $(echo "$out" | grep "^\[$p\] eval" | sed 's/.*evaluations/evaluations/')"
  if [ $rc -ne 0 ]; then echo "$out" | grep "VIOLATION\|INTERNAL\|tie no longer" | head -5; fi
  # keep the quick-tier evidence as the committed one
  cp /tmp/evid-$p.json evidence/$p.json 2>/dev/null
done
