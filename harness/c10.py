"""
C10 -- A Series is a period-indexed map: reads, writes, alignment, trim, isolation.

Correspondence (class E for structure, class D for values): op sequences over a small pool of series are run on
the Lean model (IrisVerif/Model/Series.lean, driver C10) and on irispie; after EVERY op the whole pool
(start, shape, NaN mask, values as exact rationals of dyadic floats) is compared line by line.

Oracle (independent of the model, written from the property statement): a dict `{(serial, variant): Fraction}` per
pool slot with plain map semantics (no positions, no padding), checked against the real objects after every op,
plus the isolation clause observed on the real heap: every object other than the receiver is unchanged after an op,
and functional results / copies share no memory with any pre-existing object (`np.shares_memory`).
"""
from __future__ import annotations
import os, re, json, glob, datetime as dt
from fractions import Fraction

import numpy as np
import irispie as ir
from irispie import dates as D
from irispie import Series

from .common import Ctx, err_kind, rat_of_float, VERIF

DRIVERS = ["C10"]
LEVEL = "proof"
MANIFEST = {
    "category": "proof",
    "text": ("Lean 4 theorems about an executable model of series/main.py that keeps the code's position/padding arithmetic "
             "(_get_date_positions, _create_expanded_data, set_data with the variant broadcast rule, get_data, get_data_from_until, "
             "shift, clip, overlay/underlay, _binop over the encompassing span, apply, trim), for all series, dates, variants and values, "
             "no bound: the model refines the map abs : (serial, variant) -> value -- a write changes exactly the addressed cells (last "
             "write wins) and rejects what the code rejects, a read returns abs for every variant request the code accepts (negative indices, "
             "slices) and rejects out-of-range indices, x[dates] = y with relative dates is proved end to end (dates resolved against the "
             "receiver, values read from the source period by period), shift moves abs by exactly k, NaN-strict binary operators act pointwise on abs after "
             "alignment including numpy's 1-vs-n variant broadcasting, clip/slices/element-wise apply/replace_where are one equation on abs each, "
             "overlay/underlay by span (also 1-vs-n variants), hstack of TWO series only (variant v < nv1 reads self, else other at v-nv1; three or more: well-formedness only), row "
             "statistics (the function's fold over the variants of each period, NaN rules stated), moving windows (the missing-strict "
             "function of the window abs(t-|w|+1..t)), fill_missing (observed cells kept, a missing cell gets the method's value from the "
             "closest observed neighbours in the span: constant/next/previous/nearest/linear spelled out on periods) and extrapolate (the "
             "AR recursion cell by cell with the lags in the documented order, history untouched) are proved on abs as well; "
             "writes of columns, fill_missing and extrapolate are also proved for arbitrary lists of distinct periods (stepped, backward, "
             "unordered; repetitions: last write wins); the model's own date resolution (resolveDates) is tied to the code by the correspondence "
             "run, its equality with the C09 span model is not proved; cells are Option Num (finite rational | +inf | -inf): only NaN is missing, IEEE corner cases "
             "of the operators are modelled; op_refines_map collects the equation of every op kind; a minimal heap model "
             "(one buffer class per pool slot) proves by induction over op sequences that no two pool objects ever share a buffer "
             "(functional forms, copy and underlay fill their target with a fresh buffer, in-place ops touch only the receiver), tied "
             "by comparing the model's partition with the np.shares_memory partition after every op; "
             "trim leaves abs unchanged and establishes "
             "'no all-missing leading/trailing row, all-missing = empty series without start'; well-formedness is preserved by every "
             "operation and lifted to arbitrary op sequences over a pool by induction (reachable_inv). The model is tied to the code on "
             "every run by an op-sequence differential check against irispie (state of the whole pool compared after every op, exact "
             "rationals), and an independent dict-based map oracle plus heap-level isolation checks (non-receivers unchanged, functional "
             "results share no memory with inputs) run on the real objects and supply the replay."),
    "design": "7/C10",
    "note": ("numpy dtype promotion/printing, the state left by a write that raises half-way, median/std/var/quantiles, "
             "log_linear/from_series fills and transcendental element-wise functions are outside the model; extrapolate(log=True) is outside "
             "the Lean model too and checked by an oracle-only stream (history bit-identical, recursion in logs); mean/nanmean/mov_avg/linear "
             "fills and extrapolate (scipy lfilter) are compared with tolerance 1e-9 (class T) when a divisor is not a power of two; which numpy call copies or returns a view inside one object is not modelled (the heap model speaks "
             "about sharing between objects only)."),
    "technique": "Lean 4 proof (refinement of an executable model to a map) + op-sequence differential correspondence + heap isolation oracle",
}
ASSUMPTIONS = [
    "values are generator-chosen dyadic rationals bounded so that + - * are exact in IEEE double (class D); floats cross the pipe as num/den",
    "numpy fancy assignment with repeated positions keeps the last value (observed, modelled as such)",
    "comparison operators are observed as 0/1 series; dtype promotion of boolean data is not modelled (results are not fed back)",
    "a write that raises ends the op sequence: the partially mutated state it may leave is not modelled",
    "infinite values: operators, comparisons, tests, fills, statistics, moving windows and all structural ops are driven on them (with an "
    "infinite operand the IEEE result of a sum or product does not depend on the order of the operations); extrapolate is generated on "
    "finite data only (lfilter state with infinities)",
    "extrapolate(log=True) is oracle-only (exp/log outside the rational model): untouched history compared bit for bit, values in the "
    "span against the recursion in logs with tolerance 1e-9",
    "reads and writes are driven through every public spelling (set_data/get_data positional and keyword, bracket syntax, call syntax)",
    "class T: after mean/nanmean/mov_avg/linear-fill ops values are compared with tolerance 1e-9*max(1,|x|), structure exactly; "
    "the generator lets such inexact values flow only through structural operations",
]

CLS = {"I": D.IntegerPeriod, "Y": D.YearlyPeriod, "H": D.HalfyearlyPeriod, "Q": D.QuarterlyPeriod,
       "M": D.MonthlyPeriod, "D": D.DailyPeriod}
LETTER = {v: k for k, v in CLS.items()}
FVAL = {"I": 0, "Y": 1, "H": 2, "Q": 4, "M": 12, "D": 365}
BASE = {"Y": 2020, "H": 4040, "Q": 8080, "M": 24240, "I": 0, "D": 737425}
NAN = float("nan")
POOL = 3

TRIM_OPS = {"set", "setb", "setk", "overlay", "underlay", "foverlay", "funderlay", "bin", "sc", "rsc", "rw"}   # writes and arithmetic operators
FUNCTIONAL = {"new", "init", "call", "fshift", "idx", "foverlay", "funderlay", "hstack", "bin", "sc", "rsc", "un", "copy",
              "stat", "mov", "fill", "extrap", "lextrap"}
METHODS = {"set", "setb", "setk", "shift", "clip", "overlay", "underlay", "trim", "empty", "mstat", "mmov", "mfill", "rw", "mextrap", "mlextrap"}
STATS = ["sum", "prod", "mean", "min", "max", "nansum", "nanprod", "nanmean", "nanmin", "nanmax"]
MOVS = {"sum": "mov_sum", "avg": "mov_avg", "prod": "mov_prod"}
FILLS = ["constant", "next", "previous", "nearest", "linear"]
TESTS = {"lt": lambda d, c: d < c, "le": lambda d, c: d <= c, "gt": lambda d, c: d > c, "ge": lambda d, c: d >= c,
         "eq": lambda d, c: d == c, "ne": lambda d, c: d != c, "isnan": lambda d, c: np.isnan(d)}


# ---------------------------------------------------------------------------------------
# protocol: parsing (shared by implementation runner and oracle)
# ---------------------------------------------------------------------------------------

def per(tok):
    return (tok[0], int(tok[1:]))


def opt_per(tok):
    return None if tok == "-" else per(tok)


def cellf(tok) -> float:
    if tok == "nan":
        return NAN
    if tok in ("inf", "-inf"):
        return float(tok)
    if tok == "-0":
        return -0.0
    return float(Fraction(tok))


def split_ne(s, sep):
    return [] if s == "" else s.split(sep)


def parse_dates(tok):
    if tok == "all":
        return ("all",)
    if tok.startswith("l="):
        return ("list", [per(x) for x in split_ne(tok[2:], ",")])
    if tok.startswith("sp="):
        a, b, st = tok[3:].split(",")
        return ("span", opt_per(a), opt_per(b), int(st))
    raise ValueError("bad-op")


def parse_vars(tok):
    if tok == "all":
        return None
    if tok.startswith("v="):
        return int(tok[2:])
    if tok.startswith("vl="):
        return [int(x) for x in split_ne(tok[3:], ",")]
    if tok.startswith("vsl="):
        a, b = tok[4:].split(":")
        return slice(int(a) if a else None, int(b) if b else None)
    raise ValueError("bad-op")


def parse_rows(tok):
    if tok == "-":
        return []
    return [[cellf(c) for c in split_ne(r, ",")] for r in tok.split(":")]


def parse_data(tok):
    """('none',) | ('s', x) | ('vs', [('s', x) | ('c', [..])]) | ('a', rows) | ('a1', [..]) | ('ser', j)"""
    if tok == "none":
        return ("none",)
    if tok.startswith("s="):
        return ("s", cellf(tok[2:]))
    if tok.startswith("vs="):
        items = []
        for it in split_ne(tok[3:], ";"):
            items.append(("c", [cellf(c) for c in split_ne(it[2:], ",")]) if it.startswith("c:") else ("s", cellf(it)))
        return ("vs", items)
    if tok.startswith("a="):
        return ("a", parse_rows(tok[2:]))
    if tok.startswith("a1="):
        return ("a1", [cellf(c) for c in split_ne(tok[3:], ",")])
    if tok.startswith("ser="):
        return ("ser", int(tok[4:]))
    raise ValueError("bad-op")


def parse_shift(tok):
    return tok if tok in ("yoy", "soy", "eopy", "tty") else int(tok)


def mkp(p):
    return CLS[p[0]](p[1])


# ---------------------------------------------------------------------------------------
# implementation side
# ---------------------------------------------------------------------------------------

def show_cell(x) -> str:
    return rat_of_float(float(x))


def show_rows(a) -> str:
    if a.shape[0] == 0:
        return "-"
    return ":".join(",".join(show_cell(v) for v in row) for row in a)


def show_series(x) -> str:
    st = "none" if x.start is None else f"{LETTER[type(x.start)]}{x.start.serial}"
    return f"{st};{x.data.shape[0]}x{x.data.shape[1]};{show_rows(x.data)}"


def show_series_snap(rep) -> str:
    """canonical text of a series without rows, from its `reported` tuple"""
    st = "none" if rep[1] is None else f"{rep[0]}{rep[1]}"
    return f"{st};0x{rep[3]};-"


def show_pool(pool) -> str:
    return " & ".join(show_series(x) for x in pool)


def show_classes(pool) -> str:
    """for every slot the first slot whose object is the same or whose data shares memory with it (the model's buffer classes)"""
    cls = []
    for i, x in enumerate(pool):
        cls.append(next(j for j in range(i + 1) if j == i or pool[j] is x or np.shares_memory(pool[j].data, x.data)))
    return " ~ " + ",".join(str(c) for c in cls)


def impl_dates(d):
    if d[0] == "all":
        return ...
    if d[0] == "list":
        return tuple(mkp(p) for p in d[1])
    a = None if d[1] is None else mkp(d[1])
    b = None if d[2] is None else mkp(d[2])
    return ir.Span(a, b, d[3])


def impl_data(x, pool):
    k = x[0]
    if k == "none":
        return None
    if k == "s":
        return x[1]
    if k == "vs":
        return [it[1] if it[0] == "s" else np.array(it[1], dtype=float) for it in x[1]]
    if k == "a":
        rows = x[1]
        return np.array(rows, dtype=float).reshape(len(rows), -1) if rows else np.zeros((0, 1))
    if k == "a1":
        return np.array(x[1], dtype=float)
    return pool[x[1]]


PYOP = {"add": lambda a, b: a + b, "sub": lambda a, b: a - b, "mul": lambda a, b: a * b,
        "gt": lambda a, b: a > b, "lt": lambda a, b: a < b, "ge": lambda a, b: a >= b, "le": lambda a, b: a <= b,
        "eq": lambda a, b: a == b, "ne": lambda a, b: a != b}


def exec_op(pool, ws):
    """run one op on the real objects; returns (text the op itself returned, receiver slot or None, result slot or None)"""
    op = ws[0]
    I = lambda k: int(ws[k])
    if op == "new":
        pool[I(1)] = Series(num_variants=I(3)); return "", None, I(1)
    if op == "init":
        rows = parse_rows(ws[5]); nv = I(4)
        arr = np.array(rows, dtype=float).reshape(len(rows), nv)
        pool[I(1)] = Series(start=CLS[ws[2]](I(3)), values=arr); return "", None, I(1)
    if op == "set":
        x = pool[I(1)]
        v = parse_vars(ws[3])
        args = (impl_dates(parse_dates(ws[2])), impl_data(parse_data(ws[4]), pool)) + (() if v is None else (v,))
        x.set_data(*args); return "", I(1), None
    if op in ("setb", "setk", "getb", "getk"):
        x = pool[I(1)]
        d = parse_dates(ws[2]); v = parse_vars(ws[3])
        dd = impl_dates(d)
        if isinstance(dd, tuple) and len(dd) == 1:
            dd = dd[0]                                   # a single period is passed bare
        vv = tuple(v) if isinstance(v, list) else v
        if op in ("setb", "getb"):
            # bracket syntax: `x[dates]`, `x[dates, variants]`; a tuple of dates always needs the two-item form
            index = dd if (v is None and not isinstance(dd, tuple)) else (dd, ... if v is None else vv)
            if op == "setb":
                x[index] = impl_data(parse_data(ws[4]), pool); return "", I(1), None
            a = x[index]
        elif op == "setk":
            kw = {"dates": dd, "data": impl_data(parse_data(ws[4]), pool)}
            if v is not None:
                kw["variants"] = vv
            x.set_data(**kw); return "", I(1), None
        else:
            a = x.get_data(dates=dd) if v is None else x.get_data(dd, vv)
        return f"out={a.shape[0]}x{a.shape[1]};{show_rows(a)};", None, None
    if op == "get":
        x = pool[I(1)]
        v = parse_vars(ws[3])
        a = x.get_data(impl_dates(parse_dates(ws[2])), *(() if v is None else (v,)))
        return f"out={a.shape[0]}x{a.shape[1]};{show_rows(a)};", None, None
    if op == "gfu":
        x = pool[I(1)]
        v = parse_vars(ws[4])
        a = x.get_data_from_until((mkp(per(ws[2])), mkp(per(ws[3]))), *(() if v is None else (v,)))
        return f"out={a.shape[0]}x{a.shape[1]};{show_rows(a)};", None, None
    if op == "call":
        x = pool[I(2)]
        v = parse_vars(ws[4])
        pool[I(1)] = x(impl_dates(parse_dates(ws[3])), *(() if v is None else (v,))); return "", None, I(1)
    if op == "shift":
        pool[I(1)].shift(parse_shift(ws[2])); return "", I(1), None
    if op == "fshift":
        pool[I(1)] = ir.shift(pool[I(2)], parse_shift(ws[3])); return "", None, I(1)
    if op == "idx":
        pool[I(1)] = pool[I(2)][int(ws[3])]; return "", None, I(1)
    if op == "clip":
        a, b = opt_per(ws[2]), opt_per(ws[3])
        pool[I(1)].clip(None if a is None else mkp(a), None if b is None else mkp(b)); return "", I(1), None
    if op == "overlay":
        pool[I(1)].overlay(pool[I(2)]); return "", I(1), None
    if op == "underlay":
        pool[I(1)].underlay(pool[I(2)]); return "", I(1), None
    if op == "foverlay":
        pool[I(1)] = ir.overlay(pool[I(2)], pool[I(3)]); return "", None, I(1)
    if op == "funderlay":
        pool[I(1)] = ir.underlay(pool[I(2)], pool[I(3)]); return "", None, I(1)
    if op == "hstack":
        args = [pool[int(k)] for k in ws[2:]]
        if not args:
            raise ValueError("bad-op")
        pool[I(1)] = args[0].hstack(*args[1:]); return "", None, I(1)
    if op == "bin":
        pool[I(1)] = PYOP[ws[2]](pool[I(3)], pool[I(4)]); return "", None, I(1)
    if op == "cmp":
        r = PYOP[ws[1]](pool[I(2)], pool[I(3)])
        return "out=" + show_series(r) + ";", None, None
    if op == "sc":
        pool[I(1)] = PYOP[ws[2]](pool[I(3)], cellf(ws[4])); return "", None, I(1)
    if op == "rsc":
        pool[I(1)] = PYOP[ws[2]](cellf(ws[4]), pool[I(3)]); return "", None, I(1)
    if op == "un":
        x = pool[I(3)]
        pool[I(1)] = -x if ws[2] == "neg" else (+x if ws[2] == "pos" else abs(x)); return "", None, I(1)
    if op == "trim":
        pool[I(1)].trim(); return "", I(1), None
    if op == "empty":
        pool[I(1)].empty(); return "", I(1), None
    if op == "copy":
        pool[I(1)] = pool[I(2)].copy(); return "", None, I(1)
    if op == "stat":
        if ws[2] not in STATS:
            raise ValueError("bad-op")
        pool[I(1)] = getattr(ir, ws[2])(pool[I(3)]); return "", None, I(1)
    if op == "mstat":
        if ws[2] not in STATS:
            raise ValueError("bad-op")
        getattr(pool[I(1)], ws[2])(); return "", I(1), None
    if op == "mov":
        w = () if ws[4] == "-" else (int(ws[4]),)
        pool[I(1)] = getattr(ir, MOVS[ws[2]])(pool[I(3)], *w); return "", None, I(1)
    if op == "mmov":
        w = () if ws[3] == "-" else (int(ws[3]),)
        getattr(pool[I(1)], MOVS[ws[2]])(*w); return "", I(1), None
    if op in ("fill", "mfill"):
        off = 1 if op == "fill" else 0
        method, arg, d = ws[2 + off], ws[3 + off], parse_dates(ws[4 + off])
        if method not in FILLS:
            raise ValueError("bad-op")
        marg = cellf(arg) if method == "constant" else None
        span = None if d[0] == "all" else impl_dates(d)
        if op == "fill":
            pool[I(1)] = ir.fill_missing(pool[I(2)], method, marg, span=span); return "", None, I(1)
        pool[I(1)].fill_missing(method, marg, span=span); return "", I(1), None
    if op in ("lextrap", "mlextrap"):
        # extrapolate(..., log=True): oracle-only stream (exp/log are outside the rational model)
        off = 1 if op == "lextrap" else 0
        coeffs = tuple(float(Fraction(c)) for c in split_ne(ws[2 + off], ","))
        c0, d = float(Fraction(ws[3 + off])), parse_dates(ws[4 + off])
        with np.errstate(all="ignore"):
            if op == "lextrap":
                pool[I(1)] = ir.extrapolate(pool[I(2)], coeffs, impl_dates(d), intercept=c0, log=True); return "", None, I(1)
            pool[I(1)].extrapolate(coeffs, impl_dates(d), intercept=c0, log=True); return "", I(1), None
    if op in ("extrap", "mextrap"):
        off = 1 if op == "extrap" else 0
        coeffs = tuple(float(Fraction(c)) for c in split_ne(ws[2 + off], ","))
        c0, d = float(Fraction(ws[3 + off])), parse_dates(ws[4 + off])
        if op == "extrap":
            pool[I(1)] = ir.extrapolate(pool[I(2)], coeffs, impl_dates(d), intercept=c0); return "", None, I(1)
        pool[I(1)].extrapolate(coeffs, impl_dates(d), intercept=c0); return "", I(1), None
    if op == "rw":
        test, c, newv = TESTS[ws[2]], (0.0 if ws[2] == "isnan" else cellf(ws[3])), cellf(ws[4])
        with np.errstate(invalid="ignore"):
            pool[I(1)].replace_where(lambda d: test(d, c), newv)
        return "", I(1), None
    raise ValueError("bad-op")


def split_line(line):
    parts = [p.strip() for p in line.split("|")]
    return int(parts[0]), [p for p in parts[1:] if p]


# ---------------------------------------------------------------------------------------
# the independent oracle: plain maps {(serial, variant): Fraction}
# ---------------------------------------------------------------------------------------

class Undefined(Exception):
    """the op is outside the domain the property speaks about (mixed frequencies, shapes that do not fit, bad indices)"""


INF = float("inf")


def fr(x):
    """exact value of a cell: None for NaN, +-inf as the float, a Fraction otherwise (only NaN is missing)"""
    x = float(x)
    if x != x:
        return None
    if x in (INF, -INF):
        return x
    return Fraction(x)


def is_inf(x):
    return isinstance(x, float)


def ieee(f, a, b):
    """a f b for observed values: exact on Fractions; with an infinite operand the IEEE result (inf, -inf or NaN -> None)"""
    if is_inf(a) or is_inf(b):
        r = {"add": lambda p, q: p + q, "sub": lambda p, q: p - q, "mul": lambda p, q: p * q}[f](float(a), float(b))
        return None if r != r else r
    return FOP[f](a, b)


def map_of(x):
    """the map a real series object represents: reported start + position -> serial"""
    m = {}
    n, nv = x.data.shape
    if n and nv:
        if x.start is None:
            if not np.all(np.isnan(x.data.astype(float))):
                return None                      # values without a period: `covers` fails
            return m
        s0 = x.start.serial
        for i in range(n):
            for v in range(nv):
                c = fr(x.data[i, v])
                if c is not None:
                    m[(s0 + i, v)] = c
    return m


def reported(x):
    """(frequency letter | None, start serial | None, number of periods, number of variants)"""
    if x.start is None:
        return (None, None, x.data.shape[0], x.data.shape[1])
    return (LETTER[type(x.start)], x.start.serial, x.data.shape[0], x.data.shape[1])


def span_of(rep):
    return [] if rep[1] is None else list(range(rep[1], rep[1] + rep[2]))


def enum_range(a, b, st):
    out, x = [], a
    if st > 0:
        while x <= b:
            out.append(x); x += st
    elif st < 0:
        while x >= b:
            out.append(x); x += st
    else:
        raise Undefined
    return out


def o_dates(d, rep):
    """resolved dates as (frequency letter | None, [serials])"""
    f, st, n, _ = rep
    if d[0] == "all":
        return f, span_of(rep)
    if d[0] == "list":
        fs = {p[0] for p in d[1]}
        if len(fs) > 1:
            raise Undefined
        return (fs.pop() if fs else None), [p[1] for p in d[1]]
    _, a, b, step = d
    if (a is None or b is None) and st is None:
        raise Undefined
    own_s, own_e = (f, st), (f, (st + n - 1) if st is not None else None)
    a = a if a is not None else (own_s if step > 0 else own_e)
    b = b if b is not None else (own_e if step > 0 else own_s)
    if a[0] != b[0]:
        raise Undefined
    return a[0], enum_range(a[1], b[1], step)


def o_vids(v, nv):
    if v is None:
        return list(range(nv))
    if isinstance(v, slice):
        return list(range(*v.indices(nv)))
    out = []
    for c in ([v] if isinstance(v, int) else v):
        if not (-nv <= c < nv):
            raise Undefined
        out.append(c % nv)
    return out


def o_value_fn(data, ndates, oracle, reps, dfreq, serials):
    """value written for the k-th addressed variant and the i-th addressed date (None = NaN)"""
    kind = data[0]
    if kind == "none":
        return lambda k, i: None
    if kind == "s":
        c = fr(data[1])
        return lambda k, i: c
    def col_fn(col):
        if len(col) == ndates:
            return lambda i: fr(col[i])
        if len(col) == 1:
            return lambda i: fr(col[0])
        raise Undefined
    if kind == "vs":
        items = data[1]
        if not items:
            return lambda k, i: None
        fns = [(lambda i, c=fr(it[1]): c) if it[0] == "s" else col_fn(it[1]) for it in items]
        return lambda k, i: fns[min(k, len(fns) - 1)](i)
    if kind in ("a", "a1"):
        rows = data[1] if kind == "a" else [[c] for c in data[1]]
        if not rows or not rows[0]:
            raise Undefined
        cols = [[r[j] for r in rows] for j in range(len(rows[0]))]
        fns = [col_fn(c) for c in cols]
        return lambda k, i: fns[min(k, len(fns) - 1)](i)
    if kind == "ser":
        j = data[1]
        if ndates == 0:
            raise Undefined
        if reps[j][0] is not None and dfreq is not None and reps[j][0] != dfreq:
            raise Undefined
        mj, nvj = oracle[j]["m"], oracle[j]["nv"]
        if nvj == 0:
            raise Undefined
        return lambda k, i: mj.get((serials[i], min(k, nvj - 1)))
    raise Undefined


def bcast(m, nv_from, nv_to):
    if nv_from == nv_to:
        return dict(m)
    if nv_from != 1:
        raise Undefined
    return {(t, v): c for (t, _), c in m.items() for v in range(nv_to)}


def o_overlay(base, rep_b, top, rep_t):
    """(map, nv) of `base.overlay(top)`: top's values (missing included) over top's reported span"""
    nvb, nvt = base["nv"], top["nv"]
    if nvb != nvt and nvb != 1 and nvt != 1:
        raise Undefined
    nv = max(nvb, nvt) if min(nvb, nvt) == 1 else nvb
    span = span_of(rep_t)
    if span and rep_b[0] is not None and rep_b[0] != rep_t[0]:
        raise Undefined
    m = bcast(base["m"], nvb, nv)
    mt = bcast(top["m"], nvt, nv)
    for t in span:
        for v in range(nv):
            c = mt.get((t, v))
            if c is None:
                m.pop((t, v), None)
            else:
                m[(t, v)] = c
    return m, nv


FOP = {"add": lambda a, b: a + b, "sub": lambda a, b: a - b, "mul": lambda a, b: a * b}
COP = {"gt": lambda a, b: a > b, "lt": lambda a, b: a < b, "ge": lambda a, b: a >= b, "le": lambda a, b: a <= b,
       "eq": lambda a, b: a == b, "ne": lambda a, b: a != b}


def kw_source(f, t, kw):
    """the period whose value a keyword shift brings to period t (None: no such period)"""
    if f in ("Y", "H", "Q", "M"):
        v = FVAL[f]
        seg0 = t % v
        if kw == "soy":
            return t - seg0
        if kw == "eopy":
            return t - seg0 - 1
        return t - 1 if seg0 > 0 else None
    if f == "D":
        date = dt.date.fromordinal(t)
        if kw == "soy":
            return dt.date(date.year, 1, 1).toordinal()
        if kw == "eopy":
            return dt.date(date.year - 1, 12, 31).toordinal()
        return t - 1 if (date.month, date.day) != (1, 1) else None
    raise Undefined


def oracle_step(oracle, reps, ws):
    """new oracle states (list of {'nv','m'}) and the expected return of the op; raises Undefined outside the domain"""
    op = {"setb": "set", "setk": "set", "getb": "get", "getk": "get"}.get(ws[0], ws[0])
    I = lambda k: int(ws[k])
    new = [dict(nv=o["nv"], m=o["m"]) for o in oracle]
    out = None
    def put(k, m, nv):
        new[k] = {"nv": nv, "m": m}
    if op == "new":
        put(I(1), {}, I(3))
    elif op == "init":
        rows = parse_rows(ws[5]); nv = I(4); s0 = I(3)
        put(I(1), {(s0 + i, v): fr(c) for i, r in enumerate(rows) for v, c in enumerate(r) if fr(c) is not None}, nv)
    elif op == "set":
        i = I(1); rep = reps[i]
        dfreq, serials = o_dates(parse_dates(ws[2]), rep)
        data = parse_data(ws[4])
        if not serials and (data[0] == "none" or (data[0] == "a" and not data[1]) or (data[0] == "a1" and not data[1])):
            return new, out
        if serials and rep[0] is not None and dfreq != rep[0]:
            raise Undefined
        vids = o_vids(parse_vars(ws[3]), oracle[i]["nv"])
        fn = o_value_fn(data, len(serials), oracle, reps, dfreq, serials)
        m = dict(oracle[i]["m"])
        for k, v in enumerate(vids):
            for idx, t in enumerate(serials):
                c = fn(k, idx)
                if c is None:
                    m.pop((t, v), None)
                else:
                    m[(t, v)] = c
        put(i, m, oracle[i]["nv"])
    elif op in ("get", "gfu"):
        i = I(1); rep = reps[i]
        if op == "get":
            dfreq, serials = o_dates(parse_dates(ws[2]), rep)
            vids = o_vids(parse_vars(ws[3]), oracle[i]["nv"])
        else:
            a, b = per(ws[2]), per(ws[3])
            if a[0] != b[0] or (rep[0] is not None and a[0] != rep[0]):
                raise Undefined
            dfreq, serials = a[0], enum_range(a[1], b[1], 1)
            vids = o_vids(parse_vars(ws[4]), oracle[i]["nv"])
        if serials and rep[0] is not None and dfreq != rep[0]:
            raise Undefined
        out = ("data", [[oracle[i]["m"].get((t, v)) for v in vids] for t in serials], len(vids))
    elif op == "call":
        k, i = I(1), I(2); rep = reps[i]
        dfreq, serials = o_dates(parse_dates(ws[3]), rep)
        if serials and rep[0] is not None and dfreq != rep[0]:
            raise Undefined
        vids = o_vids(parse_vars(ws[4]), oracle[i]["nv"])
        m = {}
        for t in serials:
            for j, v in enumerate(vids):
                c = oracle[i]["m"].get((t, v))
                if c is not None:
                    m[(t, j)] = c
        put(k, m, len(vids))
    elif op in ("shift", "fshift", "idx"):
        k, i, by = (I(1), I(1), ws[2]) if op == "shift" else (I(1), I(2), ws[3])
        by = parse_shift(by)
        rep = reps[i]; src = oracle[i]
        if by == "yoy":
            by = -FVAL[rep[0]] if rep[0] is not None else 0
        if isinstance(by, int):
            m = {(t - by, v): c for (t, v), c in src["m"].items()}
        else:
            m = {}
            for t in span_of(rep):
                s = kw_source(rep[0], t, by)
                for v in range(src["nv"]):
                    c = src["m"].get((s, v)) if s is not None else None
                    if c is not None:
                        m[(t, v)] = c
        put(k, m, src["nv"])
    elif op == "clip":
        i = I(1); rep = reps[i]
        a, b = opt_per(ws[2]), opt_per(ws[3])
        for p in (a, b):
            if p is not None and (rep[0] is None or p[0] != rep[0]):
                raise Undefined
        m = {(t, v): c for (t, v), c in oracle[i]["m"].items()
             if (a is None or t >= a[1]) and (b is None or t <= b[1])}
        put(i, m, oracle[i]["nv"])
    elif op in ("overlay", "foverlay"):
        k, i, j = (I(1), I(1), I(2)) if op == "overlay" else (I(1), I(2), I(3))
        m, nv = o_overlay(oracle[i], reps[i], oracle[j], reps[j])
        put(k, m, nv)
    elif op in ("underlay", "funderlay"):
        k, i, j = (I(1), I(1), I(2)) if op == "underlay" else (I(1), I(2), I(3))
        m, nv = o_overlay(oracle[j], reps[j], oracle[i], reps[i])
        put(k, m, nv)
    elif op == "hstack":
        idx = [int(x) for x in ws[2:]]
        if not idx:
            raise Undefined
        if not all(reps[j][2] * reps[j][3] == 0 for j in idx):
            if len({reps[j][0] for j in idx if reps[j][0] is not None}) > 1:
                raise Undefined
        m, off = {}, 0
        for j in idx:
            for (t, v), c in oracle[j]["m"].items():
                m[(t, v + off)] = c
            off += oracle[j]["nv"]
        put(I(1), m, off)
    elif op in ("bin", "cmp"):
        if op == "bin":
            k, f, i, j = I(1), ws[2], I(3), I(4)
        else:
            k, f, i, j = None, ws[1], I(2), I(3)
        a, b = oracle[i], oracle[j]
        if a["nv"] != b["nv"] and a["nv"] != 1 and b["nv"] != 1:
            raise Undefined
        if reps[i][0] is not None and reps[j][0] is not None and reps[i][0] != reps[j][0]:
            raise Undefined
        nv = max(a["nv"], b["nv"]) if min(a["nv"], b["nv"]) == 1 else a["nv"]
        ma, mb = bcast(a["m"], a["nv"], nv), bcast(b["m"], b["nv"], nv)
        if op == "bin":
            put(k, {key: r_ for key in ma if key in mb for r_ in [ieee(f, ma[key], mb[key])] if r_ is not None}, nv)
        else:
            starts = [r[1] for r in (reps[i], reps[j]) if r[1] is not None]
            ends = [r[1] + r[2] - 1 for r in (reps[i], reps[j]) if r[1] is not None]
            m = {}
            if starts:
                for t in range(min(starts), max(ends) + 1):
                    for v in range(nv):
                        x, y = ma.get((t, v)), mb.get((t, v))
                        r = COP[f](x, y) if (x is not None and y is not None) else (f == "ne")
                        m[(t, v)] = Fraction(1 if r else 0)
            out = ("series", m, nv)
    elif op in ("sc", "rsc"):
        k, f, i, c = I(1), ws[2], I(3), fr(cellf(ws[4]))
        if c is None:
            m = {}
        elif op == "sc":
            m = {key: r_ for key, x in oracle[i]["m"].items() for r_ in [ieee(f, x, c)] if r_ is not None}
        else:
            m = {key: r_ for key, x in oracle[i]["m"].items() for r_ in [ieee(f, c, x)] if r_ is not None}
        put(k, m, oracle[i]["nv"])
    elif op == "un":
        k, g, i = I(1), ws[2], I(3)
        fn = {"neg": lambda x: -x, "pos": lambda x: x, "abs": lambda x: abs(x)}[g]
        put(k, {key: fn(x) for key, x in oracle[i]["m"].items()}, oracle[i]["nv"])
    elif op in ("stat", "mstat"):
        k, f, i = (I(1), ws[2], I(3)) if op == "stat" else (I(1), ws[2], I(1))
        rep, src = reps[i], oracle[i]
        nv = src["nv"]
        if nv == 0 and f in ("min", "max", "nanmin", "nanmax"):
            raise Undefined
        m = {}
        for t in span_of(rep):
            row = [src["m"].get((t, v)) for v in range(nv)]
            obs = [x for x in row if x is not None]
            if not f.startswith("nan"):
                if len(obs) < nv:
                    continue
                g = f
            else:
                g = f[3:]
            if g == "sum":
                r = sum(obs, Fraction(0))
            elif g == "prod":
                r = Fraction(1)
                for x in obs:
                    r *= x
            elif not obs:
                continue
            elif g == "mean":
                r = sum(obs, Fraction(0)) / len(obs)
            elif g == "min":
                r = min(obs)
            else:
                r = max(obs)
            if r != r:
                continue                                 # inf - inf, 0 * inf: NaN
            m[(t, 0)] = r
        put(k, m, 1)
    elif op in ("mov", "mmov"):
        k, f, i, w = (I(1), ws[2], I(3), ws[4]) if op == "mov" else (I(1), ws[2], I(1), ws[3])
        rep, src = reps[i], oracle[i]
        if w == "-":
            w = -FVAL[rep[0]] if (rep[0] is not None and FVAL[rep[0]] > 0) else -4
        wl = -int(w)
        if wl <= 0:
            raise Undefined
        m = {}
        for t in span_of(rep):
            for v in range(src["nv"]):
                win = [src["m"].get((t - j, v)) for j in range(wl)]
                if any(x is None for x in win):
                    continue
                if f == "prod":
                    r = Fraction(1)
                    for x in win:
                        r *= x
                else:
                    r = sum(win, Fraction(0))
                    if f == "avg":
                        r = r / wl
                if r != r:
                    continue
                m[(t, v)] = r
        put(k, m, src["nv"])
    elif op in ("fill", "mfill"):
        off = 1 if op == "fill" else 0
        k, i = (I(1), I(2)) if op == "fill" else (I(1), I(1))
        method, arg, d = ws[2 + off], ws[3 + off], parse_dates(ws[4 + off])
        rep, src = reps[i], oracle[i]
        dfreq, serials = o_dates(d, rep)
        if serials and rep[0] is not None and dfreq != rep[0]:
            raise Undefined
        if len(set(serials)) != len(serials):
            raise Undefined                      # repeated periods: only the model's last-write-wins statement applies
        m = dict(src["m"])
        const = fr(cellf(arg)) if method == "constant" else None
        for v in range(src["nv"]):
            # neighbours are taken in the order of the date collection (= calendar order for an ordinary span)
            obs_pos = [q_ for q_, t in enumerate(serials) if (t, v) in src["m"]]
            for pos_, t in enumerate(serials):
                if (t, v) in src["m"]:
                    continue
                pp = max((q_ for q_ in obs_pos if q_ < pos_), default=None)
                nn = min((q_ for q_ in obs_pos if q_ > pos_), default=None)
                prev = serials[pp] if pp is not None else None
                nxt = serials[nn] if nn is not None else None
                val = None
                if method == "constant":
                    val = const
                elif method == "next":
                    val = src["m"][(nxt, v)] if nxt is not None else None
                elif method == "previous":
                    val = src["m"][(prev, v)] if prev is not None else None
                elif method == "nearest":
                    if prev is not None and nxt is not None:
                        # position-based distance inside the span (the span may have a step): positions are monotone in t
                        ip, it, inx = serials.index(prev), serials.index(t), serials.index(nxt)
                        val = src["m"][(prev, v)] if it - ip <= inx - it else src["m"][(nxt, v)]
                    elif prev is not None:
                        val = src["m"][(prev, v)]
                    elif nxt is not None:
                        val = src["m"][(nxt, v)]
                elif method == "linear":
                    if prev is not None and nxt is not None:
                        ip, it, inx = serials.index(prev), serials.index(t), serials.index(nxt)
                        a, b = src["m"][(prev, v)], src["m"][(nxt, v)]
                        val = a + (b - a) * Fraction(it - ip, inx - ip)
                        if val != val:
                            val = None                   # inf - inf
                    elif prev is not None:
                        val = src["m"][(prev, v)]
                    elif nxt is not None:
                        val = src["m"][(nxt, v)]
                else:
                    raise Undefined
                if val is not None:
                    m[(t, v)] = val
        put(k, m, src["nv"])
    elif op in ("lextrap", "mlextrap"):
        import math
        off = 1 if op == "lextrap" else 0
        k, i = (I(1), I(2)) if op == "lextrap" else (I(1), I(1))
        coeffs = [float(Fraction(c)) for c in split_ne(ws[2 + off], ",")]
        c0, d = float(Fraction(ws[3 + off])), parse_dates(ws[4 + off])
        rep, src = reps[i], oracle[i]
        m = dict(src["m"])
        if rep[1] is not None:
            dfreq, serials = o_dates(d, rep)
            if serials:
                if dfreq != rep[0] or not coeffs or src["nv"] == 0 or len(set(serials)) != len(serials):
                    raise Undefined
                # x_t = exp(rho_1 log x_{t-1} + … + rho_p log x_{t-p} + c): the recursion in logs; every cell outside the span is untouched
                for v in range(src["nv"]):
                    hist = [src["m"].get((serials[0] - j, v)) for j in range(1, len(coeffs) + 1)]
                    if any(z is not None and (is_inf(z) or z <= 0) for z in hist):
                        raise Undefined                  # log of a non-positive or infinite lag: IEEE corner cases of lfilter, not demanded
                    lh = [None if z is None else math.log(float(z)) for z in hist]
                    for t in serials:
                        lags = lh[: len(coeffs)]
                        y = None if any(z is None for z in lags) else sum(r * z for r, z in zip(coeffs, lags)) + c0
                        lh.insert(0, y)
                        try:
                            x = None if y is None else math.exp(y)
                        except OverflowError:
                            raise Undefined
                        if x is None:
                            m.pop((t, v), None)
                        elif x == 0.0 or x == INF:
                            raise Undefined
                        else:
                            m[(t, v)] = Fraction(x)
        put(k, m, src["nv"])
    elif op in ("extrap", "mextrap"):
        off = 1 if op == "extrap" else 0
        k, i = (I(1), I(2)) if op == "extrap" else (I(1), I(1))
        coeffs = [Fraction(c) for c in split_ne(ws[2 + off], ",")]
        c0, d = Fraction(ws[3 + off]), parse_dates(ws[4 + off])
        rep, src = reps[i], oracle[i]
        m = dict(src["m"])
        if rep[1] is not None:
            dfreq, serials = o_dates(d, rep)
            if serials:
                if dfreq != rep[0] or not coeffs or src["nv"] == 0:
                    raise Undefined
                if len(set(serials)) != len(serials):
                    raise Undefined
                # x_t = rho_1 x_{t-1} + … + rho_p x_{t-p} + c for len(span) steps from the first date, lags from the history before it;
                # the k-th value goes to the k-th date (for consecutive periods: the recursion on the map itself)
                for v in range(src["nv"]):
                    hist = [src["m"].get((serials[0] - j, v)) for j in range(1, len(coeffs) + 1)]      # most recent first
                    for t in serials:
                        lags = hist[: len(coeffs)]
                        x = None if any(z is None for z in lags) else sum((r * z for r, z in zip(coeffs, lags)), Fraction(0)) + c0
                        hist.insert(0, x)
                        if x is None:
                            m.pop((t, v), None)
                        else:
                            m[(t, v)] = x
        put(k, m, src["nv"])
    elif op == "rw":
        i = I(1); rep, src = reps[i], oracle[i]
        tname = ws[2]
        c = None if tname == "isnan" else Fraction(ws[3])
        newv = fr(cellf(ws[4]))
        def hit(x):
            if tname == "isnan":
                return x is None
            if x is None:
                return tname == "ne"
            return COP[tname](x, c)
        m = {}
        for t in span_of(rep):
            for v in range(src["nv"]):
                x = src["m"].get((t, v))
                y = newv if hit(x) else x
                if y is not None:
                    m[(t, v)] = y
        put(i, m, src["nv"])
    elif op == "trim":
        pass
    elif op == "empty":
        put(I(1), {}, oracle[I(1)]["nv"])
    elif op == "copy":
        put(I(1), dict(oracle[I(2)]["m"]), oracle[I(2)]["nv"])
    else:
        raise Undefined
    return new, out


T_OPS = ("mean", "nanmean", "avg", "linear")     # division by a number that need not be a power of two: class T from there on
TOL = 1e-9


def is_t_op(o: str) -> bool:
    ws = o.split()
    if ws and ws[0] in ("extrap", "mextrap", "lextrap", "mlextrap"):
        return True                                  # scipy.signal.lfilter: floating point, order of operations not modelled
    return bool(ws) and ws[0] in ("stat", "mstat", "mov", "mmov", "fill", "mfill") and any(w in T_OPS for w in ws[1:])


def close(a, b, loose) -> bool:
    if a is None or b is None or not loose or is_inf(a) or is_inf(b):
        return a == b
    return abs(a - b) <= TOL * max(1, abs(a), abs(b))


def maps_close(m1, m2, loose) -> bool:
    if not loose:
        return m1 == m2
    return m1.keys() == m2.keys() and all(close(m1[k], m2[k], True) for k in m1)


def rows_close(r1, r2, loose) -> bool:
    if not loose:
        return r1 == r2
    return len(r1) == len(r2) and all(len(a) == len(b) and all(close(x, y, True) for x, y in zip(a, b)) for a, b in zip(r1, r2))


_SEP = re.compile(r"([#&;:, ])")


def loose_equal(a: str, b: str) -> bool:
    """same structure (starts, shapes, NaN masks, error kinds), numeric cells within TOL"""
    ta, tb = _SEP.split(a), _SEP.split(b)
    if len(ta) != len(tb):
        return False
    for x, y in zip(ta, tb):
        if x == y:
            continue
        try:
            fx, fy = Fraction(x), Fraction(y)
        except (ValueError, ZeroDivisionError):
            return False
        if abs(fx - fy) > TOL * max(1, abs(fx), abs(fy)):
            return False
    return True


def is_trimmed(x) -> bool:
    n = x.data.shape[0]
    if n == 0 or x.data.shape[1] == 0:
        return x.start is None and n == 0
    d = x.data.astype(float)
    return x.start is not None and not np.all(np.isnan(d[0])) and not np.all(np.isnan(d[-1]))


def same_state(x, snap) -> bool:
    st0, d0 = snap
    if (x.start is None) != (st0 is None):
        return False
    if x.start is not None and (type(x.start) is not type(st0) or x.start.serial != st0.serial):
        return False
    return x.data.shape == d0.shape and np.array_equal(x.data, d0, equal_nan=True)


def parse_out(text):
    """what the implementation printed for a read: ('data', rows of Fraction|None, ncols) or ('series', map, nv, start, n)"""
    body = text[4:-1]
    parts = body.split(";")
    if "x" in parts[0] and parts[0][0].isdigit():
        n, nc = (int(z) for z in parts[0].split("x"))
        rows = [] if parts[1] == "-" else [[fr(cellf(c)) for c in split_ne(r, ",")] for r in parts[1].split(":")]
        return ("data", rows, nc, n)
    st = None if parts[0] == "none" else per(parts[0])
    n, nv = (int(z) for z in parts[1].split("x"))
    rows = [] if parts[2] == "-" else [[fr(cellf(c)) for c in r.split(",")] for r in parts[2].split(":")]
    m = {}
    if st is not None:
        for i, r in enumerate(rows):
            for v, c in enumerate(r):
                if c is not None:
                    m[(st[1] + i, v)] = c
    return ("series", m, nv, st, n)


# ---------------------------------------------------------------------------------------
# one sequence on the real code: canonical reply + oracle / isolation checks
# ---------------------------------------------------------------------------------------

def run_line(line: str, ctx: Ctx | None = None, check: bool = True):
    """returns (reply text, list of (site, detail, op index)) -- failures are also sent to ctx.fail when ctx is given"""
    fails = []
    def fail(site, detail, k):
        fails.append((site, detail, k))
        if ctx is not None:
            ctx.fail(site, {"line": line, "op_index": k}, detail)
    try:
        n, ops = split_line(line)
    except Exception:
        return "bad-op", fails
    pool = [Series() for _ in range(n)]
    oracle = [{"nv": 1, "m": {}} for _ in range(n)]
    replies = []
    loose = False
    for k, o in enumerate(ops):
        ws = o.split()
        loose = loose or is_t_op(o)
        name = ws[0] if ws else "?"
        base_name = {"foverlay": "overlay", "funderlay": "underlay", "fshift": "shift", "idx": "shift", "rsc": "sc", "cmp": "bin",
                     "mstat": "stat", "mmov": "mov", "mfill": "fill", "mextrap": "extrap", "lextrap": "extrap", "mlextrap": "extrap",
                     "setb": "set", "setk": "set", "getb": "get", "getk": "get"}.get(name, name)
        tainted = set()
        old = list(pool)
        snaps = [(x.start, x.data.copy()) for x in old]
        reps = [reported(x) for x in old]
        # what the map semantics say (before the real op runs: the oracle reads only pre-op reported spans)
        exp = None
        if check:
            try:
                exp = oracle_step(oracle, reps, ws)
            except Undefined:
                exp = None
            except (ValueError, IndexError, KeyError):
                exp = None
        err = None
        nd_set = None
        if check and name in ("set", "setb", "setk") and len(ws) == 5:
            try:
                nd_set = count_dates(pool[int(ws[1])], ws[2])
            except Exception:
                nd_set = None
        try:
            text, receiver, result = exec_op(pool, ws)
        except ValueError as e:
            if str(e) == "bad-op":
                replies.append("bad-op"); break
            err = e
        except Exception as e:
            if type(e).__name__ == "_SearchTimeout":
                raise                                   # the time cap of the failing-input search, not a behaviour of the code
            err = e
        if check:
            # isolation, half 1: nothing but the receiver changes (also when the op raised)
            for idx, x in enumerate(old):
                if err is None and idx == receiver:
                    continue
                if err is not None and name in METHODS and ws[1].isdigit() and idx == int(ws[1]):
                    continue
                if not same_state(x, snaps[idx]):
                    tainted.add(idx)
                    fail(f"isolation-{base_name}", f"op `{o}` changed pool[{idx}] which is not its receiver: "
                         f"start {snaps[idx][0]}, data {snaps[idx][1].tolist()} -> {show_series(x)}", k)
        if err is not None:
            if check and exp is not None:
                fail(f"raises-{base_name}", f"op `{o}` is defined by the map semantics but raises {type(err).__name__}: {err}", k)
            replies.append(err_kind(err))
            break
        replies.append(text + show_pool(pool) + show_classes(pool))
        if not check:
            continue
        # isolation, half 2: a functional result is a new object sharing no memory with anything that existed before
        if result is not None and name in FUNCTIONAL:
            r = pool[result]
            for idx, x in enumerate(old):
                if r is x or np.shares_memory(r.data, x.data):
                    fail(f"alias-{base_name}", f"result of `{o}` aliases pool[{idx}]", k)
        # the reported span covers every value
        for idx, x in enumerate(pool):
            if map_of(x) is None:
                fail("covers", f"after `{o}` pool[{idx}] holds values but reports no start", k)
        if exp is None:
            # outside the domain of the statement: follow the implementation
            oracle = [{"nv": x.data.shape[1], "m": map_of(x) or {}} for x in pool]
            continue
        oracle, out = exp
        for idx, x in enumerate(pool):
            m = map_of(x)
            if pool[idx] is old[idx] and idx in tainted:
                oracle[idx] = {"nv": x.data.shape[1], "m": m or {}}     # already reported as an isolation failure
                continue
            if m is not None and (not maps_close(m, oracle[idx]["m"], loose) or x.data.shape[1] != oracle[idx]["nv"]):
                diff = sorted(set(m.items()) ^ set(oracle[idx]["m"].items()))[:4]
                fail(f"map-{base_name}", f"after `{o}` pool[{idx}] is not the map the statement prescribes "
                     f"(variants {x.data.shape[1]} vs {oracle[idx]['nv']}; differing cells {[(a, str(b)) for a, b in diff]})", k)
                oracle[idx] = {"nv": x.data.shape[1], "m": m}
            elif loose and m is not None:
                oracle[idx] = {"nv": x.data.shape[1], "m": m}
        if out is not None:
            got = parse_out(text)
            if out[0] == "data":
                if got[0] != "data" or not rows_close(got[1], out[1], loose) or got[2] != out[2]:
                    fail(f"read-{base_name}", f"`{o}` returned {text} but the map holds {[[str(c) for c in r] for r in out[1]]}", k)
            else:
                if got[0] != "series" or not maps_close(got[1], out[1], loose) or got[2] != out[2]:
                    fail(f"map-cmp", f"`{o}` returned {text}, expected cells {sorted((a, str(b)) for a, b in out[1].items())[:6]}", k)
        if name in ("extrap", "mextrap", "lextrap", "mlextrap"):
            # whatever the options: every cell outside the extrapolated span is bit-identical to the input (exact, also in class T)
            off_ = 1 if name in ("extrap", "lextrap") else 0
            src_i = int(ws[2]) if off_ else int(ws[1])
            tgt_ = result if result is not None else receiver
            try:
                span_ser = o_dates(parse_dates(ws[4 + off_]), reps[src_i])[1] if reps[src_i][1] is not None else []
            except (Undefined, ValueError, IndexError):
                span_ser = None
            st0, d0 = snaps[src_i]
            if span_ser is not None and st0 is not None:
                inside = set(span_ser)
                pre = {(st0.serial + r_, c_): fr(d0[r_, c_]) for r_ in range(d0.shape[0]) for c_ in range(d0.shape[1])
                       if fr(d0[r_, c_]) is not None and (st0.serial + r_) not in inside}
                post = {key: val for key, val in (map_of(pool[tgt_]) or {}).items() if key[0] not in inside}
                if pre != post:
                    diff = sorted(set(pre.items()) ^ set(post.items()), key=str)[:4]
                    fail("history-extrap", f"`{o}` changed cells outside the extrapolated span: {[(a, str(b)) for a, b in diff]}", k)
        if name in TRIM_OPS and not (name in ("set", "setb", "setk") and nd_set == 0):
            # (a `set` that addresses no date is not a write: `clip`/`empty()` may have left untrimmed rows or a bare start there)
            tgt = receiver if receiver is not None else result
            if not is_trimmed(pool[tgt]):
                fail(f"trim-{base_name}", f"after `{o}` pool[{tgt}] = {show_series(pool[tgt])} has an all-missing end row or an empty span with a start", k)
    return " # ".join(replies), fails


# ---------------------------------------------------------------------------------------
# generator: sequences built against the live state so that most ops are meaningful
# ---------------------------------------------------------------------------------------

def small_enough(x, allow_inf=False) -> bool:
    """operands for which + - * are exact in double (finite values only, unless `allow_inf`: then +-inf may be present --
    the operators, comparisons and tests are modelled with IEEE semantics on them, sums/products/recursions are not driven)"""
    d = x.data
    if d.dtype != np.float64:
        return False
    for v in d.ravel():
        if v != v:
            continue
        if v in (INF, -INF):
            if allow_inf:
                continue
            return False
        n, den = float(v).as_integer_ratio()
        if abs(n) >= (1 << 24) or den > (1 << 24):
            return False
    return True


def ptok(f, s):
    return f"{f}{s}"


def gen_cell(rng, pnan=0.2):
    if rng.chance(pnan):
        return "nan"
    if rng.chance(0.05):
        return rng.choice(["inf", "-inf", "inf", "-inf", "-0", "0"])      # observed values that are not finite / signed zero
    return rat_of_float(rng.dyadic(-8, 8, 3))


def gen_rows(rng, n, nv, pnan=0.25):
    rows = []
    for _ in range(n):
        if rng.chance(0.15):
            rows.append(["nan"] * nv)          # all-missing rows: interior ones stay, end ones must be trimmed
        else:
            rows.append([gen_cell(rng, pnan) for _ in range(nv)])
    return rows


def rows_tok(rows):
    return ":".join(",".join(r) for r in rows) if rows else "-"


def gen_period_near(rng, x, f, wide=False):
    rep = reported(x)
    if rep[1] is not None and rng.chance(0.85):
        lo, hi = rep[1] - 4, rep[1] + rep[2] + 3
        if wide and rng.chance(0.2):
            lo, hi = lo - 8, hi + 8
        return rng.randint(lo, hi)
    return BASE[f] + rng.randint(-6, 8)


def gen_dates(rng, x, f, malformed):
    rep = reported(x)
    g = f if (rep[0] is None or malformed) else rep[0]
    kind = rng.weighted([("all", 1), ("list", 5), ("span", 4)])
    if kind == "all":
        return "all"
    if kind == "list":
        n = rng.weighted([(0, 1), (1, 6), (2, 5), (3, 4), (4, 2)])
        ps = [gen_period_near(rng, x, g, True) for _ in range(n)]
        if n >= 2 and rng.chance(0.15):
            ps[-1] = ps[0]                      # repeated period
        toks = [ptok(g, s) for s in ps]
        if malformed and n >= 2:
            toks[-1] = ptok(rng.choice([h for h in "YQMI" if h != g]), BASE["Q"])
        return "l=" + ",".join(toks)
    a = gen_period_near(rng, x, g)
    b = a + rng.weighted([(-2, 1), (0, 2), (1, 3), (2, 3), (4, 3), (7, 1)])
    st = rng.weighted([(1, 8), (2, 2), (3, 1), (-1, 2), (-2, 1)])
    if st < 0:
        a, b = b, a
    ta, tb = ptok(g, a), ptok(g, b)
    p_open = 0.12 if rep[1] is not None else 0.01      # open ends on a start-less series raise: keep them rare
    if rng.chance(p_open):
        ta = "-"
    if rng.chance(p_open):
        tb = "-"
    return f"sp={ta},{tb},{st}"


def gen_vars(rng, nv, malformed):
    kind = rng.weighted([("all", 6), ("one", 3), ("list", 2)])
    if nv == 0:
        return "all"
    if kind == "all":
        return "all"
    if kind == "one":
        c = rng.randint(-nv, nv - 1)
        if malformed and rng.chance(0.5):
            c = nv + rng.randint(0, 1)
        return f"v={c}"
    if rng.chance(0.3):
        a = rng.choice(["", "0", "1", "-1", "-2", str(nv)])
        b = rng.choice(["", "1", "2", "-1", str(nv), str(nv + 1)])
        return f"vsl={a}:{b}"
    k = rng.randint(1, nv)
    l = rng.sample(range(nv), k)
    if rng.chance(0.2):
        l[0] = l[0] - nv
    return "vl=" + ",".join(str(c) for c in l)


def count_dates(x, dtok):
    try:
        d = impl_dates(parse_dates(dtok))
        return len(x.resolve_periods(d))
    except Exception:
        return None


def count_vars(x, vtok):
    v = parse_vars(vtok)
    if isinstance(v, slice):
        return len(range(*v.indices(x.data.shape[1])))
    return x.data.shape[1] if v is None else (1 if isinstance(v, int) else len(v))


def gen_data(rng, nd, nvid, pool, malformed):
    kind = rng.weighted([("s", 5), ("none", 0.3), ("vs", 3), ("a1", 3), ("a", 4), ("ser", 3)])
    if kind == "s":
        return "s=" + gen_cell(rng, 0.15)
    if kind == "none":
        return "none"
    nd_eff = nd if not (malformed and rng.chance(0.5)) else nd + 2
    if kind == "vs":
        items = []
        for _ in range(rng.randint(1, max(1, nvid))):
            if rng.chance(0.5):
                items.append(gen_cell(rng, 0.15))
            else:
                n = 1 if rng.chance(0.15) else nd_eff
                items.append("c:" + ",".join(gen_cell(rng) for _ in range(n)))
        return "vs=" + ";".join(items)
    if kind == "a1":
        n = 1 if rng.chance(0.1) else nd_eff
        return "a1=" + ",".join(gen_cell(rng) for _ in range(n))
    if kind == "a":
        n = 1 if rng.chance(0.1) else nd_eff
        nc = rng.randint(1, max(1, nvid))
        return "a=" + rows_tok(gen_rows(rng, n, nc))
    if nd == 0 and not malformed:
        return "s=" + gen_cell(rng, 0.15)              # a series read over no dates raises (reshape of a 0-row array)
    return f"ser={rng.randint(0, len(pool) - 1)}"


def tiny_enough(x, count) -> bool:
    """operands whose product over `count` factors is exact in double"""
    if count > 3 or x.data.dtype != np.float64:
        return False
    for v in x.data.ravel():
        if v != v or v in (INF, -INF):
            continue
        n, den = float(v).as_integer_ratio()
        if abs(n) >= (1 << 8) or den > (1 << 8):
            return False
    return True


def pow2(n) -> bool:
    return n >= 1 and (n & (n - 1)) == 0


AR_COEFFS = ["1/2", "-1/2", "1/4", "3/4", "1", "-1/4", "5/4", "-1", "1/8", "0"]

OP_WEIGHTS = [("extrapop", 4), ("stat", 5), ("mov", 4), ("fillop", 4), ("rw", 2), ("set", 14), ("get", 5), ("gfu", 2), ("call", 3), ("shift", 3), ("fshift", 2), ("idx", 2), ("clip", 4),
              ("overlay", 4), ("underlay", 3), ("foverlay", 2), ("funderlay", 2), ("hstack", 3), ("bin", 8), ("cmp", 2),
              ("sc", 3), ("rsc", 2), ("un", 2), ("trim", 1), ("empty", 1), ("copy", 2), ("init", 3), ("new", 1), ("kwshift", 2)]


def gen_init(rng, k, f):
    nv = rng.weighted([(1, 5), (2, 3), (3, 2)])
    n = rng.weighted([(0, 1), (1, 2), (2, 2), (3, 3), (4, 3), (6, 2), (9, 1)])
    st = BASE[f] + rng.randint(-6, 8)
    return f"init {k} {f} {st} {nv} {rows_tok(gen_rows(rng, n, nv))}"


ALLOW_LOG = [False]      # set while the oracle-only log-extrapolation stream is generated


def gen_op(rng, pool, f, malformed):
    n = len(pool)
    name = rng.weighted(OP_WEIGHTS)
    i, j, k = rng.randint(0, n - 1), rng.randint(0, n - 1), rng.randint(0, n - 1)
    x = pool[i]
    g = f if not malformed else rng.choice([h for h in "YQMI" if h != f])
    if name in ("overlay", "underlay", "foverlay", "funderlay", "bin", "cmp") and not malformed:
        # mostly operands whose numbers of variants can be broadcast
        for _ in range(4):
            a, b = pool[i].data.shape[1], pool[j].data.shape[1]
            if a == b or a == 1 or b == 1:
                break
            j = rng.randint(0, n - 1)
    if name in ("stat", "mov", "rw") and not small_enough(x, True):
        return f"copy {k} {i}"                         # inexact values (after a class-T op) only flow through structural ops
    if name == "stat":
        nv = x.data.shape[1]
        fn = rng.choice(STATS)
        if fn in ("prod", "nanprod") and not tiny_enough(x, nv):
            fn = "sum" if fn == "prod" else "nansum"
        if fn in ("mean", "nanmean") and rng.chance(0.7):
            # mostly exact: every divisor a power of two
            counts = [nv] if fn == "mean" else [int(c) for c in np.sum(~np.isnan(x.data), axis=1)]
            if not all(pow2(c) or c == 0 for c in counts):
                fn = "sum" if fn == "mean" else "nanmax"
        if nv == 0:
            fn = "sum"
        return f"stat {k} {fn} {i}" if rng.chance(0.75) else f"mstat {i} {fn}"
    if name == "mov":
        fn = rng.weighted([("sum", 4), ("avg", 3), ("prod", 2)])
        w = rng.weighted([("-", 2), (-1, 1), (-2, 4), (-3, 2), (-4, 2), (-5, 1), (0, 0.2), (2, 0.2)])
        wl = -(w if w != "-" else (-FVAL[reported(x)[0]] if reported(x)[0] and FVAL[reported(x)[0]] > 0 else -4))
        if fn == "prod" and not tiny_enough(x, wl):
            fn = "sum"
        if fn == "avg" and not pow2(wl) and rng.chance(0.7):
            fn = "sum"
        return f"mov {k} {fn} {i} {w}" if rng.chance(0.75) else f"mmov {i} {fn} {w}"
    if name == "fillop":
        method = rng.choice(FILLS)
        if method == "linear" and not small_enough(x, True):
            method = "previous"
        arg = gen_cell(rng, 0.1) if method == "constant" else "-"
        kind = rng.weighted([("all", 5), ("span", 4), ("list", 0.5)])
        if kind == "all":
            d = "all"
        elif kind == "list":
            d = gen_dates(rng, x, f, malformed)
        else:
            rep = reported(x)
            g0 = rep[0] if (rep[0] is not None and not malformed) else g
            a = gen_period_near(rng, x, g0)
            d = f"sp={ptok(g0, a)},{ptok(g0, a + rng.randint(0, 7))},1"
        return f"fill {k} {i} {method} {arg} {d}" if rng.chance(0.7) else f"mfill {i} {method} {arg} {d}"
    if name == "extrapop":
        if not small_enough(x):
            return f"copy {k} {i}"
        rep = reported(x)
        order = rng.weighted([(1, 3), (2, 4), (3, 3), (4, 2)])
        coeffs = ",".join(rng.choice(AR_COEFFS) for _ in range(order))
        c0 = rat_of_float(rng.dyadic(-2, 2, 1)) if rng.chance(0.5) else "0"
        g0 = rep[0] if (rep[0] is not None and not malformed) else g
        if rep[1] is None:
            a = BASE[g0]
        else:
            end = rep[1] + rep[2] - 1
            # mostly right after the data or inside it (enough history), sometimes before the start or after a gap
            a = rng.weighted([(end + 1, 6), (end, 2), (end - 1, 2), (rep[1] + order, 2), (rep[1] + 1, 1), (rep[1] - 1, 0.5), (end + 3, 0.5)])
        n = rng.randint(1, 5)
        d = f"sp={ptok(g0, a)},{ptok(g0, a + n - 1)},1" if rng.chance(0.93) else gen_dates(rng, x, f, malformed)
        lg = "l" if (ALLOW_LOG[0] and rng.chance(0.6)) else ""
        return f"{lg}extrap {k} {i} {coeffs} {c0} {d}" if rng.chance(0.7) else f"m{lg}extrap {i} {coeffs} {c0} {d}"
    if name == "rw":
        t = rng.choice(list(TESTS))
        return f"rw {i} {t} {rat_of_float(rng.dyadic(-6, 6, 1))} {gen_cell(rng, 0.4)}"
    if name == "new":
        return f"new {k} {f} {rng.weighted([(1, 4), (2, 3), (3, 1)])}"
    if name == "init":
        return gen_init(rng, k, g if malformed else f)
    if name == "set":
        d = gen_dates(rng, x, f, malformed and rng.chance(0.5))
        v = gen_vars(rng, x.data.shape[1], malformed and rng.chance(0.3))
        nd = count_dates(x, d)
        sp = rng.weighted([("set", 4), ("setb", 4), ("setk", 2)])          # set_data positional / bracket / keyword
        return f"{sp} {i} {d} {v} {gen_data(rng, nd if nd is not None else 1, count_vars(x, v), pool, malformed and rng.chance(0.3))}"
    if name == "get":
        sp = rng.weighted([("get", 4), ("getb", 4), ("getk", 2)])
        return f"{sp} {i} {gen_dates(rng, x, f, malformed)} {gen_vars(rng, x.data.shape[1], malformed and rng.chance(0.3))}"
    rep = reported(x)
    gg = rep[0] if (rep[0] is not None and not malformed) else g
    if name == "gfu":
        a = gen_period_near(rng, x, gg)
        b = a + rng.weighted([(-2, 1), (0, 2), (2, 4), (5, 2)])
        return f"gfu {i} {ptok(gg, a)} {ptok(gg, b)} {gen_vars(rng, x.data.shape[1], False)}"
    if name == "call":
        v = gen_vars(rng, x.data.shape[1], False)
        if count_vars(x, v) == 0:
            v = "all"                                   # a series without variants is a dead end for the rest of the sequence
        return f"call {k} {i} {gen_dates(rng, x, f, malformed)} {v}"
    if name == "shift":
        return f"shift {i} {rng.randint(-5, 5)}"
    if name == "fshift":
        return f"fshift {k} {i} {rng.randint(-5, 5)}"
    if name == "idx":
        return f"idx {k} {i} {rng.randint(-5, 5)}"
    if name == "kwshift":
        kw = rng.choice(["yoy", "soy", "eopy", "tty"])
        if rep[0] == "I" and rep[2] > 0 and not rng.chance(0.1):
            kw = "yoy"                                  # integer periods have no year: the other keywords raise
        return f"shift {i} {kw}" if rng.chance(0.6) else f"fshift {k} {i} {kw}"
    if name == "clip":
        if rep[1] is None and not rng.chance(0.05):
            return f"clip {i} - -"                      # any period raises on a start-less series
        a = "-" if rng.chance(0.25) else ptok(gg, gen_period_near(rng, x, gg))
        b = "-" if rng.chance(0.25) else ptok(gg, gen_period_near(rng, x, gg))
        return f"clip {i} {a} {b}"
    if name in ("overlay", "underlay"):
        return f"{name} {i} {j}"
    if name in ("foverlay", "funderlay"):
        return f"{name} {k} {i} {j}"
    if name == "hstack":
        idx = [i] + [rng.randint(0, n - 1) for _ in range(rng.weighted([(0, 1), (1, 5), (2, 2)]))]
        return f"hstack {k} " + " ".join(str(z) for z in idx)
    arith_ok = small_enough(pool[i], True) and small_enough(pool[j], True)
    if name == "bin":
        ops = ["add", "sub", "mul"] if arith_ok else ["add", "sub"]
        if not arith_ok:
            return f"copy {k} {i}"
        return f"bin {k} {rng.choice(ops)} {i} {j}"
    if name == "cmp":
        if not arith_ok:
            return f"copy {k} {i}"
        return f"cmp {rng.choice(['gt', 'lt', 'ge', 'le', 'eq', 'ne'])} {i} {j}"
    if name in ("sc", "rsc"):
        if not small_enough(pool[i], True):
            return f"copy {k} {i}"
        return f"{name} {k} {rng.choice(['add', 'sub', 'mul'])} {i} {gen_cell(rng, 0.05)}"
    if name == "un":
        return f"un {k} {rng.choice(['neg', 'pos', 'abs'])} {i}"
    if name == "trim":
        return f"trim {i}"
    if name == "empty":
        return f"empty {i}"
    return f"copy {k} {i}"


def gen_sequence(rng, max_ops, p_malformed=0.04):
    f = rng.weighted([("Q", 5), ("M", 3), ("Y", 2), ("I", 2), ("H", 1), ("D", 2)])
    pool = [Series() for _ in range(POOL)]
    ops = []
    def push(o):
        ops.append(o)
        try:
            exec_op(pool, o.split())
            return True
        except Exception:
            return False
    alive = True
    for k in range(POOL):
        if rng.chance(0.8):
            alive = push(gen_init(rng, k, f))
        elif rng.chance(0.6):
            alive = push(f"new {k} {f} {rng.weighted([(1, 3), (2, 3), (3, 1)])}")
    nops = rng.randint(1, max_ops)
    while alive and len(ops) < nops + POOL:
        alive = push(gen_op(rng, pool, f, rng.chance(p_malformed)))
    return f"{POOL} | " + " | ".join(ops)


# directed sequences: every pair of small spans / variants for the alignment-sensitive ops (exhaustive small scope)
def directed_lines(ctx: Ctx):
    lines = []
    f = "Q"; b0 = BASE[f]
    blocks = {1: ["1", "nan", "2"], 2: ["1,2", "nan,nan", "nan,3"]}
    R = range(-3, 4) if ctx.quick else range(-5, 6)
    for nv0 in (1, 2):
        for nv1 in (1, 2):
            for off in R:
                for n1 in (0, 1, 3):
                    r0 = ":".join(blocks[nv0])
                    r1 = ":".join(blocks[nv1][:n1]) if n1 else "-"
                    head = f"3 | init 0 {f} {b0} {nv0} {r0} | init 1 {f} {b0 + off} {nv1} {r1}"
                    lines.append(head + " | bin 2 add 0 1 | bin 2 mul 1 0 | cmp ge 0 1 | hstack 2 0 1 | foverlay 2 0 1 | funderlay 2 0 1 | overlay 0 1 | underlay 1 0")
                    lines.append(head + f" | clip 0 {f}{b0 + off} {f}{b0 + off + 1} | bin 2 sub 0 1 | underlay 0 1 | set 1 sp={f}{b0 - 1},{f}{b0 + 1},1 all ser=0 | overlay 2 1")
    # empty operands in every position
    for a in ("new 0 Q 1", "init 0 Q 8080 1 1:2", "init 0 Q 8080 1 1:2 | clip 0 Q8085 Q8086", "init 0 Q 8080 2 1,2 | empty 0"):
        for b in ("new 1 Q 1", "new 1 Q 2", "init 1 Q 8082 1 5", "init 1 Q 8080 1 nan:nan"):
            for tail in ("bin 2 add 0 1", "bin 2 mul 1 0", "cmp lt 0 1", "overlay 0 1", "underlay 0 1", "hstack 2 0 1", "foverlay 2 1 0",
                         "set 0 all all ser=1", "set 1 sp=-,-,1 all s=3", "sc 2 add 0 1 | rsc 2 sub 1 2", "un 2 neg 0 | trim 2",
                         "shift 0 2 | shift 0 yoy | get 0 all all", "call 2 0 all all | call 2 1 sp=Q8079,Q8083,2 v=0"):
                lines.append(f"3 | {a} | {b} | {tail}")
    # every small write: dates x variants x data kinds on a 3x2 block
    head = "3 | init 0 Q 8080 2 1,2:nan,nan:3,nan | init 1 Q 8081 1 7:8"
    for d in ("all", "l=", "l=Q8079", "l=Q8081,Q8081", "l=Q8084,Q8078", "sp=Q8081,Q8085,2", "sp=-,Q8083,1", "sp=Q8082,-,-1", "sp=Q8083,Q8082,1"):
        for v in ("all", "v=1", "v=-2", "vl=1,0", "vl="):
            for x in ("s=5", "s=nan", "none", "vs=9", "vs=9;nan", "a1=4", "a=4,5", "ser=1", "ser=0"):
                lines.append(f"{head} | set 0 {d} {v} {x} | get 0 {d} {v} | get 0 all all")
    # statistics, moving windows, fill_missing, replace_where on blocks with every kind of gap, and on empty series
    heads = ["3 | init 0 Q 8080 2 nan,1:2,nan:nan,nan:nan,nan:6,nan:nan,8",
             "3 | init 0 Q 8081 1 1:nan:3:nan:nan:nan:7:8 | clip 0 Q8080 Q8086",
             "3 | init 0 M 24240 3 1,2,3:4,nan,6:nan,nan,nan:-1,-2,-4 | clip 0 M24241 M24244",
             "3 | new 0 Q 2", "3 | init 0 Q 8080 2 1,2 | empty 0", "3 | init 0 I 0 4 1,2,3,4:nan,2,nan,4",
             "3 | init 0 Q 8080 3 1,-2,8:2,3,nan:4,-5,6:8,7,5:-3,11,4:6,13,3", "3 | init 0 M 24240 2 1,3:2,-1:-4,5:8,2:16,-7",
             "3 | init 0 I 0 1 1:2:3:5:8"]
    for h in heads:
        for fn in STATS:
            lines.append(f"{h} | stat 1 {fn} 0 | mstat 0 {fn}")
        for fn in MOVS:
            lines.append(f"{h} | " + " | ".join(f"mov 1 {fn} 0 {w}" for w in (-1, -2, -3, -4, "-")) + f" | mmov 0 {fn} -2 | mov 1 {fn} 0 1")
        for m in FILLS:
            arg = "7" if m == "constant" else "-"
            lines.append(f"{h} | fill 1 0 {m} {arg} all | fill 2 0 {m} {arg} sp=Q8078,Q8089,1 | fill 2 0 {m} {arg} sp=Q8082,Q8084,1 | mfill 0 {m} {arg} all")
        lines.append(f"{h} | fill 1 0 constant nan all | fill 1 0 previous - l=Q8083,Q8081,Q8081,Q8089 | fill 1 0 nearest - sp=Q8089,Q8079,-2")
        mh = re.search(r"init 0 (\w) (-?\d+) \d+ (\S+)", h)
        F_, s0, n0 = (mh.group(1), int(mh.group(2)), mh.group(3).count(":") + 1) if mh else ("Q", 8080, 0)
        sp_ = lambda a, b: f"sp={F_}{s0 + a},{F_}{s0 + b},1"
        for cs in ("1/2", "1/2,1/4", "1,-1/2,1/4", "0,0,0,1", "3/4,0,-1/4,1/2"):
            # right after the data, overlapping its end, inside it, before its start, after a gap; method form last
            lines.append(f"{h} | extrap 1 0 {cs} 0 {sp_(n0, n0 + 3)} | extrap 1 0 {cs} 1/2 {sp_(n0 - 2, n0 + 1)} | extrap 2 0 {cs} 0 {sp_(1, 3)}"
                         f" | extrap 2 0 {cs} -1 {sp_(-1, 1)} | extrap 2 0 {cs} 1 {sp_(n0 + 2, n0 + 3)} | extrap 2 1 {cs} 0 {sp_(n0 + 4, n0 + 5)}"
                         f" | mextrap 0 {cs} 1/2 {sp_(n0, n0 + 1)} | extrap 2 0 {cs} 0 sp=Y2020,Y2021,1")
        # date collections resolved against the series' own ends, stepped, backward, unordered
        for d_ in ("sp=-,-,1", "sp=-,-,-1", "sp=-,-,2", "sp=-,-,-2", f"sp=-,{F_}{s0 + n0 + 2},3", f"sp={F_}{s0 + n0 + 3},-,-2",
                   f"l={F_}{s0 + 3},{F_}{s0},{F_}{s0 + n0 + 1},{F_}{s0 + 1}"):
            lines.append(f"{h} | get 0 {d_} all | fill 1 0 previous - {d_} | fill 1 0 nearest - {d_} | fill 2 0 linear - {d_}"
                         f" | extrap 1 0 1/2,1/4 1 {d_} | copy 1 0 | set 1 {d_} all s=9 | mfill 0 next - {d_}")
        for t_, c in (("lt", "3"), ("ge", "2"), ("eq", "6"), ("ne", "1"), ("isnan", "0")):
            lines.append(f"{h} | copy 1 0 | rw 1 {t_} {c} nan | copy 1 0 | rw 1 {t_} {c} 5 | rw 0 {t_} {c} -1/2")
    # only NaN is missing: +-inf (and -0.0) in first / last rows, alone or next to NaN, through every op that trims
    inf_heads = ["3 | init 0 Q 8080 1 inf:1:2", "3 | init 0 Q 8080 1 1:2:-inf", "3 | init 0 Q 8080 2 -inf,nan:1,2:nan,inf",
                 "3 | init 0 Q 8080 1 inf", "3 | init 0 Q 8080 2 inf,-inf:-inf,inf", "3 | init 0 Q 8080 2 nan,-0:1,nan:inf,nan",
                 "3 | init 0 Q 8080 1 0:1:2 | init 1 Q 8081 1 inf:nan:-inf"]
    for h in inf_heads:
        lines.append(f"{h} | set 0 l=Q8085 all s=inf | get 0 all all | set 0 l=Q8078 v=0 s=-inf | getb 0 sp=Q8077,Q8086,1 all | trim 0"
                     f" | clip 0 Q8078 Q8085 | copy 2 0 | overlay 2 1 | underlay 1 0 | hstack 2 0 1 | call 2 0 all all")
        lines.append(f"{h} | bin 2 add 0 0 | bin 2 sub 0 0 | bin 2 mul 0 0 | sc 2 mul 0 0 | sc 2 mul 0 -1 | rsc 2 sub 0 inf | sc 2 add 0 -inf"
                     f" | un 2 neg 0 | un 2 abs 0 | cmp lt 0 0 | cmp ge 0 1 | cmp ne 0 1 | bin 2 mul 0 1 | bin 2 add 1 0")
        lines.append(f"{h} | copy 2 0 | rw 2 gt 1 nan | copy 2 0 | rw 2 lt 1 inf | copy 2 0 | rw 2 isnan 0 -inf | copy 2 0 | rw 2 eq 1 inf"
                     f" | fill 2 0 next - all | fill 2 0 previous - sp=Q8078,Q8086,1 | fill 2 0 constant inf sp=Q8078,Q8086,1 | shift 0 3 | fshift 2 0 soy")
    for h in inf_heads:
        for fn in STATS:
            lines.append(f"{h} | stat 2 {fn} 0 | hstack 2 0 0 | stat 2 {fn} 2")
        lines.append(f"{h} | mov 2 sum 0 -2 | mov 2 avg 0 -2 | mov 2 prod 0 -2 | mov 2 sum 0 -3 | fill 2 0 linear - sp=Q8078,Q8086,1 | fill 2 0 nearest - all")
    # every public spelling of a read and of a write, for variant 0 and for the others, on a series with three different variants
    h3 = "3 | init 0 Q 8080 3 1,2,3:4,5,6:7,8,9"
    for d_ in ("l=Q8081", "l=Q8082,Q8080", "sp=Q8080,Q8082,2", "sp=Q8081,-,1", "all"):
        for v_ in ("all", "v=0", "v=1", "v=2", "v=-1", "v=-3", "vl=0", "vl=0,2", "vl=2,0", "vsl=0:1", "vsl=:1", "vsl=1:", "vsl=-2:", "vsl=:", "vsl=0:0"):
            for gt_, st_ in (("get", "set"), ("getb", "setb"), ("getk", "setk")):
                lines.append(f"{h3} | {gt_} 0 {d_} {v_} | {st_} 0 {d_} {v_} s=-1/2 | {gt_} 0 {d_} {v_} | get 0 all all"
                             f" | {st_} 0 {d_} {v_} vs=10;20;30 | get 0 all all | call 1 0 {d_} {v_}")
    ctx.count("directed_sequences", len(lines))
    return lines


# ---------------------------------------------------------------------------------------
# entry points
# ---------------------------------------------------------------------------------------

def corpus_lines():
    out = []
    for path in sorted(glob.glob(os.path.join(VERIF, "corpus", "C10", "*.json"))):
        try:
            payload = json.load(open(path))
        except Exception:
            continue
        case = payload.get("case")
        line = case.get("line") if isinstance(case, dict) else case
        if isinstance(line, str):
            out.append((os.path.basename(path), line))
    return out


def shrink(line, site):
    """delta-debug the op list while the same site still fails on the real code"""
    n, ops = split_line(line)
    def fails_with(ops_):
        _, fs = run_line(f"{n} | " + " | ".join(ops_), None)
        return any(s == site for s, _, _ in fs)
    # cut the tail after the failing op
    _, fs = run_line(line, None)
    ks = [k for s, _, k in fs if s == site]
    if ks:
        ops = ops[: ks[0] + 1]
    changed = True
    while changed and len(ops) > 1:
        changed = False
        for idx in range(len(ops) - 1):
            trial = ops[:idx] + ops[idx + 1:]
            if fails_with(trial):
                ops = trial; changed = True
                break
    return f"{n} | " + " | ".join(ops)


def classify(ctx: Ctx, line, reply):
    n, ops = split_line(line)
    states = [st_.split(" ~ ")[0] for st_ in reply.split(" # ")]
    for o in ops[: len(states)]:
        ctx.count("op:" + o.split()[0])
    last = states[-1]
    if last.startswith("err") or last == "bad-op":
        ctx.count("ends_with:" + last)
    ctx.count(f"len:{min(len(ops) // 5 * 5, 30):02d}+")
    # distinct non-trivial: final pool differs from the first state and holds a NaN strictly inside some series
    body = [s for s in states if not s.startswith("err") and s != "bad-op"]
    if len(body) >= 2:
        fin = body[-1].split(";", 1)[-1] if body[-1].startswith("out=") else body[-1]
        interior = False
        for s in body[-1].split(" & "):
            rows = s.split(";")[-1].split(":")
            if len(rows) >= 3 and any("nan" in r.split(",") for r in rows[1:-1]):
                interior = True
        if interior and body[-1] != body[0]:
            ctx.nontriv(hash(line) & 0xFFFFFFFFFF)


def process(ctx: Ctx, stream: str, lines, shrink_fail=True, use_model=True):
    impl = []
    seen_sites = {f["site"] for f in ctx.failures}
    for line in lines:
        before = len(ctx.failures)
        reply, fs = run_line(line, ctx)
        impl.append(reply)
        ctx.evaluations += reply.count(" # ") + 1
        classify(ctx, line, reply)
        # minimise the first failure of every new site, keep the others as counts only
        new = ctx.failures[before:]
        del ctx.failures[before:]
        for fl in new:
            ctx.count("oracle_failures:" + fl["site"])
            if fl["site"] in seen_sites:
                continue
            seen_sites.add(fl["site"])
            if shrink_fail:
                small = shrink(line, fl["site"])
                _, fs2 = run_line(small, None)
                det = next((d for s, d, _ in fs2 if s == fl["site"]), fl["detail"])
                ctx.fail(fl["site"], {"line": small, "found_in": line if small != line else None}, det)
            else:
                ctx.failures.append(fl)
    model = ctx.model("C10", lines) if use_model else None
    if model is not None:
        model = list(model)
        for n_, (l, a, b) in enumerate(zip(lines, impl, model)):
            if a != b and any(is_t_op(o) for o in l.split("|")):
                ctx.count("class_T_lines_compared_with_tolerance")
                if loose_equal(a, b):
                    model[n_] = a
    ctx.compare(stream, [{"line": l} for l in lines], impl, model)
    for l, o in list(zip(lines, impl))[:: max(1, len(lines) // 2)][:2]:
        ctx.sample({"stream": stream, "request": l[:400], "implementation": o[:400]})


def run(ctx: Ctx):
    ctx.rule = ("op sequences over a pool of 3 series (6 frequencies, 1-3 variants, dyadic values with NaN cells and all-NaN rows); "
                "state of the whole pool compared after every op. distinct_nontrivial = sequences whose final pool differs from the "
                "state after the first op and holds a NaN strictly inside a series of >= 3 periods. evaluations = ops executed.")
    corpus = corpus_lines()
    if corpus:
        process(ctx, "corpus", [l for _, l in corpus])
        ctx.count("corpus_sequences", len(corpus))
    process(ctx, "directed", directed_lines(ctx))
    rng = ctx.rng.fork("seq")
    nseq = ctx.n(2500, 80000)
    lines = [gen_sequence(rng.fork(i), 30 if i % 4 else 12) for i in range(nseq)]
    ctx.count("random_sequences", nseq)
    for chunk in range(0, nseq, 10000):
        process(ctx, "random", lines[chunk: chunk + 10000])
    process(ctx, "logextrap", log_extrap_lines(ctx), use_model=False)


def log_extrap_lines(ctx: Ctx):
    """extrapolate(log=True): oracle-only (exp/log are outside the rational model). Histories with non-positive values outside the
    initial-condition window, positive ones inside it; AR orders 1-3; spans after, overlapping and inside the data"""
    lines = []
    heads = [("Q", 8080, "-1:0:2:4:8:3"), ("Q", 8080, "3,-2:5,0:1/8,7:2,4:4,1"), ("M", 24240, "0:nan:-3:1:2:4:8"),
             ("I", 0, "5:3:1/2:1:2"), ("Q", 8080, "-4,1,0:2,3,5:1,1,2:4,2,8")]
    for F_, s0, rows in heads:
        n0 = rows.count(":") + 1; nv = rows.split(":")[0].count(",") + 1
        h = f"3 | init 0 {F_} {s0} {nv} {rows}"
        sp_ = lambda a, b: f"sp={F_}{s0 + a},{F_}{s0 + b},1"
        for cs in ("1/2", "1,-1/2", "1/2,1/4", "0,1", "1/4,1/2,1/4"):
            for c0 in ("0", "1/2"):
                lines.append(f"{h} | lextrap 1 0 {cs} {c0} {sp_(n0, n0 + 2)} | lextrap 2 0 {cs} {c0} {sp_(n0 - 1, n0 + 1)}"
                             f" | lextrap 2 0 {cs} {c0} {sp_(n0 - 2, n0 - 2)} | extrap 2 0 {cs} {c0} {sp_(n0, n0 + 1)} | mlextrap 0 {cs} {c0} {sp_(n0, n0 + 3)}"
                             f" | mlextrap 0 {cs} {c0} {sp_(n0 + 6, n0 + 7)}")
    rng = ctx.rng.fork("logseq")
    ALLOW_LOG[0] = True
    try:
        lines += [gen_sequence(rng.fork(i), 14) for i in range(ctx.n(250, 4000))]
    finally:
        ALLOW_LOG[0] = False
    ctx.count("log_extrapolation_sequences", len(lines))
    return lines


def search(ctx: Ctx, seeds):
    """failing-input search on the real code when a tie broke: oracles alone, disagreement lines first, then a bigger budget"""
    lines = []
    for c in seeds:
        l = c.get("line") if isinstance(c, dict) else c
        if isinstance(l, str):
            lines.append(l)
    ctx.tier = "thorough"
    lines += [l for _, l in corpus_lines()] + directed_lines(ctx) + log_extrap_lines(ctx)
    rng = ctx.rng.fork("search")
    lines += [gen_sequence(rng.fork(i), 30) for i in range(6000)]
    process(ctx, "search", lines)


def replay(ctx: Ctx, payload):
    case = payload.get("case")
    lines = []
    if isinstance(case, dict) and isinstance(case.get("line"), str):
        lines = [case["line"]]
    elif isinstance(case, str):
        lines = [case]
    for d in payload.get("disagreements", []) or []:
        c = d.get("case")
        if isinstance(c, dict) and isinstance(c.get("line"), str):
            lines.append(c["line"])
    if not lines:
        lines = [l for _, l in corpus_lines()]
    process(ctx, "replay", lines, shrink_fail=False)
    for l in lines:
        r, fs = run_line(l, None)
        ctx.log(f"[C10] replay: {l}\n        implementation: {r}\n        oracle failures: {[(s, d) for s, d, _ in fs]}")
