/-
C02 — helper lemmas about the scatter-map definitions of `Model/Expr.lean` (membership characterisations by induction).
The property-level statements built from them are in `Props/C02.lean`.
-/
import Mathlib.Data.List.Sort
import Mathlib.Data.List.Basic
import IrisVerif.Model.Expr

namespace IrisVerif.AD

/-- the Jacobian cell an entry writes -/
def Entry.cell (e : Entry) : Nat × Nat := (e.lhsRow, e.lhsCol)

/-! ### `rawMapAux` / `staticMap` -/

theorem rawMapAux_mem' (cols : List (Option Token)) (row r : Nat) (wrt : List Token) (en : Entry)
    (h : en ∈ rawMapAux cols row r wrt) :
    ∃ k, ∃ hk : k < wrt.length, some wrt[k] ∈ cols ∧ en = ⟨row, cols.idxOf (some wrt[k]), r + k, 0⟩ := by
  induction wrt generalizing r with
  | nil => simp [rawMapAux] at h
  | cons t ts ih =>
    simp only [rawMapAux] at h
    split at h
    · rename_i hc
      rcases List.mem_cons.mp h with h | h
      · exact ⟨0, by simp, by simpa using hc, by simpa using h⟩
      · obtain ⟨k, hk, h1, h2⟩ := ih (r + 1) h
        exact ⟨k + 1, by simpa using hk, by simpa using h1, by rw [h2]; simp; omega⟩
    · obtain ⟨k, hk, h1, h2⟩ := ih (r + 1) h
      exact ⟨k + 1, by simpa using hk, by simpa using h1, by rw [h2]; simp; omega⟩

theorem staticMapAux_mem (cols : List (Option Token)) (row : Nat) (eqs : List (List Token × Nat)) (en : Entry)
    (h : en ∈ staticMapAux cols row eqs) :
    ∃ i, ∃ hi : i < eqs.length, en ∈ rawMapAux cols (row + i) eqs[i].2 eqs[i].1 := by
  induction eqs generalizing row with
  | nil => simp [staticMapAux] at h
  | cons p rest ih =>
    obtain ⟨wrt, off⟩ := p
    simp only [staticMapAux, List.mem_append] at h
    rcases h with h | h
    · exact ⟨0, by simp, by simpa using h⟩
    · obtain ⟨i, hi, h'⟩ := ih (row + 1) h
      refine ⟨i + 1, by simpa using hi, ?_⟩
      have e : row + 1 + i = row + (i + 1) := by omega
      rw [e] at h'
      simpa using h'

theorem staticMapAux_complete (cols : List (Option Token)) (row : Nat) (eqs : List (List Token × Nat)) (i : Nat)
    (hi : i < eqs.length) (en : Entry) (h : en ∈ rawMapAux cols (row + i) eqs[i].2 eqs[i].1) :
    en ∈ staticMapAux cols row eqs := by
  induction eqs generalizing row i with
  | nil => simp at hi
  | cons p rest ih =>
    obtain ⟨wrt, off⟩ := p
    simp only [staticMapAux, List.mem_append]
    cases i with
    | zero => left; simpa using h
    | succ i =>
      right
      have e : row + (i + 1) = row + 1 + i := by omega
      rw [e] at h
      exact ih (row + 1) i (by simpa using hi) (by simpa using h)

/-! ### the transition vector -/

/-- `sort_tokens`' order as a relation -/
def TokenLe (a b : Token) : Prop := tokenLe a b = true

instance : DecidableRel TokenLe := fun a b => inferInstanceAs (Decidable (tokenLe a b = true))

theorem tokenLe_iff (a b : Token) : TokenLe a b ↔ (b.2 < a.2 ∨ (a.2 = b.2 ∧ a.1 ≤ b.1)) := by
  simp [TokenLe, tokenLe]

instance : Std.Total TokenLe := ⟨fun a b => by
  rw [tokenLe_iff, tokenLe_iff]
  omega⟩

instance : IsTrans Token TokenLe := ⟨fun a b c => by
  rw [tokenLe_iff, tokenLe_iff, tokenLe_iff]
  omega⟩

theorem insertToken_eq (t : Token) (l : List Token) : insertToken t l = List.orderedInsert TokenLe t l := by
  induction l with
  | nil => rfl
  | cons x xs ih =>
    rw [List.orderedInsert_cons, ← ih]
    by_cases h : tokenLe t x = true
    · have h' : TokenLe t x := h
      simp [insertToken, h, h']
    · have h' : ¬ TokenLe t x := h
      simp [insertToken, h, h']

theorem sortTokens_eq (l : List Token) : sortTokens l = List.insertionSort TokenLe l := by
  induction l with
  | nil => rfl
  | cons x xs ih =>
    simp only [sortTokens, List.foldr_cons, List.insertionSort_cons] at ih ⊢
    rw [← ih, insertToken_eq]

theorem shiftRange_fst (q : Nat) (lo : Int) (n : Nat) (t : Token) (h : t ∈ shiftRange q lo n) : t.1 = q := by
  induction n with
  | zero => simp [shiftRange] at h
  | succ n ih =>
    simp only [shiftRange, List.mem_append, List.mem_singleton] at h
    rcases h with h | h
    · exact ih h
    · rw [h]

theorem shiftRange_mem' (q : Nat) (lo : Int) (n : Nat) (s : Int) :
    (q, s) ∈ shiftRange q lo n ↔ lo < s ∧ s ≤ lo + n := by
  induction n with
  | zero => simp [shiftRange]
  | succ n ih =>
    simp only [shiftRange, List.mem_append, ih, List.mem_singleton, Prod.mk.injEq, true_and]
    push_cast
    omega

theorem shiftRange_nodup (q : Nat) (lo : Int) (n : Nat) : (shiftRange q lo n).Nodup := by
  induction n with
  | zero => simp [shiftRange]
  | succ n ih =>
    simp only [shiftRange]
    rw [List.nodup_append]
    refine ⟨ih, by simp, ?_⟩
    intro a ha b hb
    simp only [List.mem_singleton] at hb
    subst hb
    intro hab
    subst hab
    have := (shiftRange_mem' q lo n (lo + 1 + n)).mp ha
    omega

/-! ### stacked-time map -/

theorem stackedForToken_mem (spots : List Token) (numEqs eqn rhsRow : Nat) (tok : Token) (k : Nat) (cs : List Int)
    (en : Entry) (h : en ∈ stackedForToken spots numEqs eqn rhsRow tok k cs) :
    ∃ j, ∃ hj : j < cs.length, shifted tok cs[j] ∈ spots ∧
      en = ⟨eqn + numEqs * (k + j), spots.idxOf (shifted tok cs[j]), rhsRow, k + j⟩ := by
  induction cs generalizing k with
  | nil => simp [stackedForToken] at h
  | cons c cs ih =>
    simp only [stackedForToken] at h
    split at h
    · rename_i hc
      rcases List.mem_cons.mp h with h | h
      · exact ⟨0, by simp, by simpa using hc, by simpa using h⟩
      · obtain ⟨j, hj, h1, h2⟩ := ih (k + 1) h
        refine ⟨j + 1, by simpa using hj, by simpa using h1, ?_⟩
        rw [h2]
        have e : k + 1 + j = k + (j + 1) := by omega
        simp [e]
    · obtain ⟨j, hj, h1, h2⟩ := ih (k + 1) h
      refine ⟨j + 1, by simpa using hj, by simpa using h1, ?_⟩
      rw [h2]
      have e : k + 1 + j = k + (j + 1) := by omega
      simp [e]

theorem stackedForToken_complete (spots : List Token) (numEqs eqn rhsRow : Nat) (tok : Token) (k : Nat) (cs : List Int)
    (j : Nat) (hj : j < cs.length) (hc : shifted tok cs[j] ∈ spots) :
    ⟨eqn + numEqs * (k + j), spots.idxOf (shifted tok cs[j]), rhsRow, k + j⟩ ∈
      stackedForToken spots numEqs eqn rhsRow tok k cs := by
  induction cs generalizing k j with
  | nil => simp at hj
  | cons c cs ih =>
    cases j with
    | zero =>
      have hc' : shifted tok c ∈ spots := by simpa using hc
      simp [stackedForToken, hc']
    | succ j =>
      have := ih (k + 1) j (by simpa using hj) (by simpa using hc)
      have e : k + 1 + j = k + (j + 1) := by omega
      rw [e] at this
      simp only [stackedForToken]
      split
      · exact List.mem_cons_of_mem _ (by simpa using this)
      · simpa using this

theorem stackedForEq_mem (spots : List Token) (cols : List Int) (numEqs eqn r : Nat) (ts : List Token) (en : Entry)
    (h : en ∈ stackedForEq spots cols numEqs eqn r ts) :
    ∃ p, ∃ hp : p < ts.length, en ∈ stackedForToken spots numEqs eqn (r + p) ts[p] 0 cols := by
  induction ts generalizing r with
  | nil => simp [stackedForEq] at h
  | cons t ts ih =>
    simp only [stackedForEq, List.mem_append] at h
    rcases h with h | h
    · exact ⟨0, by simp, by simpa using h⟩
    · obtain ⟨p, hp, h'⟩ := ih (r + 1) h
      refine ⟨p + 1, by simpa using hp, ?_⟩
      have e : r + 1 + p = r + (p + 1) := by omega
      rw [e] at h'
      simpa using h'

theorem stackedForEq_complete (spots : List Token) (cols : List Int) (numEqs eqn r : Nat) (ts : List Token) (p : Nat)
    (hp : p < ts.length) (en : Entry) (h : en ∈ stackedForToken spots numEqs eqn (r + p) ts[p] 0 cols) :
    en ∈ stackedForEq spots cols numEqs eqn r ts := by
  induction ts generalizing r p with
  | nil => simp at hp
  | cons t ts ih =>
    simp only [stackedForEq, List.mem_append]
    cases p with
    | zero => left; simpa using h
    | succ p =>
      right
      have e : r + (p + 1) = r + 1 + p := by omega
      rw [e] at h
      exact ih (r + 1) p (by simpa using hp) (by simpa using h)

theorem stackedAux_mem (spots : List Token) (cols : List Int) (numEqs eqn off : Nat) (eqs : List (List Token)) (en : Entry)
    (h : en ∈ stackedAux spots cols numEqs eqn off eqs) :
    ∃ i, ∃ hi : i < eqs.length,
      en ∈ stackedForEq spots cols numEqs (eqn + i) (off + ((eqs.take i).map List.length).sum) eqs[i] := by
  induction eqs generalizing eqn off with
  | nil => simp [stackedAux] at h
  | cons w rest ih =>
    simp only [stackedAux, List.mem_append] at h
    rcases h with h | h
    · exact ⟨0, by simp, by simpa using h⟩
    · obtain ⟨i, hi, h'⟩ := ih (eqn + 1) (off + w.length) h
      refine ⟨i + 1, by simpa using hi, ?_⟩
      have e1 : eqn + 1 + i = eqn + (i + 1) := by omega
      have e2 : off + w.length + ((rest.take i).map List.length).sum
          = off + (((w :: rest).take (i + 1)).map List.length).sum := by
        simp [List.take_succ_cons]; omega
      rw [e1, e2] at h'
      simpa using h'

theorem stackedAux_complete (spots : List Token) (cols : List Int) (numEqs eqn off : Nat) (eqs : List (List Token)) (i : Nat)
    (hi : i < eqs.length) (en : Entry)
    (h : en ∈ stackedForEq spots cols numEqs (eqn + i) (off + ((eqs.take i).map List.length).sum) eqs[i]) :
    en ∈ stackedAux spots cols numEqs eqn off eqs := by
  induction eqs generalizing eqn off i with
  | nil => simp at hi
  | cons w rest ih =>
    simp only [stackedAux, List.mem_append]
    cases i with
    | zero => left; simpa using h
    | succ i =>
      right
      have e1 : eqn + (i + 1) = eqn + 1 + i := by omega
      have e2 : off + (((w :: rest).take (i + 1)).map List.length).sum
          = off + w.length + ((rest.take i).map List.length).sum := by
        simp [List.take_succ_cons]; omega
      rw [e1, e2] at h
      exact ih (eqn + 1) (off + w.length) i (by simpa using hi) (by simpa using h)

/-! ### dynamic identities -/

theorem dynidAux_mem (tv : List Token) (row i : Nat) (ts : List Token) (e : Nat × Nat × Nat)
    (h : e ∈ dynidAux tv row i ts) :
    ∃ k, ∃ hk : k < ts.length, shifted ts[k] 1 ∈ tv ∧ e.2.1 = i + k ∧ e.2.2 = tv.idxOf (shifted ts[k] 1) := by
  induction ts generalizing row i with
  | nil => simp [dynidAux] at h
  | cons t ts ih =>
    simp only [dynidAux] at h
    split at h
    · rename_i hc
      rcases List.mem_cons.mp h with h | h
      · subst h
        exact ⟨0, by simp, by simpa using hc, by simp, by simp⟩
      · obtain ⟨k, hk, h1, h2, h3⟩ := ih (row + 1) (i + 1) h
        exact ⟨k + 1, by simpa using hk, by simpa using h1, by omega, by simpa using h3⟩
    · obtain ⟨k, hk, h1, h2, h3⟩ := ih row (i + 1) h
      exact ⟨k + 1, by simpa using hk, by simpa using h1, by omega, by simpa using h3⟩

theorem dynidAux_complete (tv : List Token) (row i : Nat) (ts : List Token) (k : Nat) (hk : k < ts.length)
    (hc : shifted ts[k] 1 ∈ tv) :
    ∃ r, (r, i + k, tv.idxOf (shifted ts[k] 1)) ∈ dynidAux tv row i ts := by
  induction ts generalizing row i k with
  | nil => simp at hk
  | cons t ts ih =>
    cases k with
    | zero =>
      have hc' : shifted t 1 ∈ tv := by simpa using hc
      exact ⟨row, by simp [dynidAux, hc']⟩
    | succ k =>
      simp only [dynidAux]
      split
      · obtain ⟨r, hr⟩ := ih (row + 1) (i + 1) k (by simpa using hk) (by simpa using hc)
        have e : i + 1 + k = i + (k + 1) := by omega
        rw [e] at hr
        exact ⟨r, List.mem_cons_of_mem _ (by simpa using hr)⟩
      · obtain ⟨r, hr⟩ := ih row (i + 1) k (by simpa using hk) (by simpa using hc)
        have e : i + 1 + k = i + (k + 1) := by omega
        rw [e] at hr
        exact ⟨r, by simpa using hr⟩

/-- the rows of the dynamic identities are numbered consecutively from `row` -/
theorem dynidAux_rows (tv : List Token) (row i : Nat) (ts : List Token) :
    (dynidAux tv row i ts).map (·.1) = List.range' row (dynidAux tv row i ts).length := by
  induction ts generalizing row i with
  | nil => simp [dynidAux]
  | cons t ts ih =>
    simp only [dynidAux]
    split
    · simp [ih (row + 1) (i + 1), List.range'_succ]
    · exact ih row (i + 1)

/-! ### terminal spots -/

theorem termForCol_mem (keep : Nat → Int → Bool) (c : Int) (inx : Nat) (qs : List Nat) (e : Nat × Token)
    (h : e ∈ termForCol keep c inx qs) :
    ∃ p, ∃ hp : p < qs.length, keep qs[p] c = true ∧ e = (inx + p, (qs[p], c)) := by
  induction qs generalizing inx with
  | nil => simp [termForCol] at h
  | cons q qs ih =>
    simp only [termForCol] at h
    split at h
    · rename_i hk
      rcases List.mem_cons.mp h with h | h
      · exact ⟨0, by simp, by simpa using hk, by simpa using h⟩
      · obtain ⟨p, hp, h1, h2⟩ := ih (inx + 1) h
        exact ⟨p + 1, by simpa using hp, by simpa using h1, by rw [h2]; simp; omega⟩
    · obtain ⟨p, hp, h1, h2⟩ := ih (inx + 1) h
      exact ⟨p + 1, by simpa using hp, by simpa using h1, by rw [h2]; simp; omega⟩

theorem termSpotsAux_mem (qids : List Nat) (keep : Nat → Int → Bool) (inx : Nat) (cs : List Int) (e : Nat × Token)
    (h : e ∈ termSpotsAux qids keep inx cs) :
    ∃ k, ∃ hk : k < cs.length, ∃ p, ∃ hp : p < qids.length, keep qids[p] cs[k] = true ∧
      e = (inx + k * qids.length + p, (qids[p], cs[k])) := by
  induction cs generalizing inx with
  | nil => simp [termSpotsAux] at h
  | cons c cs ih =>
    simp only [termSpotsAux, List.mem_append] at h
    rcases h with h | h
    · obtain ⟨p, hp, h1, h2⟩ := termForCol_mem keep c inx qids e h
      exact ⟨0, by simp, p, hp, by simpa using h1, by simpa using h2⟩
    · obtain ⟨k, hk, p, hp, h1, h2⟩ := ih (inx + qids.length) h
      refine ⟨k + 1, by simpa using hk, p, hp, by simpa using h1, ?_⟩
      rw [h2]
      simp only [List.getElem_cons_succ, Prod.mk.injEq, and_true]
      rw [Nat.succ_mul]
      omega

/-- rows of uniformly sized blocks stacked on top of each other: row `k * n + p` of the stack is row `p` of block `k` -/
theorem flatten_getElem_uniform {ρ : Type} (blocks : List (List ρ)) (n : Nat) (hn : ∀ b ∈ blocks, b.length = n)
    (k p : Nat) (hk : k < blocks.length) (hp : p < n) :
    blocks.flatten[k * n + p]? = blocks[k][p]? := by
  induction blocks generalizing k with
  | nil => simp at hk
  | cons b bs ih =>
    have hb : b.length = n := hn b (by simp)
    cases k with
    | zero =>
      simp only [List.flatten_cons, Nat.zero_mul, Nat.zero_add, List.getElem_cons_zero]
      rw [List.getElem?_append_left (by omega)]
    | succ k =>
      simp only [List.flatten_cons, List.getElem_cons_succ]
      rw [List.getElem?_append_right (by rw [hb, Nat.succ_mul]; omega)]
      have e : (k + 1) * n + p - b.length = k * n + p := by rw [hb, Nat.succ_mul]; omega
      rw [e]
      exact ih (fun b' hb' => hn b' (List.mem_cons_of_mem _ hb')) k (by simpa using hk)

theorem terminalJacMapAux_mem (wrtSpots : List Token) (r : Nat) (ts : List Token) (e : Nat × Nat)
    (h : e ∈ terminalJacMapAux wrtSpots r ts) :
    ∃ k, ∃ hk : k < ts.length, e.2 = r + k ∧ wrtSpots[e.1]? = some ts[k] := by
  induction ts generalizing r with
  | nil => simp [terminalJacMapAux] at h
  | cons t ts ih =>
    simp only [terminalJacMapAux] at h
    split at h
    · rename_i hc
      rcases List.mem_cons.mp h with h | h
      · subst h
        have hm : t ∈ wrtSpots := by simpa using hc
        exact ⟨0, by simp, by simp, by simp [List.getElem?_idxOf hm]⟩
      · obtain ⟨k, hk, h1, h2⟩ := ih (r + 1) h
        exact ⟨k + 1, by simpa using hk, by omega, by simpa using h2⟩
    · obtain ⟨k, hk, h1, h2⟩ := ih (r + 1) h
      exact ⟨k + 1, by simpa using hk, by omega, by simpa using h2⟩

end IrisVerif.AD
