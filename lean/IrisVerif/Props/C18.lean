/-
Property C18 -- reduced-form VAR estimates are the least-squares solution and reproduce the data.

Part 1 (Mathlib matrices over any linearly ordered field / commutative ring, all sizes): normal equations ⇒
minimiser, uniqueness, noise-free recovery, fit + residual = data, residual covariance, companion form, mean.
Part 2 (about the executable model `Model/RedVar.lean` that the driver runs against irispie): exactly the
complete columns are fitted, the model's estimate satisfies the normal equations exactly, the residual is
data minus fit wherever it is a number, and simulating with residuals defined by the data returns the data for
every horizon (induction over the simulated periods).
-/
import IrisVerif.Lemmas.LeastSquares
import IrisVerif.Lemmas.RedVar
import Mathlib.LinearAlgebra.Matrix.NonsingularInverse
import Mathlib.Data.Matrix.ColumnRowPartitioned
import Mathlib.LinearAlgebra.Matrix.RowCol
import Mathlib.LinearAlgebra.Matrix.Notation
import Mathlib.Tactic.FinCases
import Mathlib.Tactic.NormNum

open Matrix

namespace IrisVerif.C18
set_option linter.unusedSectionVars false
open IrisVerif.LeastSquares

/-! ## Part 1: least squares, schematic in the matrices -/

section OLS
variable {v k T : Type} [Fintype v] [Fintype k] [Fintype T] [DecidableEq k]
variable {K : Type} [Field K] [LinearOrder K] [IsStrictOrderedRing K]

omit [LinearOrder K] [IsStrictOrderedRing K] [DecidableEq k] in
/-- normal equations ⇔ residuals orthogonal to every regressor row -/
theorem normalEq_iff_orthogonal (Y : Matrix v T K) (X : Matrix k T K) (β : Matrix v k K) :
    NormalEq Y X β ↔ X * (Y - β * X)ᵀ = 0 := by
  unfold NormalEq
  rw [Matrix.transpose_sub, Matrix.transpose_mul, Matrix.mul_sub, sub_eq_zero, Matrix.mul_assoc]
  exact eq_comm

/-- **Least squares**: coefficients satisfying the normal equations minimise the sum of squared
residuals over exactly the columns that entered `X` and `Y`, equation by equation and in total. -/
theorem normalEq_minimises_row (Y : Matrix v T K) (X : Matrix k T K) (β : Matrix v k K)
    (h : NormalEq Y X β) (β' : Matrix v k K) (i : v) :
    ∑ t, (Y - β * X) i t * (Y - β * X) i t ≤ ∑ t, (Y - β' * X) i t * (Y - β' * X) i t := by
  have := LeastSquares.ls_min Xᵀ (Y i) (β i) (orth_row Y X β h i) (β' i)
  rw [← row_resid, ← row_resid] at this
  exact this

theorem normalEq_minimises (Y : Matrix v T K) (X : Matrix k T K) (β : Matrix v k K)
    (h : NormalEq Y X β) (β' : Matrix v k K) : ssr Y X β ≤ ssr Y X β' :=
  Finset.sum_le_sum (fun i _ => normalEq_minimises_row Y X β h β' i)

omit [LinearOrder K] [IsStrictOrderedRing K] in
/-- uniqueness: with `X Xᵀ` non-singular the normal equations have at most one solution -/
theorem normalEq_unique (Y : Matrix v T K) (X : Matrix k T K) (β β' : Matrix v k K)
    (hdet : IsUnit (X * Xᵀ).det) (h : NormalEq Y X β) (h' : NormalEq Y X β') : β = β' := by
  unfold NormalEq at h h'
  have : (X * Xᵀ) * βᵀ = (X * Xᵀ) * β'ᵀ := by rw [h, h']
  have := congrArg (fun M => (X * Xᵀ)⁻¹ * M) this
  simp only [← Matrix.mul_assoc, Matrix.nonsing_inv_mul _ hdet, Matrix.one_mul] at this
  exact Matrix.transpose_injective this

omit [LinearOrder K] [IsStrictOrderedRing K] in
/-- existence and the closed form: with `X Xᵀ` non-singular, `β = ((X Xᵀ)⁻¹ X Yᵀ)ᵀ` solves the normal equations -/
theorem normalEq_solution (Y : Matrix v T K) (X : Matrix k T K) (hdet : IsUnit (X * Xᵀ).det) :
    NormalEq Y X ((X * Xᵀ)⁻¹ * (X * Yᵀ))ᵀ := by
  unfold NormalEq
  rw [Matrix.transpose_transpose, ← Matrix.mul_assoc, Matrix.mul_nonsing_inv _ hdet, Matrix.one_mul]

omit [LinearOrder K] [IsStrictOrderedRing K] in
/-- **noise-free data return the generating coefficients** -/
theorem noise_free_recovery (X : Matrix k T K) (β₀ β : Matrix v k K)
    (hdet : IsUnit (X * Xᵀ).det) (h : NormalEq (β₀ * X) X β) : β = β₀ := by
  refine normalEq_unique (β₀ * X) X β β₀ hdet h ?_
  unfold NormalEq
  rw [Matrix.transpose_mul, Matrix.mul_assoc]

/-- the minimiser is unique when `X Xᵀ` is non-singular: any other coefficient matrix with the same
sum of squares, equation by equation, is the same matrix -/
theorem minimiser_unique (Y : Matrix v T K) (X : Matrix k T K) (β β' : Matrix v k K)
    (hdet : IsUnit (X * Xᵀ).det) (h : NormalEq Y X β)
    (heq : ∀ i, ∑ t, (Y - β' * X) i t * (Y - β' * X) i t = ∑ t, (Y - β * X) i t * (Y - β * X) i t) :
    β' = β := by
  have hfit : ∀ i, Xᵀ *ᵥ β' i = Xᵀ *ᵥ β i := by
    intro i
    refine LeastSquares.ls_min_eq_fit Xᵀ (Y i) (β i) (orth_row Y X β h i) (β' i) ?_
    have := heq i
    rw [← row_resid, ← row_resid]
    exact this
  -- X Xᵀ β'ᵢ = X Xᵀ βᵢ, then cancel
  ext i j
  have hi := congrArg (fun w => ((X * Xᵀ)⁻¹ * X) *ᵥ w) (hfit i)
  simp only [Matrix.mulVec_mulVec, Matrix.mul_assoc] at hi
  rw [Matrix.nonsing_inv_mul _ hdet, Matrix.one_mulVec, Matrix.one_mulVec] at hi
  exact congrFun hi j

end OLS

section Split
variable {v l x T : Type} [Fintype l] [Fintype x]
variable {K : Type} [CommRing K]

/-- **fit + residual reproduces the data**, with the coefficient matrix split as the code splits it:
`β = [A B c]`, regressors `[y1; x; 1]`, residual `u = y0 - A y1 - B x - c`. -/
theorem fit_plus_residual (A : Matrix v l K) (B : Matrix v x K) (c : v → K)
    (Y0 : Matrix v T K) (Y1 : Matrix l T K) (Xe : Matrix x T K) (i : v) (t : T) :
    let β := fromCols (fromCols A B) (replicateCol Unit c)
    let R := fromRows (fromRows Y1 Xe) (replicateRow Unit (fun _ => (1 : K)))
    let u : Matrix v T K := Y0 - A * Y1 - B * Xe - Matrix.of (fun i _ => c i)
    (β * R) i t + u i t = Y0 i t ∧ (β * R) i t = (A * Y1) i t + (B * Xe) i t + c i := by
  intro β R u
  have h : (β * R) i t = (A * Y1) i t + (B * Xe) i t + c i := by
    simp only [β, R, fromCols_mul_fromRows, Matrix.add_apply]
    simp [Matrix.mul_apply]
  refine ⟨?_, h⟩
  rw [h]
  simp only [u, Matrix.sub_apply, Matrix.of_apply]
  ring

end Split

section Cov
variable {v T : Type} [Fintype T]
variable {K : Type} [Field K] [LinearOrder K] [IsStrictOrderedRing K]

/-- `cov_residuals = u uᵀ / (T_fitted - K·dof)`: times its denominator it is the second-moment matrix of the
fitted residuals; it is symmetric (so `symmetrize` leaves it unchanged) and, for a positive denominator, has a
non-negative diagonal. -/
theorem cov_residuals_spec (u : Matrix v T K) (d : K) (hd : d ≠ 0) :
    let cov := (1 / d) • (u * uᵀ)
    d • cov = u * uᵀ ∧ covᵀ = cov ∧ ((1 / (2:K)) • (cov + covᵀ) = cov) ∧ (0 < d → ∀ i, 0 ≤ cov i i) := by
  intro cov
  have hsym : covᵀ = cov := by
    simp only [cov, Matrix.transpose_smul, Matrix.transpose_mul, Matrix.transpose_transpose]
  refine ⟨?_, hsym, ?_, ?_⟩
  · simp only [cov, smul_smul]
    rw [mul_one_div_cancel hd, one_smul]
  · rw [hsym, ← two_smul K cov, smul_smul]
    norm_num
  · intro hpos i
    simp only [cov, Matrix.smul_apply, Matrix.mul_apply, Matrix.transpose_apply, smul_eq_mul]
    exact mul_nonneg (le_of_lt (one_div_pos.2 hpos)) (Finset.sum_nonneg (fun t _ => mul_self_nonneg (u i t)))

end Cov

section Companion
variable {n : Type} [Fintype n] [DecidableEq n]
variable {K : Type} [CommRing K]

/-- companion matrix of a VAR of order `p+1`: first block row `[A_0 … A_p]`, below it the shift `[I 0]` -/
def companion (p : Nat) (A : Fin (p+1) → Matrix n n K) : Matrix (Fin (p+1) × n) (Fin (p+1) × n) K :=
  fun a b => Fin.cases (A b.1 a.2 b.2) (fun l0 => if b.1 = Fin.castSucc l0 ∧ a.2 = b.2 then 1 else 0) a.1

/-- **The companion recursion is the VAR recursion.** If the state holds the last `p+1` observations
(`ξ (l, i) = y_{t-1-l} i`), then one step `T ξ + K + P u` has `Σ_l A_l y_{t-1-l} + c + u` in its first block and
the previous first `p` blocks shifted down below it. -/
theorem companion_step (p : Nat) (A : Fin (p+1) → Matrix n n K) (c u : n → K) (ylag : Fin (p+1) → n → K) :
    let ξ : Fin (p+1) × n → K := fun a => ylag a.1 a.2
    let Kc : Fin (p+1) × n → K := fun a => Fin.cases (c a.2) (fun _ => 0) a.1
    let Pu : Fin (p+1) × n → K := fun a => Fin.cases (u a.2) (fun _ => 0) a.1
    let ξ' := companion p A *ᵥ ξ + Kc + Pu
    (∀ i, ξ' (0, i) = (∑ l, A l *ᵥ ylag l) i + c i + u i) ∧
    (∀ (l0 : Fin p) i, ξ' (Fin.succ l0, i) = ylag (Fin.castSucc l0) i) := by
  intro ξ Kc Pu ξ'
  constructor
  · intro i
    simp only [ξ', ξ, Kc, Pu, Pi.add_apply, Matrix.mulVec, dotProduct, companion, Fin.cases_zero,
      Fintype.sum_prod_type, Finset.sum_apply]
  · intro l0 i
    simp only [ξ', ξ, Kc, Pu, Pi.add_apply, Matrix.mulVec, dotProduct, companion, Fin.cases_succ,
      Fintype.sum_prod_type, add_zero]
    simp [ite_and, Finset.sum_ite_eq, Finset.sum_ite_eq']

/-- **The reported mean is the companion-form mean**: a solution of `(I - Σ A_l) μ = c` is a fixed point of the
VAR recursion without shocks, i.e. the state `[μ; …; μ]` is reproduced by the companion step. -/
theorem mean_fixed_point (p : Nat) (A : Fin (p+1) → Matrix n n K) (c μ : n → K)
    (h : (1 - ∑ l, A l) *ᵥ μ = c) : (∑ l, A l *ᵥ μ) + c = μ := by
  rw [← h, Matrix.sub_mulVec, Matrix.one_mulVec, Matrix.sum_mulVec]
  abel

theorem mean_unique (p : Nat) (A : Fin (p+1) → Matrix n n K) (c μ μ' : n → K)
    (hdet : IsUnit (1 - ∑ l, A l).det)
    (h : (1 - ∑ l, A l) *ᵥ μ = c) (h' : (1 - ∑ l, A l) *ᵥ μ' = c) : μ = μ' := by
  have := congrArg (fun w => (1 - ∑ l, A l)⁻¹ *ᵥ w) (h.trans h'.symm)
  simpa only [Matrix.mulVec_mulVec, Matrix.nonsing_inv_mul _ hdet, Matrix.one_mulVec] using this

end Companion

/-! ## Part 2: about the executable model (`Model/RedVar.lean`) -/

section Model
open IrisVerif IrisVerif.RedVar

/-- **exactly the complete columns are fitted** -/
theorem fitted_iff (s : Spec) (Y X : OMat) (t : Nat) :
    t ∈ fitted s Y X ↔ t < numBase s Y ∧ whereObs s Y X t = true := by
  unfold fitted
  simp [List.mem_filter, List.mem_range]

/-- a fitted period has every left-hand and right-hand cell finite -/
theorem fitted_complete (s : Spec) (Y X : OMat) (t : Nat) (h : t ∈ fitted s Y X) :
    (∀ i, i < s.n → (y0 s Y i t).isSome = true) ∧ (∀ r, r < s.numRhs → (reg s Y X r t).isSome = true) := by
  have hw := ((fitted_iff s Y X t).1 h).2
  unfold whereObs regsFinite at hw
  simp only [Bool.and_eq_true, List.all_eq_true, List.mem_range] at hw
  exact ⟨hw.1, hw.2⟩

/-- **the model's estimate satisfies the normal equations exactly** (the checked solve) on the matrices that
hold exactly the fitted columns followed by the dummy observations -/
theorem estimate_normal_equations (s : Spec) (dof : Bool) (Y X : OMat) (pr : Option (List Prior)) (e : Estimate)
    (h : estimate s dof Y X pr = .ok e) :
    ∃ x : QMat, e.beta = x.transpose ∧
      QMat.eqv (normalMx e.rhsEst * x) (normalMy e.lhsEst e.rhsEst) = true ∧
      e.fittedCols = fitted s Y X := by
  unfold estimate at h
  simp only at h
  split at h
  · cases h
  · split at h
    · cases h
    split at h
    · cases h
    · rename_i beta hols
      generalize ((fitted s Y X).length : Int) - (if dof = true then (dofCount s : Int) else 0) = denom at h
      split at h
      · cases h
      · injection h with h
        subst h
        simp only
        unfold ols at hols
        cases hs : QMat.solveChecked (normalMx (rhsFull s Y X (fitted s Y X) pr))
            (normalMy (lhsFull s Y (fitted s Y X) pr) (rhsFull s Y X (fitted s Y X) pr)) with
        | none => simp [hs] at hols
        | some x =>
          simp only [hs, Option.map_some, Option.some.injEq] at hols
          refine ⟨x, hols.symm, ?_, trivial⟩
          unfold QMat.solveChecked at hs
          split at hs
          · split at hs
            · rename_i x' _ hchk
              injection hs with hs
              subst hs
              exact hchk
            · cases hs
          · cases hs

/-- the residual is NaN exactly where the left-hand cell or a regressor of the period is NaN … -/
theorem residual_isSome_iff (s : Spec) (beta : QMat) (Y X : OMat) (i t : Nat) :
    (residual s beta Y X i t).isSome = true ↔ (y0 s Y i t).isSome = true ∧ regsFinite s Y X t = true := by
  unfold residual
  cases h : y0 s Y i t with
  | none => simp
  | some y => by_cases hr : regsFinite s Y X t = true <;> simp [hr]

/-- … and wherever it is a number, **fit + residual is the data** (on all periods, fitted or not) -/
theorem residual_identity (s : Spec) (beta : QMat) (Y X : OMat) (i t : Nat) (y r : Rat)
    (hy : y0 s Y i t = some y) (hr : residual s beta Y X i t = some r) :
    fitAt s beta Y X i t + r = y := by
  unfold residual at hr
  rw [hy] at hr
  simp only at hr
  split at hr
  · injection hr with hr
    rw [← hr]; ring
  · cases hr


/-- **deviation mode** (`create_deviation_solution`): the companion constant without an intercept is zero in every entry, and
with an intercept it is `c` on the first block only — the two forms differ exactly by the intercept, so a request for one must
never be answered with the other -/
theorem companionK_spec (s : Spec) (c : QVec) (i : Nat) :
    (companionK s none).getD i 0 = 0 ∧
    (i < s.numLagged → (companionK s (some c)).getD i 0 = if i < s.n then c.getD i 0 else 0) := by
  unfold companionK
  simp only [Array.getD_eq_getD_getElem?, Array.getElem?_map, Array.getElem?_range]
  constructor
  · by_cases h : i < s.numLagged <;> simp [h]
  · intro h
    simp [h]

/-! ### simulation -/

/-- **Simulating with residuals defined by the data returns the data** — for every horizon `len`, every order,
every number of variables. `P0` is any initial path that agrees with the data `D` on the columns before the
first simulated one (the initial condition); `hres` says that the residuals `E` are the data minus the fitted
value computed from the data. Then after simulating the `len` consecutive columns `t0 … t0+len-1` the path agrees
with the data on every column up to there (the later columns are untouched). -/
theorem simulate_reproduces (s : Spec) (A B : QMat) (c : QVec) (X E D P0 : QMat) (t0 len : Nat)
    (ht0 : 1 ≤ t0) (hn : s.n = D.rows) (hrows : P0.rows = D.rows) (hcols : P0.cols = D.cols)
    (hlen : t0 + len ≤ D.cols)
    (hinit : ∀ i j, i < D.rows → j < t0 → P0.get i j = D.get i j)
    (hres : ∀ t, t0 ≤ t → t < t0 + len → ∀ i, i < D.rows → simValue s A B c X E D i t = D.get i t) :
    ∀ i j, i < D.rows → j < t0 + len →
      (simulate s A B c X E P0 ((List.range len).map (· + t0))).get i j = D.get i j := by
  induction len with
  | zero => intro i j hi hj; simpa [simulate] using hinit i j hi (by omega)
  | succ len ih =>
    have ih' := ih (by omega) (fun t h1 h2 => hres t h1 (by omega))
    intro i j hi hj
    have hd := simulate_dims s A B c X E P0 ((List.range len).map (· + t0))
    unfold simulate at ih' hd ⊢
    rw [List.range_succ, List.map_append, List.foldl_append]
    simp only [List.map_cons, List.map_nil, List.foldl_cons, List.foldl_nil]
    rw [simStep_get _ _ _ _ _ _ _ _ _ _ (by omega) (by omega)]
    split
    · rename_i hj'
      rw [hj', Nat.add_comm len t0]
      rw [simValue_congr s A B c X E _ D i (t0 + len) (by omega) hn ih']
      exact hres (t0 + len) (by omega) (by omega) i hi
    · exact ih' i j hi (by omega)


/-- non-vacuity of `simulate_reproduces`: for every coefficient set and every data matrix there are residuals
satisfying its hypothesis `hres` (namely data minus fit) -/
theorem residuals_exist (s : Spec) (A B : QMat) (c : QVec) (X D : QMat) :
    ∃ E : QMat, ∀ t, t < D.cols → ∀ i, i < D.rows → simValue s A B c X E D i t = D.get i t := by
  refine ⟨QMat.ofFn D.rows D.cols
    (fun i t => D.get i t - simValue s A B c X (QMat.zero D.rows D.cols) D i t), ?_⟩
  intro t ht i hi
  unfold simValue
  rw [get_ofFn]
  simp only [hi, ht, and_self, if_true, QMat.zero, get_ofFn]
  ring

end Model
end IrisVerif.C18

/-! ## Part 3: the public wrappers as functions — what `estimate(target_db=…)` returns, request histories on one variant -/

namespace IrisVerif.C18
open IrisVerif IrisVerif.RedVar

/-- **`left | right`: the right operand wins, everything else is carried over** -/
theorem dbUnion_lookup {α : Type} (left right : DB α) (k : String) :
    dbLookup (dbUnion left right) k = match dbLookup right k with
      | some v => some v
      | none => dbLookup left k := by
  unfold dbUnion
  rw [dbLookup_append, dbHas_map left (fun p => (dbLookup right p.1).getD p.2),
    dbLookup_map left (fun n v => (dbLookup right n).getD v)]
  by_cases hl : dbHas left k = true
  · rw [if_pos hl]
    have := dbHas_iff_lookup left k
    rw [hl] at this
    cases hlk : dbLookup left k with
    | none => rw [hlk] at this; simp at this
    | some v => cases dbLookup right k <;> simp
  · rw [if_neg hl]
    have hl' : dbHas left k = false := by simpa using hl
    rw [dbLookup_filter_not right (dbHas left) k hl']
    have := dbHas_iff_lookup left k
    rw [hl'] at this
    cases hlk : dbLookup left k with
    | some v => rw [hlk] at this; simp at this
    | none => cases dbLookup right k <;> simp

/-- **What `estimate` returns.** Every name the estimation produces (the data it was given and the residual series) has
its *fresh* value in the returned databox, whatever the target held under that name; every other name of the target is
carried over unchanged; without a target the output itself is returned. (The functions are pure: the target is an
argument, not a mutable cell, so it cannot be changed by the call.) -/
theorem estimateReturn_spec {α : Type} (target : Option (DB α)) (output : DB α) (k : String) :
    (∀ v, dbLookup output k = some v → dbLookup (estimateReturn target output) k = some v) ∧
    (dbLookup output k = none → dbLookup (estimateReturn target output) k = (target.bind (fun t => dbLookup t k))) := by
  cases target with
  | none =>
    unfold estimateReturn
    exact ⟨fun v h => h, fun h => by simp [h]⟩
  | some t =>
    unfold estimateReturn
    simp only [dbUnion_lookup]
    exact ⟨fun v h => by rw [h], fun h => by rw [h]; rfl⟩

/-- the memo's invariant: empty, or exactly the companion matrix of the coefficients in force -/
def MemoInv (s : Spec) (A : QMat) (st : VMemo) : Prop := st.companionT = none ∨ st.companionT = some (companionT s A)

/-- **Refinement to the stateless specification, for every request history.** Whatever sequence of ordinary and
deviation-mode requests is made on one variant, request number `k` is answered with the companion matrix of the
coefficients and the constant *of the mode it asked for* (`[c; 0]`, or zeros in deviation mode) — no answer depends on
the requests made before it; and the memo invariant is preserved. -/
theorem runRequests_spec (s : Spec) (A : QMat) (c : Option QVec) (reqs : List Bool) (st : VMemo) (h : MemoInv s A st) :
    (runRequests s A c st reqs).2 = reqs.map (fun d => (companionT s A, companionK s (if d then none else c))) ∧
    MemoInv s A (runRequests s A c st reqs).1 := by
  induction reqs generalizing st with
  | nil => exact ⟨rfl, h⟩
  | cons d ds ih =>
    have hT : (match st.companionT with | some T => T | none => companionT s A) = companionT s A := by
      rcases h with h | h <;> rw [h]
    have hreq : requestCompanion s A c st d
        = (⟨some (companionT s A)⟩, (companionT s A, companionK s (if d then none else c))) := by
      unfold requestCompanion
      rcases h with h | h <;> simp only [h]
    have hst : MemoInv s A (requestCompanion s A c st d).1 := by
      rw [hreq]; exact Or.inr rfl
    have := ih (requestCompanion s A c st d).1 hst
    unfold runRequests
    simp only [List.map_cons]
    refine ⟨?_, this.2⟩
    rw [this.1, hreq]

-- non-vacuity: the empty memo satisfies the invariant, and a target holding stale residuals is overridden
example (s : Spec) (A : QMat) : MemoInv s A {} := Or.inl rfl
example : dbLookup (estimateReturn (some [("res_y", 7), ("extra", 1)]) [("y", 2), ("res_y", 3)]) "res_y" = some 3
    ∧ dbLookup (estimateReturn (some [("res_y", 7), ("extra", 1)]) [("y", 2), ("res_y", 3)]) "extra" = some 1 := by
  decide


end IrisVerif.C18

/-! ## Part 4: change of units (data-scale equivariance) -/

namespace IrisVerif.C18
open IrisVerif.LeastSquares

section Units
variable {v k T : Type} [Fintype v] [Fintype k] [Fintype T] [DecidableEq k]
variable {K : Type} [Field K]

/-- **Change of units.** If `β` solves the normal equations for `(Y, X)`, the left-hand data are multiplied by `s` and the
regressor rows are transformed by any matrix `D` (for a VAR: `s` on the lag and exogenous rows, 1 on the intercept row),
then any `β'` with `β' D = s β` solves the normal equations of the transformed problem: the lag matrices are unchanged
and the intercept is multiplied by `s`, exactly — a small intercept is never a zero intercept. -/
theorem normalEq_rescale (Y : Matrix v T K) (X : Matrix k T K) (β β' : Matrix v k K) (D : Matrix k k K) (s : K)
    (h : NormalEq Y X β) (hβ : β' * D = s • β) : NormalEq (s • Y) (D * X) β' := by
  unfold NormalEq at h ⊢
  have hD : Dᵀ * β'ᵀ = s • βᵀ := by rw [← Matrix.transpose_mul, hβ, Matrix.transpose_smul]
  calc D * X * (D * X)ᵀ * β'ᵀ = D * X * Xᵀ * (Dᵀ * β'ᵀ) := by
        simp only [Matrix.transpose_mul, Matrix.mul_assoc]
    _ = s • (D * (X * Xᵀ * βᵀ)) := by rw [hD]; simp only [Matrix.mul_smul, Matrix.mul_assoc]
    _ = D * X * (s • Y)ᵀ := by rw [h]; simp only [Matrix.transpose_smul, Matrix.mul_smul, Matrix.mul_assoc]

/-- the companion-form mean scales with the intercept: `(I − ΣA) μ = c ⇒ (I − ΣA)(s μ) = s c`; in particular the mean of a
VAR with a non-zero intercept, however small, is `s` times a non-zero vector whenever `μ ≠ 0` -/
theorem mean_scale {n : Type} [Fintype n] [DecidableEq n] (M : Matrix n n K) (c μ : n → K) (s : K)
    (h : M *ᵥ μ = c) : M *ᵥ (s • μ) = s • c := by
  rw [Matrix.mulVec_smul, h]

end Units

-- non-vacuity: the regression y = 1 + t of the examples above in units 1/8: β = (1, 1) becomes (1/8, 1) with D = diag(1/8 … )
example : ∃ (β' : Matrix (Fin 1) (Fin 2) ℚ) (D : Matrix (Fin 2) (Fin 2) ℚ),
    β' * D = (1/8 : ℚ) • (!![1, 1] : Matrix (Fin 1) (Fin 2) ℚ) :=
  ⟨!![1/8, 1], !![1, 0; 0, 1/8], by
    ext i j; fin_cases i; fin_cases j <;> simp [Matrix.mul_apply, Matrix.vecMul, dotProduct, Fin.sum_univ_succ]⟩


end IrisVerif.C18

/-! ## non-vacuity -/

namespace IrisVerif.C18
open IrisVerif.LeastSquares

-- the normal equations are met by a concrete non-trivial regression: y = (1, 2, 3) on an intercept and the trend (0, 1, 2)
-- has the exact fit β = (1, 1)
example : NormalEq (K := ℚ) (!![1, 2, 3] : Matrix (Fin 1) (Fin 3) ℚ) (!![1, 1, 1; 0, 1, 2] : Matrix (Fin 2) (Fin 3) ℚ)
    (!![1, 1] : Matrix (Fin 1) (Fin 2) ℚ) := by
  unfold NormalEq
  ext i j
  fin_cases i <;> fin_cases j <;>
    simp [Matrix.mul_apply, Matrix.vecMul, dotProduct, Fin.sum_univ_succ] <;> norm_num

-- … and its `X Xᵀ` is non-singular (hypothesis of `normalEq_unique`, `noise_free_recovery`, `minimiser_unique`)
example : IsUnit ((!![1, 1, 1; 0, 1, 2] : Matrix (Fin 2) (Fin 3) ℚ) * (!![1, 1, 1; 0, 1, 2] : Matrix (Fin 2) (Fin 3) ℚ)ᵀ).det := by
  rw [Matrix.det_fin_two]
  simp [Matrix.mul_apply, Matrix.vecMul, dotProduct, Fin.sum_univ_succ]
  norm_num

end IrisVerif.C18

/-! ## Part 5: rejection branches, non-vacuity by kernel evaluation, prior dummy observations (statement audit, round 5) -/

namespace IrisVerif.C18
open Matrix
open IrisVerif IrisVerif.RedVar


/-! ### the rejection branches of the model: it rejects exactly what the code rejects -/

/-- every other rejection is one of the two numerical ones, and each has its cause: `singular` = a (checked) solve of normal
equations found no solution — of the main regression or, with priors, of the scaling pre-regression; `dofZero` = the covariance
denominator `T_fitted − num_rhs·dof` is zero -/
theorem estimate_error_cases (s : Spec) (dof : Bool) (Y X : OMat) (pr : Option (List Prior)) (er : Err)
    (h : estimate s dof Y X pr = .error er) :
    (er = .noData ∧ fitted s Y X = []) ∨
    (er = .singular ∧ (priorScalingOk s Y X (fitted s Y X) pr = false ∨
        ols (lhsFull s Y (fitted s Y X) pr) (rhsFull s Y X (fitted s Y X) pr) = none)) ∨
    (er = .dofZero ∧ ((fitted s Y X).length : Int) - (if dof then (dofCount s : Int) else 0) = 0) := by
  unfold estimate at h
  simp only at h
  split at h
  · rename_i h0
    injection h with h
    exact Or.inl ⟨h.symm, List.eq_nil_of_length_eq_zero h0⟩
  · split at h
    · rename_i hp
      injection h with h
      exact Or.inr (Or.inl ⟨h.symm, Or.inl (by simpa using hp)⟩)
    split at h
    · rename_i hols
      injection h with h
      exact Or.inr (Or.inl ⟨h.symm, Or.inr hols⟩)
    · generalize hden : ((fitted s Y X).length : Int) - (if dof = true then (dofCount s : Int) else 0) = denom at h ⊢
      split at h
      · rename_i hd
        injection h with h
        exact Or.inr (Or.inr ⟨h.symm, hd⟩)
      · cases h

/-- "No data available for estimation after removing periods with missing observations": raised iff no base period is complete -/
theorem estimate_noData_iff (s : Spec) (dof : Bool) (Y X : OMat) (pr : Option (List Prior)) :
    estimate s dof Y X pr = .error .noData ↔ fitted s Y X = [] := by
  constructor
  · intro h
    rcases estimate_error_cases s dof Y X pr _ h with h1 | h1 | h1
    · exact h1.2
    · exact absurd h1.1 (fun h => by cases h)
    · exact absurd h1.1 (fun h => by cases h)
  · intro h
    unfold estimate
    simp only
    rw [if_pos (by rw [h]; rfl)]

/-! ### non-vacuity of the theorems about `estimate` (kernel evaluation of the executable model) -/

/-- AR(1) with intercept on `y = 1, 2, 4, 8, 15`: four complete base periods, a successful estimate -/
def exY : OMat := OMat.ofFn 1 5 (fun _ j => some (if j = 4 then 15 else (2 : Rat) ^ j))
def exX : OMat := OMat.ofFn 0 5 (fun _ _ => none)

example : fitted ⟨1, 0, 1, true⟩ exY exX = [0, 1, 2, 3] := by decide +kernel
example : (match estimate ⟨1, 0, 1, true⟩ false exY exX none with | .ok _ => true | .error _ => false) = true := by
  decide +kernel
-- with a Minnesota and a mean prior (dummy observations appended) the estimate still succeeds
example : (match estimate ⟨1, 0, 1, true⟩ true exY exX (some [.minnesota #[1/2] 2 1, .mean #[1] 1]) with
    | .ok _ => true | .error _ => false) = true := by
  decide +kernel
-- the rejection branches are reachable: no complete period / exactly collinear regressors / zero denominator
example : (match estimate ⟨1, 0, 1, true⟩ false (OMat.ofFn 1 3 (fun _ _ => none)) (OMat.ofFn 0 3 (fun _ _ => none)) none with
    | .error .noData => true | _ => false) = true := by decide +kernel
example : (match estimate ⟨1, 0, 1, true⟩ false (OMat.ofFn 1 4 (fun _ _ => some 1)) (OMat.ofFn 0 4 (fun _ _ => none)) none with
    | .error .singular => true | _ => false) = true := by decide +kernel
example : (match estimate ⟨1, 0, 1, true⟩ true (OMat.ofFn 1 3 (fun _ j => some (j * j : Nat))) (OMat.ofFn 0 3 (fun _ _ => none)) none with
    | .error .dofZero => true | _ => false) = true := by decide +kernel

/-- the hypothesis of `mean_fixed_point` / `mean_unique` is met by a non-trivial VAR(1): `A = 1/2`, `c = 3`, `μ = 6` -/
example : (1 - ∑ l : Fin 1, (fun _ => (!![1/2] : Matrix (Fin 1) (Fin 1) ℚ)) l) *ᵥ ![6] = ![3] := by
  ext i; fin_cases i
  simp [Matrix.mulVec, dotProduct]
  norm_num



/-! ### prior dummy observations: estimation with priors IS least squares on `[data | dummies]` -/

theorem hstack_get (a b : QMat) (i j : Nat) (hi : i < a.rows) (hj : j < a.cols + b.cols) :
    (QMat.hstack a b).get i j = if j < a.cols then a.get i j else b.get i (j - a.cols) := by
  unfold QMat.hstack
  rw [get_ofFn]
  simp [hi, hj]

/-- the design of a successful estimate: the fitted data columns followed by the dummy observations of the priors, in the
order the priors were given (`hstack([lhs_est, lhs_dummy])`, `hstack([rhs_est, rhs_dummy])`) -/
theorem estimate_design (s : Spec) (dof : Bool) (Y X : OMat) (pr : Option (List Prior)) (e : Estimate)
    (h : estimate s dof Y X pr = .ok e) :
    e.lhsEst = lhsFull s Y (fitted s Y X) pr ∧ e.rhsEst = rhsFull s Y X (fitted s Y X) pr := by
  unfold estimate at h
  simp only at h
  split at h
  · cases h
  · split at h
    · cases h
    split at h
    · cases h
    · generalize ((fitted s Y X).length : Int) - (if dof = true then (dofCount s : Int) else 0) = denom at h
      split at h
      · cases h
      · injection h with h
        subst h
        exact ⟨rfl, rfl⟩

/-- one prior: the dummy block is that prior's columns -/
theorem dummy_single (s : Spec) (pr : Prior) :
    dummyLhs s [pr] = QMat.hstack (QMat.zero s.n 0) (pr.lhs s) ∧
    dummyRhs s [pr] = QMat.hstack (QMat.zero s.numRhs 0) (pr.rhs s) := ⟨rfl, rfl⟩

/-- several priors: each further prior appends its columns on the right -/
theorem dummy_snoc (s : Spec) (ps : List Prior) (pr : Prior) :
    dummyLhs s (ps ++ [pr]) = QMat.hstack (dummyLhs s ps) (pr.lhs s) ∧
    dummyRhs s (ps ++ [pr]) = QMat.hstack (dummyRhs s ps) (pr.rhs s) := by
  unfold dummyLhs dummyRhs
  simp [List.foldl_append]

/-- **Mean prior: the lagged block is stacked lag by lag** (`tile`, not `repeat`): in the single dummy column, the row of lag
`l+1` of variable `i` (row `l·n + i`) holds `mean_i·μ` for EVERY lag, the exogenous rows hold 0 and the intercept row holds `μ`;
the left-hand side holds `mean_i·μ`. (No column at all without an intercept.) -/
theorem mean_prior_entries (s : Spec) (mbar : Array Rat) (mu : Rat) (hic : s.icpt = true) :
    (∀ l i, l < s.p → i < s.n → ((Prior.mean mbar mu).rhs s).get (l * s.n + i) 0 = mbar.getD i 0 * mu) ∧
    (∀ k, k < s.m → ((Prior.mean mbar mu).rhs s).get (s.numLagged + k) 0 = 0) ∧
    ((Prior.mean mbar mu).rhs s).get (s.numLagged + s.m) 0 = mu ∧
    (∀ i, i < s.n → ((Prior.mean mbar mu).lhs s).get i 0 = mbar.getD i 0 * mu) := by
  have hK : s.numRhs = s.numLagged + s.m + 1 := by unfold Spec.numRhs Spec.numNonendog; rw [hic]; simp; omega
  refine ⟨?_, ?_, ?_, ?_⟩
  · intro l i hl hi
    have hlt : l * s.n + i < s.numLagged := by
      unfold Spec.numLagged
      calc l * s.n + i < l * s.n + s.n := by omega
        _ = (l + 1) * s.n := by rw [Nat.add_mul, Nat.one_mul]
        _ ≤ s.p * s.n := Nat.mul_le_mul_right _ hl
        _ = s.n * s.p := Nat.mul_comm _ _
    unfold Prior.rhs
    rw [get_ofFn, if_pos ⟨by omega, by rw [hic]; simp⟩, if_pos hlt]
    have : (l * s.n + i) % s.n = i := by
      rw [Nat.add_comm, Nat.add_mul_mod_self_right, Nat.mod_eq_of_lt hi]
    rw [this]
  · intro k hk
    unfold Prior.rhs
    rw [get_ofFn, if_pos ⟨by omega, by rw [hic]; simp⟩, if_neg (by omega), if_pos (by omega)]
  · unfold Prior.rhs
    rw [get_ofFn, if_pos ⟨by omega, by rw [hic]; simp⟩, if_neg (by omega), if_neg (by omega)]
  · intro i hi
    unfold Prior.lhs
    rw [get_ofFn, if_pos ⟨hi, by rw [hic]; simp⟩]

/-- **Minnesota prior**: one dummy column per lagged regressor; column `l·n + i` has `μ·(l+1)^κ` in its own lagged row and 0
elsewhere (also in the exogenous and intercept rows), and on the left-hand side `μ·ρ_i` for the first lag (`l = 0`) and 0 for the
higher lags -/
theorem minnesota_prior_entries (s : Spec) (rho : Array Rat) (mu : Rat) (kappa : Nat) :
    (∀ r j, r < s.numRhs → j < s.n * s.p → ((Prior.minnesota rho mu kappa).rhs s).get r j
        = if r < s.numLagged ∧ r = j then mu * (((r / s.n + 1 : Nat) : Rat) ^ kappa) else 0) ∧
    (∀ i j, i < s.n → j < s.n * s.p → ((Prior.minnesota rho mu kappa).lhs s).get i j
        = if i = j then mu * rho.getD i 0 else 0) := by
  constructor
  · intro r j hr hj
    unfold Prior.rhs
    rw [get_ofFn, if_pos ⟨hr, hj⟩]
  · intro i j hi hj
    unfold Prior.lhs
    rw [get_ofFn, if_pos ⟨hi, hj⟩]

/-- **With priors the estimate is ordinary least squares on the data followed by the dummy observations**: the design of a
successful estimate with one prior is `[fitted data columns | that prior's dummy columns]` (entries above), and the coefficient
matrix satisfies the normal equations of exactly this design (`estimate_normal_equations`; hence, by `normalEq_minimises`
through the bridge `QMatBridge.estimate_minimises`, it minimises the sum of squares over data and dummies together). -/
theorem estimate_with_prior_design (s : Spec) (dof : Bool) (Y X : OMat) (pr : Prior) (e : Estimate)
    (h : estimate s dof Y X (some [pr]) = .ok e) :
    e.lhsEst = QMat.hstack (lhsData s Y (fitted s Y X)) (QMat.hstack (QMat.zero s.n 0) (pr.lhs s)) ∧
    e.rhsEst = QMat.hstack (rhsData s Y X (fitted s Y X)) (QMat.hstack (QMat.zero s.numRhs 0) (pr.rhs s)) ∧
    ∃ x : QMat, e.beta = x.transpose ∧ QMat.eqv (normalMx e.rhsEst * x) (normalMy e.lhsEst e.rhsEst) = true := by
  obtain ⟨h1, h2⟩ := estimate_design s dof Y X _ e h
  obtain ⟨x, hx1, hx2, _⟩ := estimate_normal_equations s dof Y X _ e h
  exact ⟨h1, h2, x, hx1, hx2⟩

-- non-vacuity: order 2, two variables, intercept: the mean-prior dummy column is (m0, m1, m0, m1 | 1)·μ -- lag by lag
example : ((List.range 5).map (fun r => ((Prior.mean #[3, 5] 2).rhs ⟨2, 0, 2, true⟩).get r 0)) = [6, 10, 6, 10, 2] := by
  decide +kernel


end IrisVerif.C18

/-! ## Part 6: the variant loops -/

namespace IrisVerif.C18
open IrisVerif IrisVerif.RedVar

/-- **Variant locality of `estimate`**: the result for variant `k` is the estimate of variant `k`'s data alone — no other
variant's data, coefficients or residuals enter; and there are as many results as data variants -/
theorem estimateVariants_local (s : Spec) (dof : Bool) (pr : Option (List Prior)) (datas : List (OMat × OMat)) :
    (estimateVariants s dof pr datas).length = datas.length ∧
    ∀ k (hk : k < datas.length), (estimateVariants s dof pr datas)[k]? = some (estimate s dof datas[k].1 datas[k].2 pr) := by
  unfold estimateVariants
  refine ⟨by simp, fun k hk => ?_⟩
  simp [List.getElem?_map, List.getElem?_eq_getElem hk]

/-- **Variant locality of `simulate`**: path `k` is the simulation of variant `k` with its own `A`, `B`, `c`, exogenous data and
residuals (so the exogenous impact of variant `k` is `B_k x_k`, never another variant's) -/
theorem simulateVariants_local (s : Spec) (ts : List Nat) (vs : List SimVariant) :
    (simulateVariants s ts vs).length = vs.length ∧
    ∀ k (hk : k < vs.length), (simulateVariants s ts vs)[k]? =
      some (simulate s vs[k].A vs[k].B vs[k].c vs[k].X vs[k].E vs[k].path0 ts) := by
  unfold simulateVariants
  refine ⟨by simp, fun k hk => ?_⟩
  simp [List.getElem?_map, List.getElem?_eq_getElem hk]

-- non-vacuity: two data variants give two results, the second one from the second data set
example : (estimateVariants ⟨1, 0, 1, true⟩ false none [(exY, exX), (OMat.ofFn 1 3 (fun _ _ => none), exX)]).length = 2 := by
  decide +kernel

end IrisVerif.C18
