"""
C18 -- Reduced-form VAR estimates are the least-squares solution and reproduce the data.

Correspondence: the Lean model (IrisVerif/Model/RedVar.lean, driver C18) computes the estimate in exact
rational arithmetic (normal equations solved by checked Gauss-Jordan) on the same integer data as
irispie.RedVAR; discrete outputs (fitted-period mask, NaN pattern of the residuals, companion matrices,
dyadic simulations) are compared exactly, LAPACK outputs within a tolerance on instances whose normal
matrix the harness has measured to be well conditioned.
Oracle (independent of the model, from the property statement): numpy.linalg.lstsq on data stacked by
plain Python loops, the normal equations, fit + residual = data, noise-free recovery, the residual second
moment, simulate-reproduces-data, companion mean / eigenvalues / Lyapunov equation.
"""
from __future__ import annotations
import json, os, glob, math, warnings

for _v in ("OMP_NUM_THREADS", "OPENBLAS_NUM_THREADS", "MKL_NUM_THREADS"):
    os.environ.setdefault(_v, "1")     # tiny matrices: BLAS threads only cost time on a shared machine
from fractions import Fraction as Fr

import numpy as np
import irispie as ir
from irispie.red_vars._variants import Variant

from .common import Ctx, rat_of_float, VERIF

DRIVERS = ["C18"]
EXTRA_PROPS = ['QMatBridge', 'QMatSolveBridge', 'GenTieCore', 'GenTieC18']   # refinement bridge: the executable QMat model satisfies the hypotheses of the matrix-level theorems
LEVEL = "proof"
MANIFEST = {
    "category": "proof",
    "text": ("Lean 4 theorems (Mathlib matrices over any linearly ordered field, all sizes): a coefficient matrix satisfying the normal "
             "equations minimises the sum of squared residuals over exactly the fitted columns, uniquely when X X^T is non-singular; noise-free "
             "data return the generating coefficients; fit + residual reproduces the data by definition of the residual; the residual "
             "covariance times its denominator is u u^T and is symmetric; simulating the flat VAR recursion with the estimated residuals "
             "reproduces the data for every horizon (induction over periods, stated both abstractly and about the executable model's "
             "simulate); the companion recursion's top block is the VAR recursion; the companion mean solves (I - sum A_i) mu = c and is a "
             "fixed point of the recursion; a change of units of the data leaves the lag matrices unchanged and multiplies the intercept exactly. Prior dummy observations are model functions with entry theorems (mean prior stacked lag by lag, Minnesota diagonal with (l+1)^kappa) and the design of an estimate with a prior is [fitted data | dummies], on which the normal equations hold; the rejection branches (no complete period, failed checked solve, zero covariance denominator) are characterised; the variant loops of estimate and simulate are maps with variant locality. The public wrappers are model functions too: what estimate(target_db=...) returns is the finite-map union target | output (theorem: every produced name has its fresh value, every other name of the target is carried over), and an estimated variant is a state machine with the companion-matrix memo (theorem, by induction over request histories: every ordinary / deviation-mode request is answered with the companion matrix and the constant of the mode it asked for, whatever was requested before). The executable model (exact rationals, NaN as none, lag stacking, complete-column mask, prior "
             "dummy observations, dof correction, residuals on all periods, companion form, mean, simulation with exogenous impact) is tied to "
             "irispie.RedVAR on every run by differential correspondence: masks, NaN patterns, companion matrices and dyadic simulations "
             "exactly, LAPACK results within 1e-7 relative on instances whose normal matrix has a measured condition number < 1e7. "
             "An independent numpy.linalg.lstsq / identity oracle on the real code supplies the replay."),
    "design": "7/C18",
    "note": ("The companion mean is proved to be a fixed point and unique given (I - sum A) mu = c; that the model's mean satisfies this equation, that the model's estimate minimises the SSR and that resimulation returns the data end to end are proved in Props/QMatBridge.lean (audited with this check). Schematic theorems + exact-arithmetic validation: LAPACK solve/eigvals/solve_discrete_lyapunov are not modelled, their results "
             "are compared with the exact rational answer or validated through residual equations; floating-point rounding is outside the theorems."),
    "technique": "Lean 4 proof over Mathlib matrices + executable rational model + differential correspondence (exact / tolerance) + independent lstsq oracle",
}
ASSUMPTIONS = [
    "IEEE-754 rounding and LAPACK (solve, eigvals, solve_discrete_lyapunov) are unmodelled; tolerance comparisons only on instances with measured cond(X X^T) < 1e7",
    "degrees-of-freedom correction is read as T_fitted - (number of estimated coefficients per equation), Dimensions.num_rhs",
    "the Dataslate/Databox plumbing between Series and the estimation arrays is exercised but not modelled",
]

TOL = 1e-7
START = ir.qq(2001, 1)


# ---------------------------------------------------------------------------------------
# cases
# ---------------------------------------------------------------------------------------

def names_of(n, m):
    return [f"y{i}" for i in range(n)], [f"x{k}" for k in range(m)]


def gen_est_case(rng, kind="random"):
    n = rng.weighted([(1, 3), (2, 4), (3, 2)])
    m = rng.weighted([(0, 5), (1, 3), (2, 1)])
    p = rng.weighted([(1, 4), (2, 3), (3, 2)])
    icpt = rng.chance(0.7)
    dof = rng.chance(0.4)
    K = n * p + m + int(icpt)
    T = K + rng.randint(2, 12)
    cols = p + T
    nvar = 2 if rng.chance(0.25) else 1
    variants = []
    for _ in range(nvar):
        if kind == "noisefree":
            Y, X = noise_free_data(rng, n, m, p, icpt, cols)
        else:
            Y = [[rng.randint(-6, 6) for _ in range(cols)] for _ in range(n)]
            X = [[rng.randint(-4, 4) for _ in range(cols)] for _ in range(m)]
        variants.append({"Y": Y, "X": X})
    # missing cells (None = NaN): in endogenous or exogenous rows, pre-sample or base periods
    nmiss = 0 if kind == "noisefree" else rng.weighted([(0, 5), (1, 3), (2, 2), (3, 1)])
    for _ in range(nmiss):
        v = rng.choice(variants)
        if m and rng.chance(0.3):
            v["X"][rng.randint(0, m - 1)][rng.randint(0, cols - 1)] = None
        else:
            v["Y"][rng.randint(0, n - 1)][rng.randint(0, cols - 1)] = None
    priors = None
    if kind != "noisefree" and rng.chance(0.3):
        priors = []
        which = rng.choice(["M", "E", "ME"])
        if "M" in which:
            rho = [str(Fr(rng.randint(0, 4), 4)) for _ in range(n)] if rng.chance(0.5) else [str(Fr(rng.randint(0, 4), 4))] * n
            priors.append({"kind": "M", "mu": str(Fr(rng.randint(1, 8), 2)), "kappa": rng.randint(0, 2), "rho": rho})
        if "E" in which:
            priors.append({"kind": "E", "mu": str(Fr(rng.randint(1, 8), 2)), "mean": [str(Fr(rng.randint(-4, 4), 2)) for _ in range(n)]})
    case = {"op": "est", "kind": kind, "n": n, "m": m, "p": p, "icpt": icpt, "dof": dof, "cols": cols,
            "variants": variants, "priors": priors}
    add_options(rng, case)
    return case


def add_options(rng, case):
    """non-default ways of calling estimate and call histories on the estimated object (the property holds for what the call
    RETURNS and for every later call, whatever was called before):
    target: None | plain (target_db without the output names) | stale (target_db = the input databox already holding res_*
            series, as left by an earlier estimation) | prelim (a first estimation of another order into the same databox);
    history: calls made on the estimated object before the ones whose results are checked"""
    case["target"] = rng.weighted([(None, 5), ("plain", 1), ("stale", 3), ("prelim", 3)])
    case["stale_seed"] = rng.randint(0, 10**6)
    k = rng.weighted([(0, 4), (1, 3), (2, 2), (3, 1)])
    case["history"] = [rng.choice(["compdev", "simdev", "comp", "sim", "mean"]) for _ in range(k)]
    # data-scale axis: the same data in other units (exact scalings by powers of two, from ~1e-10 to ~1e6); the estimate must
    # scale accordingly. Dummy observations are in fixed units, so only cases without priors are rescaled
    case["scale_exps"] = rng.sample([-33, -20, 20, -27, 10, -3, 4], rng.weighted([(1, 2), (2, 1)])) if (case["priors"] is None and rng.chance(0.45)) else []


def noise_free_data(rng, n, m, p, icpt, cols):
    """integer data generated exactly by a VAR with integer coefficients: y_t = sum A_l y_{t-l} + B x_t + c"""
    A = [[[rng.choice([-1, 0, 0, 1]) for _ in range(n)] for _ in range(n)] for _ in range(p)]
    B = [[rng.randint(-2, 2) for _ in range(m)] for _ in range(n)]
    c = [rng.randint(-2, 2) if icpt else 0 for _ in range(n)]
    X = [[rng.randint(-3, 3) for _ in range(cols)] for _ in range(m)]
    Y = [[rng.randint(-3, 3) if t < p else 0 for t in range(cols)] for _ in range(n)]
    for t in range(p, cols):
        for i in range(n):
            v = c[i]
            for l in range(p):
                for j in range(n):
                    v += A[l][i][j] * Y[j][t - l - 1]
            for k in range(m):
                v += B[i][k] * X[k][t]
            Y[i][t] = v
    gen = {"A": A, "B": B, "c": c}
    big = max(abs(v) for row in Y for v in row)
    if big > 10**6:
        return noise_free_data(rng, n, m, p, icpt, cols)
    noise_free_data.last = gen
    return Y, X


def gen_sim_case(rng):
    """dyadic coefficients supplied directly; short horizon so that every float operation is exact"""
    n = rng.randint(1, 3); m = rng.weighted([(0, 3), (1, 2), (2, 1)]); p = rng.randint(1, 3)
    T = rng.randint(1, 6)
    cols = p + T
    A = [[str(Fr(rng.randint(-4, 4), 4)) for _ in range(n * p)] for _ in range(n)]
    B = [[str(Fr(rng.randint(-4, 4), 2)) for _ in range(m)] for _ in range(n)]
    c = [str(Fr(rng.randint(-4, 4), 2)) for _ in range(n)]
    Y = [[rng.randint(-5, 5) for _ in range(cols)] for _ in range(n)]
    X = [[rng.randint(-3, 3) for _ in range(cols)] for _ in range(m)]
    t0, t1 = p, p + T - 1
    exact_resid = rng.chance(0.6)
    if exact_resid:
        # residuals defined by the data: E = Y - fit(Y) -> the property says the simulation must return Y
        E = [[str(Fr(0))] * cols for _ in range(n)]
        for t in range(p, cols):
            for i in range(n):
                v = Fr(c[i])
                for r in range(n * p):
                    v += Fr(A[i][r]) * Y[r % n][t - (r // n + 1)]
                for k in range(m):
                    v += Fr(B[i][k]) * X[k][t]
                E[i][t] = str(Fr(Y[i][t]) - v)
    else:
        E = [[str(Fr(rng.randint(-8, 8), 4)) for _ in range(cols)] for _ in range(n)]
    # the calls made, in this order, on ONE RedVAR object: ordinary and deviation-mode simulations
    calls = rng.weighted([(["ord"], 3), (["dev", "ord"], 3), (["ord", "dev", "ord"], 2), (["dev", "dev", "ord", "ord"], 1), (["ord", "dev"], 1)])
    return {"op": "sim", "n": n, "m": m, "p": p, "cols": cols, "A": A, "B": B, "c": c, "Y": Y, "X": X, "E": E,
            "t0": t0, "t1": t1, "exact_resid": exact_resid, "calls": list(calls)}


def gen_comp_case(rng):
    n = rng.randint(1, 3); p = rng.randint(1, 3); icpt = rng.chance(0.75)
    A = [[str(Fr(rng.randint(-3, 3), 4)) for _ in range(n * p)] for _ in range(n)]
    c = [str(Fr(rng.randint(-4, 4), 2)) for _ in range(n)] if icpt else None
    if icpt and rng.chance(0.15):
        c = ["0"] * n
    elif icpt and rng.chance(0.4):
        # the intercept in other units (tiny is not zero): exact power-of-two scalings from ~1e-12 to ~1e6
        f = Fr(2) ** rng.choice([-40, -33, -27, -20, 20])
        c = [str(Fr(x) * f) for x in c]
    # deviation flags of successive _get_companion_solution calls on ONE Variant
    calls = rng.weighted([([False], 3), ([True, False], 3), ([False, True, False], 2), ([True, True, False], 1)])
    return {"op": "comp", "n": n, "p": p, "icpt": icpt, "A": A, "c": c, "calls": list(calls)}


# ---------------------------------------------------------------------------------------
# request lines for the Lean driver
# ---------------------------------------------------------------------------------------

def cell(v):
    return "nan" if v is None else str(v)


def est_line(case, vid):
    v = case["variants"][vid]
    ws = ["est", case["n"], case["m"], case["p"], int(case["icpt"]), int(case["dof"]), case["cols"]]
    ws += [cell(x) for row in v["Y"] for x in row]
    ws += [cell(x) for row in v["X"] for x in row]
    if case["priors"] is None:
        ws.append(-1)
    else:
        ws.append(len(case["priors"]))
        for pr in case["priors"]:
            if pr["kind"] == "M":
                ws += ["M", pr["mu"], pr["kappa"]] + pr["rho"]
            else:
                ws += ["E", pr["mu"]] + pr["mean"]
    return " ".join(str(w) for w in ws)


def sim_line(case):
    ws = ["sim", case["n"], case["m"], case["p"], case["cols"]]
    for key in ("A", "B"):
        ws += [x for row in case[key] for x in row]
    ws += case["c"]
    for key in ("Y", "X", "E"):
        ws += [x for row in case[key] for x in row]
    ws += [case["t0"], case["t1"]]
    return " ".join(str(w) for w in ws)


def sim_dev_line(case):
    """deviation mode: no intercept, no exogenous impact"""
    c2 = dict(case)
    c2["B"] = [["0"] * case["m"] for _ in range(case["n"])]
    c2["c"] = ["0"] * case["n"]
    return sim_line(c2)


def comp_line(case):
    ws = ["comp", case["n"], case["p"], int(case["icpt"])] + [x for row in case["A"] for x in row]
    if case["icpt"]:
        ws += case["c"]
    return " ".join(str(w) for w in ws)


def parse_qmat(text):
    ws = text.split()
    r, c = int(ws[0]), int(ws[1])
    vals = [Fr(w) for w in ws[2:]]
    assert len(vals) == r * c
    return [[vals[i * c + j] for j in range(c)] for i in range(r)]


def parse_cells(text):
    return [None if w == "nan" else Fr(w) for w in text.split()]


def parse_est_reply(reply):
    if not reply.startswith("ok;"):
        return {"status": reply}
    out = {"status": "ok"}
    for part in reply.split(";")[1:]:
        k, _, v = part.partition("=")
        out[k] = v
    return out


# ---------------------------------------------------------------------------------------
# implementation side
# ---------------------------------------------------------------------------------------

def series_of(rows_by_variant):
    """one Series per variable; rows_by_variant[v] = list of values (None = NaN)"""
    arr = np.array([[np.nan if x is None else float(x) for x in row] for row in rows_by_variant], dtype=float).T
    return ir.Series(start=START, values=arr)


def make_prior(pr, n):
    if pr["kind"] == "M":
        rho = np.array([float(Fr(x)) for x in pr["rho"]])
        return ir.MinnesotaPriorObs(rho=rho, mu=float(Fr(pr["mu"])), kappa=int(pr["kappa"]))
    return ir.MeanPriorObs(mean=np.array([float(Fr(x)) for x in pr["mean"]]), mu=float(Fr(pr["mu"])))


def impl_err(e):
    name = type(e).__name__
    if name == "ValueError" and "No data available" in str(e):
        return "err:nodata"
    if name == "LinAlgError":
        return "err:singular"
    return "err:bad"


def build_db(case):
    n, m = case["n"], case["m"]
    en, xn = names_of(n, m)
    db = ir.Databox()
    for i, nm in enumerate(en):
        db[nm] = series_of([v["Y"][i] for v in case["variants"]])
    for k, nm in enumerate(xn):
        db[nm] = series_of([v["X"][k] for v in case["variants"]])
    return db, en, xn


def run_impl_est(case):
    """-> list (per variant) of dicts, or {'error': kind, 'exc': repr}"""
    n, m, p, cols = case["n"], case["m"], case["p"], case["cols"]
    nvar = len(case["variants"])
    db, en, xn = build_db(case)
    span = (START + p) >> (START + cols - 1)
    full = START >> (START + cols - 1)
    try:
        v = ir.RedVAR(en, exogenous_names=xn or None, order=p, intercept=case["icpt"], num_variants=nvar)
        priors = None
        if case["priors"] is not None:
            priors = tuple(make_prior(pr, n) for pr in case["priors"])
            if len(priors) == 1:
                priors = priors[0]
        target = case.get("target")
        kw = {}
        extra = None
        if target is not None:
            extra = ir.Series(start=START, values=np.arange(cols, dtype=float))
            if target == "plain":
                tdb = ir.Databox(); tdb["extra"] = extra
            else:
                # the usual workflow `db = v.estimate(db, span, target_db=db)` applied a second time: the target already holds res_*
                tdb = db; tdb["extra"] = extra
                stale_done = False
                if target == "prelim":
                    try:
                        p0 = p % 3 + 1
                        v0 = ir.RedVAR(en, exogenous_names=xn or None, order=p0, intercept=True, num_variants=nvar)
                        with warnings.catch_warnings(), np.errstate(all="ignore"):
                            warnings.simplefilter("ignore")
                            db = v0.estimate(db, (START + p0) >> (START + cols - 1), target_db=db, num_variants=nvar)
                        tdb = db
                        stale_done = all(("res_" + nm) in db.keys() for nm in en)
                    except Exception:
                        stale_done = False
                if not stale_done:
                    srng = np.random.default_rng(case.get("stale_seed", 0))
                    for nm in en:
                        db["res_" + nm] = ir.Series(start=START, values=srng.integers(-9, 10, size=(cols, nvar)).astype(float))
            kw["target_db"] = tdb
        tkeys = None if target is None else list(kw["target_db"].keys())
        tids = None if target is None else {k: id(kw["target_db"][k]) for k in tkeys}
        with warnings.catch_warnings(), np.errstate(all="ignore"):
            warnings.simplefilter("ignore")      # division by T_fitted - K = 0 (the model answers err:dof) only warns
            out = v.estimate(db, span, dof_correction=case["dof"], prior_obs=priors, num_variants=nvar, **kw)
    except Exception as e:
        return {"error": impl_err(e), "exc": repr(e)[:300]}
    merge_obs = {"target_keys": tkeys, "returned_keys": list(out.keys()),
                 "target_untouched": True if target is None else (list(kw["target_db"].keys()) == tkeys and all(id(kw["target_db"][k]) == tids[k] for k in tkeys))}
    res = []
    systems = v.get_system_matrices(unpack_singleton=False)
    for vid in range(nvar):
        s = systems[vid]
        var = v._variants[vid]
        r = {"A": np.array(s.A), "B": np.array(s.B), "c": None if s.c is None else np.array(s.c), "cov": np.array(s.cov_residuals),
             "mask": "".join("1" if (START + p + t) in set(var.fitted_periods) else "0" for t in range(cols - p)),
             "u": np.array(var.residual_estimates)}
        # the residual series written back into the output databox
        r["u_db"] = np.array([out["res_" + nm].get_data(full)[:, vid] for nm in en])
        res.append(r)
    # what sits under every name of the returned databox, judged by content: the fresh result (o) or the target's entry (t)
    def tag(k):
        if k.startswith("res_") and k[4:] in en:
            i = en.index(k[4:])
            fresh = all(close(res[vid]["u_db"][i, p:], res[vid]["u"][i], tol=0) and np.all(res[vid]["u_db"][i, :p] == 0) for vid in range(nvar))
            return "o" if fresh else "t"
        if k in en or k in xn:
            return "o"          # the data: the same numbers in the input, the target and the output
        if k == "extra":
            return "t" if np.array_equal(np.array(out[k].get_data(full)[:, 0]), np.arange(cols, dtype=float)) else "?"
        return "?"
    merge_obs["returned"] = [(k, tag(k)) for k in merge_obs["returned_keys"]]
    info = {"variants": res, "model": v, "out": out, "span": span, "full": full, "en": en, "xn": xn, "merge": merge_obs}
    # what the call returns also carries the data it was given and, with target_db, everything else the target held
    try:
        info["out_y"] = [np.array([out[nm].get_data(full)[:, vid] for nm in en]) for vid in range(nvar)]
        info["out_extra"] = None if case.get("target") is None else (np.array(out["extra"].get_data(full)[:, 0]) if "extra" in out.keys() else "missing")
    except Exception as e:
        info["out_exc"] = repr(e)[:300]
    return info


def impl_post(case, info):
    """mean / eigenvalues / acov / simulate on the estimated object; each may raise independently"""
    v, out, span, full, en = info["model"], info["out"], info["span"], info["full"], info["en"]
    nvar = len(case["variants"])
    post = {}
    # call history on the estimated object: results of the calls below must not depend on what was called before
    for op in case.get("history") or []:
        try:
            with warnings.catch_warnings():
                warnings.simplefilter("ignore")
                if op == "compdev":
                    devs = v.get_companion_matrices(unpack_singleton=False, deviation=True)
                    post.setdefault("compdev", []).append(devs)
                elif op == "comp":
                    v.get_companion_matrices(unpack_singleton=False)
                elif op == "simdev":
                    v.simulate(out, span, num_variants=nvar, deviation=True)
                elif op == "sim":
                    v.simulate(out, span, num_variants=nvar)
                elif op == "mean":
                    v.get_mean(unpack_singleton=False)
        except Exception:
            pass      # a failing call is judged where its result is checked (below), not in the history
    # per variant, so that a singular variant does not hide the others
    post["mean"], post["mean_excs"] = [], []
    for var in v._variants:
        try:
            post["mean"].append(np.array(var.get_mean())); post["mean_excs"].append(None)
        except Exception as e:
            post["mean"].append(None); post["mean_excs"].append(repr(e)[:300])
    try:
        post["eig"] = [np.array(x, dtype=complex) for x in v.get_eigenvalues(unpack_singleton=False)]
    except Exception as e:
        post["eig_exc"] = repr(e)[:300]
    try:
        post["comp"] = v.get_companion_matrices(unpack_singleton=False)
    except Exception as e:
        post["comp_exc"] = repr(e)[:300]
    post["acov"], post["acov_excs"] = [], []
    for var in v._variants:
        try:
            with warnings.catch_warnings():
                warnings.simplefilter("ignore")
                post["acov"].append(var.get_acov(up_to_order=2)); post["acov_excs"].append(None)
        except Exception as e:
            post["acov"].append(None); post["acov_excs"].append(repr(e)[:300])
    try:
        sim = v.simulate(out, span, num_variants=nvar)
        post["sim"] = [np.array([sim[nm].get_data(full)[:, vid] for nm in en]) for vid in range(nvar)]
    except Exception as e:
        post["sim_exc"] = repr(e)[:300]
    return post


def run_impl_sim(case):
    n, m, p, cols = case["n"], case["m"], case["p"], case["cols"]
    en, xn = names_of(n, m)
    db = ir.Databox()
    for i, nm in enumerate(en):
        db[nm] = ir.Series(start=START, values=np.array([float(x) for x in case["Y"][i]]))
        db["res_" + nm] = ir.Series(start=START, values=np.array([float(Fr(x)) for x in case["E"][i]]))
    for k, nm in enumerate(xn):
        db[nm] = ir.Series(start=START, values=np.array([float(x) for x in case["X"][k]]))
    v = ir.RedVAR(en, exogenous_names=xn or None, order=p, intercept=True)
    A = np.array([[float(Fr(x)) for x in row] for row in case["A"]], dtype=float).reshape(n, n * p)
    B = np.array([[float(Fr(x)) for x in row] for row in case["B"]], dtype=float).reshape(n, m)
    c = np.array([float(Fr(x)) for x in case["c"]], dtype=float)
    v._variants = [Variant(A=A, B=B, c=c, cov_residuals=np.eye(n))]
    span = (START + case["t0"]) >> (START + case["t1"])
    full = START >> (START + cols - 1)
    outs = []
    for call in case.get("calls") or ["ord"]:
        sim = v.simulate(db, span, deviation=(call == "dev"))
        outs.append((call, np.array([sim[nm].get_data(full)[:, 0] for nm in en])))
    return outs


def show_exact(arr):
    r, c = arr.shape
    return " ".join([str(r), str(c)] + [rat_of_float(x).replace("/1", "") if False else rat_of_float(x) for x in arr.flatten()])


def canon_qmat_text(text):
    ws = text.split()
    return " ".join(ws[:2] + [str(Fr(w)) if w not in ("nan", "inf", "-inf") else w for w in ws[2:]])


# ---------------------------------------------------------------------------------------
# independent stacking (plain loops over the raw lists; no irispie, no model)
# ---------------------------------------------------------------------------------------

def stack(case, vid):
    n, m, p, cols, icpt = case["n"], case["m"], case["p"], case["cols"], case["icpt"]
    Y, X = case["variants"][vid]["Y"], case["variants"][vid]["X"]
    T = cols - p
    lhs = np.full((n, T), np.nan)
    K = n * p + m + int(icpt)
    rhs = np.full((K, T), np.nan)
    for t in range(T):
        col = p + t
        for i in range(n):
            lhs[i, t] = np.nan if Y[i][col] is None else Y[i][col]
        r = 0
        for lag in range(1, p + 1):
            for i in range(n):
                val = Y[i][col - lag]
                rhs[r, t] = np.nan if val is None else val
                r += 1
        for k in range(m):
            val = X[k][col]
            rhs[r, t] = np.nan if val is None else val
            r += 1
        if icpt:
            rhs[r, t] = 1.0
    complete = np.array([bool(np.all(np.isfinite(lhs[:, t])) and np.all(np.isfinite(rhs[:, t]))) for t in range(T)])
    return lhs, rhs, complete


def dummy_columns(case):
    """the dummy observations as the documentation of prior_obs.py describes them (y_std = 1)"""
    n, m, p, icpt = case["n"], case["m"], case["p"], case["icpt"]
    K = n * p + m + int(icpt)
    L, R = np.zeros((n, 0)), np.zeros((K, 0))
    for pr in case["priors"] or []:
        mu = float(Fr(pr["mu"]))
        if pr["kind"] == "M":
            l = np.zeros((n, n * p)); r = np.zeros((K, n * p))
            for i in range(n):
                l[i, i] = mu * float(Fr(pr["rho"][i]))
            for lag in range(p):
                for i in range(n):
                    r[lag * n + i, lag * n + i] = mu * (lag + 1) ** pr["kappa"]
        else:
            d = int(icpt)
            l = np.zeros((n, d)); r = np.zeros((K, d))
            if d:
                for i in range(n):
                    l[i, 0] = mu * float(Fr(pr["mean"][i]))
                    for lag in range(p):
                        r[lag * n + i, 0] = l[i, 0]
                r[K - 1, 0] = mu
        L = np.hstack([L, l]); R = np.hstack([R, r])
    return L, R


def close(a, b, scale=None, tol=TOL):
    a = np.asarray(a, dtype=float); b = np.asarray(b, dtype=float)
    if a.shape != b.shape:
        return False
    if a.size == 0:
        return True
    na, nb = np.isnan(a), np.isnan(b)
    if not np.array_equal(na, nb):
        return False
    if scale is None:
        scale = max(1.0, float(np.nanmax(np.abs(b))) if np.any(~nb) else 1.0)
    return bool(np.all(np.abs(a - b)[~na] <= tol * scale))


# ---------------------------------------------------------------------------------------
# oracle for one estimation case (independent of the Lean model)
# ---------------------------------------------------------------------------------------

def sim_raise_site(m, p, msg):
    if m > 0 and p > 1 and "broadcast" in msg:
        return "simulate-exogenous-impact"
    return "simulate-initial-condition" if p > 1 else "simulate-raises"


def small(case):
    """the case without bulky derived fields, as written into replays"""
    return {k: v for k, v in case.items()}


def oracle_est(ctx: Ctx, case, info, post):
    n, m, p, cols, icpt = case["n"], case["m"], case["p"], case["cols"], case["icpt"]
    K = n * p + m + int(icpt)
    if "error" in info:
        # a rejection is legitimate only when there is nothing to fit or the normal matrix is singular
        ok_reject = False
        for vid in range(len(case["variants"])):
            lhs, rhs, complete = stack(case, vid)
            L, R = dummy_columns(case)
            Rall = np.hstack([rhs[:, complete], R])
            if complete.sum() == 0 or np.linalg.matrix_rank(Rall @ Rall.T) < K:
                ok_reject = True
            if case["priors"] is not None and (m + int(icpt)) > 0:
                xk = rhs[n * p:, complete]
                if np.linalg.matrix_rank(xk @ xk.T) < xk.shape[0]:
                    ok_reject = True
        if not ok_reject:
            site = "estimate-no-intercept" if not icpt else "estimate-raises"
            ctx.fail(site, small(case), "RedVAR.estimate raised on data with a non-singular normal matrix: " + info["exc"])
        else:
            ctx.count("oracle:legit-rejection")
        return
    for vid, r in enumerate(info["variants"]):
        lhs, rhs, complete = stack(case, vid)
        tag = {"vid": vid}
        mask = "".join("1" if b else "0" for b in complete)
        if r["mask"] != mask:
            ctx.fail("fitted-periods", small(case), f"variant {vid}: fitted periods {r['mask']} but complete columns {mask}")
            continue
        L, R = dummy_columns(case)
        Lall = np.hstack([lhs[:, complete], L]); Rall = np.hstack([rhs[:, complete], R])
        Mx = Rall @ Rall.T
        cond = np.linalg.cond(Mx) if Mx.size else 1.0
        well = cond < 1e7
        ctx.count("oracle:well-conditioned" if well else "oracle:ill-conditioned")
        beta = np.hstack([r["A"], r["B"]] + ([r["c"].reshape(-1, 1)] if r["c"] is not None else []))
        if beta.shape != (n, K) or (r["c"] is None) != (not icpt):
            ctx.fail("coefficient-shapes", small(case), f"variant {vid}: beta shape {beta.shape}, expected {(n, K)}")
            continue
        scale = max(1.0, float(np.max(np.abs(Lall))) if Lall.size else 1.0, float(np.max(np.abs(Rall))) if Rall.size else 1.0)
        if well:
            # (1) least squares by an independent route
            ref = np.linalg.lstsq(Rall.T, Lall.T, rcond=None)[0].T
            if not close(beta, ref, tol=1e-6):
                ctx.fail("least-squares", small(case), f"variant {vid}: coefficients differ from numpy.linalg.lstsq on independently stacked data: "
                         f"max diff {np.max(np.abs(beta - ref)):.3e}")
            # (2) normal equations on exactly the fitted columns (+ dummies)
            g = Rall @ (Lall - beta @ Rall).T
            if np.max(np.abs(g), initial=0.0) > 1e-7 * scale * scale * max(1, Rall.shape[1]):
                ctx.fail("normal-equations", small(case), f"variant {vid}: X (Y - beta X)^T = {np.max(np.abs(g)):.3e}")
        # (3) fit + residual reproduces the data wherever all terms are finite; NaN elsewhere
        u = r["u"]
        T = cols - p
        if u.shape != (n, T):
            ctx.fail("residual-shape", small(case), f"variant {vid}: residual array {u.shape}")
            continue
        fit = beta @ np.where(np.isfinite(rhs), rhs, 0.0)
        for t in range(T):
            regs_ok = bool(np.all(np.isfinite(rhs[:, t])))
            for i in range(n):
                should = regs_ok and np.isfinite(lhs[i, t])
                if should != bool(np.isfinite(u[i, t])):
                    if complete[t]:
                        ctx.fail("residual-identity", small(case), f"variant {vid}: residual [{i},{t}] is NaN on a fitted period")
                    # NaN pattern off the fitted periods is a modelling matter (numpy matmul), not demanded by the property
                    continue
                if should and abs(fit[i, t] + u[i, t] - lhs[i, t]) > 1e-8 * scale * max(1.0, float(np.max(np.abs(beta)))) * K:
                    ctx.fail("residual-identity", small(case), f"variant {vid}: fit + residual != data at [{i},{t}]: {fit[i, t] + u[i, t]} vs {lhs[i, t]}")
        # residual series written to the databox = residual array on the base periods, 0 on the pre-sample
        udb = r["u_db"]
        if not (close(udb[:, p:], u, tol=0) and np.all(udb[:, :p] == 0)):
            ctx.fail("residual-write-back", small(case), f"variant {vid}: the res_* series of the databox RETURNED by estimate"
                     f"{'(target_db=' + str(case.get('target')) + ')' if case.get('target') else ''} differ from the residual estimates, "
                     "so fitted equation + returned residual does not reproduce the data")
        if vid == 0 and "merge" in info:
            mo = info["merge"]
            produced = set(info["en"]) | set(info["xn"]) | {"res_" + nm for nm in info["en"]}
            tags = dict(mo["returned"])
            bad = [k for k in produced if tags.get(k) != "o"] + [k for k in (mo["target_keys"] or []) if k not in produced and tags.get(k) != "t"]
            if bad or not mo["target_untouched"]:
                ctx.fail("returned-databox", small(case), f"estimate(target_db={case.get('target')}): names {sorted(bad)} of the returned databox do not hold "
                         f"the fresh result / the target's own entry, or the target was modified (untouched={mo['target_untouched']})")
        # the returned databox also carries the data it was given and, with target_db, whatever else the target held
        if "out_exc" in info:
            ctx.fail("returned-databox", small(case), f"variant {vid}: reading the returned databox raised " + info["out_exc"])
        else:
            Yin = np.array([[np.nan if x is None else x for x in row] for row in case["variants"][vid]["Y"]], dtype=float)
            if not close(info["out_y"][vid], Yin, tol=0):
                ctx.fail("returned-databox", small(case), f"variant {vid}: the endogenous series in the returned databox are not the input data")
            if info.get("out_extra") is not None and not (isinstance(info["out_extra"], np.ndarray) and np.array_equal(info["out_extra"], np.arange(cols, dtype=float))):
                ctx.fail("returned-databox", small(case), f"variant {vid}: a series of target_db that is not an output name was not carried over unchanged")
        # (4) residual covariance
        Tw = int(complete.sum())
        denom = Tw - (K if case["dof"] else 0)
        uw = u[:, complete]
        if denom != 0:
            want = uw @ uw.T / denom
            if not close(r["cov"], want, tol=1e-9):
                alt = uw @ uw.T / (Tw - ((m + int(icpt)) if case["dof"] else 0)) if Tw != (m + int(icpt)) else None
                site = "dof-correction" if (case["dof"] and alt is not None and close(r["cov"], alt, tol=1e-9)) else "cov-residuals"
                ctx.fail(site, small(case), f"variant {vid}: cov_residuals is not u u^T / (T_fitted - K*dof) with T_fitted={Tw}, K={K}: "
                         f"got [0,0]={r['cov'][0, 0]!r}, expected {want[0, 0]!r}")
            if not np.array_equal(r["cov"], r["cov"].T):
                ctx.fail("cov-residuals", small(case), f"variant {vid}: cov_residuals is not symmetric")
        # (5) noise-free data return the generating VAR
        if case["kind"] == "noisefree" and well and "gen" in case:
            g = case["gen"][vid]
            Atrue = np.hstack([np.array(g["A"][l], dtype=float).reshape(n, n) for l in range(p)])
            btrue = np.hstack([Atrue, np.array(g["B"], dtype=float).reshape(n, m)] + ([np.array(g["c"], dtype=float).reshape(-1, 1)] if icpt else []))
            if not close(beta, btrue, tol=1e-6 * max(1.0, cond / 1e3)):
                ctx.fail("noise-free-recovery", small(case), f"variant {vid}: estimate on noise-free data differs from the generating VAR by {np.max(np.abs(beta - btrue)):.3e}")
            ctx.nontriv(("noisefree", n, m, p, icpt))
        # (6) companion form: mean, eigenvalues, autocovariances
        A = r["A"]
        Tc = np.zeros((n * p, n * p)); Tc[:n, :] = A
        for i in range(n, n * p):
            Tc[i, i - n] = 1.0
        eig = np.linalg.eigvals(Tc)
        rho = float(np.max(np.abs(eig))) if eig.size else 0.0
        if "comp_exc" in post:
            ctx.fail("companion-raises", small(case), post["comp_exc"])
        elif "comp" in post:
            sol = post["comp"][vid]
            Kc = np.zeros(n * p)
            if r["c"] is not None:
                Kc[:n] = r["c"]
            if not (np.array_equal(np.array(sol.T), Tc) and np.array_equal(np.array(sol.K), Kc) and np.array_equal(np.array(sol.P), np.eye(n * p, n))):
                ctx.fail("companion-form", small(case), f"variant {vid}: companion T/K/P are not [A; I 0], [c; 0], [I; 0]")
        for devs in post.get("compdev", []):
            sd = devs[vid]
            if not (np.array_equal(np.array(sd.T), Tc) and np.array_equal(np.array(sd.K), np.zeros(n * p))):
                ctx.fail("companion-form", small(case), f"variant {vid}: deviation-mode companion form is not [A; I 0] with a zero constant")
        if "eig_exc" in post:
            ctx.fail("eigenvalues-raise", small(case), post["eig_exc"])
        elif "eig" in post and well:
            a = np.sort_complex(np.round(post["eig"][vid], 9)); b = np.sort_complex(np.round(eig, 9))
            if a.shape != b.shape or np.max(np.abs(np.sort(np.abs(post["eig"][vid])) - np.sort(np.abs(eig))), initial=0.0) > 1e-6:
                ctx.fail("eigenvalues", small(case), f"variant {vid}: eigenvalue moduli differ from those of the companion matrix")
            # every reported eigenvalue is a root of the companion matrix
            for lam in post["eig"][vid]:
                smin = np.linalg.svd(Tc - lam * np.eye(n * p), compute_uv=False)[-1]
                if smin > 1e-6 * max(1.0, np.max(np.abs(Tc))):
                    ctx.fail("eigenvalues", small(case), f"variant {vid}: reported eigenvalue {lam} is not an eigenvalue of the companion matrix")
                    break
        Asum = sum(A[:, l * n:(l + 1) * n] for l in range(p))
        if post["mean_excs"][vid] is not None:
            IA = np.eye(n) - Asum
            if np.linalg.cond(IA) < 1e8:
                ctx.fail("mean-raises", small(case), post["mean_excs"][vid])
        else:
            mu = post["mean"][vid]
            cvec = r["c"] if r["c"] is not None else np.zeros(n)
            IA = np.eye(n) - Asum
            if np.linalg.cond(IA) < 1e6 and np.all(np.isfinite(mu)):
                if np.max(np.abs(IA @ mu - cvec)) > 1e-7 * max(1.0, float(np.max(np.abs(cvec))), float(np.max(np.abs(mu)))):
                    ctx.fail("mean", small(case), f"variant {vid}: (I - sum A_i) mean != c")
        if post["acov_excs"][vid] is not None:
            if rho < 0.98 and denom != 0:
                ctx.fail("acov-raises", small(case), post["acov_excs"][vid])
        elif rho < 0.95 and well and denom != 0:
            acov = post["acov"][vid]
            N = n * p
            Sig = np.zeros((N, N)); Sig[:n, :n] = r["cov"]
            Om = np.linalg.solve(np.eye(N * N) - np.kron(Tc, Tc), Sig.flatten()).reshape(N, N)
            sc = max(1.0, float(np.max(np.abs(Om))))
            G = Om
            for j in range(3):
                if not close(acov[j], G[:n, :n], scale=sc, tol=1e-6 / (1 - rho)):
                    ctx.fail("acov", small(case), f"variant {vid}: autocovariance of order {j} is not that of the companion form")
                    break
                G = Tc @ G
        # (7) simulating with the estimated residuals over the estimation span returns the data
        Y = np.array([[np.nan if x is None else x for x in row] for row in case["variants"][vid]["Y"]], dtype=float)
        X = np.array([[np.nan if x is None else x for x in row] for row in case["variants"][vid]["X"]], dtype=float).reshape(m, cols)
        first_bad = next((t for t in range(T) if not complete[t]), T)
        init_ok = bool(np.all(np.isfinite(Y[:, :p])))
        if "sim_exc" in post:
            if init_ok and first_bad > 0:
                ctx.fail(sim_raise_site(m, p, post["sim_exc"]), small(case), "RedVAR.simulate raised: " + post["sim_exc"])
        elif "sim" in post and init_ok and first_bad > 0 and rho < 1.3:
            sim = post["sim"][vid]
            upto = p + first_bad
            amp = max(1.0, rho) ** first_bad
            if not close(sim[:, :upto], Y[:, :upto], tol=1e-8 * amp * 10):
                site = "simulate-initial-condition" if p > 1 else "simulate-reproduces-data"
                ctx.fail(site, small(case), f"variant {vid}: simulation with the estimated residuals does not return the data "
                         f"(max diff {np.nanmax(np.abs(sim[:, :upto] - Y[:, :upto])):.3e} on the first {first_bad} fitted periods)")
            if first_bad == T:
                ctx.nontriv(("sim-complete", n, m, p, icpt))
        ctx.nontriv(("est", n, m, p, icpt, case["dof"], case["priors"] is not None and tuple(pr["kind"] for pr in case["priors"]),
                     Tw < T, len(case["variants"])))


# ---------------------------------------------------------------------------------------
# correspondence for one estimation case
# ---------------------------------------------------------------------------------------

def compare_est(ctx: Ctx, case, info, post, replies):
    """replies: one model reply per variant"""
    ctx.streams_compared["est"] = ctx.streams_compared.get("est", 0) + len(replies)
    n, m, p, cols, icpt = case["n"], case["m"], case["p"], case["cols"], case["icpt"]
    K = n * p + m + int(icpt)
    parsed = [parse_est_reply(r) for r in replies]
    if "error" in info:
        # the implementation estimates all variants or none: an error must be explained by some variant's model reply
        kinds = [q["status"] for q in parsed]
        ctx.count("est:impl-" + info["error"])
        if info["error"] not in kinds:
            ctx.disagree("est-status", small(case), info["error"] + " " + info["exc"], " | ".join(kinds))
        return
    for vid, (r, q) in enumerate(zip(info["variants"], parsed)):
        ctx.count("est:model-" + q["status"].split(";")[0])
        if q["status"] != "ok":
            if q["status"] == "err:singular":
                # LAPACK does not always notice exact singularity: not a disagreement, nothing to compare
                ctx.count("est:singular-not-noticed-by-lapack")
                continue
            if q["status"] == "err:dof":
                if np.all(np.isfinite(r["cov"])):
                    ctx.disagree("est-status", small(case), "finite cov", q["status"])
                continue
            ctx.disagree("est-status", small(case), "ok", q["status"])
            continue
        # class E: fitted mask and NaN pattern of the residuals
        if r["mask"] != q["W"]:
            ctx.disagree("est-mask", small(case), r["mask"], q["W"])
            continue
        ucells = parse_cells(q["u"])
        T = cols - p
        nanpat_model = "".join("n" if c is None else "." for c in ucells)
        nanpat_impl = "".join("n" if not np.isfinite(x) else "." for x in r["u"].flatten())
        if nanpat_model != nanpat_impl:
            ctx.disagree("est-residual-nan-pattern", small(case), nanpat_impl, nanpat_model)
            continue
        # class T: only on well-conditioned instances
        lhs, rhs, complete = stack(case, vid)
        L, R = dummy_columns(case)
        Rall = np.hstack([rhs[:, complete], R])
        cond = np.linalg.cond(Rall @ Rall.T) if K else 1.0
        if not cond < 1e7:
            ctx.count("est:ill-conditioned-not-compared")
            continue
        beta_m = np.array([[float(x) for x in row] for row in parse_qmat(q["beta"])], dtype=float).reshape(n, K)
        beta_i = np.hstack([r["A"], r["B"]] + ([r["c"].reshape(-1, 1)] if r["c"] is not None else []))
        if not close(beta_i, beta_m):
            ctx.disagree("est-beta", small(case), beta_i.tolist(), beta_m.tolist())
            continue
        u_m = np.array([np.nan if c is None else float(c) for c in ucells], dtype=float).reshape(n, T)
        if not close(r["u"], u_m, scale=max(1.0, float(np.nanmax(np.abs(lhs))) if np.any(np.isfinite(lhs)) else 1.0)):
            ctx.disagree("est-residuals", small(case), r["u"].tolist(), u_m.tolist())
        cov_m = np.array([[float(x) for x in row] for row in parse_qmat(q["cov"])], dtype=float).reshape(n, n)
        if not close(r["cov"], cov_m):
            ctx.disagree("est-cov", small(case), r["cov"].tolist(), cov_m.tolist())
        c_exactly_zero = icpt and bool(np.all(beta_m[:, -1] == 0))   # get_mean switches formula at c == 0 exactly; round-off decides
        if post["mean"][vid] is not None and q["mean"] != "singular" and not c_exactly_zero:
            mu_m = np.array([float(c) for c in parse_cells(q["mean"])])
            Asum = sum(r["A"][:, l * n:(l + 1) * n] for l in range(p))
            if np.linalg.cond(np.eye(n) - Asum) < 1e5:
                if not close(post["mean"][vid], mu_m, tol=1e-6):
                    ctx.disagree("est-mean", small(case), post["mean"][vid].tolist(), mu_m.tolist())
        if "sim" in post and q["sim"] != "none":
            path_m = np.array([[float(x) for x in row] for row in parse_qmat(q["sim"])], dtype=float).reshape(n, cols)
            Tc = np.zeros((n * p, n * p)); Tc[:n, :] = r["A"]
            for i in range(n, n * p):
                Tc[i, i - n] = 1.0
            rho = float(np.max(np.abs(np.linalg.eigvals(Tc))))
            if rho < 1.3:
                if not close(post["sim"][vid], path_m, tol=1e-7 * max(1.0, rho) ** T):
                    ctx.disagree("est-resimulate", small(case), post["sim"][vid].tolist(), path_m.tolist())
        elif "sim_exc" in post and q["sim"] != "none":
            ctx.disagree("est-resimulate", small(case), "raises " + post["sim_exc"], "path")


# ---------------------------------------------------------------------------------------
# streams
# ---------------------------------------------------------------------------------------

def scaled_case(case, e):
    """the same data multiplied by 2**e (exactly representable), default way of calling"""
    f = Fr(2) ** e
    c2 = {k: v for k, v in case.items() if k not in ("gen",)}
    c2["variants"] = [{"Y": [[None if x is None else x * f for x in row] for row in v["Y"]],
                       "X": [[None if x is None else x * f for x in row] for row in v["X"]]} for v in case["variants"]]
    c2["target"] = None; c2["history"] = []; c2["scale_exps"] = []
    return c2


def oracle_scale(ctx: Ctx, case, info, post, e, info_s, post_s):
    """Equivariance of everything the property speaks about under a change of units y, x -> s*y, s*x (s = 2**e):
    A, B and the eigenvalues are invariant, c, residuals, mean and simulations scale by s, covariances by s^2; and, directly in the
    scaled units, the reported mean solves (I - sum A) mu = c with a tolerance relative to the data's own scale (no absolute floor),
    which is what separates an intercept that is small from one that is zero."""
    s = float(Fr(2) ** e)
    n, p = case["n"], case["p"]
    tagc = {"scale": f"2^{e}", **small(case)}
    c2 = scaled_case(case, e)

    def well(cs, vid):
        lhs, rhs, complete = stack(cs, vid)
        Rall = rhs[:, complete]
        return bool(Rall.size and np.linalg.cond(Rall @ Rall.T) < 1e7)
    # with an intercept the regressors [s*y1; s*x; 1] are badly scaled for s far from 1: the normal matrix of the code is then
    # ill conditioned (cond ~ s^-2) and nothing numerical is demanded of the estimate itself -- only of the mean given (A, c)
    well_all = all(well(case, vid) and well(c2, vid) for vid in range(len(case["variants"])))
    ctx.count("est:data-scale-well-conditioned=" + str(well_all))
    if "error" in info_s:
        if well_all:
            ctx.fail("scale-equivariance", tagc, f"estimate succeeds on the data but raises on the same data times 2^{e}: " + info_s["exc"])
        return
    for vid, (r0, r1) in enumerate(zip(info["variants"], info_s["variants"])):
        def cmp(name, a1, a0, k, tol=1e-8):
            if a0 is None or a1 is None:
                return (a0 is None) == (a1 is None)
            a0 = np.asarray(a0, dtype=float); a1 = np.asarray(a1, dtype=float) / s ** k
            if a0.shape != a1.shape or not np.array_equal(np.isfinite(a0), np.isfinite(a1)):
                return False
            fin = np.isfinite(a0)          # inf/NaN cells (division by T_fitted - K = 0, missing data) only have to coincide
            ref = max(1.0, float(np.max(np.abs(a0[fin]))) if np.any(fin) else 1.0)
            return bool(np.all(np.abs(a1[fin] - a0[fin]) <= tol * ref))
        checks = [("A", r1["A"], r0["A"], 0), ("B", r1["B"], r0["B"], 0), ("c", r1["c"], r0["c"], 1), ("residuals", r1["u"], r0["u"], 1),
                  ("cov_residuals", r1["cov"], r0["cov"], 2), ("returned-residuals", r1["u_db"], r0["u_db"], 1)]
        Asum = sum(r0["A"][:, l * n:(l + 1) * n] for l in range(p))
        IA = np.eye(n) - Asum
        mean_ok = bool(np.all(np.isfinite(IA)) and np.linalg.svd(IA, compute_uv=False)[-1] > 1e-4 and np.linalg.cond(IA) < 1e5)
        if mean_ok and post["mean"][vid] is not None:
            checks.append(("mean", post_s["mean"][vid], post["mean"][vid], 1))
        Tc = np.zeros((n * p, n * p)); Tc[:n, :] = r0["A"]
        for i in range(n, n * p):
            Tc[i, i - n] = 1.0
        rho = float(np.max(np.abs(np.linalg.eigvals(Tc)))) if Tc.size else 0.0
        if "sim" in post and "sim" in post_s and rho < 1.2:
            checks.append(("simulation", post_s["sim"][vid], post["sim"][vid], 1, 1e-7 * max(1.0, rho) ** (case["cols"] - p)))
        if rho < 0.95 and post["acov"][vid] is not None and post_s["acov"][vid] is not None:
            checks.append(("acov", np.array(post_s["acov"][vid]), np.array(post["acov"][vid]), 2, 1e-7 / (1 - rho)))
        # (eigenvalues are a function of A, whose invariance is checked; comparing them directly is unsound for the defective
        #  companion matrices that noise-free data produce: perturbations of size eps move them by eps^(1/k))
        for chk in (checks if well_all else []):
            name, a1, a0, k = chk[:4]
            if not cmp(name, a1, a0, k, *(chk[4:])):
                ctx.fail("scale-equivariance-" + name, tagc, f"variant {vid}: {name} of the data times 2^{e} is not 2^({e}*{k}) times {name} of the data")
                break
        # directly, in the scaled units: (I - sum A) mean = c, relative to the size of c itself
        mu1, c1 = post_s["mean"][vid], r1["c"]
        if mean_ok and mu1 is not None and c1 is not None:
            A1sum = sum(r1["A"][:, l * n:(l + 1) * n] for l in range(p))
            resid = (np.eye(n) - A1sum) @ mu1 - c1
            size = max(float(np.max(np.abs(c1))), float(np.max(np.abs(mu1))))
            # an intercept that is round-off of the data scale is not a number to hold the mean to
            if np.all(np.isfinite(c1)) and np.all(np.isfinite(mu1)) and np.linalg.svd(np.eye(n) - A1sum, compute_uv=False)[-1] > 1e-4 \
                    and float(np.max(np.abs(c1))) > 1e-9 * s and float(np.max(np.abs(resid))) > 1e-7 * size:
                ctx.fail("mean", tagc, f"variant {vid}: in units 2^{e}, (I - sum A_i) mean != c: c = {c1.tolist()}, mean = {mu1.tolist()}")
        ctx.nontriv(("scale", e, n, case["m"], p, case["icpt"]))


def merge_line(target_keys, out_names):
    return " ".join(["merge", "-" if target_keys is None else "T"] + [f"{k}:t" for k in (target_keys or [])] + ["|"] + [f"{k}:o" for k in out_names])


def do_est_cases(ctx: Ctx, cases, with_model=True):
    # one request per case: a multi-variant case goes through the model's variant loop (`estv`, variants separated by `||`)
    lines = []
    for ci, case in enumerate(cases):
        per = [est_line(case, vid) for vid in range(len(case["variants"]))]
        lines.append(per[0] if len(per) == 1 else "estv " + " || ".join(l[len("est "):] for l in per))
    raw = ctx.model("C18", lines) if with_model else None
    replies = None
    if raw is not None:
        replies = []
        for case, rep in zip(cases, raw):
            nv_ = len(case["variants"])
            parts = rep.split(" || ") if nv_ > 1 else [rep]
            if len(parts) != nv_:
                parts = [rep] * nv_          # bad-op or a wrong number of results: every variant then disagrees below
            else:
                ctx.streams_compared["est-variant-loop"] = ctx.streams_compared.get("est-variant-loop", 0) + (nv_ if nv_ > 1 else 0)
            replies += parts
    merge_cases = []
    k = 0
    for ci, case in enumerate(cases):
        nv = len(case["variants"])
        info = run_impl_est(case)
        post = impl_post(case, info) if "error" not in info else {}
        ctx.evaluations += nv
        ctx.count(f"est:n={case['n']},m={case['m']},p={case['p']}")
        ctx.count("est:intercept=" + str(case["icpt"])); ctx.count("est:dof=" + str(case["dof"]))
        ctx.count("est:priors=" + ("none" if case["priors"] is None else "+".join(pr["kind"] for pr in case["priors"])))
        ctx.count("est:variants=" + str(nv)); ctx.count("est:kind=" + case["kind"])
        ctx.count("est:target_db=" + str(case.get("target"))); ctx.count("est:history=" + ("+".join(case.get("history") or []) or "none"))
        nmiss = sum(1 for v in case["variants"] for row in v["Y"] + v["X"] for x in row if x is None)
        ctx.count("est:missing-cells=" + str(min(nmiss, 3)))
        oracle_est(ctx, case, info, post)
        if "error" not in info:
            for e in case.get("scale_exps") or []:
                c2 = scaled_case(case, e)
                info_s = run_impl_est(c2)
                post_s = impl_post(c2, info_s) if "error" not in info_s else {}
                ctx.evaluations += 1
                ctx.count(f"est:data-scale=2^{e}")
                oracle_scale(ctx, case, info, post, e, info_s, post_s)
        if "merge" in info:
            en_, xn_ = names_of(case["n"], case["m"])
            merge_cases.append((case, info["merge"], en_ + xn_ + ["res_" + nm for nm in en_]))
        if replies is not None:
            compare_est(ctx, case, info, post, replies[k:k + nv])
        k += nv
        if ci < 2:
            ctx.sample({"stream": "est", "case": {kk: vv for kk, vv in case.items() if kk != "gen"},
                        "implementation": "error " + info["error"] if "error" in info else
                        {"A": info["variants"][0]["A"].round(6).tolist(), "mask": info["variants"][0]["mask"]}})


    # what estimate(target_db=...) returns, as a finite map: the model's estimateReturn on (target names, produced names)
    if with_model and merge_cases:
        mlines = [merge_line(mo["target_keys"], names) for _, mo, names in merge_cases]
        mrep = ctx.model("C18", mlines)
        if mrep is not None:
            ctx.streams_compared["estimate-return"] = ctx.streams_compared.get("estimate-return", 0) + len(mlines)
            for (case, mo, names), rep in zip(merge_cases, mrep):
                impl = " ".join(f"{k}:{t}" for k, t in mo["returned"])
                if impl != rep and len([d for d in ctx.disagreements if d["stream"] == "estimate-return"]) < 10:
                    ctx.disagree("estimate-return", small(case), impl, rep)


def do_union_cases(ctx: Ctx, n_cases, with_model=True):
    """Databox `left | right` on random small databoxes against the model's dbUnion (exact, key order included)"""
    rng = ctx.rng.fork("union")
    keys = ["a", "b", "c", "d", "e", "res_a"]
    lines, impl = [], []
    for _ in range(n_cases):
        lk = rng.sample(keys, rng.randint(0, 5)); rk = rng.sample(keys, rng.randint(0, 5))
        left = ir.Databox(); right = ir.Databox()
        for k in lk:
            left[k] = "L" + k
        for k in rk:
            right[k] = "R" + k
        u = left | right
        impl.append(" ".join(f"{k}:{u[k]}" for k in u.keys()))
        lines.append(" ".join(["merge", "T"] + [f"{k}:L{k}" for k in lk] + ["|"] + [f"{k}:R{k}" for k in rk]))
        ctx.evaluations += 1
        # oracle (dict semantics from the statement "fresh results override, the rest is carried over")
        if {k: u[k] for k in u.keys()} != {**{k: "L" + k for k in lk}, **{k: "R" + k for k in rk}} or list(left.keys()) != lk or list(right.keys()) != rk:
            ctx.fail("databox-union", {"op": "union", "left": lk, "right": rk}, "left | right is not 'right wins, rest carried over, operands untouched'")
    if with_model:
        rep = ctx.model("C18", lines)
        if rep is not None:
            ctx.compare("databox-union", lines, impl, rep)


def do_sim_cases(ctx: Ctx, cases, with_model=True):
    lines, slot = [], []
    for c in cases:
        slot.append(len(lines))
        lines.append(sim_line(c))
        if "dev" in (c.get("calls") or []):
            lines.append(sim_dev_line(c))
    replies = ctx.model("C18", lines) if with_model else None
    impl_out = []
    for ci, case in enumerate(cases):
        ctx.evaluations += 1
        n, m, p, cols = case["n"], case["m"], case["p"], case["cols"]
        calls = case.get("calls") or ["ord"]
        ctx.count(f"sim:p={p},exog={'yes' if m else 'no'}")
        ctx.count("sim:calls=" + "+".join(calls))
        try:
            outs = run_impl_sim(case)
            shown = [(call, show_exact(path)) for call, path in outs]
        except Exception as e:
            outs = None
            shown = [("ord", "err:bad " + repr(e)[:200])]
        impl_out.append(shown)
        # property: with residuals defined as data minus fit, the (ordinary) simulation returns the data (exactly: dyadic inputs),
        # at every call, whatever was called on the object before
        if case["exact_resid"]:
            Y = np.array(case["Y"], dtype=float)
            if outs is None:
                ctx.fail(sim_raise_site(m, p, shown[0][1]), case, "RedVAR.simulate raised: " + shown[0][1])
            else:
                for k, (call, path) in enumerate(outs):
                    if call == "ord" and not np.array_equal(path, Y):
                        site = "simulate-initial-condition" if (p > 1 and k == 0) else "simulate-reproduces-data"
                        ctx.fail(site, case, f"call {k + 1} of {calls}: simulation with residuals = data - fit does not return the data: "
                                 f"first differing column {int(np.argmax(np.any(path != Y, axis=0)))}")
                        break
            ctx.nontriv(("sim-exact", n, m, p, case["t1"] - case["t0"] + 1, tuple(calls)))
        if ci < 1:
            ctx.sample({"stream": "sim", "case": case, "implementation": shown[-1][1]})
    if replies is not None:
        ctx.streams_compared["sim"] = ctx.streams_compared.get("sim", 0) + len(cases)
        for ci, (case, shown) in enumerate(zip(cases, impl_out)):
            for call, a in shown:
                b = replies[slot[ci]] if call == "ord" else replies[slot[ci] + 1]
                stream = "sim" if call == "ord" else "sim-deviation"
                if call == "dev":
                    ctx.streams_compared[stream] = ctx.streams_compared.get(stream, 0) + 1
                if a.startswith("err") or canon_qmat_text(a) != canon_qmat_text(b):
                    if len([d for d in ctx.disagreements if d["stream"] == stream]) < 10:
                        ctx.disagree(stream, case, a[:300], b[:300])
                    break


def comph_line(case):
    ws = ["comph", case["n"], case["p"], int(case["icpt"])] + [x for row in case["A"] for x in row]
    if case["icpt"]:
        ws += case["c"]
    ws += [int(bool(d)) for d in (case.get("calls") or [False])]
    return " ".join(str(w) for w in ws)


def do_comp_cases(ctx: Ctx, cases, with_model=True):
    lines = [comp_line(c) for c in cases]
    replies = ctx.model("C18", lines) if with_model else None
    hreplies = ctx.model("C18", [comph_line(c) for c in cases]) if with_model else None
    for ci, case in enumerate(cases):
        ctx.evaluations += 1
        n, p = case["n"], case["p"]
        A = np.array([[float(Fr(x)) for x in row] for row in case["A"]], dtype=float).reshape(n, n * p)
        c = None if case["c"] is None else np.array([float(Fr(x)) for x in case["c"]])
        var = Variant(A=A, B=np.zeros((n, 0)), c=c, cov_residuals=np.eye(n))
        # successive requests on ONE variant, ordinary and deviation mode; the reported companion form must be [A; I 0], [c; 0]
        # at every ordinary request and have a zero constant at every deviation request
        Kwant = np.zeros(n * p)
        if c is not None:
            Kwant[:n] = c
        calls = case.get("calls") or [False]
        ctx.count("comp:calls=" + "+".join("dev" if d else "ord" for d in calls))
        sol = None
        hist = []
        for k, dev in enumerate(calls):
            sk = var._get_companion_solution(deviation=dev)
            hist.append("T=" + canon_qmat_text(show_exact(np.array(sk.T))) + ";K=" + " ".join(str(Fr(rat_of_float(x))) for x in np.array(sk.K)))
            if not np.array_equal(np.array(sk.K), np.zeros(n * p) if dev else Kwant):
                ctx.fail("companion-form", case, f"request {k + 1} of {['dev' if d else 'ord' for d in calls]}: companion K = "
                         f"{np.array(sk.K).tolist()}, expected {'zeros' if dev else Kwant.tolist()}")
                break
            if not dev:
                sol = sk
        if sol is None:
            sol = var._get_companion_solution()
        Tt = show_exact(np.array(sol.T)); Kt = " ".join(rat_of_float(x) for x in np.array(sol.K))
        Asum = sum(A[:, l * n:(l + 1) * n] for l in range(p))
        IA = np.eye(n) - Asum
        cvec = np.zeros(n) if c is None else c
        try:
            mu = np.array(var.get_mean())
        except Exception as e:
            mu = None
            if abs(np.linalg.det(IA)) > 1e-9:
                ctx.fail("mean-raises", case, repr(e)[:200])
        # oracle: the mean solves (I - sum A) mu = c
        if mu is not None and abs(np.linalg.det(IA)) > 1e-6 and np.max(np.abs(IA @ mu - cvec)) > 1e-9 * max(np.max(np.abs(cvec)), np.max(np.abs(mu))) \
                and np.linalg.cond(IA) < 1e6:
            ctx.fail("mean", case, f"(I - sum A_i) mean != c (relative to the size of c): c = {cvec.tolist()}, mean = {mu.tolist()}")
        ctx.nontriv(("comp", n, p, case["icpt"], bool(c is not None and np.any(c != 0))))
        if hreplies is not None:
            # the request history replayed on the model's state machine, request by request
            ctx.streams_compared["comp-history"] = ctx.streams_compared.get("comp-history", 0) + len(calls)
            mh = []
            for seg in hreplies[ci].split(" | "):
                q_ = dict(part.partition("=")[::2] for part in seg.split(";"))
                mh.append("T=" + canon_qmat_text(q_.get("T", "0 0")) + ";K=" + " ".join(str(Fr(x)) for x in q_.get("K", "").split()))
            if mh != hist and len([d for d in ctx.disagreements if d["stream"] == "comp-history"]) < 10:
                ctx.disagree("comp-history", case, " | ".join(hist)[:400], " | ".join(mh)[:400])
        if replies is not None:
            ctx.streams_compared["comp"] = ctx.streams_compared.get("comp", 0) + 1
            q = dict(part.partition("=")[::2] for part in replies[ci].split(";"))
            if canon_qmat_text(Tt) != canon_qmat_text(q.get("T", "")) or [Fr(x) for x in Kt.split()] != [Fr(x) for x in q.get("K", "").split()]:
                ctx.disagree("comp", case, Tt + ";" + Kt, replies[ci][:300])
            elif q.get("mean") == "singular":
                if mu is not None and np.all(np.isfinite(mu)) and abs(np.linalg.det(IA)) > 1e-9:
                    ctx.disagree("comp-mean", case, mu.tolist(), "singular")
            elif mu is not None:
                mu_m = np.array([float(Fr(x)) for x in q["mean"].split()])
                if np.linalg.cond(IA) < 1e8 and not close(mu, mu_m, scale=max(float(np.max(np.abs(mu_m))), 1e-300), tol=1e-9 * max(1.0, np.linalg.cond(IA))):
                    ctx.disagree("comp-mean", case, mu.tolist(), mu_m.tolist())


def gen_est_case_nf(rng):
    """noise-free case with its generating VAR attached (one generator per variant)"""
    n = rng.weighted([(1, 3), (2, 4), (3, 2)]); m = rng.weighted([(0, 2), (1, 4), (2, 2)]); p = rng.weighted([(1, 4), (2, 3), (3, 1)])
    icpt = rng.chance(0.7); dof = rng.chance(0.3)
    K = n * p + m + int(icpt)
    cols = p + K + rng.randint(2, 8)
    nvar = 2 if rng.chance(0.2) else 1
    variants, gens = [], []
    for _ in range(nvar):
        Y, X = noise_free_data(rng, n, m, p, icpt, cols)
        variants.append({"Y": Y, "X": X}); gens.append(noise_free_data.last)
    case = {"op": "est", "kind": "noisefree", "n": n, "m": m, "p": p, "icpt": icpt, "dof": dof, "cols": cols,
            "variants": variants, "priors": None, "gen": gens}
    add_options(rng, case)
    return case


def all_cases(ctx: Ctx, scale=1):
    rng = ctx.rng.fork("est")
    est = [gen_est_case(rng.fork("c")) for _ in range(ctx.n(300, 6000) * scale)]
    est += [gen_est_case_nf(rng.fork("nf")) for _ in range(ctx.n(100, 1500) * scale)]
    rng = ctx.rng.fork("sim")
    sim = [gen_sim_case(rng.fork("s")) for _ in range(ctx.n(300, 6000) * scale)]
    rng = ctx.rng.fork("comp")
    comp = [gen_comp_case(rng.fork("k")) for _ in range(ctx.n(150, 2000) * scale)]
    return est, sim, comp


def corpus_cases():
    out = []
    for path in sorted(glob.glob(os.path.join(VERIF, "corpus", "C18", "*.json"))):
        out.append(json.load(open(path)))
    return out


def dispatch(ctx: Ctx, cases, with_model=True):
    est = [c for c in cases if c.get("op") == "est"]
    sim = [c for c in cases if c.get("op") == "sim"]
    comp = [c for c in cases if c.get("op") == "comp"]
    if est:
        do_est_cases(ctx, est, with_model)
    if sim:
        do_sim_cases(ctx, sim, with_model)
    if comp:
        do_comp_cases(ctx, comp, with_model)


def run(ctx: Ctx):
    ctx.rule = ("est: random integer data sets (1-3 endogenous, 0-2 exogenous variables, order 1-3, intercept on/off, dof on/off, 0-3 missing cells, "
                "Minnesota/mean prior dummies, 1-2 variants) and noise-free data generated by integer VARs; sim: dyadic coefficient matrices set "
                "directly, horizons 1-6, residuals either arbitrary or defined as data minus fit; comp: companion matrices and mean from dyadic "
                "coefficients. distinct_nontrivial counts distinct (n, m, p, intercept, dof, prior kinds, has-missing-rows, variants) estimation "
                "classes that were estimated successfully, distinct noise-free and simulate-reproduces-data classes, and distinct (n, m, p, horizon) "
                "exact simulations")
    dispatch(ctx, [p["case"] for p in corpus_cases() if isinstance(p.get("case"), dict)])
    est, sim, comp = all_cases(ctx)
    do_est_cases(ctx, est)
    do_sim_cases(ctx, sim)
    do_comp_cases(ctx, comp)
    do_union_cases(ctx, ctx.n(150, 1500))


def search(ctx: Ctx, seeds):
    """failing-input search on the real code when a tie broke: the oracles alone, bigger budget, seeded by the disagreements"""
    dispatch(ctx, [c for c in seeds if isinstance(c, dict)], with_model=False)
    ctx.tier = "thorough" if ctx.tier == "thorough" else "quick"
    est, sim, comp = all_cases(ctx, scale=4 if ctx.quick else 1)
    do_est_cases(ctx, est, with_model=False)
    do_sim_cases(ctx, sim, with_model=False)
    do_comp_cases(ctx, comp, with_model=False)


def replay(ctx: Ctx, payload):
    case = payload.get("case")
    if isinstance(case, dict) and "op" in case:
        dispatch(ctx, [case])
    else:
        for d in payload.get("disagreements", []):
            if isinstance(d.get("case"), dict):
                dispatch(ctx, [d["case"]])
