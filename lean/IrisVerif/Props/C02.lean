/-
C02 — Jacobians from algorithmic differentiation equal the true derivatives.

Property theorems about the model `IrisVerif.AD` (`Model/Expr.lean`), whose arithmetic is the rules of
`irispie.aldi.differentiators.Atom` as regenerated into `Generated/AtomGen.lean` on every run.

Reading guide
* `Sound r F`: the result `r` of the AD walk is right for the function `F` of a perturbation parameter `u` at `u = 0`:
  a plain number is the constant value of `F`; an Atom `(v, d)` has `F 0 = v` and `F` has derivative `d` at `0`.
* `adEval_sound`: for EVERY expression tree, every log-status assignment, every seed function, every admissible
  point: the walk returns the value and the derivative of `u ↦ eval (data perturbed by u) e` at `0`, where the
  perturbation moves every non-log token at the rate of its seed and the LOGARITHM of every log token at the rate of
  its seed.  With the system seed of direction `j` exactly one token moves at unit rate (`∂/∂x_j`, `∂/∂log x_j` for a
  log-variable); with the flat steady seed all shifts of one quantity move together; with the non-flat seed `(1, shift)`
  the level and the change of the quantity move.
* two rules are false in the code this was written against (`Atom.sqrt`, `Atom.maximum` with an Atom floor): the
  theorem takes their correct formulas as hypotheses for the trees that use them (`SqrtFormula`, `MaxFloorFormula`),
  `*_sound_iff_formula` shows these hypotheses are exactly soundness, and `*_formula_or_refuted` records — for the
  generated code of this run — that the rule either IS the correct formula or is refuted by a concrete witness.
* functions with no `Atom` method end in `Err.typeError` (`*_rejected`).
* placement: `offsetsFrom_getElem`, `rawMapAux_mem`, `lagged_excludes_vector` …
-/
import IrisVerif.Lemmas.ADRules
import IrisVerif.Lemmas.ADMaps
import IrisVerif.Lemmas.ADSystem
import Mathlib.Analysis.Calculus.FDeriv.Prod
import Mathlib.Analysis.Calculus.Deriv.Prod
import Mathlib.Analysis.Calculus.Deriv.Comp
import Mathlib.LinearAlgebra.Pi

namespace IrisVerif.C02
open IrisVerif.AD IrisVerif.Gen

/-! ### the dispatch tables, as generated -/

theorem has_add : hasMethod "__add__" = true := by decide
theorem has_sub : hasMethod "__sub__" = true := by decide
theorem has_mul : hasMethod "__mul__" = true := by decide
theorem has_truediv : hasMethod "__truediv__" = true := by decide
theorem has_pow : hasMethod "__pow__" = true := by decide
theorem has_radd : hasMethod "__radd__" = true := by decide
theorem has_rsub : hasMethod "__rsub__" = true := by decide
theorem has_rmul : hasMethod "__rmul__" = true := by decide
theorem has_rtruediv : hasMethod "__rtruediv__" = true := by decide
/-- there is no reflected power: `number ** Atom` raises -/
theorem no_rpow : hasMethod "__rpow__" = false := by decide
theorem has_neg : hasMethod "__neg__" = true := by decide
theorem has_pos : hasMethod "__pos__" = true := by decide
theorem has_log : hasMethod "log" = true := by decide
theorem has_exp : hasMethod "exp" = true := by decide
theorem has_sqrt : hasMethod "sqrt" = true := by decide
theorem has_logistic : hasMethod "logistic" = true := by decide
theorem has_maximum : hasMethod "maximum" = true := by decide
theorem no_abs : hasMethod "abs" = false := by decide
theorem no_normal_cdf : hasMethod "normal_cdf" = false := by decide
theorem no_normal_pdf : hasMethod "normal_pdf" = false := by decide
/-- the method is spelt `mininum` in the code: `minimum` does not reach it -/
theorem no_minimum : hasMethod "minimum" = false := by decide

theorem res_add : resolve "__add__" = "__add__" := by decide
theorem res_sub : resolve "__sub__" = "__sub__" := by decide
theorem res_mul : resolve "__mul__" = "__mul__" := by decide
theorem res_truediv : resolve "__truediv__" = "__truediv__" := by decide
theorem res_pow : resolve "__pow__" = "__pow__" := by decide
theorem res_radd : resolve "__radd__" = "__add__" := by decide
theorem res_rmul : resolve "__rmul__" = "__mul__" := by decide
theorem res_rsub : resolve "__rsub__" = "__rsub__" := by decide
theorem res_rtruediv : resolve "__rtruediv__" = "__rtruediv__" := by decide

/-- the functions offered to equations are exactly these nine -/
theorem offered_functions :
    Atom.offered = ["log", "exp", "sqrt", "abs", "logistic", "normal_cdf", "normal_pdf", "maximum", "minimum"] := rfl

/-! ### soundness of one step of the walk -/

/-- what an evaluation result claims about the function `F` of the perturbation (at `0`) -/
def Sound (r : Val ℝ) (F : ℝ → ℝ) : Prop :=
  match r with
  | .num v => ∀ u, F u = v
  | .atom v d => Rep v d F 0

/-- domain guards of the binary steps, on the operands the walk has computed. Two kinds of conjunct: what the calculus needs (non-zero
    divisor, positive base of `atom ** atom`, `base ≠ 0 ∨ 1 ≤ exponent`) and what keeps the real-number meaning of the model equal to
    numpy's (`x / 0` is `0` in `ℝ` but `inf` in numpy; `Real.rpow` of a negative base with a non-integer exponent is a number, numpy's is
    NaN): without the second kind the theorems would hold at points where `eval` is not what the code computes -/
def binGuard : BinOp → Val ℝ → Val ℝ → Prop
  | .div, .atom _ _, .atom ov _ => ov ≠ 0
  | .div, .num _, .atom sv _ => sv ≠ 0
  | .div, .atom _ _, .num o => o ≠ 0
  | .div, .num _, .num o => o ≠ 0
  | .pow, .atom sv _, .atom _ _ => 0 < sv
  | .pow, .atom sv _, .num o => (0 < sv ∨ ∃ n : ℤ, o = n) ∧ (sv ≠ 0 ∨ 1 ≤ o)
  | .pow, .num a, .num o => 0 < a ∨ ((∃ n : ℤ, o = n) ∧ (a ≠ 0 ∨ 0 ≤ o))
  | _, _, _ => True

/-- positive argument of `log`, positive (non-negative for a plain number) argument of `sqrt`: numpy's domain, and differentiability -/
def fn1Guard : Fn1 → Val ℝ → Prop
  | .log, .atom sv _ => 0 < sv
  | .log, .num a => 0 < a
  | .sqrt, .atom sv _ => 0 < sv
  | .sqrt, .num a => 0 ≤ a
  | _, _ => True

/-- away from the kink -/
def fn2Guard : Fn2 → Val ℝ → Val ℝ → Prop
  | .maximum, .atom sv _, .atom ov _ => sv ≠ ov
  | .maximum, .atom sv _, .num o => sv ≠ o
  | _, _, _ => True

/-- the correct `sqrt` rule (the code this was written against has `0.5 / sqrt(self.diff)`) -/
def SqrtFormula : Prop :=
  ∀ sv sd : ℝ, 0 < sv → Atom.sqrt_value sv sd = Real.sqrt sv ∧ Atom.sqrt_diff sv sd = sd / (2 * Real.sqrt sv)

/-- the correct `maximum` rule for an Atom floor, away from the kink (the code ignores the floor's derivative) -/
def MaxFloorFormula : Prop :=
  ∀ sv sd ov od : ℝ, sv ≠ ov → Atom.maximum_aa_diff sv sd ov od = if sv < ov then od else sd

theorem applyAA_add (sv sd ov od : ℝ) : applyAA "__add__" sv sd ov od =
    .ok (.atom (Atom.add_aa_value sv sd ov od) (Atom.add_aa_diff sv sd ov od)) := by simp [applyAA]
theorem applyAA_sub (sv sd ov od : ℝ) : applyAA "__sub__" sv sd ov od =
    .ok (.atom (Atom.sub_aa_value sv sd ov od) (Atom.sub_aa_diff sv sd ov od)) := by simp [applyAA]
theorem applyAA_mul (sv sd ov od : ℝ) : applyAA "__mul__" sv sd ov od =
    .ok (.atom (Atom.mul_aa_value sv sd ov od) (Atom.mul_aa_diff sv sd ov od)) := by simp [applyAA]
theorem applyAA_truediv (sv sd ov od : ℝ) : applyAA "__truediv__" sv sd ov od =
    .ok (.atom (Atom.truediv_aa_value sv sd ov od) (Atom.truediv_aa_diff sv sd ov od)) := by simp [applyAA]
theorem applyAA_pow (sv sd ov od : ℝ) : applyAA "__pow__" sv sd ov od =
    .ok (.atom (Atom.pow_aa_value sv sd ov od) (Atom.pow_aa_diff sv sd ov od)) := by simp [applyAA]
theorem applyAN_add (sv sd o : ℝ) : applyAN "__add__" sv sd o =
    .ok (.atom (Atom.add_an_value sv sd o) (Atom.add_an_diff sv sd o)) := by simp [applyAN]
theorem applyAN_sub (sv sd o : ℝ) : applyAN "__sub__" sv sd o =
    .ok (.atom (Atom.sub_an_value sv sd o) (Atom.sub_an_diff sv sd o)) := by simp [applyAN]
theorem applyAN_mul (sv sd o : ℝ) : applyAN "__mul__" sv sd o =
    .ok (.atom (Atom.mul_an_value sv sd o) (Atom.mul_an_diff sv sd o)) := by simp [applyAN]
theorem applyAN_truediv (sv sd o : ℝ) : applyAN "__truediv__" sv sd o =
    .ok (.atom (Atom.truediv_an_value sv sd o) (Atom.truediv_an_diff sv sd o)) := by simp [applyAN]
theorem applyAN_pow (sv sd o : ℝ) : applyAN "__pow__" sv sd o =
    .ok (.atom (Atom.pow_an_value sv sd o) (Atom.pow_an_diff sv sd o)) := by simp [applyAN]
theorem applyAN_rsub (sv sd o : ℝ) : applyAN "__rsub__" sv sd o =
    .ok (.atom (Atom.rsub_value sv sd o) (Atom.rsub_diff sv sd o)) := by simp [applyAN]
theorem applyAN_rtruediv (sv sd o : ℝ) : applyAN "__rtruediv__" sv sd o =
    .ok (.atom (Atom.rtruediv_value sv sd o) (Atom.rtruediv_diff sv sd o)) := by simp [applyAN]

/-- every binary step of the walk is sound under its guard (all 5 operators × 4 operand kinds) -/
theorem binop_sound {op : BinOp} {x y r : Val ℝ} {F G : ℝ → ℝ}
    (h : binop op x y = .ok r) (hx : Sound x F) (hy : Sound y G) (hg : binGuard op x y) :
    Sound r (fun u => evalBin op (F u) (G u)) := by
  cases op <;> cases x <;> cases y <;>
    simp only [binop, BinOp.dunder, BinOp.rdunder, has_add, has_sub, has_mul, has_truediv, has_pow, has_radd, has_rsub,
      has_rmul, has_rtruediv, no_rpow, res_add, res_sub, res_mul, res_truediv, res_pow, res_radd, res_rmul, res_rsub,
      res_rtruediv, applyAA_add, applyAA_sub, applyAA_mul, applyAA_truediv, applyAA_pow, applyAN_add, applyAN_sub,
      applyAN_mul, applyAN_truediv, applyAN_pow, applyAN_rsub, applyAN_rtruediv, if_true, Bool.false_eq_true,
      if_false, Except.ok.injEq, reduceCtorEq] at h <;>
    first
    | exact h.elim
    | (subst h
       first
       | (intro u; simp only [evalBin, hx u, hy u])
       | exact add_aa_sound hx hy
       | exact add_an_sound hx hy
       | exact radd_sound hy hx
       | exact sub_aa_sound hx hy
       | exact sub_an_sound hx hy
       | exact rsub_sound hy hx
       | exact mul_aa_sound hx hy
       | exact mul_an_sound hx hy
       | exact rmul_sound hy hx
       | exact truediv_aa_sound hx hy hg
       | exact truediv_an_sound hx hy
       | exact rtruediv_sound hy hx hg
       | exact pow_aa_sound hx hy hg
       | exact pow_an_sound hx hy hg.2)

theorem unop_sound {b : Bool} {x r : Val ℝ} {F : ℝ → ℝ} (h : unop b x = .ok r) (hx : Sound x F) :
    Sound r (fun u => if b then -(F u) else F u) := by
  cases x <;> cases b <;>
    simp only [unop, has_neg, has_pos, if_true, Bool.false_eq_true, if_false, Except.ok.injEq] at h <;> subst h
  · intro u; simp [hx u]
  · intro u; simp [hx u]
  · simp only [Bool.false_eq_true, if_false]; exact pos_sound hx
  · simp only [if_true]; exact neg_sound hx

theorem sqrt_sound_of_formula (H : SqrtFormula) {f : ℝ → ℝ} {x sv sd : ℝ} (hf : Rep sv sd f x) (h0 : 0 < sv) :
    Rep (Atom.sqrt_value sv sd) (Atom.sqrt_diff sv sd) (fun y => Real.sqrt (f y)) x := by
  obtain ⟨hv, hd⟩ := H sv sd h0
  rw [hv, hd]
  exact ⟨by rw [hf.val], sqrt_hasDerivAt hf h0⟩

theorem maximum_aa_sound_of_formula (H : MaxFloorFormula) {f g : ℝ → ℝ} {x sv sd ov od : ℝ}
    (hf : Rep sv sd f x) (hg : Rep ov od g x) (hne : sv ≠ ov) :
    Rep (Atom.maximum_aa_value sv sd ov od) (Atom.maximum_aa_diff sv sd ov od) (fun y => max (f y) (g y)) x := by
  rw [H sv sd ov od hne, maximum_aa_value_eq]
  exact ⟨by rw [hf.val, hg.val], max_hasDerivAt hf hg hne⟩

/-- the plain meaning of the one-argument functions, at `ℝ` -/
theorem call1_sound {ext : Fn1 → ℝ → ℝ} {f : Fn1} {x r : Val ℝ} {F : ℝ → ℝ}
    (hS : f = .sqrt → SqrtFormula)
    (h : call1 ext f x = .ok r) (hx : Sound x F) (hg : fn1Guard f x) :
    Sound r (fun u => evalFn1 ext f (F u)) := by
  cases x with
  | num a =>
    simp only [call1, Except.ok.injEq] at h
    subst h
    intro u
    simp only [hx u]
  | atom sv sd =>
    cases f <;>
      simp only [call1, Fn1.name, has_log, has_exp, has_sqrt, has_logistic, no_abs, no_normal_cdf, no_normal_pdf, if_true,
        Bool.false_eq_true, if_false, Except.ok.injEq, reduceCtorEq] at h
    · subst h; exact log_sound hx (ne_of_gt hg)
    · subst h; exact exp_sound hx
    · subst h; exact sqrt_sound_of_formula (hS rfl) hx hg
    · subst h; exact logistic_sound hx

theorem evalFn2_max (a b : ℝ) : evalFn2 .maximum a b = max a b := by
  simp only [evalFn2, adfun_ltb, decide_eq_true_eq]
  split
  · rename_i h; exact (max_eq_right (le_of_lt h)).symm
  · rename_i h; exact (max_eq_left (not_lt.mp h)).symm

theorem call2_sound {f : Fn2} {x y r : Val ℝ} {F G : ℝ → ℝ}
    (hM : f = .maximum → MaxFloorFormula)
    (h : call2 f x y = .ok r) (hx : Sound x F) (hy : Sound y G) (hg : fn2Guard f x y) :
    Sound r (fun u => evalFn2 f (F u) (G u)) := by
  cases x with
  | num a =>
    cases y with
    | num b =>
      simp only [call2, Except.ok.injEq] at h
      subst h
      intro u
      simp only [hx u, hy u]
    | atom ov od => simp [call2] at h
  | atom sv sd =>
    cases f with
    | minimum => simp [call2, Fn2.name, no_minimum] at h
    | maximum =>
      have e : (fun u => evalFn2 .maximum (F u) (G u)) = fun u => max (F u) (G u) := by
        funext u; exact evalFn2_max _ _
      rw [e]
      cases y with
      | num o =>
        simp only [call2, Fn2.name, has_maximum, if_true, Except.ok.injEq] at h
        subst h
        exact maximum_an_sound hx hy hg
      | atom ov od =>
        simp only [call2, Fn2.name, has_maximum, if_true, Except.ok.injEq] at h
        subst h
        exact maximum_aa_sound_of_formula (hM rfl) hx hy hg

/-! ### the whole walk, by induction on the tree -/

/-- the tree contains a call of `sqrt` -/
def UsesSqrt : Expr ℝ → Prop
  | .const _ => False
  | .tok _ _ => False
  | .neg e => UsesSqrt e
  | .pos e => UsesSqrt e
  | .bin _ a b => UsesSqrt a ∨ UsesSqrt b
  | .call1 f a => f = .sqrt ∨ UsesSqrt a
  | .call2 _ a b => UsesSqrt a ∨ UsesSqrt b

/-- the tree contains a call of `maximum` -/
def UsesMaximum : Expr ℝ → Prop
  | .const _ => False
  | .tok _ _ => False
  | .neg e => UsesMaximum e
  | .pos e => UsesMaximum e
  | .bin _ a b => UsesMaximum a ∨ UsesMaximum b
  | .call1 _ a => UsesMaximum a
  | .call2 f a b => f = .maximum ∨ UsesMaximum a ∨ UsesMaximum b

/-- admissible evaluation point: the guard of every rule the walk uses holds on the operands it computes
    (non-zero divisors, positive arguments of log/sqrt, positive base of `atom ** atom`, away from the kinks) -/
def Admissible (c : Ctx ℝ) : Expr ℝ → Prop
  | .const _ => True
  | .tok _ _ => True
  | .neg e => Admissible c e
  | .pos e => Admissible c e
  | .bin op a b => Admissible c a ∧ Admissible c b ∧
      ∀ x y, adEval c a = .ok x → adEval c b = .ok y → binGuard op x y
  | .call1 f a => Admissible c a ∧ ∀ x, adEval c a = .ok x → fn1Guard f x
  | .call2 f a b => Admissible c a ∧ Admissible c b ∧
      ∀ x y, adEval c a = .ok x → adEval c b = .ok y → fn2Guard f x y

theorem bind_ok {ε α β : Type} {x : Except ε α} {f : α → Except ε β} {r : β}
    (h : (x >>= f) = .ok r) : ∃ a, x = .ok a ∧ f a = .ok r := by
  cases x with
  | error e => simp [bind, Except.bind] at h
  | ok a => exact ⟨a, rfl, by simpa [bind, Except.bind] using h⟩

/-- **Main theorem.** For every tree, log-status assignment, seed function and admissible point, the operator-overloading
walk returns the value of the expression and the derivative, at `u = 0`, of the expression evaluated on data in which
every token `(q, s)` is the function `u ↦ data u q s` — provided each token's own derivative at `0` is what
`Atom.diff` (the generated `diffProp`) says: the seed, times the value for a log-variable. -/
theorem adEval_sound (data : ℝ → Nat → Int → ℝ) (seed : Nat → Int → ℝ) (logly : Nat → Bool) (ext : Fn1 → ℝ → ℝ)
    (htok : ∀ q s, HasDerivAt (fun u => data u q s) (Atom.diffProp (seed q s) (data 0 q s) (logly q)) 0)
    (e : Expr ℝ) (hS : UsesSqrt e → SqrtFormula) (hM : UsesMaximum e → MaxFloorFormula)
    (hadm : Admissible ⟨data 0, seed, logly, ext⟩ e) (r : Val ℝ)
    (h : adEval ⟨data 0, seed, logly, ext⟩ e = .ok r) :
    Sound r (fun u => eval ⟨data u, seed, logly, ext⟩ e) := by
  induction e generalizing r with
  | const k =>
    simp only [adEval, Except.ok.injEq] at h
    subst h
    intro u; rfl
  | tok q s =>
    simp only [adEval, Except.ok.injEq] at h
    subst h
    exact ⟨rfl, htok q s⟩
  | neg e ih =>
    simp only [adEval] at h
    obtain ⟨x, hx, hr⟩ := bind_ok h
    have := unop_sound hr (ih hS hM hadm x hx)
    simpa [eval] using this
  | pos e ih =>
    simp only [adEval] at h
    obtain ⟨x, hx, hr⟩ := bind_ok h
    have := unop_sound hr (ih hS hM hadm x hx)
    simpa [eval] using this
  | bin op a b iha ihb =>
    simp only [adEval] at h
    obtain ⟨x, hx, h⟩ := bind_ok h
    obtain ⟨y, hy, hr⟩ := bind_ok h
    obtain ⟨ha, hb, hg⟩ := hadm
    exact binop_sound hr (iha (fun u => hS (Or.inl u)) (fun u => hM (Or.inl u)) ha x hx)
      (ihb (fun u => hS (Or.inr u)) (fun u => hM (Or.inr u)) hb y hy) (hg x y hx hy)
  | call1 f a iha =>
    simp only [adEval] at h
    obtain ⟨x, hx, hr⟩ := bind_ok h
    obtain ⟨ha, hg⟩ := hadm
    exact call1_sound (fun hf => hS (Or.inl hf)) hr (iha (fun u => hS (Or.inr u)) hM ha x hx) (hg x hx)
  | call2 f a b iha ihb =>
    simp only [adEval] at h
    obtain ⟨x, hx, h⟩ := bind_ok h
    obtain ⟨y, hy, hr⟩ := bind_ok h
    obtain ⟨ha, hb, hg⟩ := hadm
    exact call2_sound (fun hf => hM (Or.inl hf)) hr
      (iha (fun u => hS (Or.inl u)) (fun u => hM (Or.inr (Or.inl u))) ha x hx)
      (ihb (fun u => hS (Or.inr u)) (fun u => hM (Or.inr (Or.inr u))) hb y hy) (hg x y hx hy)

/-! ### the perturbation that the seeds of the three Jacobian builders differentiate along -/

/-- every non-log token moves at the rate of its seed, the logarithm of every log token moves at the rate of its seed -/
noncomputable def perturb (base : Nat → Int → ℝ) (logly : Nat → Bool) (seed : Nat → Int → ℝ) (u : ℝ) (q : Nat) (s : Int) : ℝ :=
  if logly q then base q s * Real.exp (u * seed q s) else base q s + u * seed q s

theorem perturb_zero (base : Nat → Int → ℝ) (logly : Nat → Bool) (seed : Nat → Int → ℝ) :
    perturb base logly seed 0 = base := by
  funext q s
  simp [perturb]

theorem perturb_hasDerivAt (base : Nat → Int → ℝ) (logly : Nat → Bool) (seed : Nat → Int → ℝ) (q : Nat) (s : Int) :
    HasDerivAt (fun u => perturb base logly seed u q s)
      (Atom.diffProp (seed q s) (perturb base logly seed 0 q s) (logly q)) 0 := by
  rw [perturb_zero]
  cases hl : logly q
  · have h := ((hasDerivAt_id (0 : ℝ)).mul_const (seed q s)).const_add (base q s)
    have e : (fun u => perturb base logly seed u q s) = fun u => base q s + u * seed q s := by
      funext u; simp [perturb, hl]
    rw [e]
    refine h.congr_deriv ?_
    simp [Atom.diffProp]
  · have h := (((hasDerivAt_id (0 : ℝ)).mul_const (seed q s)).exp).const_mul (base q s)
    have e : (fun u => perturb base logly seed u q s) = fun u => base q s * Real.exp (u * seed q s) := by
      funext u; simp [perturb, hl]
    rw [e]
    refine h.congr_deriv ?_
    simp [Atom.diffProp]
    ring

/-- **The walk differentiates along the seeds** (any seed function: system, flat steady, non-flat steady, stacked time):
the Atom returned for the equation is `(eval e, d/du eval e on the perturbed data at u = 0)`. -/
theorem adEval_sound_seeds (base : Nat → Int → ℝ) (seed : Nat → Int → ℝ) (logly : Nat → Bool) (ext : Fn1 → ℝ → ℝ)
    (e : Expr ℝ) (hS : UsesSqrt e → SqrtFormula) (hM : UsesMaximum e → MaxFloorFormula)
    (hadm : Admissible ⟨base, seed, logly, ext⟩ e) (v d : ℝ)
    (h : adEval ⟨base, seed, logly, ext⟩ e = .ok (.atom v d)) :
    v = eval ⟨base, seed, logly, ext⟩ e ∧
      HasDerivAt (fun u => eval ⟨perturb base logly seed u, seed, logly, ext⟩ e) d 0 := by
  have h0 := perturb_zero base logly seed
  have := adEval_sound (perturb base logly seed) seed logly ext (perturb_hasDerivAt base logly seed) e hS hM
    (by rw [h0]; exact hadm) (.atom v d) (by rw [h0]; exact h)
  refine ⟨?_, this.der⟩
  have hv := this.val
  simp only [h0] at hv
  exact hv.symm

/-- the appended `+ Atom.zero(shape)` changes neither value nor derivative: the equation's Atom is sound too -/
theorem adEquation_sound (base : Nat → Int → ℝ) (seed : Nat → Int → ℝ) (logly : Nat → Bool) (ext : Fn1 → ℝ → ℝ)
    (e : Expr ℝ) (hS : UsesSqrt e → SqrtFormula) (hM : UsesMaximum e → MaxFloorFormula)
    (hadm : Admissible ⟨base, seed, logly, ext⟩ e) (r : Val ℝ)
    (h : adEquation ⟨base, seed, logly, ext⟩ e = .ok r) :
    ∃ v d, r = .atom v d ∧ v = eval ⟨base, seed, logly, ext⟩ e ∧
      HasDerivAt (fun u => eval ⟨perturb base logly seed u, seed, logly, ext⟩ e) d 0 := by
  have h0 := perturb_zero base logly seed
  simp only [adEquation] at h
  obtain ⟨x, hx, hr⟩ := bind_ok h
  have hxs := adEval_sound (perturb base logly seed) seed logly ext (perturb_hasDerivAt base logly seed) e hS hM
    (by rw [h0]; exact hadm) x (by rw [h0]; exact hx)
  have hz : Sound (.atom ((0 : ℕ) : ℝ) ((0 : ℕ) : ℝ)) (fun _ : ℝ => (0 : ℝ)) :=
    ⟨by simp, by simpa using hasDerivAt_const (0 : ℝ) (0 : ℝ)⟩
  have hs := binop_sound hr hxs hz (by cases x <;> exact trivial)
  cases r with
  | num v =>
    cases x <;> simp [binop, BinOp.dunder, BinOp.rdunder, has_add, has_radd, res_add, res_radd, applyAA_add, applyAN_add] at hr
  | atom v d =>
    refine ⟨v, d, rfl, ?_, ?_⟩
    · have := hs.val
      simp only [evalBin, add_zero, h0] at this
      exact this.symm
    · have := hs.der
      simpa [evalBin] using this

/-! ### the seeds single out the right occurrence -/

/-- system seed of direction `j`: exactly the token at position `j` of the (duplicate-free) wrt-list moves -/
theorem seedSystem_eq (wrt : List Token) (hnd : wrt.Nodup) (j : Nat) (hj : j < wrt.length) (q : Nat) (s : Int) :
    (seedSystem wrt j q s : ℝ) = if wrt[j] = (q, s) then 1 else 0 := by
  unfold seedSystem
  by_cases h : wrt[j] = (q, s)
  · have : wrt.idxOf (q, s) = j := by
      rw [← h]; exact hnd.idxOf_getElem j hj
    simp [h, this]
  · have : wrt.idxOf (q, s) ≠ j := by
      intro hi
      apply h
      subst hi
      exact List.getElem_idxOf hj
    simp [h, this]

/-- flat steady seed: every shift of the `j`-th wrt-quantity moves together (`Σ_s ∂/∂x_{q,s}`) -/
theorem seedFlat_eq (wrtQ : List Nat) (hnd : wrtQ.Nodup) (j : Nat) (hj : j < wrtQ.length) (q : Nat) (s : Int) :
    (seedFlat wrtQ j q s : ℝ) = if wrtQ[j] = q then 1 else 0 := by
  unfold seedFlat
  by_cases h : wrtQ[j] = q
  · have : wrtQ.idxOf q = j := by
      rw [← h]; exact hnd.idxOf_getElem j hj
    simp [h, this]
  · have : wrtQ.idxOf q ≠ j := by
      intro hi
      apply h
      subst hi
      exact List.getElem_idxOf hj
    simp [h, this]

/-- non-flat steady seed `(1, shift)`: in the level column every shift moves at rate 1, in the change column the token at
    shift `s` moves at rate `s` — the derivative of `level + s·change` (of its logarithm for a log-variable) -/
theorem seedNonflat_eq (wrtQ : List Nat) (hnd : wrtQ.Nodup) (j : Nat) (hj : j < wrtQ.length) (col : Nat) (q : Nat) (s : Int) :
    (seedNonflat wrtQ col j q s : ℝ) = if wrtQ[j] = q then (if col = 0 then 1 else (s : ℝ)) else 0 := by
  unfold seedNonflat
  by_cases h : wrtQ[j] = q
  · have : wrtQ.idxOf q = j := by
      rw [← h]; exact hnd.idxOf_getElem j hj
    simp [h, this]
  · have : wrtQ.idxOf q ≠ j := by
      intro hi
      apply h
      subst hi
      exact List.getElem_idxOf hj
    simp [h, this]

/-! ### the two rules that are false in the code this was written against -/

theorem sqrt_four : Real.sqrt 4 = 2 := by
  rw [show (4 : ℝ) = 2 ^ 2 by norm_num]
  exact Real.sqrt_sq (by norm_num)

/-- the `sqrt` rule is sound exactly when it is the correct formula -/
theorem sqrt_sound_iff_formula :
    (∀ (f : ℝ → ℝ) (x sv sd : ℝ), Rep sv sd f x → 0 < sv →
        Rep (Atom.sqrt_value sv sd) (Atom.sqrt_diff sv sd) (fun y => Real.sqrt (f y)) x) ↔ SqrtFormula := by
  constructor
  · intro H sv sd h0
    have hr := rep_affine sv sd 0
    have h1 := H _ 0 sv sd hr h0
    refine ⟨?_, ?_⟩
    · have := h1.val
      simp only [sub_self, mul_zero, add_zero] at this
      exact this.symm
    · exact h1.der.unique (sqrt_hasDerivAt hr h0)
  · intro H f x sv sd hf h0
    exact sqrt_sound_of_formula H hf h0

/-- for the code of THIS run: the generated `sqrt` rule is the correct formula, or it is refuted at value 4, seed 1
    (where the true derivative is 1/4) -/
theorem sqrt_formula_or_refuted : SqrtFormula ∨ Atom.sqrt_diff (4 : ℝ) 1 ≠ 1 / (2 * Real.sqrt 4) := by
  first
  | (left
     intro sv sd h0
     refine ⟨rfl, ?_⟩
     simp only [Atom.sqrt_diff, adfun_sqrt]
     have : Real.sqrt sv ≠ 0 := ne_of_gt (Real.sqrt_pos.mpr h0)
     push_cast
     first | (field_simp; done) | (field_simp; ring1))
  | (right
     simp only [Atom.sqrt_diff, adfun_sqrt, sqrt_four]
     norm_num)

/-- the `maximum` rule with an Atom floor is sound (away from the kink) exactly when it is the correct formula -/
theorem maximum_aa_sound_iff_formula :
    (∀ (f g : ℝ → ℝ) (x sv sd ov od : ℝ), Rep sv sd f x → Rep ov od g x → sv ≠ ov →
        Rep (Atom.maximum_aa_value sv sd ov od) (Atom.maximum_aa_diff sv sd ov od) (fun y => max (f y) (g y)) x)
      ↔ MaxFloorFormula := by
  constructor
  · intro H sv sd ov od hne
    have h1 := H _ _ 0 sv sd ov od (rep_affine sv sd 0) (rep_affine ov od 0) hne
    exact h1.der.unique (max_hasDerivAt (rep_affine sv sd 0) (rep_affine ov od 0) hne)
  · intro H f g x sv sd ov od hf hg hne
    exact maximum_aa_sound_of_formula H hf hg hne

/-- for the code of THIS run: the generated rule is the correct formula, or it is refuted below the floor
    (`self = 0`, floor `= 1` with derivative `1`: the true derivative is `1`) -/
theorem maximum_aa_formula_or_refuted : MaxFloorFormula ∨ Atom.maximum_aa_diff (0 : ℝ) 0 1 1 ≠ 1 := by
  first
  | (left
     intro sv sd ov od hne
     simp only [Atom.maximum_aa_diff, adfun_ltb, adfun_eqb, decide_eq_true_eq]
     rcases lt_or_gt_of_ne hne with h | h
     · simp [h]
     · simp [h, not_lt.mpr (le_of_lt h)]
     done)
  | (right
     simp [Atom.maximum_aa_diff])

/-- the method spelt `mininum` is not a minimum (it returns `max(-self, -ceiling)`); `no_minimum` shows it is never reached -/
theorem mininum_is_not_minimum : Atom.mininum_value (1 : ℝ) 0 2 ≠ min 1 2 := by
  simp [Atom.mininum_value]
  norm_num

/-! ### rejected, never differentiated to a wrong value -/

theorem abs_rejected (ext : Fn1 → ℝ → ℝ) (v d : ℝ) : call1 ext .abs (.atom v d) = .error .typeError := by
  simp [call1, Fn1.name, no_abs]

theorem normal_cdf_rejected (ext : Fn1 → ℝ → ℝ) (v d : ℝ) : call1 ext .normal_cdf (.atom v d) = .error .typeError := by
  simp [call1, Fn1.name, no_normal_cdf]

theorem normal_pdf_rejected (ext : Fn1 → ℝ → ℝ) (v d : ℝ) : call1 ext .normal_pdf (.atom v d) = .error .typeError := by
  simp [call1, Fn1.name, no_normal_pdf]

theorem minimum_rejected (v d : ℝ) (y : Val ℝ) : call2 .minimum (.atom v d) y = .error .typeError := by
  simp [call2, Fn2.name, no_minimum]

/-- the dispatch looks at the first argument only: `maximum(number, Atom)` and `minimum(number, Atom)` fall through to numpy -/
theorem number_first_rejected (f : Fn2) (a v d : ℝ) : call2 f (.num a) (.atom v d) = .error .typeError := by
  simp [call2]

theorem rpow_rejected (o v d : ℝ) : binop .pow (.num o) (.atom v d) = .error .typeError := by
  simp [binop, BinOp.rdunder, no_rpow]

/-- a rejected sub-expression rejects the whole equation: errors propagate to the root -/
theorem rejection_propagates (c : Ctx ℝ) (op : BinOp) (a b : Expr ℝ) (err : Err)
    (h : adEval c a = .error err) : adEval c (.bin op a b) = .error err := by
  simp [adEval, h, bind, Except.bind]

/-- whenever the walk succeeds on a tree, the result at an admissible point is the true value and derivative: there is no
    third outcome "succeeds with a wrong value" (restating `adEval_sound_seeds` as the dichotomy of the property) -/
theorem differentiated_correctly_or_rejected (base : Nat → Int → ℝ) (seed : Nat → Int → ℝ) (logly : Nat → Bool)
    (ext : Fn1 → ℝ → ℝ) (e : Expr ℝ) (hS : UsesSqrt e → SqrtFormula) (hM : UsesMaximum e → MaxFloorFormula)
    (hadm : Admissible ⟨base, seed, logly, ext⟩ e) :
    (∃ err, adEquation ⟨base, seed, logly, ext⟩ e = .error err) ∨
    (∃ v d, adEquation ⟨base, seed, logly, ext⟩ e = .ok (.atom v d) ∧ v = eval ⟨base, seed, logly, ext⟩ e ∧
      HasDerivAt (fun u => eval ⟨perturb base logly seed u, seed, logly, ext⟩ e) d 0) := by
  cases h : adEquation ⟨base, seed, logly, ext⟩ e with
  | error err => exact Or.inl ⟨err, rfl⟩
  | ok r =>
    obtain ⟨v, d, hr, hv, hd⟩ := adEquation_sound base seed logly ext e hS hM hadm r h
    exact Or.inr ⟨v, d, by rw [hr], hv, hd⟩

/-! ### the dispatch is total over the generated tables: a proved rule, or no method at all -/

/-- **rejects exactly what the code rejects** (binary operators): of the 5 × 4 operator shapes the only one with no `Atom` method —
    hence `TypeError` — is `number ** Atom` (no `__rpow__`); every other shape reaches a generated rule -/
theorem binop_rejected_iff (op : BinOp) (x y : Val ℝ) :
    binop op x y = .error .typeError ↔ (op = .pow ∧ (∃ o, x = .num o) ∧ ∃ v d, y = .atom v d) := by
  cases op <;> cases x <;> cases y <;>
    simp [binop, BinOp.dunder, BinOp.rdunder, has_add, has_sub, has_mul, has_truediv, has_pow, has_radd, has_rsub,
      has_rmul, has_rtruediv, no_rpow, res_add, res_sub, res_mul, res_truediv, res_pow, res_radd, res_rmul, res_rsub,
      res_rtruediv, applyAA_add, applyAA_sub, applyAA_mul, applyAA_truediv, applyAA_pow, applyAN_add, applyAN_sub,
      applyAN_mul, applyAN_truediv, applyAN_pow, applyAN_rsub, applyAN_rtruediv]

/-- no operator shape ends in "a method exists but the model has no proved rule": with `binop_sound`, **every shape either reaches a rule
    whose derivative is proved or has no method at all** (an alias such as `__rpow__ = __pow__` added to `Atom` changes the generated
    tables and breaks `binop_sound`, `no_rpow` and this theorem) -/
theorem binop_never_unmodelled (op : BinOp) (x y : Val ℝ) : binop op x y ≠ .error .unmodelled := by
  cases op <;> cases x <;> cases y <;>
    simp [binop, BinOp.dunder, BinOp.rdunder, has_add, has_sub, has_mul, has_truediv, has_pow, has_radd, has_rsub,
      has_rmul, has_rtruediv, no_rpow, res_add, res_sub, res_mul, res_truediv, res_pow, res_radd, res_rmul, res_rsub,
      res_rtruediv, applyAA_add, applyAA_sub, applyAA_mul, applyAA_truediv, applyAA_pow, applyAN_add, applyAN_sub,
      applyAN_mul, applyAN_truediv, applyAN_pow, applyAN_rsub, applyAN_rtruediv]

theorem unop_never_fails (b : Bool) (x : Val ℝ) : ∃ r, unop b x = .ok r := by
  cases x <;> cases b <;> simp [unop, has_neg, has_pos]

/-- one-argument functions: rejected iff the argument is an Atom and the function is `abs`, `normal_cdf` or `normal_pdf` -/
theorem call1_rejected_iff (ext : Fn1 → ℝ → ℝ) (f : Fn1) (x : Val ℝ) :
    call1 ext f x = .error .typeError ↔ ((∃ v d, x = .atom v d) ∧ (f = .abs ∨ f = .normal_cdf ∨ f = .normal_pdf)) := by
  cases x <;> cases f <;>
    simp [call1, Fn1.name, has_log, has_exp, has_sqrt, has_logistic, no_abs, no_normal_cdf, no_normal_pdf]

theorem call1_never_unmodelled (ext : Fn1 → ℝ → ℝ) (f : Fn1) (x : Val ℝ) : call1 ext f x ≠ .error .unmodelled := by
  cases x <;> cases f <;>
    simp [call1, Fn1.name, has_log, has_exp, has_sqrt, has_logistic, no_abs, no_normal_cdf, no_normal_pdf]

/-- two-argument functions: rejected iff (number, Atom) — the dispatch looks at the first argument only — or `minimum` of an Atom -/
theorem call2_rejected_iff (f : Fn2) (x y : Val ℝ) :
    call2 f x y = .error .typeError ↔
      (((∃ a, x = .num a) ∧ ∃ v d, y = .atom v d) ∨ ((∃ v d, x = .atom v d) ∧ f = .minimum)) := by
  cases x <;> cases y <;> cases f <;> simp [call2, Fn2.name, has_maximum, no_minimum]

theorem call2_never_unmodelled (f : Fn2) (x y : Val ℝ) : call2 f x y ≠ .error .unmodelled := by
  cases x <;> cases y <;> cases f <;> simp [call2, Fn2.name, has_maximum, no_minimum]

/-- **the rejection clause for whole trees**: the walk never fails for any other reason than a `TypeError` of some step — there is no
    tree on which a method is reached that the model (and hence the soundness proof) does not cover -/
theorem adEval_error_is_typeError (c : Ctx ℝ) (e : Expr ℝ) (err : Err) (h : adEval c e = .error err) : err = .typeError := by
  induction e generalizing err with
  | const k => simp [adEval] at h
  | tok q s => simp [adEval] at h
  | neg e ih =>
    simp only [adEval] at h
    cases hx : adEval c e with
    | error e' => rw [hx] at h; simp [bind, Except.bind] at h; rw [← h]; exact ih e' hx
    | ok x =>
      rw [hx] at h
      obtain ⟨r, hr⟩ := unop_never_fails true x
      simp [bind, Except.bind, hr] at h
  | pos e ih =>
    simp only [adEval] at h
    cases hx : adEval c e with
    | error e' => rw [hx] at h; simp [bind, Except.bind] at h; rw [← h]; exact ih e' hx
    | ok x =>
      rw [hx] at h
      obtain ⟨r, hr⟩ := unop_never_fails false x
      simp [bind, Except.bind, hr] at h
  | bin op a b iha ihb =>
    simp only [adEval] at h
    cases hx : adEval c a with
    | error e' => rw [hx] at h; simp [bind, Except.bind] at h; rw [← h]; exact iha e' hx
    | ok x =>
      cases hy : adEval c b with
      | error e' => rw [hx, hy] at h; simp [bind, Except.bind] at h; rw [← h]; exact ihb e' hy
      | ok y =>
        rw [hx, hy] at h
        simp only [bind, Except.bind] at h
        cases err with
        | typeError => rfl
        | unmodelled => exact absurd h (binop_never_unmodelled op x y)
  | call1 f a iha =>
    simp only [adEval] at h
    cases hx : adEval c a with
    | error e' => rw [hx] at h; simp [bind, Except.bind] at h; rw [← h]; exact iha e' hx
    | ok x =>
      rw [hx] at h
      simp only [bind, Except.bind] at h
      cases err with
      | typeError => rfl
      | unmodelled => exact absurd h (call1_never_unmodelled c.ext f x)
  | call2 f a b iha ihb =>
    simp only [adEval] at h
    cases hx : adEval c a with
    | error e' => rw [hx] at h; simp [bind, Except.bind] at h; rw [← h]; exact iha e' hx
    | ok x =>
      cases hy : adEval c b with
      | error e' => rw [hx, hy] at h; simp [bind, Except.bind] at h; rw [← h]; exact ihb e' hy
      | ok y =>
        rw [hx, hy] at h
        simp only [bind, Except.bind] at h
        cases err with
        | typeError => rfl
        | unmodelled => exact absurd h (call2_never_unmodelled f x y)

/-! ### placement -/

/-- `create_eid_to_rhs_offset`: the offset of the `i`-th equation is the number of wrt-tokens of the equations before it -/
theorem offsetsFrom_getElem (ls : List Nat) (acc i : Nat) (hi : i < ls.length) :
    (offsetsFrom acc ls)[i]? = some (acc + (ls.take i).sum) := by
  induction ls generalizing acc i with
  | nil => simp at hi
  | cons l ls ih =>
    cases i with
    | zero => simp [offsetsFrom]
    | succ i =>
      simp only [offsetsFrom, List.getElem?_cons_succ, List.take_succ_cons, List.sum_cons]
      rw [ih (acc + l) i (by simpa using hi)]
      congr 1
      omega

theorem offsetsFrom_length (ls : List Nat) (acc : Nat) : (offsetsFrom acc ls).length = ls.length := by
  induction ls generalizing acc with
  | nil => rfl
  | cons l ls ih => simp [offsetsFrom, ih]

/-- every entry of one equation's raw map: it is in the equation's row, reads derivative row `r + k` of the stacked AD
    output where `k` is the position of a token of the wrt-list, and writes the column that carries exactly that token -/
theorem rawMapAux_mem (cols : List (Option Token)) (row r : Nat) (wrt : List Token) (en : Entry)
    (h : en ∈ rawMapAux cols row r wrt) :
    en.lhsRow = row ∧ en.rhsCol = 0 ∧ ∃ k, ∃ hk : k < wrt.length, en.rhsRow = r + k ∧ cols[en.lhsCol]? = some (some wrt[k]) := by
  induction wrt generalizing r with
  | nil => simp [rawMapAux] at h
  | cons t ts ih =>
    simp only [rawMapAux] at h
    split at h
    · rename_i hc
      rcases List.mem_cons.mp h with h | h
      · subst h
        refine ⟨rfl, rfl, 0, by simp, by simp, ?_⟩
        have hm : some t ∈ cols := by simpa using hc
        simp [List.getElem?_idxOf hm]
      · obtain ⟨h1, h2, k, hk, h3, h4⟩ := ih (r + 1) h
        exact ⟨h1, h2, k + 1, by simpa using hk, by omega, by simpa using h4⟩
    · obtain ⟨h1, h2, k, hk, h3, h4⟩ := ih (r + 1) h
      exact ⟨h1, h2, k + 1, by simpa using hk, by omega, by simpa using h4⟩

/-- … and no derivative is dropped: every wrt-token that has a column gets an entry -/
theorem rawMapAux_complete (cols : List (Option Token)) (row r : Nat) (wrt : List Token) (k : Nat) (hk : k < wrt.length)
    (hc : some wrt[k] ∈ cols) :
    ⟨row, cols.idxOf (some wrt[k]), r + k, 0⟩ ∈ rawMapAux cols row r wrt := by
  induction wrt generalizing r k with
  | nil => simp at hk
  | cons t ts ih =>
    cases k with
    | zero =>
      have hc' : some t ∈ cols := by simpa using hc
      simp [rawMapAux, hc']
    | succ k =>
      have hk' : k < ts.length := by simpa using hk
      have := ih (r + 1) k hk' (by simpa using hc)
      have e : r + 1 + k = r + (k + 1) := by omega
      rw [e] at this
      simp only [rawMapAux]
      split
      · exact List.mem_cons_of_mem _ (by simpa using this)
      · simpa using this

/-- the lagged-vector rule of `SystemMap`: a token of the transition vector never has a column in `B` — so an occurrence
    is placed in `A` (when it is in the vector) or in `B` (when only its one-period lead is), never in both -/
theorem lagged_excludes_vector (tv : List Token) (t : Token) (ht : t ∈ tv) : some t ∉ laggedVector tv := by
  intro h
  simp only [laggedVector, List.mem_map] at h
  obtain ⟨x, _, hx⟩ := h
  split at hx
  · cases hx
  · rename_i hn
    have : shifted x (-1) = t := by simpa using hx
    rw [this] at hn
    exact hn (by simpa using ht)

/-- a `B` column carries the token one period before the vector's token of that column -/
theorem lagged_column (tv : List Token) (i : Nat) (hi : i < tv.length) (t : Token)
    (h : (laggedVector tv)[i]? = some (some t)) : shifted t 1 = tv[i] ∧ t ∉ tv := by
  simp only [laggedVector, List.getElem?_map, List.getElem?_eq_getElem hi, Option.map_some, Option.some.injEq] at h
  split at h
  · cases h
  · rename_i hn
    have ht : shifted tv[i] (-1) = t := by simpa using h
    refine ⟨?_, ?_⟩
    · rw [← ht]; simp [shifted]
    · rw [← ht]; simpa using hn

/-- an occurrence `(q, s)` of a variable whose vector covers shifts `lo+1 … hi` (with `lo ≤ s ≤ hi`) has a home:
    it is in the vector, or its one-period lead is -/
theorem shiftRange_mem (q : Nat) (lo : Int) (n : Nat) (s : Int) :
    (q, s) ∈ shiftRange q lo n ↔ lo < s ∧ s ≤ lo + n := by
  induction n with
  | zero => simp [shiftRange]
  | succ n ih =>
    simp only [shiftRange, List.mem_append, ih, List.mem_singleton, Prod.mk.injEq, true_and]
    push_cast
    omega

/-! ### unconditional form: the two formerly doubtful rules, as generated NOW, are the correct formulas

These facts are proved by unfolding the generated definitions; a change of `Atom.sqrt` or `Atom.maximum` in
`differentiators.py` that leaves the correct formula breaks the build of this file (the tie), and the oracle of the
harness supplies the failing input. -/

/-- the generated `sqrt` rule is `sqrt(value)`, `diff / (2 sqrt(value))` -/
theorem sqrtFormula_holds : SqrtFormula := by
  intro sv sd h0
  refine ⟨rfl, ?_⟩
  simp only [Atom.sqrt_diff, adfun_sqrt]
  have : Real.sqrt sv ≠ 0 := ne_of_gt (Real.sqrt_pos.mpr h0)
  push_cast
  first | (field_simp; done) | (field_simp; ring1)

/-- the generated `maximum` rule with an Atom floor returns the floor's derivative below the floor, its own above -/
theorem maxFloorFormula_holds : MaxFloorFormula := by
  intro sv sd ov od hne
  simp only [Atom.maximum_aa_diff, adfun_ltb, adfun_eqb, decide_eq_true_eq]
  rcases lt_or_gt_of_ne hne with h | h
  · simp [h]
  · simp [h, not_lt.mpr (le_of_lt h)]

/-- `adEval_sound` with no hypothesis on any rule -/
theorem adEval_sound_unconditional (data : ℝ → Nat → Int → ℝ) (seed : Nat → Int → ℝ) (logly : Nat → Bool)
    (ext : Fn1 → ℝ → ℝ)
    (htok : ∀ q s, HasDerivAt (fun u => data u q s) (Atom.diffProp (seed q s) (data 0 q s) (logly q)) 0)
    (e : Expr ℝ) (hadm : Admissible ⟨data 0, seed, logly, ext⟩ e) (r : Val ℝ)
    (h : adEval ⟨data 0, seed, logly, ext⟩ e = .ok r) :
    Sound r (fun u => eval ⟨data u, seed, logly, ext⟩ e) :=
  adEval_sound data seed logly ext htok e (fun _ => sqrtFormula_holds) (fun _ => maxFloorFormula_holds) hadm r h

/-- `adEquation_sound` with no hypothesis on any rule: for every tree, log-status assignment, seed function and
    admissible point the equation's Atom is `(eval e, d/du eval e on the perturbed data at u = 0)` -/
theorem adEquation_sound_unconditional (base : Nat → Int → ℝ) (seed : Nat → Int → ℝ) (logly : Nat → Bool)
    (ext : Fn1 → ℝ → ℝ) (e : Expr ℝ) (hadm : Admissible ⟨base, seed, logly, ext⟩ e) (r : Val ℝ)
    (h : adEquation ⟨base, seed, logly, ext⟩ e = .ok r) :
    ∃ v d, r = .atom v d ∧ v = eval ⟨base, seed, logly, ext⟩ e ∧
      HasDerivAt (fun u => eval ⟨perturb base logly seed u, seed, logly, ext⟩ e) d 0 :=
  adEquation_sound base seed logly ext e (fun _ => sqrtFormula_holds) (fun _ => maxFloorFormula_holds) hadm r h

/-- the dichotomy of the property with no hypothesis on any rule: rejected, or the true value and derivative -/
theorem differentiated_correctly_or_rejected_unconditional (base : Nat → Int → ℝ) (seed : Nat → Int → ℝ)
    (logly : Nat → Bool) (ext : Fn1 → ℝ → ℝ) (e : Expr ℝ) (hadm : Admissible ⟨base, seed, logly, ext⟩ e) :
    (∃ err, adEquation ⟨base, seed, logly, ext⟩ e = .error err) ∨
    (∃ v d, adEquation ⟨base, seed, logly, ext⟩ e = .ok (.atom v d) ∧ v = eval ⟨base, seed, logly, ext⟩ e ∧
      HasDerivAt (fun u => eval ⟨perturb base logly seed u, seed, logly, ext⟩ e) d 0) :=
  differentiated_correctly_or_rejected base seed logly ext e (fun _ => sqrtFormula_holds)
    (fun _ => maxFloorFormula_holds) hadm

/-- `_adjust_for_measurement_equations`: an occurrence `(q, s)` of a transition variable in a measurement equation makes the code pretend
    that `(q, s-1)` is needed; then — whatever the other occurrences are, as long as the quantity's minimum shift accounts for the pretended
    token (`minShift ≤ s - 1`) and its maximum for the occurrence — the occurrence itself is in the transition vector, so it has a column
    in `G` at ANY lag (`rawMapAux_complete` then gives it a map entry) -/
theorem measurement_occurrence_covered (q : Nat) (s minShift maxShift : Int) (hmin : minShift ≤ s - 1) (hmax : s ≤ maxShift) :
    (q, s) ∈ tokensForQid q minShift maxShift := by
  simp only [tokensForQid]
  rw [shiftRange_mem]
  split <;> constructor <;> omega

/-- … and with a weaker rule that pretends only `min(s, -1)` (one lag) the occurrence can fall out of the vector:
    `x{-1}` read by a measurement equation while the transition block uses `x{-1}` at most -/
theorem one_lag_is_not_enough : ((0 : Nat), (-1 : Int)) ∉ tokensForQid 0 (-1) 0 := by
  decide

/-! ### placement, second part: every map is characterised entry by entry, writes every cell at most once, and the
transition vector / dynamic identities / stacked-time rows / terminal rows are what the property says -/

/-- `ArrayMap.static`, every entry: the row is the position `i` of the equation, the column carries exactly the token `wrt_i[k]`,
    and the value read is row `offset_i + k` (column 0) of the stacked AD output -/
theorem staticMap_mem (cols : List (Option Token)) (eqs : List (List Token × Nat)) (en : Entry)
    (h : en ∈ staticMap cols eqs) :
    ∃ i, ∃ hi : i < eqs.length, ∃ k, ∃ hk : k < eqs[i].1.length, some eqs[i].1[k] ∈ cols ∧
      en = ⟨i, cols.idxOf (some eqs[i].1[k]), eqs[i].2 + k, 0⟩ := by
  obtain ⟨i, hi, h1⟩ := staticMapAux_mem cols 0 eqs en h
  obtain ⟨k, hk, h2, h3⟩ := rawMapAux_mem' cols (0 + i) eqs[i].2 eqs[i].1 en h1
  exact ⟨i, hi, k, hk, h2, by simpa using h3⟩

/-- … and conversely every wrt-token of every equation that has a column gets that entry (nothing is dropped) -/
theorem staticMap_complete (cols : List (Option Token)) (eqs : List (List Token × Nat)) (i : Nat) (hi : i < eqs.length)
    (k : Nat) (hk : k < eqs[i].1.length) (hc : some eqs[i].1[k] ∈ cols) :
    ⟨i, cols.idxOf (some eqs[i].1[k]), eqs[i].2 + k, 0⟩ ∈ staticMap cols eqs := by
  apply staticMapAux_complete cols 0 eqs i hi
  have := rawMapAux_complete cols (0 + i) eqs[i].2 eqs[i].1 k hk hc
  simpa using this

/-- **no two map entries address the same Jacobian cell** (wrt-lists without duplicates): the scatter `J[lhs] = diff[rhs]`
    never overwrites a derivative with another one -/
theorem staticMap_cell_inj (cols : List (Option Token)) (eqs : List (List Token × Nat)) (hnd : ∀ p ∈ eqs, p.1.Nodup)
    (en en' : Entry) (h : en ∈ staticMap cols eqs) (h' : en' ∈ staticMap cols eqs) (hc : en.cell = en'.cell) :
    en = en' := by
  obtain ⟨i, hi, k, hk, hm, rfl⟩ := staticMap_mem cols eqs en h
  obtain ⟨i', hi', k', hk', hm', rfl⟩ := staticMap_mem cols eqs en' h'
  simp only [Entry.cell, Prod.mk.injEq] at hc
  obtain ⟨rfl, hcol⟩ := hc
  have ht : some eqs[i].1[k] = some eqs[i].1[k'] := (List.idxOf_inj hm).mp hcol
  have hkk : k = k' :=
    (List.Nodup.getElem_inj_iff (hnd eqs[i] (List.getElem_mem hi))).mp (Option.some.inj ht)
  subst hkk
  rfl

/-- membership in one quantity's run of the transition vector: shifts `min(minShift, -1) + 1 … maxShift` -/
theorem tokensForQid_mem (q q' : Nat) (mn mx s : Int) :
    (q', s) ∈ tokensForQid q mn mx ↔ q' = q ∧ (if mn < -1 then mn else -1) < s ∧ s ≤ mx := by
  simp only [tokensForQid]
  generalize (if mn < -1 then mn else -1) = lo
  constructor
  · intro h
    have hq := shiftRange_fst _ _ _ _ h
    simp only at hq
    subst hq
    have := (shiftRange_mem' q' _ _ s).mp h
    exact ⟨rfl, this.1, by omega⟩
  · rintro ⟨rfl, h1, h2⟩
    rw [shiftRange_mem']
    exact ⟨h1, by omega⟩

/-- `_create_system_transition_vector` + `sort_tokens`: the vector holds exactly the runs of the quantities -/
theorem transitionVector_mem (ranges : List (Nat × Int × Int)) (t : Token) :
    t ∈ transitionVector ranges ↔ ∃ r ∈ ranges, t ∈ tokensForQid r.1 r.2.1 r.2.2 := by
  simp only [transitionVector, sortTokens_eq, List.mem_insertionSort, List.mem_flatMap]

/-- the vector is sorted by `sort_tokens`' key `(-shift, qid)`: leads first, then current dates, then lags; by quantity id within a date -/
theorem transitionVector_sorted (ranges : List (Nat × Int × Int)) :
    (transitionVector ranges).Pairwise (fun a b => b.2 < a.2 ∨ (a.2 = b.2 ∧ a.1 ≤ b.1)) := by
  have := List.pairwise_insertionSort TokenLe (ranges.flatMap (fun r => tokensForQid r.1 r.2.1 r.2.2))
  simp only [transitionVector, sortTokens_eq]
  exact this.imp (fun {a b} h => (tokenLe_iff a b).mp h)

/-- with one range per quantity the vector has no duplicates … -/
theorem transitionVector_nodup (ranges : List (Nat × Int × Int)) (hq : (ranges.map (·.1)).Nodup) :
    (transitionVector ranges).Nodup := by
  simp only [transitionVector, sortTokens_eq]
  rw [(List.perm_insertionSort TokenLe _).nodup_iff]
  induction ranges with
  | nil => simp
  | cons r rs ih =>
    simp only [List.map_cons, List.nodup_cons] at hq
    simp only [List.flatMap_cons]
    rw [List.nodup_append]
    refine ⟨shiftRange_nodup _ _ _, ih hq.2, ?_⟩
    intro a ha b hb hab
    subst hab
    simp only [List.mem_flatMap] at hb
    obtain ⟨r', hr', hb⟩ := hb
    have h1 : a.1 = r.1 := shiftRange_fst _ _ _ _ ha
    have h2 : a.1 = r'.1 := shiftRange_fst _ _ _ _ hb
    exact hq.1 (List.mem_map.mpr ⟨r', hr', by rw [← h2, h1]⟩)

/-- … so **every shift `min+1 … max` of every transition variable is covered exactly once** -/
theorem transitionVector_covers_exactly_once (ranges : List (Nat × Int × Int)) (hq : (ranges.map (·.1)).Nodup)
    (r : Nat × Int × Int) (hr : r ∈ ranges) (s : Int) (h1 : (if r.2.1 < -1 then r.2.1 else -1) < s) (h2 : s ≤ r.2.2) :
    (transitionVector ranges).count (r.1, s) = 1 := by
  apply List.count_eq_one_of_mem (transitionVector_nodup ranges hq)
  rw [transitionVector_mem]
  exact ⟨r, hr, (tokensForQid_mem r.1 r.1 r.2.1 r.2.2 s).mpr ⟨rfl, h1, h2⟩⟩

/-- `_create_dynid_matrices`, every row `(row, i, j)` (`A[row, i] = 1`, `B[row, j] = -1`): column `j` carries the token of column `i`
    one period later, i.e. the row says `ξ_t[(q, s)] = ξ_{t-1}[(q, s+1)]` -/
theorem dynid_mem (tv : List Token) (e : Nat × Nat × Nat) (h : e ∈ dynid tv) :
    ∃ hi : e.2.1 < tv.length, tv[e.2.2]? = some (shifted tv[e.2.1] 1) := by
  obtain ⟨k, hk, hc, h1, h2⟩ := dynidAux_mem tv 0 0 tv e h
  have hk' : e.2.1 = k := by omega
  refine ⟨by omega, ?_⟩
  rw [h2]
  simp only [hk']
  exact List.getElem?_idxOf hc

/-- every vector token whose one-period lead is also in the vector gets an identity row (tokens with the largest shift get none) -/
theorem dynid_complete (tv : List Token) (i : Nat) (hi : i < tv.length) (hc : shifted tv[i] 1 ∈ tv) :
    ∃ r, (r, i, tv.idxOf (shifted tv[i] 1)) ∈ dynid tv := by
  obtain ⟨r, hr⟩ := dynidAux_complete tv 0 0 tv i hi hc
  exact ⟨r, by simpa [dynid] using hr⟩

/-- the identity rows are numbered `0, 1, 2, …` without gaps (they are stacked below the equations' rows) -/
theorem dynid_rows (tv : List Token) : (dynid tv).map (·.1) = List.range (dynid tv).length := by
  rw [List.range_eq_range']
  exact dynidAux_rows tv 0 0 tv

/-- stacked-time map, every entry: for equation `i`, its `p`-th wrt-token and the `j`-th evaluated period, the entry sits in
    row `i + n·j` (`n` equations), in the column of the spot `(qid, shift + column_j)`, and reads row `offset_i + p`, column `j`
    of the stacked AD output -/
theorem stackedMap_mem (spots : List Token) (cols : List Int) (eqs : List (List Token)) (en : Entry)
    (h : en ∈ stackedMap spots cols eqs) :
    ∃ i, ∃ hi : i < eqs.length, ∃ p, ∃ hp : p < eqs[i].length, ∃ j, ∃ hj : j < cols.length,
      shifted eqs[i][p] cols[j] ∈ spots ∧
      en = ⟨i + eqs.length * j, spots.idxOf (shifted eqs[i][p] cols[j]), ((eqs.take i).map List.length).sum + p, j⟩ := by
  obtain ⟨i, hi, h1⟩ := stackedAux_mem spots cols eqs.length 0 0 eqs en h
  obtain ⟨p, hp, h2⟩ := stackedForEq_mem spots cols eqs.length (0 + i) _ eqs[i] en h1
  obtain ⟨j, hj, h3, h4⟩ := stackedForToken_mem spots eqs.length (0 + i) _ eqs[i][p] 0 cols en h2
  exact ⟨i, hi, p, hp, j, hj, h3, by simpa using h4⟩

/-- … and every (equation, wrt-token, period) whose shifted token is a wrt-spot gets that entry -/
theorem stackedMap_complete (spots : List Token) (cols : List Int) (eqs : List (List Token)) (i : Nat) (hi : i < eqs.length)
    (p : Nat) (hp : p < eqs[i].length) (j : Nat) (hj : j < cols.length) (hc : shifted eqs[i][p] cols[j] ∈ spots) :
    ⟨i + eqs.length * j, spots.idxOf (shifted eqs[i][p] cols[j]), ((eqs.take i).map List.length).sum + p, j⟩
      ∈ stackedMap spots cols eqs := by
  apply stackedAux_complete spots cols eqs.length 0 0 eqs i hi
  apply stackedForEq_complete spots cols eqs.length (0 + i) _ eqs[i] p hp
  have := stackedForToken_complete spots eqs.length (0 + i) (0 + ((eqs.take i).map List.length).sum + p) eqs[i][p] 0 cols j hj hc
  simpa using this

/-- `lhs_row = eqn + n·column` is injective on (equation, period) … -/
theorem stacked_row_inj (n i j i' j' : Nat) (hi : i < n) (hi' : i' < n) (h : i + n * j = i' + n * j') : i = i' ∧ j = j' := by
  have h1 : (i + n * j) % n = (i' + n * j') % n := by rw [h]
  rw [Nat.add_mul_mod_self_left, Nat.add_mul_mod_self_left, Nat.mod_eq_of_lt hi, Nat.mod_eq_of_lt hi'] at h1
  subst h1
  have hn : 0 < n := by omega
  have : n * j = n * j' := by omega
  exact ⟨rfl, Nat.eq_of_mul_eq_mul_left hn this⟩

/-- … and onto the rows `0 … n·T - 1`: a bijection between (equation, period) and the rows of the stacked system -/
theorem stacked_row_surj (n T r : Nat) (hr : r < n * T) : ∃ i j, i < n ∧ j < T ∧ r = i + n * j := by
  have hn : 0 < n := by
    rcases Nat.eq_zero_or_pos n with h | h
    · subst h; simp at hr
    · exact h
  refine ⟨r % n, r / n, Nat.mod_lt _ hn, ?_, (Nat.mod_add_div r n).symm⟩
  exact Nat.div_lt_of_lt_mul hr

/-- **no two entries of the stacked-time map address the same cell** (wrt-lists without duplicates) -/
theorem stackedMap_cell_inj (spots : List Token) (cols : List Int) (eqs : List (List Token)) (hnd : ∀ w ∈ eqs, w.Nodup)
    (en en' : Entry) (h : en ∈ stackedMap spots cols eqs) (h' : en' ∈ stackedMap spots cols eqs) (hc : en.cell = en'.cell) :
    en = en' := by
  obtain ⟨i, hi, p, hp, j, hj, hm, rfl⟩ := stackedMap_mem spots cols eqs en h
  obtain ⟨i', hi', p', hp', j', hj', hm', rfl⟩ := stackedMap_mem spots cols eqs en' h'
  simp only [Entry.cell, Prod.mk.injEq] at hc
  obtain ⟨hrow, hcol⟩ := hc
  obtain ⟨rfl, rfl⟩ := stacked_row_inj eqs.length i j i' j' hi hi' hrow
  have ht : shifted eqs[i][p] cols[j] = shifted eqs[i][p'] cols[j] := (List.idxOf_inj hm).mp hcol
  have ht' : eqs[i][p] = eqs[i][p'] := by
    have h1 := congrArg Prod.fst ht
    have h2 := congrArg Prod.snd ht
    simp only [shifted] at h1 h2
    exact Prod.ext h1 (by omega)
  have hpp : p = p' := (List.Nodup.getElem_inj_iff (hnd eqs[i] (List.getElem_mem hi))).mp ht'
  subst hpp
  rfl

/-- `Terminator.__init__`: the running index stored with the terminal spot `(qid_p, terminal column_k)` is `k·nq + p`
    (column-major), and only spots within the quantity's longest lead are kept -/
theorem terminalSpots_mem (termCols : List Int) (qids : List Nat) (maxShift : Nat → Int) (last : Int) (e : Nat × Token)
    (h : e ∈ terminalSpots termCols qids maxShift last) :
    ∃ k, ∃ hk : k < termCols.length, ∃ p, ∃ hp : p < qids.length,
      termCols[k] ≤ last + maxShift qids[p] ∧ e = (k * qids.length + p, (qids[p], termCols[k])) := by
  obtain ⟨k, hk, p, hp, h1, h2⟩ := termSpotsAux_mem qids _ 0 termCols e h
  exact ⟨k, hk, p, hp, by simpa using h1, by simpa using h2⟩

/-- **`terminate_jacobian`'s row selection**: `_curr_TT` stacks, for each terminal column `k`, the current-dated rows of `T^(k+1)`
    (blocks of `nq` rows); indexing it with the stored running index of a terminal spot picks row `p` of block `k` — the row of the
    quantity of that spot in the power of `T` that belongs to that terminal column -/
theorem terminal_row_selection {ρ : Type} (termCols : List Int) (qids : List Nat) (maxShift : Nat → Int) (last : Int)
    (blocks : List (List ρ)) (hb : ∀ b ∈ blocks, b.length = qids.length) (hlen : blocks.length = termCols.length)
    (e : Nat × Token) (h : e ∈ terminalSpots termCols qids maxShift last) :
    ∃ k, ∃ hk : k < blocks.length, ∃ p, ∃ hp : p < qids.length,
      e.2 = (qids[p], termCols[k]'(hlen ▸ hk)) ∧ blocks.flatten[e.1]? = blocks[k][p]? := by
  obtain ⟨k, hk, p, hp, _, rfl⟩ := terminalSpots_mem termCols qids maxShift last e h
  exact ⟨k, hlen ▸ hk, p, hp, rfl, flatten_getElem_uniform blocks qids.length hb k p (hlen ▸ hk) hp⟩

/-- `create_terminal_jacobian_map`: a pair `(l, r)` sends column `r` of the chain-rule term to the Jacobian column `l` whose wrt-spot
    is exactly the `r`-th entry of the terminal-initial vector -/
theorem terminalJacMap_mem (wrtSpots terminit : List Token) (e : Nat × Nat) (h : e ∈ terminalJacMap wrtSpots terminit) :
    ∃ hr : e.2 < terminit.length, wrtSpots[e.1]? = some terminit[e.2] := by
  obtain ⟨k, hk, h1, h2⟩ := terminalJacMapAux_mem wrtSpots 0 terminit e h
  have : e.2 = k := by omega
  subst this
  exact ⟨hk, h2⟩

/-! ### assembling the matrices: from the maps and the stacked AD output to the Jacobian entry (end to end) -/

/-- the cell of the `k`-th wrt-token of equation `i` receives exactly that token's row of the stacked AD output -/
theorem assembled_entry {α : Type} (cols : List (Option Token)) (t : List (List Token × Nat)) (hnd : ∀ p ∈ t, p.1.Nodup)
    (td : Nat → Nat → α) (z : α) (i : Nat) (hi : i < t.length) (k : Nat) (hk : k < t[i].1.length) (hc : some t[i].1[k] ∈ cols) :
    scatterAssign (staticMap cols t) td z i (cols.idxOf (some t[i].1[k])) = td (t[i].2 + k) 0 := by
  have hm := staticMap_complete cols t i hi k hk hc
  unfold scatterAssign
  rw [foldl_assign td _ _ (td (t[i].2 + k) 0)]
  · rw [if_pos ⟨_, hm, rfl, rfl⟩]
  · intro en hen hcell
    have := staticMap_cell_inj cols t hnd en _ hen hm (by simp [Entry.cell, hcell.1, hcell.2])
    rw [this]

/-- every other cell keeps the initial zero: a column that carries no token, or a token that is not in the equation's wrt-list -/
theorem assembled_zero {α : Type} (cols : List (Option Token)) (t : List (List Token × Nat)) (td : Nat → Nat → α) (z : α)
    (i c : Nat) (hi : i < t.length) (hc : ∀ τ, cols[c]? = some (some τ) → τ ∉ t[i].1) :
    scatterAssign (staticMap cols t) td z i c = z := by
  unfold scatterAssign
  rw [foldl_assign td _ _ z]
  · split <;> rfl
  · intro en hen hcell
    exfalso
    obtain ⟨i', hi', k, hk, hm, rfl⟩ := staticMap_mem cols t en hen
    obtain ⟨rfl, hcol⟩ := hcell
    simp only at hcol
    refine hc t[i'].1[k] ?_ (List.getElem_mem hk)
    rw [← hcol]
    exact List.getElem?_idxOf hm

/-- **sparse (triplet) assembly = dense assembly** for the static maps: entries of one cell would add up, but no cell is addressed twice -/
theorem scatterSum_eq_scatterAssign (cols : List (Option Token)) (t : List (List Token × Nat)) (hnd : ∀ p ∈ t, p.1.Nodup)
    (td : Nat → Nat → ℝ) (r c : Nat) :
    scatterSum (staticMap cols t) td 0 r c = scatterAssign (staticMap cols t) td 0 r c := by
  unfold scatterSum
  rw [foldl_sum]
  have hnodup : ((staticMap cols t).filter (fun en => decide (en.lhsRow = r ∧ en.lhsCol = c))).Nodup :=
    (staticMapAux_nodup cols 0 t).filter _
  have hall : ∀ a ∈ (staticMap cols t).filter (fun en => decide (en.lhsRow = r ∧ en.lhsCol = c)),
      ∀ b ∈ (staticMap cols t).filter (fun en => decide (en.lhsRow = r ∧ en.lhsCol = c)), a = b := by
    intro a ha b hb
    simp only [List.mem_filter, decide_eq_true_eq] at ha hb
    exact staticMap_cell_inj cols t hnd a b ha.1 hb.1 (by simp [Entry.cell, ha.2.1, ha.2.2, hb.2.1, hb.2.2])
  match hl : (staticMap cols t).filter (fun en => decide (en.lhsRow = r ∧ en.lhsCol = c)) with
  | [] =>
    rw [hl]
    unfold scatterAssign
    rw [foldl_assign td r c 0]
    · simp
    · intro en hen hcell
      have : en ∈ (staticMap cols t).filter (fun en => decide (en.lhsRow = r ∧ en.lhsCol = c)) := by
        simp [List.mem_filter, hen, hcell]
      rw [hl] at this
      simp at this
  | [a] =>
    have ha : a ∈ (staticMap cols t).filter (fun en => decide (en.lhsRow = r ∧ en.lhsCol = c)) := by rw [hl]; simp
    simp only [List.mem_filter, decide_eq_true_eq] at ha
    rw [hl]
    unfold scatterAssign
    rw [foldl_assign td r c (td a.rhsRow a.rhsCol)]
    · rw [if_pos ⟨a, ha.1, ha.2⟩]; simp
    · intro en hen hcell
      have : en = a := hall en (by simp [List.mem_filter, hen, hcell]) a (by simp [List.mem_filter, ha.1, ha.2])
      rw [this]
  | a :: b :: rest =>
    exfalso
    rw [hl] at hnodup hall
    have : a = b := hall a (by simp) b (by simp)
    subst this
    simp at hnodup

/-- **End to end** (`systemize()` A, D, F, G, J — and B with the lagged columns): when `td` is the stacked output of the walk
    (`adDiff`, system seeds), the assembled matrix entry in the row of equation `i` and the column of its wrt-token `τ = wrt_i[k]` is the
    partial derivative of the equation's residual with respect to `τ` (with respect to `log τ` for a log-variable) at the evaluation point —
    hypotheses on inputs only: duplicate-free wrt-lists, an admissible point -/
theorem systemize_entry_sound (base : Nat → Int → ℝ) (logly : Nat → Bool) (ext : Fn1 → ℝ → ℝ)
    (cols : List (Option Token)) (t : List (List Token × Nat)) (es : Nat → Expr ℝ) (td : Nat → Nat → ℝ)
    (hnd : ∀ p ∈ t, p.1.Nodup)
    (htd : ∀ i (hi : i < t.length) k, k < t[i].1.length → adDiff base logly ext (es i) t[i].1 k = some (td (t[i].2 + k) 0))
    (i : Nat) (hi : i < t.length) (k : Nat) (hk : k < t[i].1.length) (hc : some t[i].1[k] ∈ cols)
    (hadm : Admissible ⟨base, seedSystem t[i].1 k, logly, ext⟩ (es i)) :
    HasDerivAt (fun u => eval ⟨perturb base logly (seedSystem t[i].1 k) u, seedSystem t[i].1 k, logly, ext⟩ (es i))
      (scatterAssign (staticMap cols t) td 0 i (cols.idxOf (some t[i].1[k]))) 0 := by
  rw [assembled_entry cols t hnd td 0 i hi k hk hc]
  have h := htd i hi k hk
  unfold adDiff at h
  cases hr : adEquation ⟨base, seedSystem t[i].1 k, logly, ext⟩ (es i) with
  | error e => rw [hr] at h; simp at h
  | ok r =>
    obtain ⟨v, d, hv, _, hd⟩ := adEquation_sound_unconditional base (seedSystem t[i].1 k) logly ext (es i) hadm r hr
    rw [hr, hv] at h
    simp only [Option.some.injEq] at h
    rw [← h]
    exact hd

/-- the stacked AD output is indexed by `offset_i + k` with the offsets of `create_eid_to_rhs_offset`: row `Σ_{j<i} |wrt_j| + k` of
    `adColumn` is the walk's derivative of equation `i` in direction `k` (this discharges `htd` for the model's own `systemAB`) -/
theorem adColumn_getElem (base : Nat → Int → ℝ) (logly : Nat → Bool) (ext : Fn1 → ℝ → ℝ) (eqs : List (Expr ℝ × List Token))
    (i : Nat) (hi : i < eqs.length) (k : Nat) (hk : k < eqs[i].2.length) :
    (adColumn base logly ext eqs)[((eqs.take i).map (fun p => p.2.length)).sum + k]?
      = some (adDiff base logly ext eqs[i].1 eqs[i].2 k) := by
  unfold adColumn
  have h := flatMap_getElem_offset
    (fun p : Expr ℝ × List Token => (List.range p.2.length).map (fun j => adDiff base logly ext p.1 p.2 j)) eqs i hi k (by simpa using hk)
  simp only [List.length_map, List.length_range] at h
  rw [h]
  simp [hk]

/-- **ONE end-to-end statement for the model's own `systemAB`** (rules → walk → seeds → stacked output → offsets → static map →
    assembly), hypotheses on the inputs only: duplicate-free wrt-lists and an admissible point. If the system is assembled at all (no equation
    rejected), then for every transition equation `i` and every wrt-token `τ = wrt_i[k]` that is in the transition vector, the entry of `A` in
    row `i` and in the column of `τ` is the partial derivative of equation `i`'s residual with respect to `τ` (its logarithm for a log-variable) -/
theorem systemAB_A_entry_sound (base : Nat → Int → ℝ) (logly : Nat → Bool) (ext : Fn1 → ℝ → ℝ)
    (eqs : List (Expr ℝ × List Token)) (tv : List Token) (A B : Nat → Nat → ℝ)
    (h : systemAB base logly ext eqs tv 0 = some (A, B)) (hnd : ∀ p ∈ eqs, p.2.Nodup)
    (i : Nat) (hi : i < eqs.length) (k : Nat) (hk : k < eqs[i].2.length) (hc : eqs[i].2[k] ∈ tv)
    (hadm : Admissible ⟨base, seedSystem eqs[i].2 k, logly, ext⟩ eqs[i].1) :
    HasDerivAt (fun u => eval ⟨perturb base logly (seedSystem eqs[i].2 k) u, seedSystem eqs[i].2 k, logly, ext⟩ eqs[i].1)
      (A i ((tv.map some).idxOf (some eqs[i].2[k]))) 0 := by
  unfold systemAB at h
  cases hcol : (adColumn base logly ext eqs).mapM id with
  | none => rw [hcol] at h; simp at h
  | some col =>
    cases hoffs : rhsOffsets (eqs.map (fun p => p.2.length)) with
    | none => rw [hcol, hoffs] at h; simp at h
    | some offs =>
      rw [hcol, hoffs] at h
      simp only [Option.pure_def, Option.bind_eq_bind, Option.bind_some, Option.some.injEq, Prod.mk.injEq] at h
      obtain ⟨hA, _⟩ := h
      have hcol' := mapM_id_eq_some _ _ hcol
      -- the offsets
      have hoffs' : offs = offsetsFrom 0 (eqs.map (fun p => p.2.length)) := by
        unfold rhsOffsets at hoffs
        split at hoffs
        · simp at hoffs
        · simpa using hoffs.symm
      have hlen : offs.length = eqs.length := by rw [hoffs', offsetsFrom_length]; simp
      have hoff_i : offs[i]'(by omega) = ((eqs.take i).map (fun p => p.2.length)).sum := by
        have := offsetsFrom_getElem (eqs.map (fun p => p.2.length)) 0 i (by simpa using hi)
        rw [← hoffs', List.getElem?_eq_getElem (by omega)] at this
        simp only [Option.some.injEq, Nat.zero_add, ← List.map_take] at this
        exact this
      let t := (eqs.map (·.2)).zip offs
      have htlen : t.length = eqs.length := by simp [t, hlen]
      have hti : ∀ j (hj : j < eqs.length), t[j]'(by omega) = (eqs[j].2, offs[j]'(by omega)) := by
        intro j hj; simp [t]
      let es : Nat → Expr ℝ := fun j => if hj : j < eqs.length then eqs[j].1 else .const 0
      let td : Nat → Nat → ℝ := fun r _ => col.getD r 0
      have key := systemize_entry_sound base logly ext (tv.map some) t es td
        (by
          intro p hp
          obtain ⟨j, hj, rfl⟩ := List.getElem_of_mem hp
          rw [hti j (by omega)]
          exact hnd _ (List.getElem_mem (by omega)))
        (by
          intro j hj k' hk'
          have hj' : j < eqs.length := by omega
          rw [hti j hj'] at hk' ⊢
          simp only [es, hj', dite_true, td]
          have hoff_j : offs[j]'(by omega) = ((eqs.take j).map (fun p => p.2.length)).sum := by
            have := offsetsFrom_getElem (eqs.map (fun p => p.2.length)) 0 j (by simpa using hj')
            rw [← hoffs', List.getElem?_eq_getElem (by omega)] at this
            simp only [Option.some.injEq, Nat.zero_add, ← List.map_take] at this
            exact this
          have h1 := adColumn_getElem base logly ext eqs j hj' k' hk'
          rw [hcol', List.getElem?_map] at h1
          rw [hoff_j]
          cases hget : col[((eqs.take j).map (fun p => p.2.length)).sum + k']? with
          | none => rw [hget] at h1; simp at h1
          | some d =>
            rw [hget] at h1
            simp only [Option.map_some, Option.some.injEq] at h1
            simp only [List.getD_eq_getElem?_getD, hget, Option.getD_some]
            exact h1.symm)
        i (by omega) k (by simp only [hti i hi]; exact hk) (by simp only [hti i hi]; simpa using hc)
        (by simp only [hti i hi, es, hi, dite_true]; exact hadm)
      rw [← hA]
      simp only [hti i hi, es, hi, dite_true] at key
      exact key

/-- **the set of cells a map can ever fill is structural**: whatever the evaluation point (whatever `td`), a cell whose assembled value
    differs from the initial one is addressed by an entry of the map — the pattern depends on the incidence, not on the values; a value that
    happens to be exactly 0 at one point does not remove the cell -/
theorem scatter_changed_addressed {α : Type} (entries : List Entry) (td : Nat → Nat → α) (z : α) (r c : Nat)
    (h : scatterAssign entries td z r c ≠ z) : ∃ en ∈ entries, en.lhsRow = r ∧ en.lhsCol = c := by
  by_contra hno
  apply h
  unfold scatterAssign
  rw [foldl_assign td r c z]
  · split <;> rfl
  · intro en hen hcell
    exact absurd ⟨en, hen, hcell⟩ hno

theorem mem_insertNat (x y : Nat) (l : List Nat) : y ∈ insertNat x l ↔ y = x ∨ y ∈ l := by
  induction l with
  | nil => simp [insertNat]
  | cons a as ih =>
    simp only [insertNat]
    split
    · simp
    · split
      · rename_i h; subst h; simp
      · simp [ih]; tauto

/-- `terminate_jacobian`'s cached rows, read off the stored pattern: a row is cached iff SOME wrt-token of the equation, shifted to SOME
    evaluated period, is a terminal spot — a statement about tokens only; together with `scatter_changed_addressed`: every row that can
    receive a non-zero terminal derivative at ANY later evaluation point is in the cache built at the FIRST one -/
theorem terminalRows_mem (allSpots : List Token) (nreg : Nat) (cols : List Int) (eqs : List (List Token)) (r : Nat) :
    r ∈ terminalRows allSpots nreg cols eqs ↔
      ∃ en ∈ stackedMap allSpots cols eqs, nreg ≤ en.lhsCol ∧ en.lhsRow = r := by
  unfold terminalRows
  have key : ∀ (l : List Nat), r ∈ l.foldr insertNat [] ↔ r ∈ l := by
    intro l
    induction l with
    | nil => simp
    | cons a as ih => simp [mem_insertNat, ih]
  rw [key]
  simp only [List.mem_map, List.mem_filter, decide_eq_true_eq]
  constructor
  · rintro ⟨en, ⟨h1, h2⟩, h3⟩
    exact ⟨en, h1, h2, h3⟩
  · rintro ⟨en, h1, h2, h3⟩
    exact ⟨en, ⟨h1, h2⟩, h3⟩

/-! ### parameter variants: locality -/

/-- `systemize()` of a model with several variants: output `k` is the single-variant computation applied to input variant `k` -/
theorem systemizeVariants_getElem {V S : Type} (one : V → S) (vs : List V) (k : Nat) :
    (systemizeVariants one vs)[k]? = vs[k]?.map one := by
  simp [systemizeVariants]

/-- **variant locality**: changing any OTHER variant (its parameters, its steady state) does not change output `k` — in particular no
    variant is evaluated at variant 0's values -/
theorem variant_locality {V S : Type} (one : V → S) (vs vs' : List V) (k : Nat) (h : vs[k]? = vs'[k]?) :
    (systemizeVariants one vs)[k]? = (systemizeVariants one vs')[k]? := by
  rw [systemizeVariants_getElem, systemizeVariants_getElem, h]

theorem systemizeVariants_length {V S : Type} (one : V → S) (vs : List V) : (systemizeVariants one vs).length = vs.length := by
  simp [systemizeVariants]

/-! ### the evaluator object: every observation is the pure function of the point actually passed -/

/-- **refinement to the stateless spec**: whatever the history of calls on one evaluator object (and whatever point it held before),
    each `eval_func / eval_jacob / eval` returns the residual / Jacobian AT THE GUESS PASSED WITH THAT CALL -/
theorem evRun_eq_pure {P F J : Type} (fn : P → F) (jac : P → J) (s : P) (ops : List (EvOp P)) :
    evRun fn jac s ops = ops.map (fun op => observe fn jac op.guess op) := by
  induction ops generalizing s with
  | nil => rfl
  | cons op ops ih => simp [evRun, evStep, ih]

/-- the invariant a memo of the last guess must keep: the remembered guess IS the point the steady array holds -/
def MemoInv {P : Type} (s : MemoState P) : Prop := ∀ g, s.last = some g → s.point = g

theorem memoStep_inv {P F J : Type} [DecidableEq P] (fn : P → F) (jac : P → J) (s : MemoState P) (op : EvOp P)
    (h : MemoInv s) : MemoInv (memoStep fn jac s op).1 := by
  unfold memoStep
  simp only
  split
  · exact h
  · intro g hg
    simp only [Option.some.injEq] at hg
    exact hg

/-- a memo kept BY VALUE is safe: under the invariant an evaluator that skips the update for an unchanged guess is observationally
    the stateless spec for every history (a memo kept by reference breaks the invariant as soon as the caller updates the array in place) -/
theorem memoRun_eq_pure {P F J : Type} [DecidableEq P] (fn : P → F) (jac : P → J) (s : MemoState P) (hs : MemoInv s)
    (ops : List (EvOp P)) :
    memoRun fn jac s ops = ops.map (fun op => observe fn jac op.guess op) := by
  induction ops generalizing s with
  | nil => rfl
  | cons op ops ih =>
    simp only [memoRun, List.map_cons]
    rw [ih _ (memoStep_inv fn jac s op hs)]
    congr 1
    unfold memoStep
    simp only
    split
    · rename_i hl
      rw [hs _ hl]
    · rfl

/-! ### the terminal condition in matrix form -/

/-- **`terminate_jacobian`**: when the periods after the last simulated one are a linear function `Φ` of the simulated unknowns
    (`x_{T+k} = T^k x_T`, the rows of `[T; T²; …]` picked by `terminal_row_selection`), the Jacobian of the stacked residuals
    `x ↦ G(x, Φ x)` is the plain Jacobian (derivative in the simulated unknowns) plus the terminal block (derivative in the terminal
    spots) composed with `Φ` — `regular + terminal @ curr_TT`, the chain rule over `terminalJacMap` -/
theorem terminal_chain_rule {E Z R : Type*} [NormedAddCommGroup E] [NormedSpace ℝ E] [NormedAddCommGroup Z] [NormedSpace ℝ Z]
    [NormedAddCommGroup R] [NormedSpace ℝ R] (G : E × Z → R) (G' : E × Z →L[ℝ] R) (Φ : E →L[ℝ] Z) (x : E)
    (hG : HasFDerivAt G G' (x, Φ x)) :
    HasFDerivAt (fun y => G (y, Φ y))
      (G'.comp (ContinuousLinearMap.inl ℝ E Z) + (G'.comp (ContinuousLinearMap.inr ℝ E Z)).comp Φ) x := by
  have h := hG.comp x ((hasFDerivAt_id x).prodMk Φ.hasFDerivAt)
  refine h.congr_fderiv ?_
  ext v
  simp only [ContinuousLinearMap.comp_apply, ContinuousLinearMap.prod_apply, ContinuousLinearMap.id_apply,
    add_apply, ContinuousLinearMap.inl_apply, ContinuousLinearMap.inr_apply]
  rw [← map_add]
  simp

/-! ### user context functions: the two-sided difference quotient (partial: only this much is proved) -/

/-- the difference quotient of `finite_differentiators.py` is the exact derivative of every polynomial of degree ≤ 2, for any step -/
theorem centralDiff_exact_quadratic (a b c x eps : ℝ) (h : eps ≠ 0) :
    centralDiff (fun y => a * y ^ 2 + b * y + c) x eps = 2 * a * x + b := by
  simp only [centralDiff]
  push_cast
  field_simp
  ring

/-- … and it is NOT exact beyond degree 2: for `y³` it is off by `eps²` (so for general user functions the property can only hold
    up to the step size; that part is covered by the tolerance comparison of the harness, not by a theorem) -/
theorem centralDiff_cubic (x eps : ℝ) (h : eps ≠ 0) :
    centralDiff (fun y => y ^ 3) x eps = 3 * x ^ 2 + eps ^ 2 := by
  simp only [centralDiff]
  push_cast
  field_simp
  ring

/-- **the finite-difference rule composed with the chain rule**: for `f(g(x))` with a user function `f`, the walk
    (`_calculate_finite_derivatives`) returns `(f v, centralDiff f v eps · d)`; this is sound exactly as far as the difference quotient
    of `f` at `v` is the derivative of `f` there -/
theorem userCall1_sound_of_exact {f g : ℝ → ℝ} {x v d eps : ℝ} (hg : Rep v d g x)
    (hf : HasDerivAt f (centralDiff f v eps) v) :
    Rep (userCall1Value f v d eps) (userCall1Diff f v d eps) (fun y => f (g y)) x := by
  refine ⟨by simp [userCall1Value, hg.val], ?_⟩
  have hf' : HasDerivAt f (centralDiff f v eps) (g x) := by rw [hg.val]; exact hf
  exact hf'.comp x hg.der

/-- exact for every user function that is a polynomial of degree ≤ 2, for any non-zero step (in particular `getEpsilon v`) -/
theorem userCall1_quadratic_sound (a b c : ℝ) {g : ℝ → ℝ} {x v d eps : ℝ} (hg : Rep v d g x) (he : eps ≠ 0) :
    Rep (userCall1Value (fun y => a * y ^ 2 + b * y + c) v d eps) (userCall1Diff (fun y => a * y ^ 2 + b * y + c) v d eps)
      (fun y => a * (g y) ^ 2 + b * (g y) + c) x := by
  apply userCall1_sound_of_exact (f := fun y => a * y ^ 2 + b * y + c) hg
  rw [centralDiff_exact_quadratic a b c v eps he]
  have h := ((((hasDerivAt_pow 2 v).const_mul a).add ((hasDerivAt_id v).const_mul b)).add_const c)
  refine h.congr_deriv ?_
  simp
  ring

/-- for the cubic the walk is off by exactly `eps² · d`: the true derivative of `g(x)³` is `3 v² d`, the walk returns `(3 v² + eps²) d` -/
theorem userCall1_cubic_error {g : ℝ → ℝ} {x v d eps : ℝ} (hg : Rep v d g x) (he : eps ≠ 0) :
    HasDerivAt (fun y => (g y) ^ 3) (3 * v ^ 2 * d) x ∧
      userCall1Diff (fun y => y ^ 3) v d eps - 3 * v ^ 2 * d = eps ^ 2 * d := by
  constructor
  · have h := hg.der.pow 3
    rw [hg.val] at h
    refine h.congr_deriv ?_
    simp
  · rw [userCall1Diff, centralDiff_cubic v eps he]
    ring

/-- with the code's step `eps = max(|v|, 1) · 1e-6` the error for the cubic is `max(|v|, 1)² · 1e-12 · |d|` -/
theorem userCall1_cubic_error_bound (v d : ℝ) :
    |userCall1Diff (fun y => y ^ 3) v d (getEpsilon v) - 3 * v ^ 2 * d| = (max |v| 1) ^ 2 * (1 / 1000000) ^ 2 * |d| := by
  rw [userCall1Diff, centralDiff_cubic v _ (ne_of_gt (getEpsilon_pos v))]
  have : (3 * v ^ 2 + getEpsilon v ^ 2) * d - 3 * v ^ 2 * d = getEpsilon v ^ 2 * d := by ring
  rw [this, abs_mul, abs_of_nonneg (sq_nonneg _), getEpsilon]
  ring

/-- two arguments: the total derivative `Σ_k ∂_k f · d_k` with each partial by its own difference quotient is exact for
    every bilinear-quadratic `f(u, w) = a·u·w + b·u + c·w + e·u²` -/
theorem userCall2_bilinear_sound (a b c e : ℝ) {g1 g2 : ℝ → ℝ} {x v1 d1 v2 d2 eps1 eps2 : ℝ}
    (h1 : Rep v1 d1 g1 x) (h2 : Rep v2 d2 g2 x) (he1 : eps1 ≠ 0) (he2 : eps2 ≠ 0) :
    HasDerivAt (fun y => a * g1 y * g2 y + b * g1 y + c * g2 y + e * (g1 y) ^ 2)
      (userCall2Diff (fun u w => a * u * w + b * u + c * w + e * u ^ 2) v1 d1 eps1 v2 d2 eps2) x := by
  have hd : userCall2Diff (fun u w => a * u * w + b * u + c * w + e * u ^ 2) v1 d1 eps1 v2 d2 eps2
      = (a * v2 + b + 2 * e * v1) * d1 + (a * v1 + c) * d2 := by
    simp only [userCall2Diff, centralDiff]
    push_cast
    field_simp
    ring
  rw [hd]
  have h := ((((h1.der.const_mul a).mul h2.der).add (h1.der.const_mul b)).add (h2.der.const_mul c)).add
    ((h1.der.pow 2).const_mul e)
  rw [h1.val, h2.val] at h
  refine h.congr_deriv ?_
  simp
  ring

/-- **the n-ary finite-difference rule, by induction over the argument list**: for a user function that is a separable quadratic in
    any number of arguments (plus a constant), `Σ_k quotient_k · d_k` is exactly the gradient contracted with the inner derivatives,
    for any non-zero steps -/
theorem userCallN_sepQuad_exact (cs : List (ℝ × ℝ)) (c0 : ℝ) (args : List (ℝ × ℝ × ℝ)) (hlen : args.length = cs.length)
    (heps : ∀ p ∈ args, p.2.2 ≠ 0) :
    userCallNDiff (fun xs => c0 + sepQuad cs xs) args 0 = sepQuadDiff cs args := by
  induction cs generalizing c0 args with
  | nil =>
    cases args with
    | nil => simp [userCallNDiff, sepQuadDiff]
    | cons p rest => simp at hlen
  | cons ab cs ih =>
    obtain ⟨a, b⟩ := ab
    cases args with
    | nil => simp at hlen
    | cons p rest =>
      obtain ⟨v, d, eps⟩ := p
      have he : eps ≠ 0 := heps (v, d, eps) (by simp)
      simp only [userCallNDiff, sepQuadDiff]
      have e1 : (fun y => c0 + sepQuad ((a, b) :: cs) (y :: rest.map (·.1)))
          = fun y => a * y ^ 2 + b * y + (c0 + sepQuad cs (rest.map (·.1))) := by
        funext y; simp only [sepQuad]; ring
      have e2 : (fun tail => c0 + sepQuad ((a, b) :: cs) (v :: tail))
          = fun tail => (c0 + (a * v ^ 2 + b * v)) + sepQuad cs tail := by
        funext tail; simp only [sepQuad]; ring
      rw [e1, e2, centralDiff_exact_quadratic a b _ v eps he,
        ih _ rest (by simpa using hlen) (fun p hp => heps p (List.mem_cons_of_mem _ hp))]

/-- … and that contraction is the true derivative of the composed function (chain rule, by induction over the argument list):
    so the walk is exact for `f(g_1(x), …, g_n(x))` with such an `f`, for every `n` -/
theorem sepQuad_hasDerivAt (cs : List (ℝ × ℝ)) (gs : List (ℝ → ℝ)) (args : List (ℝ × ℝ × ℝ)) (x : ℝ)
    (hlen : gs.length = args.length) (hlen' : args.length = cs.length)
    (hrep : ∀ k (hk : k < gs.length), Rep (args[k]'(hlen ▸ hk)).1 (args[k]'(hlen ▸ hk)).2.1 gs[k] x) :
    HasDerivAt (fun y => sepQuad cs (gs.map (fun g => g y))) (sepQuadDiff cs args) x := by
  induction cs generalizing gs args with
  | nil =>
    have : (fun y => sepQuad [] (gs.map (fun g => g y))) = fun _ => (0 : ℝ) := by funext y; simp [sepQuad]
    rw [this]
    cases args <;> simpa [sepQuadDiff] using hasDerivAt_const x (0 : ℝ)
  | cons ab cs ih =>
    obtain ⟨a, b⟩ := ab
    cases args with
    | nil => simp at hlen'
    | cons p rest =>
      cases gs with
      | nil => simp at hlen
      | cons g gs =>
        obtain ⟨v, d, eps⟩ := p
        have h0 := hrep 0 (by simp)
        simp only [List.getElem_cons_zero] at h0
        have htail := ih gs rest (by simpa using hlen) (by simpa using hlen')
          (fun k hk => by
            have := hrep (k + 1) (by simpa using hk)
            simpa using this)
        have e : (fun y => sepQuad ((a, b) :: cs) ((g :: gs).map (fun g => g y)))
            = fun y => a * (g y) ^ 2 + b * g y + sepQuad cs (gs.map (fun g => g y)) := by
          funext y; simp [sepQuad]
        rw [e]
        have h1 := (((h0.der.pow 2).const_mul a).add (h0.der.const_mul b)).add htail
        rw [h0.val] at h1
        refine h1.congr_deriv ?_
        simp [sepQuadDiff]
        ring

/-- **the n-ary rule for an ARBITRARY differentiable user function** (exactness class): for `f : ℝⁿ → ℝ` with Fréchet derivative `f'` at the
    argument values, the walk's `Σ_k quotient_k · d_k` is the derivative of `x ↦ f(g_1 x, …, g_n x)` as soon as every two-sided quotient
    equals the corresponding partial derivative `f'(e_k)` — e.g. whenever `f` is a polynomial of degree ≤ 2 in each argument separately
    (`centralDiff_exact_quadratic`); in general quotient `k` differs from `f'(e_k)` by the third-order term of `f` in argument `k` times
    `eps_k²/6` (`centralDiff_cubic` is the extremal case), so the walk is off by `Σ_k (that term) · d_k` -/
theorem userCallFin_sound_of_exact {n : ℕ} (f : (Fin n → ℝ) → ℝ) (f' : (Fin n → ℝ) →L[ℝ] ℝ) (g : Fin n → ℝ → ℝ)
    (v d eps : Fin n → ℝ) (x : ℝ) (hg : ∀ k, Rep (v k) (d k) (g k) x) (hf : HasFDerivAt f f' v)
    (hq : ∀ k, centralDiff (fun y => f (Function.update v k y)) (v k) (eps k) = f' (fun j => if k = j then 1 else 0)) :
    HasDerivAt (fun y => f (fun k => g k y))
      (∑ k, centralDiff (fun y => f (Function.update v k y)) (v k) (eps k) * d k) x := by
  have hG : HasDerivAt (fun y => (fun k => g k y)) d x := hasDerivAt_pi.mpr (fun k => (hg k).der)
  have hv : (fun k => g k x) = v := funext (fun k => (hg k).val)
  have hf' : HasFDerivAt f f' ((fun y => (fun k => g k y)) x) := by
    show HasFDerivAt f f' (fun k => g k x)
    rw [hv]; exact hf
  have h := hf'.comp_hasDerivAt x hG
  refine h.congr_deriv ?_
  have := LinearMap.pi_apply_eq_sum_univ (f'.toLinearMap) d
  simp only [ContinuousLinearMap.coe_coe, smul_eq_mul] at this
  rw [this]
  refine Finset.sum_congr rfl (fun k _ => ?_)
  rw [hq k]
  ring

/-! ### non-vacuity: the hypotheses are met by concrete non-trivial values -/

/-- `x * y + log x` at `x = 2` (a log-variable), `y = 3`, system seed in the direction of `x`:
    the walk succeeds, the point is admissible, and the tree uses neither doubtful rule -/
example :
    let e : Expr ℝ := .bin .add (.bin .mul (.tok 0 0) (.tok 1 0)) (.call1 .log (.tok 0 0))
    let c : Ctx ℝ := ⟨fun q _ => if q = 0 then 2 else 3, seedSystem [(0, 0), (1, 0)] 0, fun q => q = 0, fun _ x => x⟩
    (∃ v d, adEval c e = .ok (.atom v d)) ∧ Admissible c e ∧ ¬ UsesSqrt e ∧ ¬ UsesMaximum e := by
  refine ⟨?_, ?_, ?_, ?_⟩
  · simp [adEval, bind, Except.bind, binop, BinOp.dunder, has_mul, has_add, res_mul, res_add, applyAA_mul, applyAA_add,
      call1, Fn1.name, has_log]
  · simp [Admissible, adEval, bind, Except.bind, binop, BinOp.dunder, has_mul, res_mul, applyAA_mul, binGuard, fn1Guard]
  · simp [UsesSqrt]
  · simp [UsesMaximum]

/-- … and the conclusion is reached on that instance: the walk succeeds and what it returns is the derivative along the seed
    (`∂/∂ log x` of `x·y + log x` at `x = 2`, `y = 3`) -/
example :
    let e : Expr ℝ := .bin .add (.bin .mul (.tok 0 0) (.tok 1 0)) (.call1 .log (.tok 0 0))
    let base : Nat → Int → ℝ := fun q _ => if q = 0 then 2 else 3
    let seed : Nat → Int → ℝ := seedSystem [(0, 0), (1, 0)] 0
    let logly : Nat → Bool := fun q => q = 0
    ∃ v d, adEquation ⟨base, seed, logly, fun _ x => x⟩ e = .ok (.atom v d) ∧
      HasDerivAt (fun u => eval ⟨perturb base logly seed u, seed, logly, fun _ x => x⟩ e) d 0 := by
  intro e base seed logly
  have hadm : Admissible ⟨base, seed, logly, fun _ x => x⟩ e := by
    simp [e, base, Admissible, adEval, bind, Except.bind, binop, BinOp.dunder, has_mul, res_mul, applyAA_mul, binGuard, fn1Guard]
  rcases differentiated_correctly_or_rejected_unconditional base seed logly (fun _ x => x) e hadm with ⟨err, herr⟩ | ⟨v, d, h, _, hd⟩
  · exfalso
    simp [e, adEquation, adEval, bind, Except.bind, binop, BinOp.dunder, has_mul, has_add, res_mul, res_add, applyAA_mul, applyAA_add,
      call1, Fn1.name, has_log] at herr
  · exact ⟨v, d, h, hd⟩

/-- `userCallFin_sound_of_exact` is not vacuous: every LINEAR user function of two arguments meets its hypotheses (its quotients are exact) -/
example (f' : (Fin 2 → ℝ) →L[ℝ] ℝ) (v d : Fin 2 → ℝ) (x : ℝ) :
    HasDerivAt (fun y => f' (fun k => v k + d k * (y - x)))
      (∑ k, centralDiff (fun y => f' (Function.update v k y)) (v k) 1 * d k) x := by
  refine userCallFin_sound_of_exact (fun w => f' w) f' (fun k y => v k + d k * (y - x)) v d (fun _ => 1) x
    (fun k => rep_affine (v k) (d k) x) f'.hasFDerivAt ?_
  intro k
  have key : ∀ y, Function.update v k y = v + (y - v k) • (fun j => if k = j then (1 : ℝ) else 0) := by
    intro y
    funext j
    by_cases h : j = k
    · subst h; simp
    · simp [Function.update, h, Ne.symm h]
  simp only [centralDiff, key, map_add, map_smul, smul_eq_mul]
  push_cast
  ring

/-- a rejected tree: `2 ** x` ends in `TypeError`, and `adEval_error_is_typeError` says no tree ends in anything else -/
example : adEval (⟨fun _ _ => 1, fun _ _ => 0, fun _ => false, fun _ x => x⟩ : Ctx ℝ) (.bin .pow (.const 2) (.tok 0 0))
    = .error .typeError := by
  simp [adEval, bind, Except.bind, binop, BinOp.rdunder, no_rpow]

example : Rep 3 1 (fun y => 3 + 1 * (y - 7)) 7 := rep_affine 3 1 7

/-- the map theorems are not vacuous: `x{+1}, x, x{-1}` of one variable (range `-2 … 1`) and `y` (range `0 … 0`) -/
example : transitionVector [(0, -2, 1), (1, 0, 0)] = [(0, 1), (0, 0), (1, 0), (0, -1)] := by decide

example : dynid [(0, 1), (0, 0), (1, 0), (0, -1)] = [(0, 1, 0), (1, 3, 1)] := by decide

example : staticMap (laggedVector [(0, 1), (0, 0), (1, 0), (0, -1)]) [([(0, 0), (0, -2), (1, -1)], 0)]
    = [⟨0, 3, 1, 0⟩, ⟨0, 2, 2, 0⟩] := by decide

example : stackedMap [(0, 1), (1, 1), (0, 2), (1, 2)] [1, 2] [[(0, 0), (0, -1)], [(1, 0), (0, 0)]]
    = [⟨0, 0, 0, 0⟩, ⟨2, 2, 0, 1⟩, ⟨2, 0, 1, 1⟩, ⟨1, 1, 2, 0⟩, ⟨3, 3, 2, 1⟩, ⟨1, 0, 3, 0⟩, ⟨3, 2, 3, 1⟩] := by decide

/-- assembly, variants, evaluator histories: concrete non-trivial instances -/
example : scatterAssign (staticMap [some (0, 0), some (1, 0)] [([(1, 0), (0, 0)], 0)]) (fun r _ => (10 + r : Nat)) 0 0 0 = 11 := by decide

example : systemizeVariants (fun p : Nat => p * p) [2, 3, 5] = [4, 9, 25] := by decide

/-- two equations, two periods, the second equation reads `x0{+1}`: only its last-period row reaches the terminal spot `(0, 3)` -/
example : terminalRows [(0, 1), (1, 1), (0, 2), (1, 2), (0, 3)] 4 [1, 2] [[(0, 0)], [(1, 0), (0, 1)]] = [3] := by decide

example : evRun (fun p : Nat => p) (fun p : Nat => 10 * p) 0 [.evalJacob 1, .evalFunc 2, .evalJacob 2, .evalBoth 3]
    = [.jacob 10, .func 2, .jacob 20, .both 3 30] := by decide

example : userCallNDiff (fun xs : List ℝ => 1 + sepQuad [(1, 0), (0, 2), (3, 1)] xs) [(1, 1, 1), (2, 1, 1), (0, 5, 1)] 0
    = sepQuadDiff [(1, 0), (0, 2), (3, 1)] [(1, 1, 1), (2, 1, 1), (0, 5, 1)] :=
  userCallN_sepQuad_exact _ _ _ rfl (by intro p hp; simp at hp; rcases hp with rfl | rfl | rfl <;> norm_num)

example : MemoInv (⟨7, some 7⟩ : MemoState Nat) := by intro g h; simp at h; exact h

example : terminalSpots [5, 6] [0, 2] (fun q => if q = 0 then 2 else 1) 4 = [(0, (0, 5)), (1, (2, 5)), (2, (0, 6))] := by decide

end IrisVerif.C02
