#!/bin/bash
# run every claimed check (quick) for the given seeds; one summary line each
cd /verif
for seed in "$@"; do
  for p in C01 C02 C03 C04 C05 C06 C07 C08 C09 C10 C11 C12 C13 C14 C15 C16 C17 C18 C19 C20; do
    cp evidence/$p.json /tmp/evid-$p.json 2>/dev/null
    out=$(VERIF_SEED=$seed timeout 1800 ./check $p --tier quick 2>&1); rc=$?
    echo "seed=$seed $p rc=$rc $(echo "$out" | grep "^\[$p\] eval" | sed 's/.*evaluations/evaluations/') $(echo "$out" | grep -c '^VIOLATION') viol"
    if [ $rc -ne 0 ]; then echo "$out" | grep "VIOLATION\|INTERNAL\|tie no longer" | head -5; cp -r replays /tmp/replays-seed$seed-$p 2>/dev/null; fi
  done
done
