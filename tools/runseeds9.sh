#!/bin/bash
# runseeds.sh C09/3 C11/3 ... : copy from /tmp/seed-out into /verif/seeded and run the verdict
cd /verif
for x in "$@"; do
  id=$(echo $x | sed 's:/:-r9-:')
  mkdir -p seeded/$id && cp /tmp/seed-out9/$x/{patch.diff,demo.py,meta.json} seeded/$id/ || continue
  python3 tools/run_seeded.py seeded/$id > /tmp/verdict-$id.log 2>&1
  python3 - <<PY
import json
v=json.load(open('seeded/$id/verdict.json')); m=json.load(open('seeded/$id/meta.json'))
print('$id', 'demo clean/mutant rc:', v.get('demo_clean_rc'), v.get('demo_mutant_rc'), 'applies', v.get('patch_applies'), '| what:', m['what'][:140])
for p,c in v.get('checks',{}).items(): print('   check', p, 'rc', c['rc'], c['wall_s'],'s', (c['replay'] or {}).get('site'), 'NOINPUT' if (c['replay'] or {}).get('no_failing_input') else '', str((c['replay'] or {}).get('detail'))[:140])
PY
done
