/-
Model of irispie/dataslates (property C19):
  dataslates/main.py       `Dataslate.from_databox`, `_slate_value_variant_iterator`, `to_databox`,
                           `_get_extended_span`
  dataslates/_variants.py  `Variant.from_databox_variant`, `_apply_fallbacks`, `_apply_overwrites`
  dataslates/_invariants.py `Invariant` (names, periods, base columns)
  conveniences/iterators.py `exhaust_then_last`
A dataslate is, per variant, a names x periods array of cells (`none` = NaN).

Core Lean only (no Mathlib).
-/
import IrisVerif.Model.Databox

namespace IrisVerif.Dataslate
open IrisVerif.Dates (Err R)
open IrisVerif.Databox

/-- `exhaust_then_last(iterable)` at position `v`: the `v`-th element, the last one once exhausted;
`none` for an empty iterable (the iterator then yields its default `None`) -/
def exhaustThenLast {α : Type} (l : List α) (v : Nat) : Option α :=
  match l with
  | [] => none
  | x :: xs => if v < l.length then l[v]? else some ((x :: xs).getLast (by simp))

structure Slate (V : Type) where
  names : List String
  freq : BFreq
  start : Int
  len : Nat
  baseCols : List Nat
  /-- variant x name x period -/
  variants : List (List (List (Option V)))
  /-- `min_max_shift` of the invariant: (−number of initial periods, number of terminal periods) -/
  minShift : Int := 0
  maxShift : Int := 0
  deriving Repr, DecidableEq

section
variable {V : Type}

/-- column `j` of a series over the periods `start, …, start+len-1` (`get_data_from_until` pads with NaN) -/
def serColumn (s : Ser V) (j : Nat) (start : Int) (len : Nat) : List (Option V) :=
  (List.range len).map (fun (i : Nat) => ((s.rowAt (start + (i : Int)))[j]?).getD none)

/-- what `_slate_value_variant_iterator(value)` yields at variant `v`, broadcast over the periods -/
def variantRow (f : BFreq) (start : Int) (len : Nat) (v : Nat) : Item (Ser V) V → R (List (Option V))
  | .ser s =>
    if s.freq ≠ .U ∧ s.freq ≠ f then throw .mixedFreq
    else if s.nv = 0 then throw .badInput
    else pure (serColumn s (min v (s.nv - 1)) start len)
  | .scalar x => pure (List.replicate len x)
  | .list l =>
    match exhaustThenLast l v with
    | none => throw .badInput                 -- `new_data[:] = None`
    | some x => pure (List.replicate len x)

def nanVec (len : Nat) : List (Option V) := List.replicate len none

/-- scalar value of a fallback / overwrite entry at variant `v` (series-valued entries are not modelled) -/
def fillValue (v : Nat) : Item (Ser V) V → R (Option V)
  | .scalar x => pure x
  | .list l => match exhaustThenLast l v with
    | none => throw .badInput
    | some x => pure x
  | .ser _ => throw .badInput

/-- `_apply_fallbacks` on one record: NaN cells get the fallback value -/
def applyFallback (fb : Option (Option V)) (row : List (Option V)) : List (Option V) :=
  match fb with
  | none => row
  | some x => row.map (fun c => match c with | none => x | some y => some y)

/-- `_apply_overwrites` on one record: every cell gets the value -/
def applyOverwrite (ow : Option (Option V)) (row : List (Option V)) : List (Option V) :=
  match ow with
  | none => row
  | some x => row.map (fun _ => x)

/-- `clip_data_to_base_span`: columns outside `base_columns` become NaN (when there are such columns) -/
def clipRow (clip : Bool) (baseCols : List Nat) (row : List (Option V)) : List (Option V) :=
  if clip then (List.range row.length).zipWith (fun i c => if baseCols.contains i then c else none) row else row

def fillFor (tbl : Box (Ser V) V) (v : Nat) (n : String) : R (Option (Option V)) :=
  match lookup tbl n with
  | none => pure none
  | some it => do let x ← fillValue v it; pure (some x)

/-- one record (name `n`) of `Variant.from_databox_variant` for variant `v`: the input row, clipped to the base
columns, NaN cells filled by the fallback, everything replaced by the overwrite -/
def recordOf (db : Box (Ser V) V) (f : BFreq) (start : Int) (len : Nat)
    (fallbacks overwrites : Box (Ser V) V) (clip : Bool) (baseCols : List Nat) (v : Nat) (n : String) :
    R (List (Option V)) := do
  let row ← match lookup db n with
    | none => (pure (nanVec len) : R (List (Option V)))
    | some it => variantRow f start len v it
  let fb ← fillFor fallbacks v n
  let ow ← fillFor overwrites v n
  pure (applyOverwrite ow (applyFallback fb (clipRow clip baseCols row)))

/-- `Variant.from_databox_variant` for variant `v` -/
def fromDataboxVariant (db : Box (Ser V) V) (names : List String) (f : BFreq) (start : Int) (len : Nat)
    (fallbacks overwrites : Box (Ser V) V) (clip : Bool) (baseCols : List Nat) (v : Nat) :
    R (List (List (Option V))) :=
  if names.isEmpty then throw .badInput            -- `np.vstack([])`
  else names.mapM (recordOf db f start len fallbacks overwrites clip baseCols v)

/-- `Dataslate.from_databox(db, names, periods, num_variants=…, fallbacks=…, overwrites=…,
clip_data_to_base_span=…, base_columns=…)` for the contiguous periods `start, …, start+len-1` of frequency `f`
(`names = none`: all keys) -/
def fromDatabox (db : Box (Ser V) V) (names : Option (List String)) (f : BFreq) (start : Int) (len : Nat)
    (numVariants : Nat) (fallbacks overwrites : Box (Ser V) V) (clip : Bool) (baseCols : List Nat) : R (Slate V) := do
  let names := names.getD (keys db)
  let vs ← (List.range numVariants).mapM
    (fromDataboxVariant db names f start len fallbacks overwrites clip baseCols)
  pure { names := names, freq := f, start := start, len := len, baseCols := baseCols, variants := vs }

/-- `_get_extended_span`: the periods a slatable with the given maximum lag (≤ 0) and lead (≥ 0) needs around a
base span, and the positions of the base periods in it -/
def extendedSpan (baseStart : Int) (baseLen : Nat) (maxLag maxLead : Int) (prepend append : Bool) :
    Int × Nat × List Nat :=
  let minShift := if prepend then maxLag else 0
  let maxShift := if append then maxLead else 0
  let start := baseStart + minShift
  let stop := baseStart + (baseLen : Int) - 1 + maxShift
  (start, (stop - start + 1).toNat, (List.range baseLen).map (fun (i : Nat) => ((i : Int) - minShift).toNat))

/-- transpose variant-major records into period-major rows: `np.vstack([v.data[qid, :] for v in variants]).T` -/
def rowsOf (len : Nat) (cols : List (List (Option V))) : List (List (Option V)) :=
  (List.range len).map (fun (i : Nat) => cols.map (fun col => (col[i]?).getD none))

/-- `to_databox(span="full", trim=…)` -/
def toDatabox (sl : Slate V) (trim : Bool) : R (List (String × Ser V)) :=
  if sl.variants.isEmpty then throw .badInput            -- `np.vstack([])`
  else
    let items := (List.range sl.names.length).zip sl.names |>.map (fun (qn : Nat × String) =>
      let cols := sl.variants.map (fun v => (v[qn.1]?).getD [])
      let s : Ser V := ⟨sl.freq, sl.start, sl.variants.length, rowsOf sl.len cols, ""⟩
      (qn.2, if trim then s.trim else s))
    pure (dictOfList items)

/-! ### Operations on the periods of an existing dataslate (`Dataslate.remove_periods_from_start` …, with the
bookkeeping of `Invariant` and `Variant`) -/

/-- the periods the base columns point at -/
def Slate.basePeriods (sl : Slate V) : List Int := sl.baseCols.map (fun (i : Nat) => sl.start + (i : Int))

/-- `remove_periods_from_start(n)`: the first `n` periods and data columns go; base columns inside the removed part go,
the others shift by `n` -/
def Slate.removeFromStart (sl : Slate V) (n : Nat) : Slate V :=
  { sl with
    start := sl.start + (n : Int), len := sl.len - n,
    baseCols := (sl.baseCols.filter (fun i => n ≤ i)).map (fun i => i - n),
    variants := sl.variants.map (fun v => v.map (fun r => r.drop n)) }

/-- `remove_periods_from_end(n)` -/
def Slate.removeFromEnd (sl : Slate V) (n : Nat) : Slate V :=
  { sl with
    len := sl.len - n,
    baseCols := sl.baseCols.filter (fun i => i < sl.len - n),
    variants := sl.variants.map (fun v => v.map (fun r => r.take (r.length - n))) }

/-- `add_periods_to_end(n)`: `n` further periods with NaN data (as repaired: the code at the pinned commit repeats the
last period, see notes/C19.md) -/
def Slate.addToEnd (sl : Slate V) (n : Nat) : Slate V :=
  { sl with
    len := sl.len + n,
    variants := sl.variants.map (fun v => v.map (fun r => r ++ List.replicate n none)) }

/-- `remove_initial()` / `remove_terminal()`: by the recorded shifts (which the code does not update afterwards) -/
def Slate.removeInitial (sl : Slate V) : R (Slate V) :=
  if 0 < sl.minShift then throw .badInput else pure (sl.removeFromStart (-sl.minShift).toNat)

def Slate.removeTerminal (sl : Slate V) : R (Slate V) :=
  if sl.maxShift < 0 then throw .badInput else pure (sl.removeFromEnd sl.maxShift.toNat)

/-- `to_databox(span="base", trim=…)`: the contiguous slice from the first to the last base column -/
def toDataboxBase (sl : Slate V) (trim : Bool) : R (List (String × Ser V)) :=
  match sl.baseCols.head?, sl.baseCols.getLast? with
  | some b0, some b1 =>
    if sl.variants.isEmpty then throw .badInput
    else
      let items := (List.range sl.names.length).zip sl.names |>.map (fun (qn : Nat × String) =>
        let cols := sl.variants.map (fun v => (((v[qn.1]?).getD []).drop b0).take (b1 + 1 - b0))
        let s : Ser V := ⟨sl.freq, sl.start + (b0 : Int), sl.variants.length, rowsOf (b1 + 1 - b0) cols, ""⟩
        (qn.2, if trim then s.trim else s))
      pure (dictOfList items)
  | _, _ => throw .badInput                               -- `base_columns[0]`: IndexError

end

end IrisVerif.Dataslate
