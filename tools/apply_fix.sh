#!/bin/bash
# apply_fix.sh <slug>: apply pending_fixes/<slug>.diff to /repo as one "fix:" commit (message from <slug>.msg)
set -e
slug="$1"
cd /repo
git apply --check /verif/pending_fixes/$slug.diff
git apply /verif/pending_fixes/$slug.diff
head -c 4 /verif/pending_fixes/$slug.msg | grep -q "fix:" || { echo "message of $slug does not start with fix:"; git checkout -- .; exit 1; }
git commit -qa -F /verif/pending_fixes/$slug.msg
echo "$slug -> $(git log --oneline -1 | cut -c1-60)"
