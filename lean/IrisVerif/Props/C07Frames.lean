/-
C07, part 2: theorems about `IrisVerif.Model.PlanFrames` -- the expansion memo as a state machine, the loop over frames on an
immutable input (each frame reads the original input, transformed once; composition of per-frame statements into the whole-span
statement), the forms in which plan dates are handed over, and the executable inverse used by the model's `predict`.
-/
import Mathlib.Data.List.Range
import Mathlib.Tactic.Ring
import Mathlib.Tactic.Linarith
import IrisVerif.Model.PlanFrames

namespace IrisVerif.C07Frames

open IrisVerif IrisVerif.Plans

/-! ## 1. The expansion memo: refinement to the stateless formula -/

section Memo

variable {α : Type}

/-- the memo's invariant: entry `k` is `f k` (for the solution object: `memo[k] = -X J^k Ru`) -/
def MemoOk (f : Nat → α) (memo : List α) : Prop := memo = (List.range memo.length).map f

theorem memoOk_nil (f : Nat → α) : MemoOk f [] := rfl

theorem memoExpand_memo (f : Nat → α) (p0 : α) (memo : List α) (fwd : Nat) (h : MemoOk f memo) :
    (memoExpand f p0 memo fwd).1 = (List.range (memo.length + (fwd - memo.length))).map f := by
  unfold memoExpand
  simp only
  conv_lhs => rw [h]
  simp only [List.length_map, List.length_range]
  rw [← List.map_append, List.range_eq_range', List.range_eq_range']
  congr 1
  have := List.range'_append (s := 0) (m := memo.length) (n := fwd - memo.length) (step := 1)
  simpa using this

/-- the invariant is kept by every call -/
theorem memoExpand_ok (f : Nat → α) (p0 : α) (memo : List α) (fwd : Nat) (h : MemoOk f memo) :
    MemoOk f (memoExpand f p0 memo fwd).1 := by
  unfold MemoOk
  rw [memoExpand_memo f p0 memo fwd h]
  simp

/-- **every call returns the stateless formula** `[R0, f 0, …, f (forward-1)]`, whatever was asked before -/
theorem memoExpand_out (f : Nat → α) (p0 : α) (memo : List α) (fwd : Nat) (h : MemoOk f memo) :
    (memoExpand f p0 memo fwd).2 = p0 :: (List.range fwd).map f := by
  have h1 := memoExpand_memo f p0 memo fwd h
  have h2 : (memoExpand f p0 memo fwd).2 = p0 :: ((memoExpand f p0 memo fwd).1).take fwd := rfl
  rw [h2, h1, ← List.map_take, List.take_range]
  congr 3
  omega

/-- **refinement by induction over call histories**: on one solution object, the results of any sequence of calls are those of
the pure function of the parameters -/
theorem memoRun_pure (f : Nat → α) (p0 : α) (fwds : List Nat) :
    ∀ memo, MemoOk f memo → memoRun f p0 memo fwds = fwds.map (fun fwd => p0 :: (List.range fwd).map f) := by
  induction fwds with
  | nil => intro _ _; rfl
  | cons fwd rest ih =>
    intro memo h
    simp only [memoRun, List.map_cons]
    rw [memoExpand_out f p0 memo fwd h, ih _ (memoExpand_ok f p0 memo fwd h)]

/-- for the solution object: any history of `expand_square_solution(forward)` returns `[R_0, …, R_forward]` of
`_get_solution_expansion` (`R_0 = P`, `R_k = -X J^(k-1) Ru`) -/
theorem expandHistory_eq (s : Sol) (fwds : List Nat) :
    s.expandHistory fwds = fwds.map (fun fwd => (List.range (fwd + 1)).map s.R) := by
  unfold Sol.expandHistory
  rw [memoRun_pure _ _ _ [] (memoOk_nil _)]
  apply List.map_congr_left
  intro fwd _
  rw [List.range_succ_eq_map, List.map_cons, List.map_map]
  rfl

example : memoRun (fun k => 10 * k) 7 [] [2, 0, 3, 1] = [[7, 0, 10], [7], [7, 0, 10, 20], [7, 0]] := by decide

end Memo

/-! ## 2. Frames -/

section Frames

variable {α β : Type}

theorem writeBack_inside (main out : Nat → α) (fr : Frame) (t : Nat) (h : fr.contains t = true) :
    writeBack main out fr t = out t := by simp [writeBack, h]

theorem writeBack_outside (main out : Nat → α) (fr : Frame) (t : Nat) (h : fr.contains t = false) :
    writeBack main out fr t = main t := by simp [writeBack, h]

/-- frames that do not contain `t` leave column `t` alone -/
theorem simulateFrames_untouched (run : Frame → β → (Nat → α) → (Nat → α)) (input : β) (frames : List Frame) (t : Nat)
    (h : ∀ fr ∈ frames, fr.contains t = false) : ∀ main, simulateFrames run input frames main t = main t := by
  induction frames with
  | nil => intro _; rfl
  | cons fr rest ih =>
    intro main
    have h1 := ih (fun f hf => h f (List.mem_cons_of_mem _ hf)) (writeBack main (run fr input main) fr)
    simp only [simulateFrames, List.foldl_cons] at h1 ⊢
    rw [h1, writeBack_outside _ _ _ _ (h fr List.mem_cons_self)]

/-- **locality of the frame loop**: the final value of column `t` is the one computed by the (last) frame containing `t`, run on
the ORIGINAL input and on the main data as left by the frames before it -/
theorem simulateFrames_at (run : Frame → β → (Nat → α) → (Nat → α)) (input : β) (pre post : List Frame) (fr : Frame) (t : Nat)
    (main : Nat → α) (hin : fr.contains t = true) (hpost : ∀ f ∈ post, f.contains t = false) :
    simulateFrames run input (pre ++ fr :: post) main t
      = run fr input (simulateFrames run input pre main) t := by
  have h1 : simulateFrames run input (pre ++ fr :: post) main
      = simulateFrames run input post
          (writeBack (simulateFrames run input pre main) (run fr input (simulateFrames run input pre main)) fr) := by
    simp [simulateFrames, List.foldl_append]
  rw [h1, simulateFrames_untouched run input post t hpost, writeBack_inside _ _ _ _ hin]

/-- **(2a) composition of the per-frame statements into the whole-span statement.**  `Good t v` is any per-column statement
("the exogenized variables of column t equal their inputs", "column t satisfies the transition identity", …).  If every frame,
on whatever main data it is run, delivers `Good` in the columns of its own slice, and the slices are pairwise disjoint (the frames
tile the span), then the final data are `Good` in every column covered by a frame. -/
theorem whole_span_of_frames (run : Frame → β → (Nat → α) → (Nat → α)) (input : β) (frames : List Frame) (main : Nat → α)
    (Good : Nat → α → Prop)
    (hframe : ∀ fr ∈ frames, ∀ (m : Nat → α) (t : Nat), fr.contains t = true → Good t (run fr input m t))
    (hdisj : frames.Pairwise (fun f g => ∀ t, ¬ (f.contains t = true ∧ g.contains t = true)))
    (fr : Frame) (hfr : fr ∈ frames) (t : Nat) (ht : fr.contains t = true) :
    Good t (simulateFrames run input frames main t) := by
  obtain ⟨pre, post, rfl⟩ := List.append_of_mem hfr
  have hpost : ∀ f ∈ post, f.contains t = false := by
    intro f hf
    have := (List.pairwise_append.mp hdisj).2.1
    have h2 := (List.pairwise_cons.mp this).1 f hf t
    cases hc : f.contains t with
    | false => rfl
    | true => exact absurd ⟨ht, hc⟩ h2
  rw [simulateFrames_at run input pre post fr t main ht hpost]
  exact hframe fr hfr _ t ht

/-- **each frame reads the original input**: if no frame step modifies the shared input, the stateful loop is the loop on an
immutable input (induction over frames) -/
theorem simulateFramesSt_pure (step : Frame → β → (Nat → α) → β × (Nat → α))
    (hpure : ∀ fr inp m, (step fr inp m).1 = inp) (frames : List Frame) :
    ∀ (input : β) (main : Nat → α),
      simulateFramesSt step input frames main
        = (input, simulateFrames (fun fr inp m => (step fr inp m).2) input frames main) := by
  induction frames with
  | nil => intro _ _; rfl
  | cons fr rest ih =>
    intro input main
    simp only [simulateFramesSt, simulateFrames, List.foldl_cons]
    rw [hpure, ih]
    rfl

/-- the repaired `_simulate_conditional` (logarithm on a copy): in every frame, whatever came before, the conditioning step receives
the original input **logarithmized exactly once** -/
theorem stepCopy_frames (lg : α → α) (isLog : Nat → Bool)
    (cond : Frame → (Nat → Nat → α) → (Nat → α) → (Nat → α)) (frames : List Frame) (input : Nat → Nat → α) (main : Nat → α) :
    simulateFramesSt (stepCopy lg isLog cond) input frames main
      = (input, simulateFrames (fun fr inp m => cond fr (logRows lg isLog inp) m) input frames main) :=
  simulateFramesSt_pure _ (fun _ _ _ => rfl) frames input main

/-- the in-place variant hands `lg (lg x)` to the second frame: with two frames the second one is run on the input
logarithmized twice -/
theorem stepInPlace_second_frame (lg : α → α) (isLog : Nat → Bool)
    (cond : Frame → (Nat → Nat → α) → (Nat → α) → (Nat → α)) (f1 f2 : Frame) (input : Nat → Nat → α) (main : Nat → α) :
    (simulateFramesSt (stepInPlace lg isLog cond) input [f1, f2] main).2
      = writeBack (writeBack main (cond f1 (logRows lg isLog input) main) f1)
          (cond f2 (logRows lg isLog (logRows lg isLog input))
            (writeBack main (cond f1 (logRows lg isLog input) main) f1)) f2 := rfl

/-- non-vacuity: two tiling frames, the frame result records which input value the frame saw; the loop on a copy shows `lg x`
in both frames, the in-place loop `lg (lg x)` in the second -/
example :
    let cond : Frame → (Nat → Nat → Nat) → (Nat → Nat) → (Nat → Nat) := fun _ inp _ t => inp 0 t
    let frames := [(⟨0, 1⟩ : Frame), ⟨2, 3⟩]
    ((List.range 4).map (simulateFramesSt (stepCopy (· + 100) (fun _ => true) cond) (fun _ t => t) frames (fun _ => 0)).2
      = [100, 101, 102, 103]) ∧
    ((List.range 4).map (simulateFramesSt (stepInPlace (· + 100) (fun _ => true) cond) (fun _ t => t) frames (fun _ => 0)).2
      = [100, 101, 202, 203]) := by decide

end Frames

/-! ## 3. Plan dates -/

section Dates

theorem mem_spanOffsets_pos (a b step t : Int) (hs : 0 < step) :
    t ∈ spanOffsets a b step ↔ a ≤ t ∧ t ≤ b ∧ (t - a) % step = 0 := by
  unfold spanOffsets
  simp only [hs, if_true, List.mem_map, List.mem_range]
  constructor
  · rintro ⟨i, hi, rfl⟩
    have hi' : (i : Int) ≤ (b - a) / step := by omega
    have h1 : (i : Int) * step ≤ b - a := (Int.le_ediv_iff_mul_le hs).mp hi'
    have h0 : 0 ≤ (i : Int) * step := Int.mul_nonneg (by omega) (le_of_lt hs)
    refine ⟨by linarith, by linarith, ?_⟩
    have : a + (i : Int) * step - a = (i : Int) * step := by ring
    rw [this, Int.mul_emod_left]
  · rintro ⟨h1, h2, h3⟩
    have hd : step ∣ (t - a) := Int.dvd_of_emod_eq_zero h3
    obtain ⟨q, hq⟩ := hd
    have hq0 : 0 ≤ q := by
      by_contra hneg
      have : q ≤ -1 := by omega
      have : step * q ≤ step * (-1) := Int.mul_le_mul_of_nonneg_left this (le_of_lt hs)
      linarith
    have hqle : q ≤ (b - a) / step := by
      apply (Int.le_ediv_iff_mul_le hs).mpr
      have : q * step = t - a := by rw [hq]; ring
      linarith
    refine ⟨q.toNat, by omega, ?_⟩
    have : ((q.toNat : Nat) : Int) = q := Int.toNat_of_nonneg hq0
    rw [this]
    have : q * step = t - a := by rw [hq]; ring
    linarith

theorem mem_spanOffsets_neg (a b d t : Int) (hd : 0 < d) :
    t ∈ spanOffsets a b (-d) ↔ b ≤ t ∧ t ≤ a ∧ (a - t) % d = 0 := by
  unfold spanOffsets
  have hn : ¬ (0 < -d) := by omega
  have hn2 : -d < 0 := by omega
  simp only [hn, if_false, hn2, if_true, List.mem_map, List.mem_range, neg_neg]
  constructor
  · rintro ⟨i, hi, rfl⟩
    have hi' : (i : Int) ≤ (a - b) / d := by omega
    have h1 : (i : Int) * d ≤ a - b := (Int.le_ediv_iff_mul_le hd).mp hi'
    have h0 : 0 ≤ (i : Int) * d := Int.mul_nonneg (by omega) (le_of_lt hd)
    refine ⟨by linarith, by linarith, ?_⟩
    have : a - (a + (i : Int) * -d) = (i : Int) * d := by ring
    rw [this, Int.mul_emod_left]
  · rintro ⟨h1, h2, h3⟩
    obtain ⟨q, hq⟩ := Int.dvd_of_emod_eq_zero h3
    have hq0 : 0 ≤ q := by
      by_contra hneg
      have : q ≤ -1 := by omega
      have : d * q ≤ d * (-1) := Int.mul_le_mul_of_nonneg_left this (le_of_lt hd)
      linarith
    have hqle : q ≤ (a - b) / d := by
      apply (Int.le_ediv_iff_mul_le hd).mpr
      have : q * d = a - t := by rw [hq]; ring
      linarith
    refine ⟨q.toNat, by omega, ?_⟩
    have : ((q.toNat : Nat) : Int) = q := Int.toNat_of_nonneg hq0
    rw [this]
    have : q * d = a - t := by rw [hq]; ring
    linarith

/-- a backward span over a grid enumerates the same dates as the forward one -/
theorem spanOffsets_backward (a b d : Int) (hd : 0 < d) (hgrid : (b - a) % d = 0) (t : Int) :
    t ∈ spanOffsets b a (-d) ↔ t ∈ spanOffsets a b d := by
  rw [mem_spanOffsets_neg b a d t hd, mem_spanOffsets_pos a b d t hd]
  obtain ⟨q, hq⟩ := Int.dvd_of_emod_eq_zero hgrid
  constructor
  · rintro ⟨h1, h2, h3⟩
    obtain ⟨r, hr⟩ := Int.dvd_of_emod_eq_zero h3
    refine ⟨h1, h2, ?_⟩
    have : t - a = d * (q - r) := by rw [mul_sub, ← hq, ← hr]; ring
    rw [this, Int.mul_emod_right]
  · rintro ⟨h1, h2, h3⟩
    obtain ⟨r, hr⟩ := Int.dvd_of_emod_eq_zero h3
    refine ⟨h1, h2, ?_⟩
    have : b - t = d * (q - r) := by rw [mul_sub, ← hq, ← hr]; ring
    rw [this, Int.mul_emod_right]

/-- a write depends on the period list only through its set (restated here for the model of part 1; proved there as
`IrisVerif.C07.write_periods_set` with Mathlib in scope -- this copy keeps the present module free of that import) -/
theorem write_set (p : Plan) (k : Kind) (periods periods' : List Int) (names : List Nat) (st : Bool)
    (h : ∀ t, t ∈ periods ↔ t ∈ periods') :
    p.write k periods names st = p.write k periods' names st := by
  have h1 : (periods.any fun t => t < 0 || (p.numPeriods : Int) ≤ t) = (periods'.any fun t => t < 0 || (p.numPeriods : Int) ≤ t) := by
    rw [Bool.eq_iff_iff]
    simp only [List.any_eq_true]
    exact ⟨fun ⟨t, ht, hp⟩ => ⟨t, (h t).mp ht, hp⟩, fun ⟨t, ht, hp⟩ => ⟨t, (h t).mpr ht, hp⟩⟩
  have h2 : ∀ t : Nat, (periods.map Int.toNat).contains t = (periods'.map Int.toNat).contains t := by
    intro t
    rw [Bool.eq_iff_iff]
    simp only [List.contains_iff_mem, List.mem_map]
    exact ⟨fun ⟨a, ha, e⟩ => ⟨a, (h a).mp ha, e⟩, fun ⟨a, ha, e⟩ => ⟨a, (h a).mpr ha, e⟩⟩
  unfold Plan.write
  simp only [h1, h2]

/-- **a stepped span registers exactly the dates on its grid** (and nothing in between): handing over `Span(a, b, d)` is the same
plan call as handing over any list whose elements are the `t` with `a ≤ t ≤ b`, `d ∣ t - a` -/
theorem writeDates_span_forward (p : Plan) (k : Kind) (e1 e2 : EndPt) (d : Int) (hd : 0 < d) (ts : List Int) (names : List Nat)
    (st : Bool)
    (hts : ∀ t, t ∈ ts ↔ e1.resolve p.numPeriods ≤ t ∧ t ≤ e2.resolve p.numPeriods ∧ (t - e1.resolve p.numPeriods) % d = 0) :
    p.writeDates k (.span e1 e2 d) names st = p.writeDates k (.periods ts) names st := by
  unfold Plan.writeDates periodIndexes
  apply write_set
  intro t
  rw [mem_spanOffsets_pos _ _ _ _ hd, hts]

/-- **a backward span over a grid is the same plan call as the forward one** (it does not register nothing, and not more) -/
theorem writeDates_span_backward (p : Plan) (k : Kind) (e1 e2 : EndPt) (d : Int) (hd : 0 < d)
    (hgrid : (e2.resolve p.numPeriods - e1.resolve p.numPeriods) % d = 0) (names : List Nat) (st : Bool) :
    p.writeDates k (.span e2 e1 (-d)) names st = p.writeDates k (.span e1 e2 d) names st := by
  unfold Plan.writeDates periodIndexes
  apply write_set
  intro t
  exact spanOffsets_backward _ _ d hd hgrid t

/-- a context-dependent span is the resolved one: `ir.start + a >> ir.end + o` on a plan of `np` periods is `a >> np - 1 + o` -/
theorem periodIndexes_contextual (np : Nat) (a o step : Int) :
    periodIndexes np (.span (.fromStart a) (.fromEnd o) step) = periodIndexes np (.span (.abs a) (.abs ((np : Int) - 1 + o)) step) := rfl

example : spanOffsets 1 5 2 = [1, 3, 5] ∧ spanOffsets 5 1 (-2) = [5, 3, 1] ∧ spanOffsets 1 6 2 = [1, 3, 5] ∧
    spanOffsets 4 1 (-1) = [4, 3, 2, 1] ∧ spanOffsets 3 1 1 = [] ∧ spanOffsets 1 3 0 = [] := by decide

example : periodIndexes 6 (.span (.fromStart 1) (.fromEnd (-1)) 2) = [1, 3] ∧
    periodIndexes 6 (.span (.fromEnd 0) (.fromStart 2) (-3)) = [5, 2] := by decide

example : ((Plan.empty 6 1 1).writeDates .exoAnt (.span (.abs 1) (.abs 5) 2) [0] true).toOption.map
      (fun p => p.boolArray .exoAnt [0, 1, 2, 3, 4, 5]) = some [[false, true, false, true, false, true]] := by decide

end Dates

/-! ## 4. The inverse the model's `predict` uses is a checked inverse -/

section Inverse

/-- `QMat.inverse` (= `solveChecked` against the identity) only ever returns a matrix that it has verified exactly: so whenever the
model's `predict` gets past a period (no `err:singular`), the `Fi` it caches satisfies `F Fi = 1` in exact arithmetic -- the
executable form of hypothesis `hF` of `IrisVerif.C07.conditional_simulation_identities` -/
theorem inverse_some_checked (a x : QMat) (h : QMat.inverse a = some x) :
    QMat.eqv (a * x) (QMat.identity a.rows) = true := by
  unfold QMat.inverse QMat.solveChecked at h
  split at h
  · split at h
    · rename_i hc
      cases h
      exact hc
    · cases h
  · cases h

example : (QMat.inverse (QMat.ofRows [[2, 1], [1, 1]])).isSome = true := by decide +kernel

end Inverse

/-! ## 5. Spellings of one option are one request -/

section Spellings

/-- the documented aliases resolve to the module of the full name, and leaving the keyword out is `first_order` -/
theorem resolveMethod_aliases :
    resolveMethod (some "stacked") = resolveMethod (some "stacked_time") ∧
    resolveMethod (some "period") = resolveMethod (some "period_by_period") ∧
    resolveMethod none = resolveMethod (some "first_order") := by decide

/-- **API equivalence**: a simulation reads the spelling only through its resolution, so two spellings of one method give the same
result, whatever the simulators do -/
theorem simulateSpelled_equiv {α : Type} (run : SimMethod → α) (s s' : Option String)
    (h : resolveMethod s = resolveMethod s') : simulateSpelled run s = simulateSpelled run s' := by
  unfold simulateSpelled; rw [h]

theorem simulateSpelled_stacked {α : Type} (run : SimMethod → α) :
    simulateSpelled run (some "stacked") = simulateSpelled run (some "stacked_time") :=
  simulateSpelled_equiv run _ _ resolveMethod_aliases.1

/-- the resolution is onto the three modules and each resolved name is itself a spelling of its module -/
theorem resolveMethod_name (m : SimMethod) : resolveMethod (some m.name) = some m := by cases m <;> rfl

example : resolveMethod (some "Stacked") = none ∧ (resolveMethod (some "stacked")).map SimMethod.name = some "stacked_time" := by decide

end Spellings

/-! ## 6. Variant locality -/

section Variants

variable {β γ α : Type}

theorem broadcastVariants_get (n : Nat) (datas : List γ) (k : Nat) (hk : k < n) (hne : datas ≠ []) :
    (broadcastVariants n datas)[k]? = datas[min k (datas.length - 1)]? := by
  have hlen : 0 < datas.length := List.length_pos_iff.mpr hne
  have hall : ∀ j, (datas[min j (datas.length - 1)]?).isSome = true := by
    intro j
    have : min j (datas.length - 1) < datas.length := by omega
    simp [List.getElem?_eq_getElem this]
  unfold broadcastVariants
  have hmap : (List.range n).filterMap (fun k => datas[min k (datas.length - 1)]?)
      = (List.range n).map (fun k => (datas[min k (datas.length - 1)]?).get (hall k)) := by
    rw [← List.filterMap_eq_map']
    apply List.filterMap_congr
    intro j _
    simp
  rw [hmap, List.getElem?_map, List.getElem?_range hk]
  simp

/-- **variant locality**: output variant `k` is the simulation of MODEL variant `k` on DATA variant `min k last` -- its own targets, its
own shocks, its own initial condition -- and of nothing else -/
theorem simulateVariants_get (run : β → γ → α) (models : List β) (datas : List γ) (k : Nat) (m : β) (d : γ)
    (hm : models[k]? = some m) (hd : datas[min k (datas.length - 1)]? = some d) :
    (simulateVariants run models datas)[k]? = some (run m d) := by
  have hk : k < models.length := (List.getElem?_eq_some_iff.mp hm).1
  have hne : datas ≠ [] := by
    intro h; subst h; simp at hd
  unfold simulateVariants
  rw [List.getElem?_zipWith, hm, broadcastVariants_get _ _ _ hk hne, hd]

example : simulateVariants (fun (m d : Nat) => 10 * m + d) [1, 2, 3] [7, 8] = [17, 28, 38] := by decide

end Variants

/-! ## 7. One swap call with several pairs is the sequence of the single-pair swaps -/

section Swaps

theorem swapPairs_nil (p : Plan) (exoK endoK : Kind) (d : DateArg) (st : Bool) :
    p.swapPairs exoK endoK d [] st = .ok p := rfl

/-- **the intended plan of one call with a list of pairs is the union of the pairs**: the first pair is swapped (its variable exogenized
AND its shock endogenized), then the remaining pairs are swapped on the result -/
theorem swapPairs_cons (p : Plan) (exoK endoK : Kind) (d : DateArg) (pr : Nat × Nat) (rest : List (Nat × Nat)) (st : Bool) :
    p.swapPairs exoK endoK d (pr :: rest) st
      = (p.swapPairs exoK endoK d [pr] st).bind (fun q => q.swapPairs exoK endoK d rest st) := by
  simp only [Plan.swapPairs, List.foldlM_cons, List.foldlM_nil, bind_assoc, Except.bind]
  cases p.writeDates exoK d [pr.1] st with
  | error e => rfl
  | ok p1 =>
    simp only [bind, Except.bind]
    cases p1.writeDates endoK d [pr.2] st with
    | error e => rfl
    | ok p2 => rfl

/-- two pairs in one call: both shocks are endogenized, not only the first -/
example : ((Plan.empty 3 2 2).swapPairs .exoAnt .endoAnt (.periods [1]) [(0, 0), (1, 1)] true).toOption.map
      (fun p => (p.boolArray .exoAnt [0, 1, 2], p.boolArray .endoAnt [0, 1, 2]))
    = some ([[false, true, false], [false, true, false]], [[false, true, false], [false, true, false]]) := by decide

end Swaps

end IrisVerif.C07Frames
