/-
Property C01, object state and loops (deepening round 4): theorems about the generic executable definitions of
`Model/FirstOrder.lean` -- the expansion memo of `_get_solution_expansion`, histories on one model object
(assign / solve / observe with the deviation flag / copy), the variant loop of `solve` / `simulate`, and what a split frame's
simulation window must satisfy for `split = single`.
-/
import IrisVerif.Props.C01
import IrisVerif.Model.FirstOrder
import Mathlib.Algebra.Order.Archimedean.Basic

open Matrix

set_option linter.unusedSectionVars false

namespace IrisVerif.C01State

open IrisVerif.FirstOrder

/-! ## The expansion memo: any sequence of horizon requests returns what a fresh computation returns -/

section memo
variable {α : Type} (r0 : α) (gen : Nat → α)

/-- invariant of `existing_expansion`: entry `k` is `gen k` (`= -X J^k Ru`) for every `k < len(memo)` -/
def MemoInv (memo : List α) : Prop := memo = (List.range memo.length).map gen

theorem foldl_append_gen (l : List Nat) (memo : List α) (h : MemoInv gen memo) :
    l.foldl (fun m _ => m ++ [gen m.length]) memo = (List.range (memo.length + l.length)).map gen := by
  induction l generalizing memo with
  | nil => simpa [MemoInv] using h
  | cons a l ih =>
    have h' : MemoInv gen (memo ++ [gen memo.length]) := by
      unfold MemoInv
      rw [List.length_append, List.length_singleton, List.range_succ, List.map_append, ← h]
      rfl
    rw [List.foldl_cons, ih _ h', List.length_append, List.length_singleton, List.length_cons]
    congr 2
    omega

theorem extendMemo_eq (memo : List α) (h : MemoInv gen memo) (forward : Nat) :
    extendMemo gen memo forward = (List.range (max memo.length forward)).map gen := by
  unfold extendMemo
  rw [foldl_append_gen gen _ memo h, List.length_range]
  congr 2
  omega

/-- the invariant is preserved by every request -/
theorem requestMemo_inv (memo : List α) (h : MemoInv gen memo) (forward : Nat) :
    MemoInv gen (requestMemo r0 gen memo forward).1 := by
  show MemoInv gen (extendMemo gen memo forward)
  rw [extendMemo_eq gen memo h]
  unfold MemoInv
  rw [List.length_map, List.length_range]

/-- **the answer does not depend on the memo**: `[R0, gen 0, …, gen (forward-1)]` -/
theorem requestMemo_out (memo : List α) (h : MemoInv gen memo) (forward : Nat) :
    (requestMemo r0 gen memo forward).2 = r0 :: (List.range forward).map gen := by
  show r0 :: (extendMemo gen memo forward).take forward = _
  rw [extendMemo_eq gen memo h, ← List.map_take, List.take_range]
  congr 3
  omega

/-- **Any sequence of horizon requests on one object returns the same matrices as fresh computations** (induction over the sequence) -/
theorem runRequests_fresh (fs : List Nat) (memo : List α) (h : MemoInv gen memo) :
    runRequests r0 gen memo fs = fs.map (fun f => r0 :: (List.range f).map gen) := by
  induction fs generalizing memo with
  | nil => rfl
  | cons f fs ih =>
    rw [runRequests, requestMemo_out r0 gen memo h, ih _ (requestMemo_inv r0 gen memo h f), List.map_cons]

theorem memoInv_nil : MemoInv gen ([] : List α) := rfl

example : runRequests (0 : Nat) (fun k => k + 10) [] [3, 1, 5] = [[0, 10, 11, 12], [0, 10], [0, 10, 11, 12, 13, 14]] := by decide

end memo

/-! ## Histories on one model object: every observation is the pure function of the parameters in force -/

section history
variable {π σ : Type} (solveF : π → σ) (devF : σ → σ)

/-- discipline of a history: no observation and no copy between an `assign` and the next `solve` -/
def disciplined : Bool → List (ObjOp π) → Bool
  | _, [] => true
  | _, .assign _ :: ops => disciplined false ops
  | _, .solve :: ops => disciplined true ops
  | fr, .obs _ :: ops => fr && disciplined fr ops
  | fr, .copy :: ops => fr && disciplined fr ops
  | fr, .obsCopy _ _ :: ops => disciplined fr ops

/-- **Refinement to the stateless spec**: along every disciplined history every observation -- of the object or of any copy taken
earlier -- is `solveF` (then `devF` when in deviations) of the parameters in force for the observed object; nothing else of the
history matters (there is no memo to go stale). -/
theorem runObj_pure (ops : List (ObjOp π)) (fr : Bool) (s : ObjState π σ)
    (hd : disciplined fr ops = true) (hs : fr = true → s.solution = solveF s.params)
    (hc : ∀ c ∈ s.copies, c.2 = solveF c.1) :
    ∀ o ∈ runObj solveF devF s ops, o.2.2 = if o.2.1 then devF (solveF o.1) else solveF o.1 := by
  induction ops generalizing fr s with
  | nil => intro o ho; simp [runObj] at ho
  | cons op ops ih =>
    cases op with
    | assign p =>
      simp only [disciplined] at hd
      simp only [runObj, objStep]
      exact ih false _ hd (by intro h; cases h) hc
    | solve =>
      simp only [disciplined] at hd
      simp only [runObj, objStep]
      exact ih true _ hd (fun _ => rfl) hc
    | obs d =>
      simp only [disciplined, Bool.and_eq_true] at hd
      simp only [runObj, objStep]
      intro o ho
      rcases List.mem_cons.mp ho with rfl | ho
      · simp only [hs hd.1]
      · exact ih fr s hd.2 hs hc o ho
    | copy =>
      simp only [disciplined, Bool.and_eq_true] at hd
      simp only [runObj, objStep]
      refine ih fr _ hd.2 hs ?_
      intro c hc'
      rcases List.mem_append.mp hc' with h | h
      · exact hc c h
      · simp only [List.mem_singleton] at h; subst h; exact hs hd.1
    | obsCopy k d =>
      simp only [disciplined] at hd
      simp only [runObj, objStep]
      cases hk : s.copies[k]? with
      | none => simp only [Option.map_none]; exact ih fr s hd hs hc
      | some c =>
        simp only [Option.map_some]
        intro o ho
        rcases List.mem_cons.mp ho with rfl | ho
        · simp only [hc c (List.mem_of_getElem? hk)]
        · exact ih fr s hd hs hc o ho

example : runObj (fun (p : Nat) => (p, false)) (fun (s : Nat × Bool) => (s.1, true)) ⟨0, (0, false), []⟩
    [.obs true, .copy, .assign 1, .solve, .obs true, .obs false, .obsCopy 0 true]
    = [(0, true, (0, true)), (1, true, (1, true)), (1, false, (1, false)), (0, true, (0, true))] := by decide

end history

/-! ## The variant loop: variant locality -/

section variants

/-- **Variant locality of the plan**: output `k` uses model variant `min k (M-1)` and data variant `0` (one data variant) or `k` -/
theorem variantPlan_get (n M D : Nat) (plan : List (Nat × Nat)) (h : variantPlan n M D = some plan) (k : Nat) (hk : k < n) :
    plan[k]? = some (min k (M - 1), if D = 1 then 0 else k) := by
  unfold variantPlan at h
  split at h
  · cases h
  · split at h
    · rename_i h1; cases h; simp [hk, h1]
    · split at h
      · rename_i h1 h2; cases h; subst h2; simp [hk, h1]
      · cases h

theorem variantPlan_length (n M D : Nat) (plan : List (Nat × Nat)) (h : variantPlan n M D = some plan) : plan.length = n := by
  unfold variantPlan at h
  split at h
  · cases h
  · split at h
    · cases h; simp
    · split at h
      · cases h; simp
      · cases h

/-- as many model variants as outputs: output `k` uses model variant `k` -- never variant `0` for `k > 0` -/
theorem variantPlan_own_variant (n D : Nat) (plan : List (Nat × Nat)) (h : variantPlan n n D = some plan) (k : Nat) (hk : k < n) :
    (plan[k]?).map Prod.fst = some k := by
  rw [variantPlan_get n n D plan h k hk]
  simp only [Option.map_some]
  congr 1
  omega

theorem variantPlan_rejects (n M D : Nat) (h1 : D ≠ 1) (h2 : D ≠ n) : variantPlan n M D = none := by
  unfold variantPlan; simp [h1, h2]

example : variantPlan 3 3 1 = some [(0, 0), (1, 0), (2, 0)] := by decide
example : variantPlan 3 3 3 = some [(0, 0), (1, 1), (2, 2)] := by decide
example : variantPlan 2 1 2 = some [(0, 0), (0, 1)] := by decide
example : variantPlan 3 3 2 = none := by decide
example : simulateAll (fun (m d : Nat) => 10 * m + d) [1, 2, 3] [7] 3 = some [17, 27, 37] := by decide

end variants

/-! ## Frames: the simulation window of a split frame -/

section frames
variable {nb nu nj : Type} [Fintype nb] [Fintype nu] [Fintype nj] [DecidableEq nj]
variable {K : Type} [CommRing K]
variable (P : Matrix nb nu K) (X : Matrix nb nj K) (J : Matrix nj nj K) (Ru : Matrix nj nu K)

/-- the impact of anticipated shocks does not depend on the horizon used, as long as no anticipated shock lies beyond it -/
theorem impact_horizon_le (H H' : ℕ) (hle : H ≤ H') (v : ℕ → nu → K) (hv : ∀ s, H < s → v s = 0) (s : ℕ) :
    C01.impact P X J Ru H' v s = C01.impact P X J Ru H v s := by
  unfold C01.impact
  symm
  apply Finset.sum_subset
  · intro k hk; rw [Finset.mem_range] at hk ⊢; omega
  · intro k _ hk
    rw [Finset.mem_range] at hk
    rw [hv (s + k) (by omega), Matrix.mulVec_zero]

/-- what a frame sees: the anticipated shocks up to the end `E` of its own simulation window -/
def truncAfter (E : ℕ) (v : ℕ → nu → K) : ℕ → nu → K := fun s => if s ≤ E then v s else 0

/-- **What `create_frames` must guarantee for `split = single`**: if the simulation window of a frame ends at `E` and no anticipated
shock lies beyond `E` (true when every split frame runs to the END of the base span, `get_simulation_end = base_end`), the frame
computes the same anticipated impact as the single frame with any horizon `H ≥ E`; with `C01.split_frame_eq_single` the frame then
reproduces the single-frame path. -/
theorem frame_impact_eq_single (E H : ℕ) (hle : E ≤ H) (v : ℕ → nu → K) (hE : ∀ s, E < s → v s = 0) (s : ℕ) :
    C01.impact P X J Ru E (truncAfter E v) s = C01.impact P X J Ru H v s := by
  have ht : truncAfter E v = v := by
    funext t
    unfold truncAfter
    by_cases h : t ≤ E
    · simp [h]
    · simp only [h, if_false]; exact (hE t (by omega)).symm
  rw [ht, impact_horizon_le P X J Ru E H hle v hE]

end frames

/-- necessity: a window that ends before an anticipated shock loses it (`P = 1`, `X = 1`, `J = 1`, `Ru = -1`, shock in period 2,
window end 1): the frame's impact in period 1 is `0`, the single frame's is `R_1 v[2] = 1` -/
example :
    C01.impact (1 : Matrix (Fin 1) (Fin 1) ℚ) (1 : Matrix (Fin 1) (Fin 1) ℚ) (1 : Matrix (Fin 1) (Fin 1) ℚ)
        (-1 : Matrix (Fin 1) (Fin 1) ℚ) 1 (truncAfter 1 (fun s _ => if s = 2 then 1 else 0)) 1
      ≠ C01.impact (1 : Matrix (Fin 1) (Fin 1) ℚ) (1 : Matrix (Fin 1) (Fin 1) ℚ) (1 : Matrix (Fin 1) (Fin 1) ℚ)
        (-1 : Matrix (Fin 1) (Fin 1) ℚ) 2 (fun s _ => if s = 2 then 1 else 0) 1 := by
  intro h
  have := congrFun h 0
  simp [C01.impact, C01.Rexp, truncAfter, Finset.sum_range_succ, Matrix.mulVec, dotProduct] at this

/-! ## Uniqueness: the computed solution is the stable one -/

section unique
open IrisVerif.C01
variable {nj : Type} [Fintype nj] [DecidableEq nj]
variable {F : Type} [Field F] [LinearOrder F] [IsStrictOrderedRing F] [Archimedean F]

theorem pow_mulVec_bound_geom (B : Matrix nj nj F) (q : F) (hB : RowSumLe B q) (x : nj → F) (c : F) (hx : VecLe x c) (a : ℕ) :
    VecLe ((B ^ a) *ᵥ x) (q ^ a * c) := by
  induction a with
  | zero => simpa using hx
  | succ a ih =>
    rw [pow_succ', ← Matrix.mulVec_mulVec]
    intro i
    have := mulVec_bound B _ q (q ^ a * c) hB ih i
    rw [pow_succ, mul_comm (q ^ a) q, mul_assoc]; exact this

/-- a bounded sequence that solves the backward recursion `e[t] = J e[t+1]` of the unstable block, `‖J^m‖∞ ≤ q < 1`, is zero -/
theorem bounded_backward_zero (J : Matrix nj nj F) (m : ℕ) (q : F) (hq : RowSumLe (J ^ m) q) (hq0 : 0 ≤ q) (hq1 : q < 1)
    (e : ℕ → nj → F) (he : ∀ t, e t = J *ᵥ e (t + 1)) (Bd : F) (hb : ∀ t, VecLe (e t) Bd) (t : ℕ) : e t = 0 := by
  have hiter : ∀ n t, e t = (J ^ n) *ᵥ e (t + n) := by
    intro n
    induction n with
    | zero => intro t; simp
    | succ n ih =>
      intro t
      rw [ih t, he (t + n), Matrix.mulVec_mulVec, ← pow_succ, add_assoc]
  funext i
  by_contra hne
  have hpos : 0 < |e t i| := abs_pos.mpr hne
  have hBd : 0 ≤ Bd := le_trans (abs_nonneg _) (hb t i)
  obtain ⟨a, ha⟩ : ∃ a : ℕ, q ^ a * Bd < |e t i| := by
    by_cases hB0 : Bd = 0
    · exact ⟨0, by rw [hB0, mul_zero]; exact hpos⟩
    · have hBpos : 0 < Bd := lt_of_le_of_ne hBd (Ne.symm hB0)
      obtain ⟨a, ha⟩ := exists_pow_lt_of_lt_one (div_pos hpos hBpos) hq1
      exact ⟨a, by rwa [lt_div_iff₀ hBpos] at ha⟩
  have hle : |e t i| ≤ q ^ a * Bd := by
    have h1 := hiter (m * a) t
    rw [pow_mul] at h1
    have := pow_mulVec_bound_geom (J ^ m) q hq (e (t + m * a)) Bd (hb _) a i
    rw [← h1] at this
    exact this
  exact absurd (lt_of_le_of_lt hle ha) (lt_irrefl _)

/-- **Uniqueness of the unstable block ("the stable one")**: the forward-solved constant `Ku = J Ku + c` is the ONLY bounded solution of
`un[t] = J un[t+1] + c` (the lower block of the transformed system without shocks, `J = -T22⁻¹ S22`, `c = -T22⁻¹ Q C₂`) -/
theorem unstable_block_unique (J : Matrix nj nj F) (c Ku : nj → F) (hKu : Ku = J *ᵥ Ku + c) (m : ℕ) (q : F)
    (hq : RowSumLe (J ^ m) q) (hq0 : 0 ≤ q) (hq1 : q < 1)
    (un : ℕ → nj → F) (hun : ∀ t, un t = J *ᵥ un (t + 1) + c) (Bd : F) (hb : ∀ t, VecLe (un t) Bd) (t : ℕ) : un t = Ku := by
  have hKb : ∃ Bk, VecLe Ku Bk := ⟨∑ i, |Ku i|, fun i => Finset.single_le_sum (f := fun i => |Ku i|) (fun _ _ => abs_nonneg _) (Finset.mem_univ i)⟩
  obtain ⟨Bk, hBk⟩ := hKb
  have h0 := bounded_backward_zero J m q hq hq0 hq1 (fun t => un t - Ku)
    (by intro t; show un t - Ku = J *ᵥ (un (t + 1) - Ku); rw [Matrix.mulVec_sub, hun t]; nth_rewrite 1 [hKu]; abel)
    (Bd + Bk) (by intro t i; show |un t i - Ku i| ≤ Bd + Bk; exact le_trans (abs_sub _ _) (add_le_add (hb t i) (hBk i))) t
  exact sub_eq_zero.mp h0

end unique

/-- non-vacuity: the unstable block of the scalar example (`J = 2/3`, `c = 2/3`, `Ku = 2`, see `C01QZ.exQZ`) meets every hypothesis -/
example : (![2] : Fin 1 → ℚ) = !![2/3] *ᵥ ![2] + ![2/3] ∧ C01.RowSumLe (nb := Fin 1) (F := ℚ) (!![2/3] ^ 1) (2/3) := by
  refine ⟨?_, ?_⟩
  · ext i; fin_cases i; simp; norm_num
  · intro i; fin_cases i; simp [abs_of_pos]

end IrisVerif.C01State
