/-
Glue around the stacked-time simulator (property C06, deepening round 4):

* `simultaneous/_simulate.py` : pairing of model variants with data variants
  (`zip(range(num_variants), self.iter_variants(), dataslate.iter_variants())`, `conveniences/iterators.py: exhaust_then_last`)
* `simultaneous/_slatable_protocols.py`, `dataslates/_variants.py: _apply_overwrites` : the parameter rows of the working
  data array are overwritten with the model object's CURRENT parameter values on every `simulate()`; `assign`, `copy`
  as a small state machine over a heap of model objects
* `fords/terminators.py: terminate_simulation` with LOG-variables, over an abstract `log`/`exp` pair: which cells of the
  state vector go through the logarithm

No Mathlib; everything is executable (the log part runs over `Float` in the driver).
-/
import IrisVerif.Model.Stacked

namespace IrisVerif.Stacked

/-! ## the `method` option: `_SIMULATOR_MODULE` of `simultaneous/_simulate.py` -/

inductive Method where
  | firstOrder | periodByPeriod | stackedTime
  deriving DecidableEq, Repr, Inhabited

/-- the documented spellings; anything else is a `KeyError` -/
def resolveMethod (s : String) : Option Method :=
  if s = "first_order" then some .firstOrder
  else if s = "period_by_period" ∨ s = "period" then some .periodByPeriod
  else if s = "stacked_time" ∨ s = "stacked" then some .stackedTime
  else none

def Method.name : Method → String
  | .firstOrder => "first_order" | .periodByPeriod => "period_by_period" | .stackedTime => "stacked_time"

/-- the frames of a run depend on the resolved method only (no plan) -/
def framesOfMethod (m : Method) (baseFirst n : Nat) (breaks : List Bool) : List Frame :=
  match m with
  | .stackedTime => stackedFrames baseFirst n breaks
  | .periodByPeriod => periodFrames baseFirst n
  | .firstOrder => [⟨baseFirst, baseFirst + n - 1, baseFirst + n - 1⟩]

/-- the whole run for a method given by its string: resolve, split into frames, loop (`none` = KeyError) -/
def runMethod (solve : Frame → Data → Data) (un : List Nat) (method : String) (baseFirst n : Nat) (main : Data) : Option Data :=
  (resolveMethod method).map (fun m => runFrames solve un (framesOfMethod m baseFirst n (breakPoints main un baseFirst n)) main)

/-! ## solver settings of one call: `{"norm_order": inf} | (solver_settings or {})` in `simulate_frame` -/

/-- a settings dict as an association list (values kept as text: `inf`, `1e-12`, `60` …) -/
abbrev Settings := List (String × String)

def Settings.lookup (s : Settings) (k : String) : Option String := (s.find? (fun p => p.1 == k)).map (·.2)

/-- Python's `defaults | custom`: keys of `defaults` in their order (value from `custom` if present), then the new keys of `custom` -/
def mergeSettings (defaults custom : Settings) : Settings :=
  defaults.map (fun (k, v) => (k, (custom.lookup k).getD v)) ++ custom.filter (fun (k, _) => (defaults.lookup k).isNone)

def defaultSolverSettings : Settings := [("norm_order", "inf")]

/-- the settings handed to the solver by one call: a function of THAT call's `solver_settings` alone -/
def effectiveSettings (custom : Option Settings) : Settings := mergeSettings defaultSolverSettings (custom.getD [])

/-- a history of calls: what each hands to the solver -/
def settingsHistory (calls : List (Option Settings)) : List Settings := calls.map effectiveSettings

/-! ## variants: `exhaust_then_last` and the zip of `Inlay.simulate` -/

/-- the `k`-th item produced by `exhaust_then_last(own)`: the own items, then the last one for ever (`None` if there is none) -/
def exhaustThenLast {α} (own : List α) (k : Nat) : Option α :=
  if k < own.length then own[k]? else own.getLast?

/-- `zip(range(n), models.iter_variants(), datas.iter_variants())` -/
def pairVariants {M D} (n : Nat) (models : List M) (datas : List D) : List (Nat × Option M × Option D) :=
  (List.range n).map (fun k => (k, exhaustThenLast models k, exhaustThenLast datas k))

/-- the finite pairing `zip(range(n), models, datas)` (what `iter_own_variants` would give) — NOT what the code does -/
def pairOwn {M D} (n : Nat) (models : List M) (datas : List D) : List (Nat × M × D) :=
  (List.range n).zip (models.zip datas)

/-- the loop over variants: one output per requested variant -/
def simulateVariants {M D O} (sim : M → D → O) (n : Nat) (models : List M) (datas : List D) : List (Option O) :=
  (pairVariants n models datas).map (fun (_, m, d) => do let m ← m; let d ← d; pure (sim m d))

/-! ## model objects: parameters in force, `assign`, `copy`, and what `simulate` puts into the parameter rows -/

/-- a model object: its parameter values as the list of assignments made so far, newest first -/
structure Obj where
  assigned : List (Nat × Rat)
  deriving Repr, Inhabited

def Obj.lookup (o : Obj) (q : Nat) : Option Rat := (o.assigned.find? (fun p => p.1 == q)).map (·.2)

def Obj.assign (o : Obj) (q : Nat) (v : Rat) : Obj := ⟨(q, v) :: o.assigned⟩

inductive HOp where
  | assign (obj q : Nat) (v : Rat)
  | copy (obj : Nat)                 -- `m.copy()`: a new object (appended to the heap) with the same parameter values
  | simulate (obj : Nat)
  deriving Repr, Inhabited

/-- `slatable.overwrites` restricted to the parameter rows: built from the object AT THE TIME OF THE CALL -/
def overwritesOf (paramQids : List Nat) (o : Obj) : List (Nat × Option Rat) :=
  paramQids.map (fun q => (q, o.lookup q))

/-- one operation on the heap of objects; `simulate` observes the overwrites it would write -/
def stepH (paramQids : List Nat) (heap : List Obj) : HOp → List Obj × Option (List (Nat × Option Rat))
  | .assign i q v => (heap.modify i (fun o => o.assign q v), none)
  | .copy i => (match heap[i]? with | some o => heap ++ [o] | none => heap, none)
  | .simulate i => (heap, (heap[i]?).map (overwritesOf paramQids))

def runH (paramQids : List Nat) : List Obj → List HOp → List (Option (List (Nat × Option Rat)))
  | _, [] => []
  | heap, op :: ops => let (h', o) := stepH paramQids heap op; o :: runH paramQids h' ops

/-- the stateless specification: parameter values as a function `object → qid → value` -/
abbrev PSpec := Nat → Option (Nat → Option Rat)

def specStep (paramQids : List Nat) (size : Nat) (sp : PSpec) : HOp → Nat × PSpec × Option (List (Nat × Option Rat))
  | .assign i q v => (size, (fun j => if j = i then (sp i).map (fun f => fun q' => if q' = q then some v else f q') else sp j), none)
  | .copy i => (match sp i with
      | some f => (size + 1, (fun j => if j = size then some f else sp j), none)
      | none => (size, sp, none))
  | .simulate i => (size, sp, (sp i).map (fun f => paramQids.map (fun q => (q, f q))))

def runSpec (paramQids : List Nat) : Nat → PSpec → List HOp → List (Option (List (Nat × Option Rat)))
  | _, _, [] => []
  | size, sp, op :: ops => let (n', sp', o) := specStep paramQids size sp op; o :: runSpec paramQids n' sp' ops

/-- `Variant._apply_overwrites`: every column of an overwritten row gets the value -/
def applyOverwrites (ow : List (Nat × Option Rat)) (d : Data) : Data :=
  d.modify (fun q _ => match ow.find? (fun p => p.1 == q) with
    | some (_, some v) => some (some v)
    | _ => none)

/-! ## the terminal condition with log-variables, over an abstract `log` / `exp` -/

/-- the state vector the terminator reads at the last simulated column when the logarithm is taken in the columns selected
by `inWindow` (the code: every column) -/
def termXiLog {K} (lg : K → K) (logly : Nat → Bool) (inWindow : Int → Bool) (rd : Nat → Int → K)
    (toks : List (Nat × Int)) (last : Nat) : List K :=
  toks.map (fun (q, s) => let c := (last : Int) + s; if logly q && inWindow c then lg (rd q c) else rd q c)

/-- the value written into terminal cell `(q, last + k)`: row `i` of the continuation, exponentiated for a log-variable -/
def termCellLog {K} (ex : K → K) (logly : Nat → Bool) (q : Nat) (xiK : Nat → K) (i : Nat) : K :=
  if logly q then ex (xiK i) else xiK i

/-- what a cell that is not written holds after the round trip `log` then `exp` over `inWindow` -/
def roundTripCell {K} (lg ex : K → K) (logly : Nat → Bool) (inWindow : Int → Bool) (q : Nat) (c : Int) (x : K) : K :=
  if logly q && inWindow c then ex (lg x) else x

/-! ## the initial guess (`stacked_time/simulators.py: simulate_initial_guess`) and frames per data variant -/

inductive GuessMode where
  | firstOrder | data
  deriving DecidableEq, Repr, Inhabited

/-- `_simulate_initial_guess_first_order`: `simulate_flat(..., ignore_shocks=True)` over the base span `baseFirst … baseFirst+n-1`
of the MAIN array; a non-finite initial condition makes every written cell non-finite (NaN propagates through `T @ xi`) -/
def initialGuessFO (s : TermSpec) (baseFirst n : Nat) (d : Data) : Data :=
  match simulateFlat s baseFirst (List.replicate n ((qOps s.xiTokens.length).zeroV)) d with
  | some d' => d'
  | none => d.modify (fun q c =>
      if baseFirst ≤ c ∧ c < baseFirst + n ∧ (s.curr.find? (fun qi => qi.1 == q)).isSome then some none else none)

/-- `_INITIAL_GUESS_SIMULATOR[initial_guess]` -/
def initialGuess (mode : GuessMode) (s : TermSpec) (baseFirst n : Nat) (d : Data) : Data :=
  match mode with
  | .firstOrder => initialGuessFO s baseFirst n d
  | .data => d

/-- `create_frames` is called inside the loop over variants: one list of frames per data variant, from THAT variant's
unanticipated shocks -/
def framesPerVariant (un : List Nat) (baseFirst n : Nat) (datas : List Data) : List (List Frame) :=
  datas.map (fun d => stackedFrames baseFirst n (breakPoints d un baseFirst n))

/-! ## the corpus input of the known finding `linear-agreement-exogenous-ignored-by-first-order`

`x = 0.5*x{-1} + w + ex`, `linear=True`, exogenous `w = 3` in the second of four periods; qids as irispie numbers them:
`x = 0, ex = 1, ant_ex = 2, w = 3`; compiled equation `-(x[(0,t)])+0.5*x[(0,t-1)]+x[(3,t)]+(x[(1,t)]+x[(2,t)])`. -/

def findingEq : Expr :=
  .add (.add (.add (.neg (.var 0 0)) (.mul (.const (1/2)) (.var 0 (-1)))) (.var 3 0)) (.add (.var 1 0) (.var 2 0))

/-- rows x, ex, ant_ex, w; columns: one initial condition, four base periods -/
def findingData : Data := Data.tabulate 4 5 (fun q c => if q = 3 ∧ c = 2 then some 3 else some 0)

def findingSys : System := ⟨[findingEq], [0], 1, 4, .data⟩

/-- the first-order solution of this model as the CURRENT code computes it: state `[x]`, `T`, `K` (the exogenous variable is
in neither), shocks zero -/
def findingSpec (T : QMat) (K : QVec) : TermSpec := ⟨T, K, [(0, 0)], [(0, 0)], 0⟩

/-- the path of `x` that `simulate_flat` produces on the finding's input -/
def findingFordPath (T : QMat) (K : QVec) : Option (List (Option Rat)) :=
  (simulateFlat (findingSpec T K) 1 (List.replicate 4 #[0]) findingData).map
    (fun d => findingSys.spots.map (fun (q, c) => d.get q (c : Int)))

/-- the stacked residual vector on that path -/
def findingFordResidual (T : QMat) (K : QVec) : Option (List (Option Rat)) :=
  (simulateFlat (findingSpec T K) 1 (List.replicate 4 #[0]) findingData).map (fun d => findingSys.evalFunc none d)

end IrisVerif.Stacked
