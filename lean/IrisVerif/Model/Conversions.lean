/-
Model of irispie/series/_conversions.py (aggregate / disaggregate) and series/arip.py (the
stacked-time system of the "arip" interpolation), over exact rationals.

* a value is `Option Rat`, `none` = NaN (missing);
* a series is `(frequency, number of variants, start serial, rows)`; `Ser.get` is the
  period-indexed view with NaN outside the stored rows, which is what
  `Series.get_data_from_until` returns (padding with NaN) and what every routine below reads;
* reductions are the ones the interpreter performs: `statistics.mean` (exact sum / n),
  builtin `sum` (left fold from 0), `numpy.prod`, `operator.itemgetter(0 / -1)`, builtin
  `min` / `max` as the left fold with `<` / `>` (hence order dependent when a NaN is present);
* `reshape((-1, factor))[j][i] = flat[j*factor + i]` (C order) is written as that index formula;
* every result goes through `Series.trim` (leading / trailing all-NaN rows removed).

Two places model the *repaired* code (see notes/C12.md, pending_fixes/C12-*.diff):
`select` is numpy fancy indexing `within_data[list(select)]`, and the multiplier columns of the
arip system are the transposed aggregation rows. Disaggregation to DAILY is modelled as the code
does it (`factor = 365 // f`), which is finding C12-a (theorem `disaggregate_daily_misplaces`).

Core Lean only (no Mathlib): the driver is interpreted.
-/
import IrisVerif.Model.Dates
import IrisVerif.Model.QMat

namespace IrisVerif.Conv
open IrisVerif.Dates

abbrev Val := Option Rat

/-! ### The reductions of `_AGGREGATION_METHOD_RESOLUTION` -/

/-- `a < b` on floats: false as soon as one side is NaN -/
def ltVal : Val → Val → Bool
  | some a, some b => decide (a < b)
  | _, _ => false

def addVal : Val → Val → Val
  | some a, some b => some (a + b)
  | _, _ => none

def mulVal : Val → Val → Val
  | some a, some b => some (a * b)
  | _, _ => none

/-- builtin `sum(xs)`: `0 + x0 + x1 + …` from the left -/
def pySum (l : List Val) : Val := l.foldl addVal (some 0)

/-- `numpy.prod(xs)` -/
def npProd (l : List Val) : Val := l.foldl mulVal (some 1)

/-- `statistics.mean(xs)` on a non-empty sequence: the exact sum over the count; NaN if any NaN -/
def stMean (l : List Val) : Val :=
  match pySum l with
  | some t => some (t / (l.length : Rat))
  | none => none

/-- builtin `min(xs)`: keep the first item, replace it whenever `item < current` -/
def pyMin : List Val → Val
  | [] => none
  | x :: xs => xs.foldl (fun cur it => if ltVal it cur then it else cur) x

/-- builtin `max(xs)`: keep the first item, replace it whenever `item > current` -/
def pyMax : List Val → Val
  | [] => none
  | x :: xs => xs.foldl (fun cur it => if ltVal cur it then it else cur) x

inductive Method where
  | mean | sum | prod | first | last | min | max
  deriving DecidableEq, Repr, Inhabited

def Method.ofString? : String → Option Method
  | "mean" => some .mean | "sum" => some .sum | "prod" => some .prod | "first" => some .first
  | "last" => some .last | "min" => some .min | "max" => some .max | _ => none

/-- the method function applied to a non-empty group -/
def Method.apply : Method → List Val → Val
  | .mean, l => stMean l
  | .sum, l => pySum l
  | .prod, l => npProd l
  | .first, l => l.head?.join
  | .last, l => l.getLast?.join
  | .min, l => pyMin l
  | .max, l => pyMax l

/-- numpy fancy indexing `a[list(select)]`: negative indexes count from the end, anything outside
`-n … n-1` raises `IndexError` -/
def npTake (l : List Val) (sel : List Int) : R (List Val) :=
  sel.mapM fun i =>
    let n : Int := l.length
    let k := if i < 0 then i + n else i
    if 0 ≤ k ∧ k < n then pure (l.getD k.toNat none) else throw .badInput

/-- `_aggregate_within_data(select, discard_missing, method_func, within_data)` -/
def aggWithin (select : Option (List Int)) (discard : Bool) (m : Method) (w : List Val) : R Val := do
  let w ← match select with
    | none => pure w
    | some sel => npTake w sel
  let w := if discard then w.filter Option.isSome else w
  pure (if w.isEmpty then none else m.apply w)

/-! ### Series as a period-indexed map, trimming -/

structure Ser where
  freq : Freq
  nv : Nat
  start : Int
  rows : List (List Val)
  deriving Repr, DecidableEq, Inhabited

/-- value of variant `v` at serial `t`; NaN outside the stored rows (`get_data_from_until` pads with NaN) -/
def Ser.get (s : Ser) (v : Nat) (t : Int) : Val :=
  if t < s.start then none else ((s.rows[(t - s.start).toNat]?).bind (·[v]?)).join

def Ser.endSerial (s : Ser) : Int := s.start + s.rows.length - 1

def rowMissing (r : List Val) : Bool := r.all Option.isNone

def leadMissing : List (List Val) → Nat
  | [] => 0
  | r :: rs => if rowMissing r then leadMissing rs + 1 else 0

def rtrimRows : List (List Val) → List (List Val)
  | [] => []
  | r :: rs =>
    match rtrimRows rs with
    | [] => if rowMissing r then [] else [r]
    | y :: ys => r :: y :: ys

/-- `Series.trim()`: drop leading and trailing rows in which every variant is NaN (moving the start);
a series with no observation left has no rows (its start is then meaningless: the code resets it to `None`). -/
def Ser.trim (s : Ser) : Ser :=
  let k := leadMissing s.rows
  { s with start := s.start + k, rows := rtrimRows (s.rows.drop k) }

/-- Python `xs[a:b]` for integers `a`, `b` (negative = from the end, clamped to the length) -/
def pySlice {α} (l : List α) (a b : Int) : List α :=
  let n : Int := l.length
  let clamp (i : Int) : Nat := (if i < 0 then max (i + n) 0 else min i n).toNat
  (l.drop (clamp a)).take (clamp b - clamp a)

/-! ### aggregate -/

/-- the group of variant `v` that `_aggregate_regular_to_regular` hands to the method for output row `j`:
row `j` of `padded.reshape((-1, factor))`, the padded data running from the first period of the start year -/
def regularGroup (s : Ser) (v : Nat) (soy : Int) (factor : Nat) (j : Nat) : List Val :=
  (List.range factor).map fun (i : Nat) => s.get v (soy + (j : Int) * (factor : Int) + (i : Int))

def aggregateRegular (s : Ser) (to : Freq) (m : Method) (discard : Bool) (select : Option (List Int)) : R Ser := do
  let f := s.freq.value
  let startYear := Gen.Dates.toYearSegmentYear s.start f
  let endYear := Gen.Dates.toYearSegmentYear s.endSerial f
  let soy := (fromYearSegment s.freq startYear 1).serial
  let eoy := (fromYearSegment s.freq endYear f).serial
  if to.value ≤ 0 then throw .badInput       -- integer division by zero in the code
  let factor := (f / to.value).toNat
  let total := (eoy - soy + 1).toNat
  if factor = 0 ∨ total % factor ≠ 0 then throw .badInput    -- reshape would raise
  let newStart := (fromYearSegment to startYear 1).serial
  let rows ← (List.range (total / factor)).mapM fun j =>
    (List.range s.nv).mapM fun v => aggWithin select discard m (regularGroup s v soy factor j)
  pure (Ser.trim ⟨to, s.nv, newStart, rows⟩)

/-- the group of variant `v` for the low-frequency period `T` in `_aggregate_daily_to_regular`:
`padded[to_daily(T, start) - sd : to_daily(T, end) - sd + 1]`, `padded` running from January 1st (`sd`) of the
start year to December 31st (`ed`) of the end year -/
def dailyGroup (s : Ser) (v : Nat) (sd ed : Int) (T : Period) : R (List Val) := do
  let a ← toDaily T .start
  let b ← toDaily T .end_
  let padded := (List.range (ed - sd + 1).toNat).map fun (i : Nat) => s.get v (sd + (i : Int))
  pure (pySlice padded (a.serial - sd) (b.serial - sd + 1))

def aggregateDaily (s : Ser) (to : Freq) (m : Method) (discard : Bool) (select : Option (List Int)) : R Ser := do
  if !to.isRegular then throw .badInput
  let startYear := yearOf s.start
  let endYear := yearOf s.endSerial
  let sd := ymd2ord startYear 1 1
  let ed := ymd2ord endYear 12 31
  let newStart := (fromYearSegment to startYear 1).serial
  let newEnd := (fromYearSegment to endYear to.value).serial
  let rows ← (List.range (newEnd - newStart + 1).toNat).mapM fun (j : Nat) =>
    (List.range s.nv).mapM fun v => do
      let g ← dailyGroup s v sd ed ⟨to, newStart + (j : Int)⟩
      aggWithin select discard m g
  pure (Ser.trim ⟨to, s.nv, newStart, rows⟩)

/-- `Series.aggregate(target_freq, method, discard_missing, select)` -/
def aggregate (s : Ser) (to : Freq) (m : Method) (discard : Bool) (select : Option (List Int)) : R Ser :=
  if s.rows.isEmpty then throw .badInput            -- an empty series has frequency UNKNOWN: ValueError
  else if to = s.freq then pure s
  else if to.value > s.freq.value then throw .badInput
  else if s.freq.isRegular then aggregateRegular s to m discard select
  else if s.freq = .D then aggregateDaily s to m discard select
  else throw .badInput

/-! ### disaggregate (flat / first / middle / last) -/

inductive DMethod where
  | flat | first | middle | last
  deriving DecidableEq, Repr, Inhabited

def DMethod.ofString? : String → Option DMethod
  | "flat" => some .flat | "first" => some .first | "middle" => some .middle | "last" => some .last | _ => none

/-- the stride offset at which `_disaggregate_<method>` keeps the value (`none`: every position) -/
def DMethod.offset (factor : Nat) : DMethod → Option Nat
  | .flat => none
  | .first => some 0
  | .middle => some (factor / 2)
  | .last => some (factor - 1)

/-- `numpy.repeat(data, factor, axis=0)` followed by the stride assignment into an all-NaN array -/
def disaggRows (factor : Nat) (k : Option Nat) (nv : Nat) (rows : List (List Val)) : List (List Val) :=
  rows.flatMap fun r => (List.range factor).map fun j =>
    match k with
    | none => r
    | some k => if j = k then r else List.replicate nv none

/-- `Series.disaggregate(target_freq, method)` for the four placement methods -/
def disaggregate (s : Ser) (to : Freq) (m : DMethod) : R Ser := do
  if s.rows.isEmpty then throw .badInput
  if to = s.freq then return s
  if to.value < s.freq.value then throw .badInput
  let (y, mo, d) ← toYmd ⟨s.freq, s.start⟩ .start
  let hs ← fromYmd to y mo d
  let factor := (to.value / s.freq.value).toNat
  pure (Ser.trim ⟨to, s.nv, hs.serial, disaggRows factor (m.offset factor) s.nv s.rows⟩)

/-! ### arip: the stacked-time system of `disaggregate_arip_data` -/

structure AripIn where
  nLow : Nat
  nWithin : Nat
  rho : Rat
  const : Rat
  sigma : List Rat        -- `sigma_vector`, one entry per high-frequency period
  agg : List Rat          -- aggregation vector, one entry per position within a low-frequency period
  low : List Val          -- low-frequency data of one variant
  target : List Val       -- high-frequency target data, NaN = no target
  deriving Repr

def AripIn.nHigh (a : AripIn) : Nat := a.nLow * a.nWithin

/-- `low_data_v[where_full_low_periods] = nan`: a low-frequency observation whose period is completely
covered by targets is dropped -/
def AripIn.lowEffective (a : AripIn) : List Val :=
  (List.range a.nLow).map fun i =>
    if (List.range a.nWithin).all (fun k => (a.target.getD (i * a.nWithin + k) none).isSome)
    then none else a.low.getD i none

def finiteIdx (l : List Val) : List (Nat × Rat) :=
  (List.range l.length).filterMap fun i => match l.getD i none with | some x => some (i, x) | none => none

/-- `K` and the constant column of `_create_basic_system_matrices` -/
def aripK (n : Nat) (rho : Rat) (sigma : List Rat) : QMat :=
  QMat.ofFn (n - 1) n fun i j =>
    if j = i + 1 then 1 / sigma.getD (i + 1) 0 else if j = i then -rho / sigma.getD (i + 1) 0 else 0

def aripKc (n : Nat) (const : Rat) (sigma : List Rat) : QMat :=
  QMat.ofFn (n - 1) 1 fun i _ => const / sigma.getD (i + 1) 0

/-- the constraint rows: one aggregation row per finite low-frequency observation, one unit row per target -/
def aripConstraintRows (a : AripIn) : QMat × QMat :=
  let n := a.nHigh
  let lows := finiteIdx a.lowEffective
  let tars := finiteIdx a.target
  let aggRows := QMat.ofFn lows.length n fun r j =>
    if j / a.nWithin = (lows.getD r (0, 0)).1 then a.agg.getD (j % a.nWithin) 0 else 0
  let tarRows := QMat.ofFn tars.length n fun r j => if j = (tars.getD r (0, 0)).1 then 1 else 0
  let rhs := QMat.ofFn (lows.length + tars.length) 1 fun r _ =>
    if r < lows.length then (lows.getD r (0, 0)).2 else (tars.getD (r - lows.length) (0, 0)).2
  (QMat.vstack aggRows tarRows, rhs)

/-- the bordered system `(F, C)` handed to `numpy.linalg.solve`. With `kkt = true` the multiplier columns are the
transposed constraint rows (the repaired code); with `kkt = false` they are the 0/1 membership columns of
`_create_multiplier_column` as in the unrepaired code (equal to the former for "sum", proportional for "mean"). -/
def aripSystem (a : AripIn) (kkt : Bool := true) : R (QMat × QMat) := do
  let n := a.nHigh
  if a.agg.length ≠ a.nWithin ∨ a.low.length ≠ a.nLow ∨ a.target.length ≠ n ∨ a.sigma.length ≠ n ∨ n = 0 then
    throw .badInput
  let K := aripK n a.rho a.sigma
  let c := aripKc n a.const a.sigma
  let (A, b) := aripConstraintRows a
  let lows := finiteIdx a.lowEffective
  let mult : QMat :=
    if kkt then A.transpose
    else QMat.ofFn n A.rows fun i r =>
      if r < lows.length then (if i / a.nWithin = (lows.getD r (0, 0)).1 then 1 else 0) else A.get r i
  let F := QMat.vstack (QMat.hstack (K.transpose * K) mult) (QMat.hstack A (QMat.zero A.rows A.rows))
  let C := QMat.vstack (K.transpose * c) b
  pure (F, C)

/-- the high-frequency part of the solution of the bordered system (`none`: singular matrix, `LinAlgError`) -/
def aripSolve (a : AripIn) (kkt : Bool := true) : R (List Rat) := do
  let (F, C) ← aripSystem a kkt
  match QMat.solveChecked F C with
  | none => throw .badInput
  | some z => pure ((List.range a.nHigh).map fun i => z.get i 0)

/-! ### Option resolution of `Inlay.aggregate`, memoised per-variant loops (round 4) -/

/-- `discard_missing` against the legacy keyword `remove_missing`: an explicit `discard_missing` (True or False) wins, the
legacy value is used only when `discard_missing` is absent, the default is `False` -/
def resolveDiscard (discard remove : Option Bool) : Bool :=
  match discard, remove with
  | some d, _ => d
  | none, some r => r
  | none, none => false

/-- `method = method or "mean"` -/
def resolveMethod (m : Option Method) : Method := m.getD .mean

/-- `Series.aggregate(target_freq, method=…, discard_missing=…, remove_missing=…, select=…)` with every keyword optional -/
def aggregateOpts (s : Ser) (to : Freq) (m : Option Method) (discard remove : Option Bool) (select : Option (List Int)) : R Ser :=
  aggregate s to (resolveMethod m) (resolveDiscard discard remove) select

/-- a loop over items (data variants) with a memo keyed by `key`: the stored result is reused whenever the key was seen
before. `memoRun key f [] xs` is the loop started with an empty memo. -/
def memoRun {α κ β} [DecidableEq κ] (key : α → κ) (f : α → β) : List (κ × β) → List α → List β
  | _, [] => []
  | memo, a :: as =>
    match memo.lookup (key a) with
    | some b => b :: memoRun key f memo as
    | none => f a :: memoRun key f ((key a, f a) :: memo) as

/-- everything the basic system matrices `F = KᵀK`, `C = Kᵀc` of `_create_basic_system_matrices` depend on -/
def AripIn.basicKey (a : AripIn) : Nat × Rat × Rat × List Rat := (a.nHigh, a.rho, a.const, a.sigma)

def aripBasic (a : AripIn) : QMat × QMat :=
  let K := aripK a.nHigh a.rho a.sigma
  (K.transpose * K, K.transpose * aripKc a.nHigh a.const a.sigma)

/-- `disaggregate_arip_data` over all data variants: one system per variant (the loop body is `aripSolve`) -/
def aripSolveAll (vs : List AripIn) (kkt : Bool := true) : List (R (List Rat)) := vs.map (aripSolve · kkt)

/-! ### Non-finite observations, spellings of the arip model (round 5)

`±inf` are observations, not missing values: only NaN is discarded by `discard_missing`. The within-period routine is
modelled once more over the extended values `XVal` (NaN, −∞, +∞, rationals) with IEEE semantics for `+`, `×`, `<`. -/

inductive XVal where
  | nan | ninf | pinf
  | fin (q : Rat)
  deriving DecidableEq, Repr, Inhabited

def XVal.isNan : XVal → Bool
  | .nan => true
  | _ => false

def XVal.add : XVal → XVal → XVal
  | .nan, _ | _, .nan => .nan
  | .pinf, .ninf | .ninf, .pinf => .nan
  | .pinf, _ | _, .pinf => .pinf
  | .ninf, _ | _, .ninf => .ninf
  | .fin a, .fin b => .fin (a + b)

/-- sign of an extended value: -1, 0, 1 (NaN: 0, never used) -/
def XVal.sign : XVal → Int
  | .nan => 0
  | .ninf => -1
  | .pinf => 1
  | .fin q => if q < 0 then -1 else if q = 0 then 0 else 1

def XVal.mul : XVal → XVal → XVal
  | .nan, _ | _, .nan => .nan
  | .fin a, .fin b => .fin (a * b)
  | a, b =>                                   -- at least one infinite factor
    let s := a.sign * b.sign
    if s = 0 then .nan else if s < 0 then .ninf else .pinf

/-- `a < b` in IEEE arithmetic -/
def XVal.lt : XVal → XVal → Bool
  | .nan, _ | _, .nan => false
  | .ninf, .ninf => false
  | .ninf, _ => true
  | _, .ninf => false
  | .pinf, _ => false
  | .fin _, .pinf => true
  | .fin a, .fin b => decide (a < b)

/-- division of a sum by a positive count -/
def XVal.divNat : XVal → Nat → XVal
  | .fin q, n => .fin (q / (n : Rat))
  | x, _ => x

def xApply : Method → List XVal → XVal
  | .mean, l => (l.foldl XVal.add (.fin 0)).divNat l.length
  | .sum, l => l.foldl XVal.add (.fin 0)
  | .prod, l => l.foldl XVal.mul (.fin 1)
  | .first, l => l.head?.getD .nan
  | .last, l => l.getLast?.getD .nan
  | .min, l => match l with
    | [] => .nan
    | x :: xs => xs.foldl (fun cur it => if it.lt cur then it else cur) x
  | .max, l => match l with
    | [] => .nan
    | x :: xs => xs.foldl (fun cur it => if cur.lt it then it else cur) x

/-- `_aggregate_within_data` (no `select`) on extended values: `discard_missing` removes NaN and nothing else -/
def xAggWithin (discard : Bool) (m : Method) (w : List XVal) : XVal :=
  let w := if discard then w.filter (fun x => !x.isNan) else w
  if w.isEmpty then .nan else xApply m w

/-- the embedding of the rational / NaN values of the main model -/
def XVal.ofVal : Val → XVal
  | none => .nan
  | some q => .fin q

/-- the two model forms of arip and their documented spellings (`_CHOOSE_FORM`) -/
inductive AripForm where
  | rate | diff
  deriving DecidableEq, Repr

def AripForm.ofString? : String → Option AripForm
  | "rate" => some .rate | "multiplicative" => some .rate
  | "diff" => some .diff | "additive" => some .diff
  | _ => none

/-- `form.get_sigma_vector(rho, n)`: `rho ** arange(n)` for the rate form, ones for the diff form -/
def AripForm.sigma (f : AripForm) (rho : Rat) (n : Nat) : List Rat :=
  match f with
  | .rate => (List.range n).map fun t => rho ^ t
  | .diff => List.replicate n 1

/-- `form.get_rho`: 1 for the diff form (the rate form's rho is a float computation, an input of the model) -/
def AripForm.rhoOf (f : AripForm) (rateRho : Rat) : Rat :=
  match f with
  | .rate => rateRho
  | .diff => 1

/-- the documented spellings of the aggregation (`_CHOOSE_AGGREGATION_VECTOR`) -/
def aripAggVector? (name : String) (n : Nat) : Option (List Rat) :=
  match name with
  | "sum" => some (List.replicate n 1)
  | "mean" => some (List.replicate n (1 / (n : Rat)))
  | "avg" => some (List.replicate n (1 / (n : Rat)))
  | "first" => some ((List.range n).map fun i => if i = 0 then 1 else 0)
  | "last" => some ((List.range n).map fun i => if i + 1 = n then 1 else 0)
  | _ => none

end IrisVerif.Conv
