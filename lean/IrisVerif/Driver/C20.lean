/-
Line-protocol driver for the model/variant heap (property C20) and the portable codec.

  case <quantities> <flags> <std> | <op> | <op> ...        one whole operation history per line
  port ...                                                  portable codec (see `portLine`)

Reply of a `case` line: one field per op (first field = the freshly built model), joined by " | ";
each field is `<status>#<dump of every live handle>` where the dump shows, per handle, the aliasing
structure (canonical labels by first occurrence) and every observable value.
-/
import IrisVerif.Model.Heap
import IrisVerif.Model.Portable
import IrisVerif.Model.C20State
import IrisVerif.Driver.Util

open IrisVerif.Heap IrisVerif.Driver

namespace IrisVerif.Driver.C20

def kind? : String → Option QKind
  | "x" => some .transVar | "y" => some .measVar | "u" => some .transShock | "v" => some .antShock
  | "w" => some .measShock | "p" => some .param | "z" => some .exog | "s" => some .transStd
  | "t" => some .measStd | _ => none

def logly? : String → Option (Option Bool)
  | "T" => some (some true) | "F" => some (some false) | "-" => some none | _ => none

def quantity? (s : String) : Option Quantity :=
  match s.splitOn ":" with
  | [n, k, l] => do
    let k ← kind? k
    let l ← logly? l
    pure { name := n, kind := k, logly := l }
  | _ => none

def bit? : Char → Option Bool
  | '1' => some true | '0' => some false | _ => none

def flags? (s : String) : Option Flags :=
  match s.toList with
  | [a, b, c] => do pure ⟨← bit? a, ← bit? b, ← bit? c⟩
  | _ => none

def val? (s : String) : Option Val :=
  if s = "n" then some none else (parseRat? s).map some

def showVal : Val → String
  | none => "n"
  | some q => showRat q

def vals? (s : String) : Option (List Val) :=
  if s = "" then some [] else (s.splitOn ",").mapM val?

def showVals (l : List Val) : String := ",".intercalate (l.map showVal)

/-- `_` = unchanged, otherwise a value -/
def part? (s : String) : Option (Option Val) :=
  if s = "_" then some none else (val? s).map some

def aval? (s : String) : Option AVal :=
  match s.splitOn ";" with
  | [l] => do pure ⟨← part? l, none⟩
  | [l, c] => do pure ⟨← part? l, ← part? c⟩
  | _ => none

def avals? (s : String) : Option (List AVal) :=
  if s = "-" then some [] else (s.splitOn ",").mapM aval?

/-- label of a reference = position of its first occurrence -/
def label (seen : List Ref) (r : Ref) : Nat × List Ref :=
  let i := seen.findIdx (· == r)
  if i < seen.length then (i, seen) else (seen.length, seen ++ [r])

structure Seen where
  m : List Ref := []
  i : List Ref := []
  v : List Ref := []
  d : List Ref := []
  s : List Ref := []

def dumpVar (h : Heap) (sn : Seen) (v : Ref) : String × Seen :=
  let (kv, sv) := label sn.v v
  if kv < sn.v.length then (s!"V{kv}", sn) else
  let sn := { sn with v := sv }
  match h.get v with
  | some (.var l c s) =>
    let (kl, sd) := label sn.d l
    let (kc, sd) := label sd c
    let sn := { sn with d := sd }
    let lv := match h.get l with | some (.dict x) => showVals x | _ => "?"
    let cv := match h.get c with | some (.dict x) => showVals x | _ => "?"
    match s with
    | none => (s!"V{kv}(D{kl}={lv};D{kc}={cv};-)", sn)
    | some sr =>
      let (ks, ss) := label sn.s sr
      let tok := match h.get sr with | some (.sol t) => t | _ => "?"
      (s!"V{kv}(D{kl}={lv};D{kc}={cv};S{ks}={tok})", { sn with s := ss })
  | _ => (s!"V{kv}(?)", sn)

def dumpVars (h : Heap) : Seen → List Ref → List String × Seen
  | sn, [] => ([], sn)
  | sn, v :: vs =>
    let (a, sn) := dumpVar h sn v
    let (rest, sn) := dumpVars h sn vs
    (a :: rest, sn)

def dumpHandle (h : Heap) (sn : Seen) (m : Ref) : String × Seen :=
  let (km, sm) := label sn.m m
  let sn := { sn with m := sm }
  match h.get m with
  | some (.model i vs) =>
    let (ki, si) := label sn.i i
    let sn := { sn with i := si }
    let inv := match h.get i with
      | some (.inv d) => "{" ++ d.desc ++ ";" ++ showRat d.tolEig ++ ";" ++ showRat d.tolEq ++ ";" ++
          String.join (d.quantities.map (fun (q : Quantity) => match q.logly with | some true => "T" | some false => "F" | none => "-")) ++ "}"
      | _ => "{?}"
    let (vs, sn) := dumpVars h sn vs
    (s!"M{km}:I{ki}{inv}[" ++ " ".intercalate vs ++ "]", sn)
  | _ => (s!"M{km}:?", sn)

def dumpAll (h : Heap) : Seen → List Ref → List String
  | _, [] => []
  | sn, m :: ms =>
    let (a, sn) := dumpHandle h sn m
    a :: dumpAll h sn ms

def dump (h : Heap) (hs : List Ref) : String := " ".intercalate (dumpAll h {} hs)

def showErr : Err → String
  | .bad => "err:bad"
  | .dangling => "err:dangling"

/-- the current inputs `(levels, changes)` of the variants of handle `m` -/
def inputsOf (h : Heap) (m : Ref) : List (List Val × List Val) :=
  match getModel h m with
  | .ok (_, vs, _) => vs.filterMap (fun v => (observeVar h v).map (fun o => (o.levels, o.changes)))
  | .error _ => []

def lookupIn {β : Type} (tbl : List ((List Val × List Val) × β)) (k : List Val × List Val) : Option β :=
  (tbl.find? (fun e => e.1 == k)).map (·.2)

def idFun : InvData → List Val → List Val → List Val × List Val := fun _ l c => (l, c)

def handle? (hs : List Ref) (s : String) : Option Ref := do
  let k ← s.toNat?
  hs[k]?

/-- a steady result per variant: `levels;changes` -/
def result? (s : String) : Option (List Val × List Val) :=
  match s.splitOn ";" with
  | [l, c] => do pure (← vals? l, ← vals? c)
  | _ => none

/-- parse one op against the current state; `none` = unparsable -/
def parseOp (h : Heap) (hs : List Ref) (ws : List String) : Option (Funs × Op) :=
  let noF : Funs := ⟨fun _ _ _ => "?", idFun, idFun⟩
  match ws with
  | ["assign", k, name, vals] => do
    let m ← handle? hs k
    let vs ← avals? vals
    pure (noF, .assign m name vs)
  | "solve" :: k :: toks => do
    let m ← handle? hs k
    let tbl := (inputsOf h m).zip toks
    pure (⟨fun _ l c => (lookupIn tbl (l, c)).getD "?", idFun, idFun⟩, .solve m)
  | "steady" :: k :: res => do
    let m ← handle? hs k
    let rs ← res.mapM result?
    let tbl := (inputsOf h m).zip rs
    pure (⟨fun _ _ _ => "?", fun _ l c => (lookupIn tbl (l, c)).getD (l, c), idFun⟩, .steady m)
  | ["alter", k, n] => do
    let m ← handle? hs k
    let n ← n.toNat?
    pure (noF, .alter m n)
  | ["desc", k, s] => do
    let m ← handle? hs k
    pure (noF, .setDesc m s)
  | ["tol", k, which, x] => do
    let m ← handle? hs k
    let x ← parseRat? x
    let e ← (if which = "eig" then some true else if which = "eq" then some false else none)
    pure (noF, .setTol m e x)
  | ["logly", k, b, names] => do       -- change_logly(new, names); `-` = all loggable variables
    let m ← handle? hs k
    let b ← (if b = "T" then some true else if b = "F" then some false else none)
    pure (noF, .mutInv m (changeLogly b (if names = "-" then [] else names.splitOn ",")))
  | ["rtol", k, x] => do               -- reset_tolerance(); the default is sent along
    let m ← handle? hs k
    let x ← parseRat? x
    pure (noF, .mutInv m (resetTol x))
  | ["copy", k] => do pure (noF, .copy (← handle? hs k))
  | ["pickle", k] => do pure (noF, .pickle (← handle? hs k))
  | ["views", k, sl] => do              -- m[a:b:c] (`n` = None) / m[...] (`all`): the selector is resolved by the model
    let m ← handle? hs k
    let n := match getModel h m with | .ok (_, vs, _) => vs.length | .error _ => 0
    if sl = "all" then pure (noF, .view m ((List.range n).map (fun (i : Nat) => (i : Int))))
    else
      match sl.splitOn ":" with
      | [a, b, c] =>
        let oi : String → Option (Option Int) := fun t => if t = "n" then some none else t.toInt?.map some
        let a ← oi a
        let b ← oi b
        let c ← oi c
        match sliceSel n a b c with
        | some ix => pure (noF, .view m ix)
        | none => pure (noF, .view m [(n : Int)])          -- step 0: rejected (an index that cannot exist)
      | _ => none
  | ["view", k, ix] => do
    let m ← handle? hs k
    let ix ← (ix.splitOn ",").mapM String.toInt?
    pure (noF, .view m ix)
  | _ => none

def showRead : Read → String
  | .scalar v => showVal v
  | .list vs => "[" ++ showVals vs ++ "]"

/-- `read <handle> <name> <T|F>`: read a value back without changing anything -/
def readOp (h : Heap) (hs : List Ref) (ws : List String) : Option String :=
  match ws with
  | ["read", k, name, u] => do
    let m ← handle? hs k
    let u ← (if u = "T" then some true else if u = "F" then some false else none)
    pure (match getValue h m name u with
      | .ok r => "ok#read=" ++ showRead r
      | .error e => showErr e ++ "#read")
  | _ => none

def runOps (h : Heap) (hs : List Ref) : List String → List String
  | [] => []
  | op :: rest =>
    match readOp h hs (words op) with
    | some out => out :: runOps h hs rest
    | none =>
    match parseOp h hs (words op) with
    | none => ["bad-op"]
    | some (fs, o) =>
      match step fs h o with
      | .ok (none, h') => ("ok#" ++ dump h' hs) :: runOps h' hs rest
      | .ok (some r, h') => ("ok#" ++ dump h' (hs ++ [r])) :: runOps h' (hs ++ [r]) rest
      | .error e => (showErr e ++ "#" ++ dump h hs) :: runOps h hs rest

def caseLine (ws : List String) : String :=
  let fields := (" ".intercalate ws).splitOn "|"
  match fields with
  | [] => "bad-op"
  | hd :: ops =>
    match words hd with
    | [qs, fl, std, te, tq] =>
      match (qs.splitOn ",").mapM quantity?, flags? fl, parseRat? std, parseRat? te, parseRat? tq with
      | some qs, some fl, some std, some te, some tq =>
        let d : InvData := { desc := "", flags := fl, quantities := qs, tolEig := te, tolEq := tq, defaultStd := std }
        let (m, h) := newModel Heap.empty d
        " | ".intercalate (("ok#" ++ dump h [m]) :: runOps h [m] (ops.map (fun s => s.trimAscii.toString)))
      | _, _, _, _, _ => "bad-op"
    | _ => "bad-op"

/-! ### portable codec lines: `port q <name~kind~logly~attrs>,...` and `port e <kind;dynamic;steady>@...` -/

def showLogly : Option Bool → String
  | some true => "T" | some false => "F" | none => "-"

def attrs? (s : String) : Option (List String) :=
  if s = "None" then none else if s = "-" then some [] else some (s.splitOn "+")

def showAttrs (l : List String) : String := if l.isEmpty then "-" else "+".intercalate l

def pquantity? (s : String) : Option Quantity :=
  match s.splitOn "~" with
  | [n, k, l, a] => do
    let k ← kind? k
    let l ← logly? l
    pure { name := n, kind := k, logly := l, attrs := attrs? a }
  | [n, k, l, a, dsc] => do      -- with the description (blanks sent as `^`)
    let k ← kind? k
    let l ← logly? l
    pure { name := n, kind := k, logly := l, attrs := attrs? a, desc := dsc.replace "^" " " }
  | _ => none

def showKind : QKind → String
  | .transVar => "x" | .measVar => "y" | .transShock => "u" | .antShock => "v" | .measShock => "w" | .param => "p"
  | .exog => "z" | .transStd => "s" | .measStd => "t"

def showEKind : EKind → String
  | .transition => "T" | .measurement => "M" | .autovalue => "A"

def ekind? : String → Option EKind
  | "T" => some .transition | "M" => some .measurement | "A" => some .autovalue | _ => none

def pequation? (s : String) : Option Equation :=
  match s.splitOn ";" with
  | [k, d, st] => do
    let k ← ekind? k
    pure { kind := k, dynamic := d, steady := st }
  | _ => none

/-- an optional boolean keyword: `n` absent / None, `T`, `F` -/
def ob? : String → Option (Option Bool)
  | "n" => some none | "T" => some (some true) | "F" => some (some false) | _ => none

def showFlags (f : Flags) : String := showBool f.linear ++ showBool f.flat ++ showBool f.deterministic

def portLine (ws : List String) : String :=
  match ws with
  | ["q", qs] =>
    match (qs.splitOn ",").mapM pquantity? with
    | some qs =>
      ",".intercalate ((IrisVerif.Portable.encodeQs qs).map (fun p =>
        p.code ++ "~" ++ p.name ++ "~" ++ showLogly p.logly ++ "~" ++ showAttrs p.attrs))
    | none => "bad-op"
  | ["e", es] =>
    match (es.splitOn "@").mapM pequation? with
    | some es =>
      "@".intercalate ((IrisVerif.Portable.encodeEs es).map (fun p =>
        p.code ++ ";" ++ p.dynamic ++ ";" ++ p.steady.getD "None"))
    | none => "bad-op"
  | ["fk", a, b, c, e, f, g] =>       -- Flags.from_kwargs(linear, is_linear, flat, is_flat, deterministic, is_deterministic)
    match ob? a, ob? b, ob? c, ob? e, ob? f, ob? g with
    | some a, some b, some c, some e, some f, some g =>
      showFlags (IrisVerif.C20State.fromKwargs ⟨a, b, c, e, f, g⟩)
    | _, _, _, _, _, _ => "bad-op"
  | ["fu", fl, a, c, f] =>            -- Flags.update_from_kwargs(model flags; linear, flat, deterministic)
    match flags? fl, ob? a, ob? c, ob? f with
    | some fl, some a, some c, some f =>
      showFlags (IrisVerif.C20State.updateFromKwargs fl { linear := a, flat := c, deterministic := f })
    | _, _, _, _ => "bad-op"
  | ["fp", fl] =>                     -- Flags.from_portable(Flags.to_portable(flags))
    match flags? fl with
    | some fl => showFlags (IrisVerif.C20State.flagsFromPortable (IrisVerif.C20State.flagsToPortable fl))
    | none => "bad-op"
  | [which, fl, tol, qs, es, vs] =>
    if which ≠ "rt" ∧ which ≠ "rtj" then "bad-op" else
    match flags? fl, parseRat? tol, (qs.splitOn ",").mapM pquantity?, (es.splitOn "@").mapM pequation?,
          (vs.splitOn "@").mapM result? with
    | some fl, some tol, some qs, some es, some vs =>
      let d : InvData := { desc := "", flags := fl, quantities := qs, equations := es, tolEig := tol, tolEq := tol,
                           defaultStd := if fl.linear then 1 else 1 / 100 }
      match IrisVerif.Portable.fromPortableG (if which = "rtj" then IrisVerif.C20State.importVariantJson else IrisVerif.Portable.importVariant)
          (fun _ e => e) tol (IrisVerif.Portable.toPortable d vs) with
      | .ok (d', vs') =>
        "ok wf=" ++ showBool (IrisVerif.Portable.portableWFb d vs) ++ " " ++ ",".intercalate (d'.quantities.map (fun q => q.name ++ "~" ++ showKind q.kind ++ "~" ++ showLogly q.logly))
          ++ " " ++ "@".intercalate (d'.equations.map (fun e => showEKind e.kind ++ ";" ++ e.dynamic ++ ";" ++ e.steady))
          ++ " " ++ showBool d'.flags.linear ++ showBool d'.flags.flat ++ showBool d'.flags.deterministic
          ++ " " ++ "@".intercalate (vs'.map (fun v => showVals v.1 ++ ";" ++ showVals v.2))
      | .error e => "err:" ++ (match e with
          | .format => "format" | .badCode => "badCode" | .duplicateNames => "duplicateNames" | .counts => "counts"
          | .noVariants => "noVariants" | .unknownName => "unknownName")
    | _, _, _, _, _ => "bad-op"
  | _ => "bad-op"

/-! ### memo lines: `memo <version0> <op> <op> ...` with ops `e:i:f` (expand), `c:i` (copy), `r:i:v` (re-solve) -/

def mop? (s : String) : Option IrisVerif.C20State.MOp :=
  match s.splitOn ":" with
  | ["e", i, f] => do pure (.expand (← i.toNat?) (← f.toNat?))
  | ["c", i] => do pure (.copy (← i.toNat?))
  | ["r", i, v] => do pure (.resolve (← i.toNat?) (← v.toNat?))
  | _ => none

def showStamps (l : List (Nat × Nat)) : String := ",".intercalate (l.map (fun p => toString p.1 ++ "." ++ toString p.2))

def finalObjs : List IrisVerif.C20State.SolObj → List IrisVerif.C20State.MOp → List IrisVerif.C20State.SolObj
  | objs, [] => objs
  | objs, op :: rest => finalObjs (IrisVerif.C20State.mstep objs op).1 rest

def memoLine (ws : List String) : String :=
  match ws with
  | v0 :: ops =>
    match v0.toNat?, ops.mapM mop? with
    | some v0, some ops =>
      let start : List IrisVerif.C20State.SolObj := [⟨v0, []⟩]
      let answers := (IrisVerif.C20State.mrun start ops).map (fun e =>
        toString e.1 ++ ":" ++ toString e.2.1 ++ "=" ++ showStamps e.2.2.1)
      " ".intercalate answers ++ " | " ++ " ".intercalate ((finalObjs start ops).map (fun o =>
        toString o.version ++ "/" ++ toString o.memo.length))
    | _, _ => "bad-op"
  | _ => "bad-op"

def step (line : String) : String :=
  match words line with
  | "case" :: rest => caseLine rest
  | "memo" :: rest => memoLine rest
  | "port" :: rest => portLine rest
  | _ => "bad-op"

end IrisVerif.Driver.C20

def main : IO Unit := IrisVerif.Driver.runMain IrisVerif.Driver.C20.step
