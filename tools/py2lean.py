#!/usr/bin/env python3
"""
py2lean -- translator from small closed-form fragments of irispie's Python source
to Lean 4 definitions (tie "T" of DESIGN.md section 3).

The supported Python subset is deliberately tiny: arithmetic expressions over
names, numeric constants, attribute chains and a fixed table of known calls.
Anything outside the subset raises Untranslatable: the tie "no longer checks"
and ./check turns that into a failing-input search, never into a silent pass.

Usage:  py2lean.py [--repo /repo] [--out /verif/lean/IrisVerif/Generated] [--only C09,C13]
Prints one line per generated file:  "GENERATED <file> changed|same"
Exit 0 on success, 3 when some fragment is untranslatable (message on stdout).
"""
from __future__ import annotations
import ast, os, sys, argparse, textwrap, json


class Untranslatable(Exception):
    pass


# ----------------------------------------------------------------------------
# Source access
# ----------------------------------------------------------------------------

class Source:
    def __init__(self, repo: str, relpath: str):
        self.path = os.path.join(repo, relpath)
        self.relpath = relpath
        self.text = open(self.path).read()
        self.tree = ast.parse(self.text)

    def find(self, *qual: str) -> ast.AST:
        """find('ClassName','method') / find('func') / find('NAME') (module-level assignment value)."""
        body = self.tree.body
        node = None
        for i, name in enumerate(qual):
            found = None
            for n in body:
                if isinstance(n, (ast.FunctionDef, ast.ClassDef)) and n.name == name:
                    found = n
                    break
                if isinstance(n, ast.Assign) and any(isinstance(t, ast.Name) and t.id == name for t in n.targets):
                    found = n.value
                    break
                if isinstance(n, ast.AnnAssign) and isinstance(n.target, ast.Name) and n.target.id == name:
                    found = n.value
                    break
            if found is None:
                raise Untranslatable(f"{self.relpath}: cannot find {'.'.join(qual)}")
            node = found
            body = getattr(found, "body", [])
        return node


def strip_doc(body: list[ast.stmt]) -> list[ast.stmt]:
    if body and isinstance(body[0], ast.Expr) and isinstance(body[0].value, ast.Constant) and isinstance(body[0].value.value, str):
        return body[1:]
    return body


# ----------------------------------------------------------------------------
# Expression translation
# ----------------------------------------------------------------------------

class ExprTr:
    """
    Translate a Python arithmetic expression to a Lean term.

    names:   python name or dotted attribute chain -> lean term
    calls:   python callee (dotted) -> ("id",) identity on the single argument
                                     | ("fn", leanName) unary/binary function application
    intmode: True  -> // and % become Int floor division / modulo (Int.fdiv / Int.fmod),
                      / is rejected
             False -> carrier is a field-like α: / is division, ** is `pw`
    """
    def __init__(self, names: dict[str, str], calls: dict[str, tuple], intmode: bool, where: str):
        self.names, self.calls, self.intmode, self.where = names, calls, intmode, where
        self.free: list[str] = []

    def dotted(self, node) -> str | None:
        if isinstance(node, ast.Name):
            return node.id
        if isinstance(node, ast.Attribute):
            base = self.dotted(node.value)
            return None if base is None else base + "." + node.attr
        return None

    def tr(self, node) -> str:
        if isinstance(node, ast.Constant):
            v = node.value
            if isinstance(v, bool) or not isinstance(v, (int, float)):
                raise Untranslatable(f"{self.where}: constant {v!r}")
            if isinstance(v, float):
                if v != v or v in (float("inf"), float("-inf")):
                    raise Untranslatable(f"{self.where}: constant {v!r}")
                num, den = v.as_integer_ratio()
                if self.intmode:
                    raise Untranslatable(f"{self.where}: float constant {v!r} in integer fragment")
                return f"(({num} : α) / ({den} : α))" if den != 1 else f"({num} : α)"
            return f"({v})" if v < 0 else f"{v}"
        d = self.dotted(node)
        if d is not None:
            if d in self.names:
                return self.names[d]
            self.free.append(d)
            raise Untranslatable(f"{self.where}: free name `{d}` resolves to nothing")
        if isinstance(node, ast.UnaryOp):
            if isinstance(node.op, ast.USub):
                return f"(-{self.tr(node.operand)})"
            if isinstance(node.op, ast.UAdd):
                return self.tr(node.operand)
            raise Untranslatable(f"{self.where}: unary {ast.dump(node.op)}")
        if isinstance(node, ast.BinOp):
            a, b = self.tr(node.left), self.tr(node.right)
            op = node.op
            if isinstance(op, ast.Add): return f"({a} + {b})"
            if isinstance(op, ast.Sub): return f"({a} - {b})"
            if isinstance(op, ast.Mult): return f"({a} * {b})"
            if isinstance(op, ast.FloorDiv):
                if not self.intmode: raise Untranslatable(f"{self.where}: // in real fragment")
                return f"(Int.fdiv {a} {b})"
            if isinstance(op, ast.Mod):
                if not self.intmode: raise Untranslatable(f"{self.where}: % in real fragment")
                return f"(Int.fmod {a} {b})"
            if isinstance(op, ast.Div):
                if self.intmode: raise Untranslatable(f"{self.where}: / in integer fragment")
                return f"({a} / {b})"
            if isinstance(op, ast.Pow):
                if self.intmode: raise Untranslatable(f"{self.where}: ** in integer fragment")
                return f"(pw {a} {b})"
            raise Untranslatable(f"{self.where}: operator {ast.dump(op)}")
        if isinstance(node, ast.Call):
            callee = self.dotted(node.func)
            if callee is None or callee not in self.calls:
                if callee is not None:
                    self.free.append(callee)
                raise Untranslatable(f"{self.where}: call to `{callee}` resolves to nothing")
            if node.keywords:
                raise Untranslatable(f"{self.where}: keyword arguments in call to {callee}")
            spec = self.calls[callee]
            args = [self.tr(a) for a in node.args]
            if spec[0] == "id":
                if len(args) != 1: raise Untranslatable(f"{self.where}: {callee} arity")
                return args[0]
            if spec[0] == "fn":
                return "(" + spec[1] + " " + " ".join(args) + ")"
        raise Untranslatable(f"{self.where}: expression {ast.dump(node)[:80]}")


def single_return(fn: ast.FunctionDef, where: str) -> ast.expr:
    body = strip_doc(fn.body)
    if len(body) != 1 or not isinstance(body[0], ast.Return) or body[0].value is None:
        raise Untranslatable(f"{where}: body is not a single return statement")
    return body[0].value


# ----------------------------------------------------------------------------
# Output
# ----------------------------------------------------------------------------

HEADER = "-- GENERATED by /verif/tools/py2lean.py from {src} -- do not edit; regenerated on every run.\n"


def write_if_changed(path: str, text: str) -> str:
    old = open(path).read() if os.path.exists(path) else None
    if old == text:
        return "same"
    os.makedirs(os.path.dirname(path), exist_ok=True)
    with open(path, "w") as f:
        f.write(text)
    return "changed"


# ----------------------------------------------------------------------------
# Fragment generators (one per generated file)
# ----------------------------------------------------------------------------

def gen_dates(repo: str) -> str:
    """dates.py: _serial_from_ysf, RegularPeriodMixin.to_year_segment, month_to_segment x4,
    _MONTH_DAY_RESOLUTION x4 (read as data from the AST / evaluated dict literals), Frequency values,
    SDMX_REXP_FORMATS (length, pattern text)."""
    src = Source(repo, "src/irispie/dates.py")
    out = [HEADER.format(src=src.relpath), "set_option linter.unusedVariables false\n", "namespace IrisVerif.Gen.Dates\n"]

    # --- _serial_from_ysf(year, per, freq)
    fn = src.find("_serial_from_ysf")
    args = [a.arg for a in fn.args.args]
    if args != ["year", "per", "freq"]:
        raise Untranslatable(f"_serial_from_ysf: arguments {args}")
    tr = ExprTr({"year": "year", "per": "per", "freq": "freq"}, {"int": ("id",)}, True, "dates._serial_from_ysf")
    out.append(f"def serialFromYsf (year per freq : Int) : Int := {tr.tr(single_return(fn, 'dates._serial_from_ysf'))}\n")

    # --- RegularPeriodMixin.to_year_segment(self) -> (year, segment)
    fn = src.find("RegularPeriodMixin", "to_year_segment")
    ret = single_return(fn, "RegularPeriodMixin.to_year_segment")
    if not (isinstance(ret, ast.Tuple) and len(ret.elts) == 2):
        raise Untranslatable("RegularPeriodMixin.to_year_segment: does not return a pair")
    tr = ExprTr({"self.serial": "serial", "self.frequency.value": "freq"}, {"int": ("id",)}, True, "RegularPeriodMixin.to_year_segment")
    out.append(f"def toYearSegmentYear (serial freq : Int) : Int := {tr.tr(ret.elts[0])}")
    out.append(f"def toYearSegmentSeg (serial freq : Int) : Int := {tr.tr(ret.elts[1])}\n")

    # --- month_to_segment of the four regular classes
    for cls, tag in (("YearlyPeriod", "Y"), ("HalfyearlyPeriod", "H"), ("QuarterlyPeriod", "Q"), ("MonthlyPeriod", "M")):
        fn = src.find(cls, "month_to_segment")
        tr = ExprTr({"month": "month"}, {"int": ("id",)}, True, f"{cls}.month_to_segment")
        out.append(f"def monthToSegment{tag} (month : Int) : Int := {tr.tr(single_return(fn, cls + '.month_to_segment'))}")
    out.append("")

    # --- _MONTH_DAY_RESOLUTION tables: evaluate the dict expression with only `_ca` and builtins available
    import calendar as _ca
    for cls, tag in (("YearlyPeriod", "Y"), ("HalfyearlyPeriod", "H"), ("QuarterlyPeriod", "Q"), ("MonthlyPeriod", "M")):
        node = src.find(cls, "_MONTH_DAY_RESOLUTION")
        try:
            table = eval(compile(ast.Expression(node), "<MONTH_DAY_RESOLUTION>", "eval"), {"_ca": _ca, "range": range})
        except Exception as e:
            raise Untranslatable(f"{cls}._MONTH_DAY_RESOLUTION: cannot evaluate table: {e!r}")
        if sorted(table.keys()) != ["end", "middle", "start"]:
            raise Untranslatable(f"{cls}._MONTH_DAY_RESOLUTION: positions {sorted(table.keys())}")
        for pos in ("start", "middle", "end"):
            rows = []
            for seg in sorted(table[pos].keys()):
                month, day = table[pos][seg]
                if not isinstance(seg, int) or not isinstance(month, int) or not (day is None or isinstance(day, int)):
                    raise Untranslatable(f"{cls}._MONTH_DAY_RESOLUTION[{pos}][{seg}] = {table[pos][seg]!r}")
                rows.append(f"({seg}, {month}, {'none' if day is None else 'some ' + str(day)})")
            out.append(f"/-- (segment, month, day?) rows of {cls}._MONTH_DAY_RESOLUTION[\"{pos}\"]; `none` = last day of the month. -/")
            out.append(f"def mdr{tag}_{pos} : List (Int × Int × Option Int) := [{', '.join(rows)}]")
    out.append("")

    # --- Frequency enum values
    cls = src.find("Frequency")
    vals = {}
    for n in cls.body:
        if isinstance(n, ast.Assign) and len(n.targets) == 1 and isinstance(n.targets[0], ast.Name):
            try:
                v = ast.literal_eval(n.value)
            except Exception:
                continue
            if isinstance(v, int):
                vals[n.targets[0].id] = v
    for name in ("INTEGER", "YEARLY", "HALFYEARLY", "QUARTERLY", "MONTHLY", "DAILY"):
        if name not in vals:
            raise Untranslatable(f"Frequency.{name} not found")
        out.append(f"def freq{name.capitalize()} : Int := {vals[name] if vals[name] >= 0 else '(' + str(vals[name]) + ')'}")
    out.append("")

    # --- SDMX_REXP_FORMATS: frequency -> (length or none, pattern text)
    node = src.find("SDMX_REXP_FORMATS")
    if not isinstance(node, ast.Dict):
        raise Untranslatable("SDMX_REXP_FORMATS is not a dict literal")
    rows = []
    for k, v in zip(node.keys, node.values):
        kname = k.attr if isinstance(k, ast.Attribute) else None
        if kname is None or not isinstance(v, ast.Tuple) or len(v.elts) != 2:
            raise Untranslatable("SDMX_REXP_FORMATS entry shape")
        length = ast.literal_eval(v.elts[0])
        call = v.elts[1]
        if not (isinstance(call, ast.Call) and call.args and isinstance(call.args[0], ast.Constant) and isinstance(call.args[0].value, str)):
            raise Untranslatable("SDMX_REXP_FORMATS pattern is not _re.compile(<literal>)")
        pat = call.args[0].value
        if kname not in vals:
            raise Untranslatable(f"SDMX_REXP_FORMATS key {kname}")
        rows.append((vals[kname], length, pat))
    def lean_str(s): return json.dumps(s)
    out.append("/-- (frequency value, required length?, regex source text) in dictionary order. -/")
    out.append("def sdmxFormats : List (Int × Option Nat × String) := [")
    out.append(",\n".join(f"  ({f}, {'none' if l is None else 'some ' + str(l)}, {lean_str(p)})" for f, l, p in rows))
    out.append("]\n")

    out.append("end IrisVerif.Gen.Dates\n")
    return "\n".join(out)


GENERATORS = {
    # file name -> (function, properties that depend on it)
    "DatesGen.lean": (gen_dates, {"C09", "C11", "C12", "C13", "C19"}),
}


def load_plugins():
    """tools/gens/*.py may each define GENERATORS = {file name: (function(repo) -> text, {properties})};
    they can import Source, ExprTr, Untranslatable, HEADER, single_return, strip_doc from this module (as `py2lean`)."""
    import importlib.util, glob
    sys.modules.setdefault("py2lean", sys.modules[__name__])
    here = os.path.dirname(os.path.abspath(__file__))
    for path in sorted(glob.glob(os.path.join(here, "gens", "*.py"))):
        name = "py2lean_gen_" + os.path.basename(path)[:-3]
        spec = importlib.util.spec_from_file_location(name, path)
        mod = importlib.util.module_from_spec(spec)
        spec.loader.exec_module(mod)
        for k, v in getattr(mod, "GENERATORS", {}).items():
            if k in GENERATORS:
                raise SystemExit(f"duplicate generator for {k}")
            GENERATORS[k] = v


def main() -> int:
    ap = argparse.ArgumentParser()
    ap.add_argument("--repo", default="/repo")
    ap.add_argument("--out", default=os.path.join(os.path.dirname(os.path.abspath(__file__)), "..", "lean", "IrisVerif", "Generated"))
    ap.add_argument("--only", default="")
    a = ap.parse_args()
    load_plugins()
    only = set(x for x in a.only.split(",") if x)
    rc = 0
    for fname, (fn, props) in GENERATORS.items():
        if only and not (only & props):
            continue
        path = os.path.normpath(os.path.join(a.out, fname))
        try:
            text = fn(a.repo)
        except Untranslatable as e:
            print(f"UNTRANSLATABLE {fname}: {e}")
            rc = 3
            continue
        except (SyntaxError, OSError) as e:
            print(f"UNTRANSLATABLE {fname}: cannot read source: {e!r}")
            rc = 3
            continue
        print(f"GENERATED {path} {write_if_changed(path, text)}")
    return rc


if __name__ == "__main__":
    sys.exit(main())
