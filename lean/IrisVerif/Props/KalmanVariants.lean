/-
The per-variant loop of `kalman_filter` (`Model/Kalman.lean`: `runVariant`, `filterVariants`, `scaleMse`): variant locality and
"rescaled exactly once, by its own scale".  Core Lean only.
-/
import IrisVerif.Model.Kalman

namespace IrisVerif.KalmanVariants
open IrisVerif IrisVerif.Kalman

/-- the loop returns one output per variant, and output `k` is exactly what filtering variant `k` alone returns -/
theorem filterVariants_pointwise (rnd : QMat → QMat) (rescale : Bool) :
    ∀ (vs : List VariantIn) (outs : List VariantOut), filterVariants rnd rescale vs = .ok outs →
      outs.length = vs.length ∧
      ∀ (k : Nat) (hk : k < vs.length) (hk' : k < outs.length), runVariant rnd rescale vs[k] = .ok outs[k] := by
  intro vs
  induction vs with
  | nil =>
    intro outs h
    simp only [filterVariants, pure, Except.pure] at h
    cases h
    exact ⟨rfl, fun k hk => absurd hk (Nat.not_lt_zero k)⟩
  | cons v rest ih =>
    intro outs h
    simp only [filterVariants, bind, Except.bind, pure, Except.pure] at h
    split at h
    · cases h
    · rename_i o ho
      split at h
      · cases h
      · rename_i os hos
        cases h
        obtain ⟨hl, hp⟩ := ih os hos
        refine ⟨by simp [hl], ?_⟩
        intro k hk hk'
        cases k with
        | zero => exact ho
        | succ k =>
          simp only [List.getElem_cons_succ]
          exact hp k (by simpa using hk) (by simpa using hk')

theorem filterVariants_length (rnd : QMat → QMat) (rescale : Bool) (vs : List VariantIn) (outs : List VariantOut)
    (h : filterVariants rnd rescale vs = .ok outs) : outs.length = vs.length :=
  (filterVariants_pointwise rnd rescale vs outs h).1

/-- **variant locality**: output `k` depends only on input variant `k` — two runs whose variant lists agree at position `k`
(whatever the other variants are, however many there are) return the same output at position `k` -/
theorem variant_locality (rnd : QMat → QMat) (rescale : Bool) (vs vs' : List VariantIn) (outs outs' : List VariantOut)
    (h : filterVariants rnd rescale vs = .ok outs) (h' : filterVariants rnd rescale vs' = .ok outs')
    (k : Nat) (hk : k < vs.length) (hk' : k < vs'.length) (hv : vs[k] = vs'[k])
    (ho : k < outs.length) (ho' : k < outs'.length) : outs[k] = outs'[k] := by
  have e := (filterVariants_pointwise rnd rescale vs outs h).2 k hk ho
  have e' := (filterVariants_pointwise rnd rescale vs' outs' h').2 k hk' ho'
  rw [hv, e'] at e
  exact (Except.ok.inj e).symm

/-- **rescaled exactly once, by its own scale**: every reported MSE of a variant is that variant's own variance scale times the
MSE of its own filter run (no other variant's scale enters) -/
theorem rescaled_once (rnd : QMat → QMat) (rescale : Bool) (v : VariantIn) (o : VariantOut)
    (h : runVariant rnd rescale v = .ok o) :
    o.predictVar = o.caches.map (fun c => scaleMse o.lik.varScale c.Q0)
    ∧ o.updateVar = o.caches.map (fun c => scaleMse o.lik.varScale c.Q1)
    ∧ o.smoothVar = o.back.map (fun b => scaleMse o.lik.varScale b.Q) := by
  unfold runVariant at h
  simp only [bind, Except.bind, pure, Except.pure] at h
  split at h
  · cases h
  · split at h
    · cases h
    · split at h
      · cases h
      · cases h
        exact ⟨rfl, rfl, rfl⟩

/-- without rescaling the scale is 1 -/
theorem no_rescale_scale_one (cs : List PeriodCache) (lk : Lik) (h : likelihood cs false = .ok lk) : lk.varScale = 1 := by
  unfold likelihood at h
  simp only [bind, Except.bind, pure, Except.pure] at h
  simp at h
  cases h
  rfl

/-! ### non-vacuity: a concrete two-variant run (different transition coefficients) succeeds, with rescaling -/

def exSys (t : Rat) : Sys :=
  { T := QMat.ofRows [[t]], P := QMat.ofRows [[1]], K := QMat.ofRows [[0]], Z := QMat.ofRows [[1]], H := QMat.ofRows [[1]],
    D := QMat.ofRows [[0]] }

def exPeriod (y : Rat) : PeriodIn :=
  { obs := [0], y := QMat.ofRows [[y]], stdU := QMat.ofRows [[1]], stdW := QMat.ofRows [[1]], u0 := QMat.ofRows [[0]],
    w0 := QMat.ofRows [[0]] }

def exVariant (t : Rat) : VariantIn :=
  { sys := exSys t, a := QMat.ofRows [[0]], Q := QMat.ofRows [[1]], periods := [exPeriod 1, exPeriod 2] }

example : (match filterVariants id true [exVariant (1/2), exVariant (1/4)] with
    | .ok outs => outs.length == 2 && (outs.map (fun o => o.lik.varScale)) != [1, 1]
    | .error _ => false) = true := by decide +kernel

end IrisVerif.KalmanVariants
