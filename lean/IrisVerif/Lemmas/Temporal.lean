/-
Helper lemmas about the temporal model (IrisVerif.Model.Temporal): what `get` sees through trim / shift /
binop / setCell, the loop invariants of the two cumulation folds, and the shape of `zipShift` / `minOr`.
Core Lean only.
-/
import IrisVerif.Model.Temporal
import IrisVerif.Lemmas.PyRange
import IrisVerif.Lemmas.Calendar

set_option linter.unusedSectionVars false
set_option linter.unusedVariables false
set_option linter.unusedSimpArgs false

namespace IrisVerif.Temporal
open IrisVerif.Dates IrisVerif.Gen.Dates

variable {α : Type}

/-! ### lifting -/

@[simp] theorem lift2_none_left (dom : α → α → Bool) (f : α → α → α) (y : Option α) : lift2 dom f none y = none := by
  cases y <;> rfl

@[simp] theorem lift2_none_right (dom : α → α → Bool) (f : α → α → α) (x : Option α) : lift2 dom f x none = none := by
  cases x <;> rfl

@[simp] theorem lift2_some (dom : α → α → Bool) (f : α → α → α) (x y : α) :
    lift2 dom f (some x) (some y) = if dom x y then some (f x y) else none := rfl

@[simp] theorem lift1_none (dom : α → Bool) (f : α → α) : lift1 dom f none = none := rfl

@[simp] theorem lift1_some (dom : α → Bool) (f : α → α) (x : α) :
    lift1 dom f (some x) = if dom x then some (f x) else none := rfl

namespace Ser

/-! ### trim does not change any cell -/

theorem firstSomeFrom_some (v : Int → Option α) (lo : Int) (n : Nat) (a : Int) (h : firstSomeFrom v lo n = some a) :
    lo ≤ a ∧ a < lo + n ∧ ∀ t, lo ≤ t → t < a → v t = none := by
  induction n generalizing lo with
  | zero => simp [firstSomeFrom] at h
  | succ n ih =>
    unfold firstSomeFrom at h
    by_cases hv : (v lo).isSome = true
    · simp [hv] at h
      subst h
      exact ⟨by omega, by omega, fun t h1 h2 => by omega⟩
    · simp [hv] at h
      obtain ⟨h1, h2, h3⟩ := ih (lo + 1) h
      refine ⟨by omega, by omega, fun t ht1 ht2 => ?_⟩
      by_cases e : t = lo
      · subst e; simpa using hv
      · exact h3 t (by omega) ht2

theorem firstSomeFrom_none (v : Int → Option α) (lo : Int) (n : Nat) (h : firstSomeFrom v lo n = none) :
    ∀ t, lo ≤ t → t < lo + n → v t = none := by
  induction n generalizing lo with
  | zero => intro t h1 h2; omega
  | succ n ih =>
    unfold firstSomeFrom at h
    by_cases hv : (v lo).isSome = true
    · simp [hv] at h
    · simp [hv] at h
      intro t h1 h2
      by_cases e : t = lo
      · subst e; simpa using hv
      · exact ih (lo + 1) h t (by omega) (by omega)

theorem lastSomeFrom_some (v : Int → Option α) (hi : Int) (n : Nat) (b : Int) (h : lastSomeFrom v hi n = some b) :
    b ≤ hi ∧ hi - n < b ∧ ∀ t, b < t → t ≤ hi → v t = none := by
  induction n generalizing hi with
  | zero => simp [lastSomeFrom] at h
  | succ n ih =>
    unfold lastSomeFrom at h
    by_cases hv : (v hi).isSome = true
    · simp [hv] at h
      subst h
      exact ⟨by omega, by omega, fun t h1 h2 => by omega⟩
    · simp [hv] at h
      obtain ⟨h1, h2, h3⟩ := ih (hi - 1) h
      refine ⟨by omega, by omega, fun t ht1 ht2 => ?_⟩
      by_cases e : t = hi
      · subst e; simpa using hv
      · exact h3 t ht1 (by omega)

theorem lastSomeFrom_none (v : Int → Option α) (hi : Int) (n : Nat) (h : lastSomeFrom v hi n = none) :
    ∀ t, hi - n < t → t ≤ hi → v t = none := by
  induction n generalizing hi with
  | zero => intro t h1 h2; omega
  | succ n ih =>
    unfold lastSomeFrom at h
    by_cases hv : (v hi).isSome = true
    · simp [hv] at h
    · simp [hv] at h
      intro t h1 h2
      by_cases e : t = hi
      · subst e; simpa using hv
      · exact ih (hi - 1) h t (by omega) (by omega)

theorem trim_eq (s : Ser α) : s.trim =
    match firstSomeFrom s.val s.lo (s.hi + 1 - s.lo).toNat with
    | none => { s with lo := 0, hi := -1 }
    | some a =>
      match lastSomeFrom s.val s.hi (s.hi + 1 - s.lo).toNat with
      | none => { s with lo := 0, hi := -1 }
      | some b => { s with lo := a, hi := b } := rfl

/-- trimming is invisible through `get` -/
@[simp] theorem get_trim (s : Ser α) (t : Int) : s.trim.get t = s.get t := by
  rw [trim_eq]
  generalize hn : (s.hi + 1 - s.lo).toNat = n
  have hempty : ¬ ((0 : Int) ≤ t ∧ t ≤ -1) := by omega
  cases hf : firstSomeFrom s.val s.lo n with
  | none =>
    have h0 := firstSomeFrom_none s.val s.lo n hf
    simp only [get, hempty, if_false]
    split
    · rename_i h; exact (h0 t h.1 (by omega)).symm
    · rfl
  | some a =>
    obtain ⟨a1, a2, a3⟩ := firstSomeFrom_some s.val s.lo n a hf
    cases hl : lastSomeFrom s.val s.hi n with
    | none =>
      have h0 := lastSomeFrom_none s.val s.hi n hl
      simp only [get, hempty, if_false]
      split
      · rename_i h; exact (h0 t (by omega) h.2).symm
      · rfl
    | some b =>
      obtain ⟨b1, b2, b3⟩ := lastSomeFrom_some s.val s.hi n b hl
      simp only [get]
      by_cases h1 : a ≤ t ∧ t ≤ b
      · have h2 : s.lo ≤ t ∧ t ≤ s.hi := by omega
        simp [h1, h2]
      · simp only [h1, if_false]
        split
        · rename_i h
          by_cases h3 : t < a
          · exact (a3 t h.1 h3).symm
          · exact (b3 t (by omega) h.2).symm
        · rfl

@[simp] theorem freq_trim (s : Ser α) : s.trim.freq = s.freq := by
  rw [trim_eq]
  split
  · rfl
  · split <;> rfl

@[simp] theorem freq_binop (g : Option α → Option α → Option α) (a b : Ser α) : (binop g a b).freq = a.freq := by
  simp [binop]

@[simp] theorem freq_mapCells (s : Ser α) (g : Option α → Option α) : (s.mapCells g).freq = s.freq := by
  simp [mapCells]

/-- an empty series has no cells -/
theorem get_of_isEmpty (s : Ser α) (h : s.isEmpty = true) (t : Int) : s.get t = none := by
  simp only [isEmpty, decide_eq_true_eq] at h
  simp only [get]
  have : ¬ (s.lo ≤ t ∧ t ≤ s.hi) := by omega
  simp [this]

/-- `shift(k)`: the new value at `t` is the old value at `t + k` -/
@[simp] theorem get_shiftBy (s : Ser α) (k t : Int) : (s.shiftBy k).get t = s.get (t + k) := by
  unfold shiftBy
  by_cases h : s.isEmpty = true
  · simp [h, get_of_isEmpty s h]
  · simp only [h]
    simp only [get]
    have e : (s.lo - k ≤ t ∧ t ≤ s.hi - k) = (s.lo ≤ t + k ∧ t + k ≤ s.hi) := by
      apply propext; omega
    simp [e]

/-- `set_data(t, v)` is a map update -/
@[simp] theorem get_setCell (s : Ser α) (t : Int) (v : Option α) (u : Int) :
    (s.setCell t v).get u = if u = t then v else s.get u := by
  unfold setCell
  by_cases h : s.isEmpty = true
  · simp only [h, if_true, get_of_isEmpty s h]
    simp only [get]
    by_cases e : u = t
    · subst e; simp
    · have : ¬ (t ≤ u ∧ u ≤ t) := by omega
      simp [this, e]
  · simp only [h]
    simp only [isEmpty, decide_eq_true_eq] at h
    by_cases e : u = t
    · subst e
      have : min s.lo u ≤ u ∧ u ≤ max s.hi u := by omega
      simp [get, this]
    · simp only [e, if_false]
      by_cases r : min s.lo t ≤ u ∧ u ≤ max s.hi t
      · simp [get, r, e]
      · have r2 : ¬ (s.lo ≤ u ∧ u ≤ s.hi) := by omega
        simp [get, r, r2]

/-- `_binop` with a NaN-strict function is cell-wise on every period -/
theorem get_binop (g : Option α → Option α → Option α) (hg : g none none = none) (a b : Ser α) (t : Int) :
    (binop g a b).get t = g (a.get t) (b.get t) := by
  unfold binop
  rw [get_trim]
  by_cases r : min a.lo b.lo ≤ t ∧ t ≤ max a.hi b.hi
  · simp [get, r]
  · have ra : ¬ (a.lo ≤ t ∧ t ≤ a.hi) := by omega
    have rb : ¬ (b.lo ≤ t ∧ t ≤ b.hi) := by omega
    simp [get, r, ra, rb, hg]

@[simp] theorem get_mapCells (s : Ser α) (g : Option α → Option α) (hg : g none = none) (t : Int) :
    (s.mapCells g).get t = g (s.get t) := by
  unfold mapCells
  rw [get_trim]
  by_cases r : s.lo ≤ t ∧ t ≤ s.hi
  · simp [get, r]
  · simp [get, r, hg]

/-- membership in the row list -/
theorem mem_rows (s : Ser α) (t : Int) : t ∈ s.rows ↔ s.lo ≤ t ∧ t ≤ s.hi := by
  unfold rows
  simp only [List.mem_map, List.mem_range]
  constructor
  · rintro ⟨i, hi, rfl⟩; omega
  · intro h
    exact ⟨(t - s.lo).toNat, by omega, by omega⟩

/-- `shiftRef` (soy / eopy / tty): when no reference computation raises, the shifted series has at row `t` the old
value at the reference period (or the neutral value when there is none); nothing outside the rows -/
theorem get_shiftRef (s : Ser α) (ref : Int → R Int) (neutral : Option α)
    (hok : ∀ t, s.lo ≤ t → t ≤ s.hi → refOk (ref t) = true) :
    ∃ o, s.shiftRef ref neutral = .ok o ∧ ∀ t, o.get t =
      if s.lo ≤ t ∧ t ≤ s.hi then s.refCell neutral (ref t) else none := by
  unfold shiftRef
  have hall : (s.rows.all fun t => refOk (ref t)) = true := by
    rw [List.all_eq_true]
    intro t ht
    exact hok t ((mem_rows s t).mp ht).1 ((mem_rows s t).mp ht).2
  rw [if_pos hall]
  exact ⟨_, rfl, fun t => by simp only [get]⟩

end Ser

/-! ### the cumulation loops -/

/-- invariant of the forward loop: on a region `P` where the running series agrees with a target map `tgt`, every
step reads a correct value at `sh` and writes the correct value at `t` -/
theorem foldl_stepForward_inv [Add α] [Sub α] [Mul α] [Div α] [NatCast α]
    (S : Sym α) (kind : CumKind) (change : Ser α) (tgt : Int → Option α) (P : Int → Prop)
    (zs : List (Int × Int)) (self : Ser α)
    (h0 : ∀ u, P u → self.get u = tgt u)
    (hz : ∀ p ∈ zs, P p.2 ∧ lift2 (kind.domF S) (kind.forward S) (tgt p.2) (change.get p.1) = tgt p.1) :
    ∀ u, P u → (zs.foldl (stepForward S kind change) self).get u = tgt u := by
  induction zs generalizing self with
  | nil => simpa using h0
  | cons p zs ih =>
    rw [List.foldl_cons]
    apply ih
    · intro u hu
      unfold stepForward
      rw [Ser.get_setCell]
      obtain ⟨hp, he⟩ := hz p (by simp)
      by_cases e : u = p.1
      · rw [if_pos e, h0 p.2 hp, he, e]
      · rw [if_neg e]; exact h0 u hu
    · intro q hq
      exact hz q (by simp [hq])

/-- invariant of the backward loop -/
theorem foldl_stepBackward_inv [Add α] [Sub α] [Mul α] [Div α] [NatCast α]
    (S : Sym α) (kind : CumKind) (k : Int) (orig : Ser α) (tgt : Int → Option α) (P : Int → Prop)
    (shs : List Int) (self : Ser α)
    (h0 : ∀ u, P u → self.get u = tgt u)
    (hz : ∀ sh ∈ shs, P (sh - k) ∧ lift2 (kind.domB S) (kind.backward S) (tgt (sh - k)) (orig.get (sh - k)) = tgt sh) :
    ∀ u, P u → (shs.foldl (stepBackward S kind k orig) self).get u = tgt u := by
  induction shs generalizing self with
  | nil => simpa using h0
  | cons sh shs ih =>
    rw [List.foldl_cons]
    apply ih
    · intro u hu
      unfold stepBackward
      rw [Ser.get_setCell]
      obtain ⟨hp, he⟩ := hz sh (by simp)
      by_cases e : u = sh
      · rw [if_pos e, h0 (sh - k) hp, he, e]
      · rw [if_neg e]; exact h0 u hu
    · intro q hq
      exact hz q (by simp [hq])

/-- a cell that no step writes keeps its initial value (forward loop) -/
theorem foldl_stepForward_untouched [Add α] [Sub α] [Mul α] [Div α] [NatCast α]
    (S : Sym α) (kind : CumKind) (change : Ser α) (zs : List (Int × Int)) (self : Ser α) (u : Int)
    (hu : ∀ p ∈ zs, p.1 ≠ u) :
    (zs.foldl (stepForward S kind change) self).get u = self.get u := by
  induction zs generalizing self with
  | nil => rfl
  | cons p zs ih =>
    rw [List.foldl_cons, ih _ (fun q hq => hu q (by simp [hq]))]
    unfold stepForward
    rw [Ser.get_setCell, if_neg (fun e => hu p (by simp) e.symm)]

theorem get_stepForward [Add α] [Sub α] [Mul α] [Div α] [NatCast α]
    (S : Sym α) (kind : CumKind) (change self : Ser α) (p : Int × Int) (u : Int) :
    (stepForward S kind change self p).get u =
      if u = p.1 then lift2 (kind.domF S) (kind.forward S) (self.get p.2) (change.get p.1) else self.get u := by
  unfold stepForward; rw [Ser.get_setCell]

theorem get_stepBackward [Add α] [Sub α] [Mul α] [Div α] [NatCast α]
    (S : Sym α) (kind : CumKind) (k : Int) (orig self : Ser α) (sh : Int) (u : Int) :
    (stepBackward S kind k orig self sh).get u =
      if u = sh then lift2 (kind.domB S) (kind.backward S) (self.get (sh - k)) (orig.get (sh - k)) else self.get u := by
  unfold stepBackward; rw [Ser.get_setCell]

/-- forward-loop invariant restricted to a region `P` that the steps respect: a step whose target lies in `P` reads in
`P` and regenerates the target value; steps whose target lies outside `P` may do anything (they cannot write into `P`).
This is what lets single chains `t, t+k, t+2k, …` be followed through a series with missing values elsewhere. -/
theorem foldl_stepForward_inv_on [Add α] [Sub α] [Mul α] [Div α] [NatCast α]
    (S : Sym α) (kind : CumKind) (change : Ser α) (tgt : Int → Option α) (P : Int → Prop)
    (zs : List (Int × Int)) (self : Ser α)
    (h0 : ∀ u, P u → self.get u = tgt u)
    (hz : ∀ p ∈ zs, P p.1 → P p.2 ∧ lift2 (kind.domF S) (kind.forward S) (tgt p.2) (change.get p.1) = tgt p.1) :
    ∀ u, P u → (zs.foldl (stepForward S kind change) self).get u = tgt u := by
  induction zs generalizing self with
  | nil => simpa using h0
  | cons p zs ih =>
    rw [List.foldl_cons]
    apply ih
    · intro u hu
      rw [get_stepForward]
      by_cases e : u = p.1
      · obtain ⟨hp, he⟩ := hz p (by simp) (e ▸ hu)
        rw [if_pos e, h0 p.2 hp, he, e]
      · rw [if_neg e]; exact h0 u hu
    · intro q hq
      exact hz q (by simp [hq])

theorem foldl_stepBackward_inv_on [Add α] [Sub α] [Mul α] [Div α] [NatCast α]
    (S : Sym α) (kind : CumKind) (k : Int) (orig : Ser α) (tgt : Int → Option α) (P : Int → Prop)
    (shs : List Int) (self : Ser α)
    (h0 : ∀ u, P u → self.get u = tgt u)
    (hz : ∀ sh ∈ shs, P sh → P (sh - k) ∧
      lift2 (kind.domB S) (kind.backward S) (tgt (sh - k)) (orig.get (sh - k)) = tgt sh) :
    ∀ u, P u → (shs.foldl (stepBackward S kind k orig) self).get u = tgt u := by
  induction shs generalizing self with
  | nil => simpa using h0
  | cons sh shs ih =>
    rw [List.foldl_cons]
    apply ih
    · intro u hu
      rw [get_stepBackward]
      by_cases e : u = sh
      · obtain ⟨hp, he⟩ := hz sh (by simp) (e ▸ hu)
        rw [if_pos e, h0 (sh - k) hp, he, e]
      · rw [if_neg e]; exact h0 u hu
    · intro q hq
      exact hz q (by simp [hq])

/-- forward loop over consecutive periods `a, a+1, …` (`n` of them) with lag `k < 0`: correct values on the `|k|`
periods before `a` are enough — every step reads a value that is initial or was written by an earlier step -/
theorem foldl_stepForward_consecutive [Add α] [Sub α] [Mul α] [Div α] [NatCast α]
    (S : Sym α) (kind : CumKind) (change : Ser α) (tgt : Int → Option α) (k : Int) (hk : k < 0) (a : Int)
    (self : Ser α) (n : Nat)
    (h0 : ∀ u, a + k ≤ u → u < a → self.get u = tgt u)
    (hs : ∀ t, a ≤ t → t < a + n → lift2 (kind.domF S) (kind.forward S) (tgt (t + k)) (change.get t) = tgt t) :
    ∀ u, a + k ≤ u → u < a + n →
      (((List.range n).map (fun (i : Nat) => ((a + (i : Int) * 1, a + (i : Int) * 1 + k) : Int × Int))).foldl
        (stepForward S kind change) self).get u = tgt u := by
  induction n with
  | zero => intro u h1 h2; simpa using h0 u h1 (by omega)
  | succ n ih =>
    intro u h1 h2
    have ih' := ih (fun t ht1 ht2 => hs t ht1 (by omega))
    rw [List.range_succ, List.map_append, List.foldl_append]
    simp only [List.map_cons, List.map_nil, List.foldl_cons, List.foldl_nil]
    rw [get_stepForward]
    by_cases e : u = a + (n : Int) * 1
    · rw [if_pos e]
      rw [ih' (a + (n : Int) * 1 + k) (by omega) (by omega)]
      rw [hs (a + (n : Int) * 1) (by omega) (by omega), e]
    · rw [if_neg e]
      exact ih' u h1 (by omega)

/-- backward loop over consecutive periods `a, a-1, …` (`n` of them) with `k < 0`: correct values on the `|k|`
periods after `a` are enough -/
theorem foldl_stepBackward_consecutive [Add α] [Sub α] [Mul α] [Div α] [NatCast α]
    (S : Sym α) (kind : CumKind) (orig : Ser α) (tgt : Int → Option α) (k : Int) (hk : k < 0) (a : Int)
    (self : Ser α) (n : Nat)
    (h0 : ∀ u, a < u → u ≤ a - k → self.get u = tgt u)
    (hs : ∀ sh, a - n < sh → sh ≤ a →
      lift2 (kind.domB S) (kind.backward S) (tgt (sh - k)) (orig.get (sh - k)) = tgt sh) :
    ∀ u, a - n < u → u ≤ a - k →
      (((List.range n).map (fun (i : Nat) => a + (i : Int) * (-1))).foldl (stepBackward S kind k orig) self).get u
        = tgt u := by
  induction n with
  | zero => intro u h1 h2; simpa using h0 u (by omega) h2
  | succ n ih =>
    intro u h1 h2
    have ih' := ih (fun t ht1 ht2 => hs t (by omega) ht2)
    rw [List.range_succ, List.map_append, List.foldl_append]
    simp only [List.map_cons, List.map_nil, List.foldl_cons, List.foldl_nil]
    rw [get_stepBackward]
    by_cases e : u = a + (n : Int) * (-1)
    · rw [if_pos e]
      rw [ih' (a + (n : Int) * (-1) - k) (by omega) (by omega)]
      rw [hs (a + (n : Int) * (-1)) (by omega) (by omega), e]
    · rw [if_neg e]
      exact ih' u (by omega) h2

/-! ### several variants -/

theorem Ser.firstSomeFrom_isSome (v : Int → Option α) (lo : Int) (n : Nat) (a : Int)
    (h : Ser.firstSomeFrom v lo n = some a) : (v a).isSome = true := by
  induction n generalizing lo with
  | zero => simp [Ser.firstSomeFrom] at h
  | succ n ih =>
    unfold Ser.firstSomeFrom at h
    by_cases hv : (v lo).isSome = true
    · simp [hv] at h; subst h; exact hv
    · simp [hv] at h; exact ih (lo + 1) h

theorem Ser.lastSomeFrom_isSome (v : Int → Option α) (hi : Int) (n : Nat) (b : Int)
    (h : Ser.lastSomeFrom v hi n = some b) : (v b).isSome = true := by
  induction n generalizing hi with
  | zero => simp [Ser.lastSomeFrom] at h
  | succ n ih =>
    unfold Ser.lastSomeFrom at h
    by_cases hv : (v hi).isSome = true
    · simp [hv] at h; subst h; exact hv
    · simp [hv] at h; exact ih (hi - 1) h

namespace MSer

/-- a row is unmarked exactly when it is missing in every variant -/
theorem rowMark_eq_none (m : MSer α) (t : Int) : m.rowMark t = none ↔ ∀ j, j < m.nv → m.val t j = none := by
  unfold rowMark
  constructor
  · intro h j hj
    by_cases hany : ((List.range m.nv).any fun j => (m.val t j).isSome) = true
    · simp [hany] at h
    · rw [Bool.not_eq_true, List.any_eq_false] at hany
      have := hany j (List.mem_range.mpr hj)
      cases hv : m.val t j with
      | none => rfl
      | some x => simp [hv] at this
  · intro h
    have : ((List.range m.nv).any fun j => (m.val t j).isSome) = false := by
      rw [List.any_eq_false]
      intro j hj
      simp [h j (List.mem_range.mp hj)]
    simp [this]

theorem rowMark_isSome (m : MSer α) (t : Int) (h : (m.rowMark t).isSome = true) :
    ∃ j, j < m.nv ∧ (m.val t j).isSome = true := by
  unfold rowMark at h
  by_cases hany : ((List.range m.nv).any fun j => (m.val t j).isSome) = true
  · rw [List.any_eq_true] at hany
    obtain ⟨j, hj, hv⟩ := hany
    exact ⟨j, List.mem_range.mp hj, hv⟩
  · simp [hany] at h

theorem trim_eq (m : MSer α) : m.trim =
    match Ser.firstSomeFrom m.rowMark m.lo (m.hi + 1 - m.lo).toNat with
    | none => { m with lo := 0, hi := -1 }
    | some a =>
      match Ser.lastSomeFrom m.rowMark m.hi (m.hi + 1 - m.lo).toNat with
      | none => { m with lo := 0, hi := -1 }
      | some b => { m with lo := a, hi := b } := rfl

@[simp] theorem nv_trim (m : MSer α) : m.trim.nv = m.nv := by
  rw [trim_eq]; split
  · rfl
  · split <;> rfl

@[simp] theorem freq_trim (m : MSer α) : m.trim.freq = m.freq := by
  rw [trim_eq]; split
  · rfl
  · split <;> rfl

/-- trimming is invisible through `get`, in every variant -/
@[simp] theorem get_trim (m : MSer α) (t : Int) (j : Nat) : m.trim.get t j = m.get t j := by
  rw [trim_eq]
  generalize hn : (m.hi + 1 - m.lo).toNat = n
  have hempty : ¬ ((0 : Int) ≤ t ∧ t ≤ -1 ∧ j < m.nv) := by omega
  cases Nat.lt_or_ge j m.nv with
  | inr hge =>
    have hj : ¬ j < m.nv := by omega
    cases hf : Ser.firstSomeFrom m.rowMark m.lo n with
    | none => simp [get, hj]
    | some a =>
      cases hl : Ser.lastSomeFrom m.rowMark m.hi n with
      | none => simp [get, hj]
      | some b => simp [get, hj]
  | inl hj =>
    cases hf : Ser.firstSomeFrom m.rowMark m.lo n with
    | none =>
      have h0 := Ser.firstSomeFrom_none m.rowMark m.lo n hf
      simp only [get, hempty, if_false]
      split
      · rename_i h
        exact ((rowMark_eq_none m t).mp (h0 t h.1 (by omega)) j hj).symm
      · rfl
    | some a =>
      obtain ⟨a1, a2, a3⟩ := Ser.firstSomeFrom_some m.rowMark m.lo n a hf
      cases hl : Ser.lastSomeFrom m.rowMark m.hi n with
      | none =>
        have h0 := Ser.lastSomeFrom_none m.rowMark m.hi n hl
        simp only [get, hempty, if_false]
        split
        · rename_i h
          exact ((rowMark_eq_none m t).mp (h0 t (by omega) h.2.1) j hj).symm
        · rfl
      | some b =>
        obtain ⟨b1, b2, b3⟩ := Ser.lastSomeFrom_some m.rowMark m.hi n b hl
        simp only [get]
        by_cases h1 : a ≤ t ∧ t ≤ b ∧ j < m.nv
        · have h2 : m.lo ≤ t ∧ t ≤ m.hi ∧ j < m.nv := ⟨by omega, by omega, hj⟩
          simp [h1, h2]
        · simp only [h1, if_false]
          split
          · rename_i h
            by_cases h3 : t < a
            · exact ((rowMark_eq_none m t).mp (a3 t h.1 h3) j hj).symm
            · exact ((rowMark_eq_none m t).mp (b3 t (by omega) h.2.1) j hj).symm
          · rfl

/-- the non-empty series of a list lie inside the union of rows -/
theorem rowsUnion_cover (outs : List (Ser α)) (o : Ser α) (ho : o ∈ outs) (hne : o.isEmpty = false) :
    ∃ a b, rowsUnion outs = some (a, b) ∧ a ≤ o.lo ∧ o.hi ≤ b := by
  induction outs with
  | nil => simp at ho
  | cons x xs ih =>
    unfold rowsUnion
    rcases List.mem_cons.mp ho with e | e
    · subst e
      cases hr : rowsUnion xs with
      | none => exact ⟨o.lo, o.hi, by simp [hne], Int.le_refl _, Int.le_refl _⟩
      | some ab =>
        obtain ⟨a, b⟩ := ab
        exact ⟨min a o.lo, max b o.hi, by simp [hne], by omega, by omega⟩
    · obtain ⟨a, b, hab, h1, h2⟩ := ih e
      rw [hab]
      by_cases hx : x.isEmpty = true
      · exact ⟨a, b, by simp [hx], h1, h2⟩
      · exact ⟨min a x.lo, max b x.hi, by simp [hx], by omega, by omega⟩

theorem rowsUnion_none (outs : List (Ser α)) (h : rowsUnion outs = none) (o : Ser α) (ho : o ∈ outs) :
    o.isEmpty = true := by
  cases he : o.isEmpty with
  | true => rfl
  | false =>
    obtain ⟨a, b, hab, _⟩ := rowsUnion_cover outs o ho he
    rw [h] at hab; cases hab

@[simp] theorem nv_ofSers (f : Freq) (outs : List (Ser α)) : (ofSers f outs).nv = outs.length := by
  unfold ofSers; split <;> simp

/-- variant `j` of `ofSers` is `outs[j]`, cell by cell -/
theorem get_ofSers (f : Freq) (outs : List (Ser α)) (t : Int) (j : Nat) :
    (ofSers f outs).get t j = (outs[j]?).bind (fun o => o.get t) := by
  unfold ofSers
  cases hr : rowsUnion outs with
  | none =>
    simp only [get]
    have : ¬ ((0 : Int) ≤ t ∧ t ≤ -1 ∧ j < outs.length) := by omega
    simp only [this, if_false]
    cases ho : outs[j]? with
    | none => rfl
    | some o =>
      have hmem : o ∈ outs := List.mem_of_getElem? ho
      simp [Ser.get_of_isEmpty o (rowsUnion_none outs hr o hmem)]
  | some ab =>
    obtain ⟨a, b⟩ := ab
    simp only
    rw [get_trim]
    simp only [get]
    cases ho : outs[j]? with
    | none =>
      have : ¬ j < outs.length := by
        intro hlt
        have := List.getElem?_eq_getElem hlt
        rw [ho] at this; cases this
      simp [this]
    | some o =>
      have hmem : o ∈ outs := List.mem_of_getElem? ho
      have hlt : j < outs.length := by
        rcases Nat.lt_or_ge j outs.length with h | h
        · exact h
        · rw [List.getElem?_eq_none h] at ho; cases ho
      by_cases hin : a ≤ t ∧ t ≤ b ∧ j < outs.length
      · rw [if_pos hin]
      · simp only [hin, if_false, Option.bind_some]
        cases he : o.isEmpty with
        | true => exact (Ser.get_of_isEmpty o he t).symm
        | false =>
          obtain ⟨a', b', hab, h1, h2⟩ := rowsUnion_cover outs o hmem he
          rw [hr] at hab
          injection hab with hab
          injection hab with ha hb
          subst ha; subst hb
          have : ¬ (o.lo ≤ t ∧ t ≤ o.hi) := by omega
          simp [Ser.get, this]

end MSer

theorem mapR_ok {β γ : Type} (g : β → R γ) (l : List β) (cs : List γ) (h : mapR g l = .ok cs) :
    cs.length = l.length ∧ ∀ i (hi : i < l.length), ∃ c, g l[i] = .ok c ∧ cs[i]? = some c := by
  induction l generalizing cs with
  | nil => simp [mapR, pure, Except.pure] at h; subst h; simp
  | cons b bs ih =>
    unfold mapR at h
    cases hb : g b with
    | error e => simp [hb] at h
    | ok c =>
      cases hr : mapR g bs with
      | error e => simp [hb, hr] at h
      | ok cs' =>
        simp [hb, hr] at h
        subst h
        obtain ⟨h1, h2⟩ := ih cs' hr
        refine ⟨by simp [h1], ?_⟩
        intro i hi
        cases i with
        | zero => exact ⟨c, hb, rfl⟩
        | succ i =>
          obtain ⟨c', hc1, hc2⟩ := h2 i (by simpa using hi)
          exact ⟨c', by simpa using hc1, by simpa using hc2⟩

theorem mapR_error {β γ : Type} (g : β → R γ) (l : List β) (e : Err) (h : mapR g l = .error e) :
    ∃ b ∈ l, g b = .error e := by
  induction l with
  | nil => simp [mapR, pure, Except.pure] at h
  | cons b bs ih =>
    unfold mapR at h
    cases hb : g b with
    | error e' => simp [hb] at h; subst h; exact ⟨b, by simp, hb⟩
    | ok c =>
      cases hr : mapR g bs with
      | error e' =>
        simp [hb, hr] at h; subst h
        obtain ⟨b', hb', hg⟩ := ih hr
        exact ⟨b', by simp [hb'], hg⟩
      | ok cs' => simp [hb, hr] at h

/-! ### `zipShift` and `minOr` -/

theorem foldl_min_le (xs : List Int) (x : Int) : xs.foldl min x ≤ x ∧ ∀ y ∈ xs, xs.foldl min x ≤ y := by
  induction xs generalizing x with
  | nil => simp
  | cons z zs ih =>
    rw [List.foldl_cons]
    obtain ⟨h1, h2⟩ := ih (min x z)
    refine ⟨by omega, ?_⟩
    intro y hy
    rcases List.mem_cons.mp hy with e | e
    · subst e; omega
    · exact h2 y e

theorem minOr_le (d : Int) (xs : List Int) (y : Int) (hy : y ∈ xs) : minOr d xs ≤ y := by
  cases xs with
  | nil => simp at hy
  | cons x xs =>
    unfold minOr
    obtain ⟨h1, h2⟩ := foldl_min_le xs x
    rcases List.mem_cons.mp hy with e | e
    · subst e; exact h1
    · exact h2 y e

theorem foldl_min_eq_of_le (xs : List Int) (x : Int) (h : ∀ y ∈ xs, x ≤ y) : xs.foldl min x = x := by
  induction xs generalizing x with
  | nil => rfl
  | cons z zs ih =>
    rw [List.foldl_cons]
    have hz : x ≤ z := h z (by simp)
    have e : min x z = x := by omega
    rw [e]
    exact ih x (fun y hy => h y (by simp [hy]))

/-- the minimum of a list whose head is a lower bound is its head -/
theorem minOr_cons_of_le (d x : Int) (xs : List Int) (h : ∀ y ∈ xs, x ≤ y) : minOr d (x :: xs) = x := by
  unfold minOr
  exact foldl_min_eq_of_le xs x h

/-- with an integer shift nothing is dropped: `(t, t + k)` for every `t` -/
theorem zipShift_int (f : Freq) (k : Int) (ts : List Int) :
    zipShift f (.by_ k) ts = .ok (ts.map (fun t => (t, t + k))) := by
  induction ts with
  | nil => rfl
  | cons t ts ih =>
    simp only [zipShift, Period.shift, pure, Except.pure, Period.add, ih, bind, Except.bind, List.map_cons]

/-- every pair that `zipShift` keeps is a period of the list together with its shifted period -/
theorem zipShift_mem (f : Freq) (by_ : ShiftBy) (ts : List Int) (zs : List (Int × Int))
    (h : zipShift f by_ ts = .ok zs) (p : Int × Int) (hp : p ∈ zs) :
    p.1 ∈ ts ∧ ∃ q, Period.shift ⟨f, p.1⟩ by_ = .ok q ∧ q.serial = p.2 := by
  induction ts generalizing zs with
  | nil =>
    simp [zipShift, pure, Except.pure] at h
    subst h; simp at hp
  | cons t ts ih =>
    unfold zipShift at h
    cases hs : Period.shift ⟨f, t⟩ by_ with
    | ok q =>
      rw [hs] at h
      cases hr : zipShift f by_ ts with
      | error e => simp [hr, bind, Except.bind] at h
      | ok rest =>
        simp [hr, bind, Except.bind, pure, Except.pure] at h
        subst h
        rcases List.mem_cons.mp hp with e | e
        · subst e; exact ⟨by simp, q, hs, rfl⟩
        · obtain ⟨h1, h2⟩ := ih rest hr e
          exact ⟨by simp [h1], h2⟩
    | error e =>
      rw [hs] at h
      cases e with
      | noPeriod =>
        simp only at h
        obtain ⟨h1, h2⟩ := ih zs h hp
        exact ⟨by simp [h1], h2⟩
      | mixedFreq => simp [throw, throwThe, MonadExceptOf.throw] at h
      | badInput => simp [throw, throwThe, MonadExceptOf.throw] at h

/-! ### calendar facts about the reference period -/

/-- calendar keywords are defined for every frequency with a calendar (not for integer periods) -/
theorem toYearSegment_ok (f : Freq) (hf : f ≠ .I) (t : Int) : ∃ ys, toYearSegment ⟨f, t⟩ = .ok ys := by
  cases f <;> first | exact absurd rfl hf | exact ⟨_, rfl⟩

/-- the reference period of a keyword shift (or of a negative number) is never later than the period itself -/
theorem shift_serial_le (f : Freq) (t : Int) (by_ : ShiftBy) (hv : validShift by_ = true) (q : Period)
    (h : Period.shift ⟨f, t⟩ by_ = .ok q) : q.serial ≤ t := by
  cases by_ with
  | by_ k =>
    simp [validShift] at hv
    simp [Period.shift, Period.add, pure, Except.pure] at h
    subst h; simp; omega
  | yoy =>
    simp [Period.shift, Period.add, pure, Except.pure] at h
    subst h
    cases f <;> simp [Freq.value, freqInteger, freqYearly, freqHalfyearly, freqQuarterly, freqMonthly, freqDaily] <;> omega
  | tty =>
    simp only [Period.shift, createTty, bind, Except.bind] at h
    cases hys : toYearSegment ⟨f, t⟩ with
    | error e => simp [hys] at h
    | ok ys =>
      simp only [hys] at h
      by_cases hs : ys.2 > 1
      · simp [hs, pure, Except.pure, Period.add] at h
        subst h; simp; omega
      · simp [hs, throw, throwThe, MonadExceptOf.throw] at h
  | soy =>
    have hs := yearOf_spec t
    cases f <;>
      simp [Period.shift, createSoy, toYearSegment, bind, Except.bind, pure, Except.pure, fromYearSegment, serialFromYsf,
        toYearSegmentYear, toYearSegmentSeg, Freq.value, freqYearly, freqHalfyearly, freqQuarterly, freqMonthly,
        Int.fdiv_eq_ediv_of_nonneg, Int.fmod_eq_emod_of_nonneg, throw, throwThe, MonadExceptOf.throw, ymd2ord, dbm_one] at h <;>
      subst h <;> simp <;> omega
  | eopy =>
    have hs := yearOf_spec t
    have hy := dby_succ (yearOf t - 1)
    have hd := dbm_dec (yearOf t - 1)
    have e : yearOf t - 1 + 1 = yearOf t := by omega
    rw [e] at hy
    simp [daysInMonth] at hd
    cases f <;>
      simp [Period.shift, createEopy, toYearSegment, bind, Except.bind, pure, Except.pure, fromYearSegment, serialFromYsf,
        toYearSegmentYear, toYearSegmentSeg, Freq.value, freqYearly, freqHalfyearly, freqQuarterly, freqMonthly,
        Int.fdiv_eq_ediv_of_nonneg, Int.fmod_eq_emod_of_nonneg, throw, throwThe, MonadExceptOf.throw, ymd2ord] at h <;>
      subst h <;> simp <;> omega

/-- with a calendar, `Period.shift` never raises: it yields a period, or no period ("tty" at the start of a year) -/
theorem shift_ok_or_noPeriod (f : Freq) (hf : f ≠ .I) (t : Int) (by_ : ShiftBy) :
    (∃ q, Period.shift ⟨f, t⟩ by_ = .ok q) ∨ Period.shift ⟨f, t⟩ by_ = .error .noPeriod := by
  obtain ⟨ys, hys⟩ := toYearSegment_ok f hf t
  cases by_ with
  | by_ k => left; exact ⟨_, rfl⟩
  | yoy => left; exact ⟨_, rfl⟩
  | soy => left; simp [Period.shift, createSoy, hys, bind, Except.bind, pure, Except.pure]
  | eopy => left; cases f <;> simp_all [Period.shift, createEopy, bind, Except.bind, pure, Except.pure]
  | tty =>
    by_cases hs : ys.2 > 1
    · left; simp [Period.shift, createTty, hys, bind, Except.bind, pure, Except.pure, hs]
    · right; simp [Period.shift, createTty, hys, bind, Except.bind, hs, throw, throwThe, MonadExceptOf.throw]

/-- `soy` and `eopy` always yield a period on a calendar frequency -/
theorem shift_soy_eopy_ok (f : Freq) (hf : f ≠ .I) (t : Int) :
    (∃ q, Period.shift ⟨f, t⟩ .soy = .ok q) ∧ (∃ q, Period.shift ⟨f, t⟩ .eopy = .ok q) := by
  obtain ⟨ys, hys⟩ := toYearSegment_ok f hf t
  constructor
  · simp [Period.shift, createSoy, hys, bind, Except.bind, pure, Except.pure]
  · cases f <;> simp_all [Period.shift, createEopy, bind, Except.bind, pure, Except.pure]

theorem zipShift_ok (f : Freq) (hf : f ≠ .I) (by_ : ShiftBy) (ts : List Int) : ∃ zs, zipShift f by_ ts = .ok zs := by
  induction ts with
  | nil => exact ⟨[], rfl⟩
  | cons t ts ih =>
    obtain ⟨zs, hzs⟩ := ih
    rcases shift_ok_or_noPeriod f hf t by_ with ⟨q, hq⟩ | hq
    · exact ⟨(t, q.serial) :: zs, by simp [zipShift, hq, hzs, bind, Except.bind, pure, Except.pure]⟩
    · exact ⟨zs, by simp [zipShift, hq, hzs]⟩

end IrisVerif.Temporal
