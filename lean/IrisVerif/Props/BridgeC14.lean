/-
Bridge for property C14 (Hodrick-Prescott filter): `C14.model_trend_is_the_minimiser` is stated for an arbitrary
call of `HP.filterData` under side conditions on its arguments (matching lengths, constraint positions `< n`, change
positions `≥ 1`, data length `n`).  Here these side conditions are *derived* for the arguments that `HP.dataHpf`
actually passes -- they are facts about `HP.setup r`, for every request `r` (`setup` is total, nothing is assumed) --
so the theorem applies to every variant of every successful `dataHpf` run.
-/
import IrisVerif.Props.C14

namespace IrisVerif.BridgeC14

open IrisVerif IrisVerif.HP IrisVerif.HPModel IrisVerif.HPMatrix

/-! ## facts about `prepareConstraints` and `removeFirstDateChange` -/

theorem getD_filter_range_lt (m : Nat) (p : Nat → Bool) (a : Nat) (ha : a < ((List.range m).filter p).length) :
    ((List.range m).filter p).getD a 0 < m ∧ p (((List.range m).filter p).getD a 0) = true := by
  have h1 : ((List.range m).filter p).getD a 0 = ((List.range m).filter p)[a] := by simp [List.getD, ha]
  have hmem := List.getElem_mem ha
  rw [← h1] at hmem
  rw [List.mem_filter, List.mem_range] at hmem
  exact hmem

theorem fromUntil_size (s : Ser) (lo hi : Int) : (s.fromUntil lo hi).size = (hi - lo + 1).toNat := by
  simp [Ser.fromUntil]

theorem prepareConstraints_len (c : Option Ser) (lo hi : Int) :
    (prepareConstraints c lo hi).1.length = (prepareConstraints c lo hi).2.length := by
  cases c with
  | none => rfl
  | some s => simp [prepareConstraints]

theorem prepareConstraints_lt (c : Option Ser) (lo hi : Int) (a : Nat)
    (ha : a < (prepareConstraints c lo hi).2.length) :
    (prepareConstraints c lo hi).2.getD a 0 < (hi - lo + 1).toNat := by
  cases c with
  | none => simp [prepareConstraints] at ha
  | some s =>
    simp only [prepareConstraints] at ha ⊢
    have := (getD_filter_range_lt _ _ a ha).1
    have e : (s.fromUntil lo hi).toList.length = (hi - lo + 1).toNat := by rw [Array.length_toList, fromUntil_size]
    exact Nat.lt_of_lt_of_eq this e

theorem removeFirstDateChange_len (cd : List Rat) (cw : List Nat) :
    (removeFirstDateChange cd cw).1.length = (removeFirstDateChange cd cw).2.length := by
  simp [removeFirstDateChange]

theorem removeFirstDateChange_getD (cd : List Rat) (cw : List Nat) (a : Nat)
    (ha : a < (removeFirstDateChange cd cw).2.length) :
    ∃ i, i < cw.length ∧ (removeFirstDateChange cd cw).2.getD a 0 = cw.getD i 0 ∧ cw.getD i 0 ≠ 0 := by
  simp only [removeFirstDateChange, List.length_map] at ha ⊢
  obtain ⟨h1, h2⟩ := getD_filter_range_lt cw.length (fun i => decide (cw.getD i 0 ≠ 0)) a ha
  refine ⟨_, h1, ?_, by simpa using h2⟩
  have hk : ((List.range cw.length).filter (fun i => decide (cw.getD i 0 ≠ 0))).getD a 0
      = ((List.range cw.length).filter (fun i => decide (cw.getD i 0 ≠ 0)))[a] := by
    rw [List.getD_eq_getElem?_getD, List.getElem?_eq_getElem ha, Option.getD_some]
  rw [hk, List.getD_eq_getElem?_getD, List.getElem?_map, List.getElem?_eq_getElem ha]
  rfl

/-! ## the side conditions hold for what `dataHpf` passes to `filterData` -/

/-- **every side condition of `C14.model_trend_is_the_minimiser`, for every request** -/
theorem setup_side_conditions (r : Request) :
    (setup r).ld.length = (setup r).lw.length ∧
    (setup r).cd.length = (setup r).cw.length ∧
    (∀ a, a < (setup r).lw.length → (setup r).lw.getD a 0 < (setup r).n) ∧
    (∀ a, a < (setup r).cw.length → (setup r).cw.getD a 0 < (setup r).n) ∧
    (∀ a, a < (setup r).cw.length → 0 < (setup r).cw.getD a 0) ∧
    (∀ col, ((Ser.mk r.dstart col).fromUntil (setup r).lo (setup r).hi).size = (setup r).n) := by
  unfold setup
  simp only
  refine ⟨prepareConstraints_len _ _ _, removeFirstDateChange_len _ _, prepareConstraints_lt _ _ _, ?_, ?_,
    fun col => fromUntil_size _ _ _⟩
  · intro a ha
    obtain ⟨i, hi, he, _⟩ := removeFirstDateChange_getD _ _ a ha
    rw [he]
    exact prepareConstraints_lt _ _ _ i hi
  · intro a ha
    obtain ⟨i, _, he, hne⟩ := removeFirstDateChange_getD _ _ a ha
    rw [he]
    exact Nat.pos_of_ne_zero hne

/-- every variant of a successful `dataHpf` run went through a successful `filterData` -/
theorem mapM_some_all {α β : Type} (f : α → Option β) (l : List α) (r : List β) (h : l.mapM f = some r) :
    ∀ x ∈ l, ∃ y, f x = some y ∧ y ∈ r := by
  induction l generalizing r with
  | nil => intro x hx; cases hx
  | cons a l ih =>
    rw [List.mapM_cons] at h
    simp only [bind, Option.bind, pure] at h
    split at h
    · cases h
    · rename_i b hb
      simp only at h
      split at h
      · cases h
      · rename_i bs hbs
        cases h
        intro x hx
        rcases List.mem_cons.1 hx with hx | hx
        · exact ⟨b, by rw [hx]; exact hb, List.mem_cons_self⟩
        · obtain ⟨y, hy, hm⟩ := ih bs hbs x hx
          exact ⟨y, hy, List.mem_cons_of_mem _ hm⟩

theorem dataHpf_variants (lg ex : Rat → Rat) (r : Request) (res : Result) (h : dataHpf lg ex r = some res)
    (col : Array (Option Rat)) (hcol : col ∈ r.dcols) :
    ∃ f, filterData lg ex (setup r).n r.lam (setup r).lw (setup r).cw (setup r).ld (setup r).cd
      ((Ser.mk r.dstart col).fromUntil (setup r).lo (setup r).hi) = some f := by
  unfold dataHpf at h
  simp only at h
  split at h
  · cases h
  · rename_i fs hfs
    obtain ⟨f, hf, _⟩ := mapM_some_all _ _ _ hfs col hcol
    exact ⟨f, hf⟩

/-- **`model_trend_is_the_minimiser` with its side conditions discharged**: for every request with `λ > 0`, the
(unclipped) trend the model computes for a variant meets every level and change constraint of the request exactly and
minimises the Hodrick-Prescott objective among all sequences meeting them (uniquely, given two observations). -/
theorem dataHpf_trend_is_the_minimiser (r : Request) (hlam : 0 < r.lam) (col : Array (Option Rat)) (f : Filtered)
    (h : filterData id id (setup r).n r.lam (setup r).lw (setup r).cw (setup r).ld (setup r).cd
      ((Ser.mk r.dstart col).fromUntil (setup r).lo (setup r).hi) = some f) :
    let s := setup r
    let y := (Ser.mk r.dstart col).fromUntil s.lo s.hi
    let hl := (setup_side_conditions r).2.2.1
    let hc := (setup_side_conditions r).2.2.2.1
    let τ : Fin s.n → ℚ := fun t => f.trend.getD t.val 0
    let obs := obsOf s.n y
    let yv : Fin s.n → ℚ := fun t => (y.getD t.val none).getD 0
    let feasible : (Fin s.n → ℚ) → Prop := fun σ =>
      (∀ a : Fin s.lw.length, σ (posF s.n s.lw hl a) = s.ld.getD a.val 0) ∧
      (∀ a : Fin s.cw.length, σ (posF s.n s.cw hc a) - σ (pred (posF s.n s.cw hc a)) = s.cd.getD a.val 0)
    feasible τ ∧ (∀ σ, feasible σ → C14.hpObj obs yv r.lam τ ≤ C14.hpObj obs yv r.lam σ) ∧
      (∀ s' t : Fin s.n, s' ≠ t → obs s' = true → obs t = true →
        ∀ σ, feasible σ → C14.hpObj obs yv r.lam σ ≤ C14.hpObj obs yv r.lam τ → σ = τ) := by
  obtain ⟨h1, h2, h3, h4, h5, h6⟩ := setup_side_conditions r
  exact C14.model_trend_is_the_minimiser (setup r).n r.lam hlam (setup r).lw (setup r).cw (setup r).ld (setup r).cd
    _ (h6 col) h1 h2 h3 h4 h5 f h

/-- … for every variant of every successful run of `dataHpf` (the function the driver runs against irispie) -/
theorem dataHpf_every_variant (r : Request) (res : Result) (h : dataHpf id id r = some res)
    (col : Array (Option Rat)) (hcol : col ∈ r.dcols) :
    ∃ f, filterData id id (setup r).n r.lam (setup r).lw (setup r).cw (setup r).ld (setup r).cd
      ((Ser.mk r.dstart col).fromUntil (setup r).lo (setup r).hi) = some f :=
  dataHpf_variants id id r res h col hcol

/-- non-vacuity: a request with a missing observation, a level and a change constraint runs through `dataHpf`
(kernel evaluation), so `dataHpf_every_variant` and `dataHpf_trend_is_the_minimiser` apply to it -/
example : (dataHpf id id ⟨1, 0, 4, [#[some 0, some 1, none, some 9]], some ⟨3, #[some 7]⟩, some ⟨1, #[some 2]⟩,
    none⟩).isSome = true := by decide +kernel

end IrisVerif.BridgeC14
