/-
Line-protocol driver for the date conversion model (property C11).
Requests whose argument is a raw string use `|` after the op word:  `unsdmx|2020-Q1`.
-/
import IrisVerif.Model.DateFormats
import IrisVerif.Driver.Util

open IrisVerif.Dates IrisVerif.Driver

namespace IrisVerif.Driver.C11

def showErr : Err → String
  | .mixedFreq => "err:mixed"
  | .badInput => "err:bad"
  | .noPeriod => "none"

def showR {α} (f : α → String) : R α → String
  | .ok a => f a
  | .error e => showErr e

def showPeriod (p : Period) : String := p.freq.letter ++ ":" ++ toString p.serial
def showStr (s : Str) : String := String.ofList s

def stepRaw (op : String) (raw : String) : String :=
  match words op with
  | ["unsdmx"] => showR showPeriod (fromSdmx raw.toList)
  | ["unsdmxas", f] => match Freq.ofLetter? f with
    | some f => showR showPeriod (fromSdmxAs f raw.toList)
    | none => "bad-op"
  | ["pfs", f] =>   -- periods_from_sdmx_strings: strings separated by `,`; f = `-` for frequency=None
    let strs := if raw = "" then [] else (raw.splitOn ",").map (·.toList)
    let f? : Option (Option Freq) := if f = "-" then some none else (Freq.ofLetter? f).map some
    (match f? with
      | some f? => showR (fun l => "[" ++ ",".intercalate (l.map showPeriod) ++ "]") (periodsFromSdmx f? strs)
      | none => "bad-op")
  | ["detect"] => showR (fun o => match o with | some f => f.letter | none => "no-class") (detectFreq raw.toList)
  | ["uniso", f] => match Freq.ofLetter? f with
    | some f => showR showPeriod (fromIso f raw.toList)
    | none => "bad-op"
  | _ => "bad-op"

def step (line : String) : String :=
  match line.splitOn "|" with
  | [l] =>
    (match words l with
    | ["sdmx", f, n] => match Freq.ofLetter? f, n.toInt? with
      | some f, some n => showR showStr (toSdmx ⟨f, n⟩)
      | _, _ => "bad-op"
    | ["iso", f, n, pos] => match Freq.ofLetter? f, n.toInt?, Pos.ofString? pos with
      | some f, some n, some pos => showR showStr (toIso ⟨f, n⟩ pos)
      | _, _, _ => "bad-op"
    | ["repr", f, n] => match Freq.ofLetter? f, n.toInt? with
      | some f, some n => showR (fun (c, args) => c ++ "(" ++ ",".intercalate (args.map toString) ++ ")") (toRepr ⟨f, n⟩)
      | _, _ => "bad-op"
    | ["rt", f, n] => match Freq.ofLetter? f, n.toInt? with   -- every round trip of one period, in one reply
      | some f, some n =>
        let p : Period := ⟨f, n⟩
        let viaSdmx := (toSdmx p).bind fromSdmx
        let viaRepr := (toRepr p).bind fromRepr
        let viaYmd := fun pos => (toYmd p pos).bind (fun (y, m, d) => fromYmd f y m d)
        let viaIso := fun pos => (toIso p pos).bind (fromIso f)
        " ".intercalate ([showR showPeriod viaSdmx, showR showPeriod viaRepr] ++
          [Pos.start, Pos.middle, Pos.end_].map (fun pos => showR showPeriod (viaYmd pos)) ++
          [Pos.start, Pos.middle, Pos.end_].map (fun pos => showR showPeriod (viaIso pos)))
      | _, _ => "bad-op"
    | ["refreq", f, n, f', pos] => match Freq.ofLetter? f, n.toInt?, Freq.ofLetter? f', Pos.ofString? pos with
      | some f, some n, some f', some pos => showR showPeriod (refrequent ⟨f, n⟩ f' pos)
      | _, _, _, _ => "bad-op"
    | ["toymd", f, n, pos] => match Freq.ofLetter? f, n.toInt?, Pos.ofString? pos with
      | some f, some n, some pos => showR (fun (y, m, d) => s!"{y} {m} {d}") (toYmd ⟨f, n⟩ pos)
      | _, _, _ => "bad-op"
    | ["fromymd", f, y, m, d] => match Freq.ofLetter? f, parseInts? [y, m, d] with
      | some f, some [y, m, d] => showR showPeriod (fromYmd f y m d)
      | _, _ => "bad-op"
    | _ => "bad-op")
  | op :: rest => stepRaw op ("|".intercalate rest)
  | [] => "bad-op"

end IrisVerif.Driver.C11

def main : IO Unit := IrisVerif.Driver.runMain IrisVerif.Driver.C11.step
