"""
py2lean plugin: STATEMENT-LEVEL translation of the small methods of src/irispie/dates.py
(tie "T" for C09/C11/C12/C13; output lean/IrisVerif/Generated/DatesStmtGen.lean, namespace IrisVerif.Gen.DatesStmt).

Every target method body is translated mechanically, statement by statement, into a Lean definition over the types
of the hand-written model (Model/Dates.lean, Model/Spans.lean).  Props/GenTieC09.lean then proves, for ALL inputs,
`model function = generated definition`; a semantic edit of one of these methods changes the generated definition
and breaks that proof on the next run.

Supported subset (anything else raises Untranslatable -- never a guess):
  * straight-line assignments (plain, annotated, augmented `+=`/`-=`, tuple unpacking incl. a trailing `*_`,
    attribute stores `self._x = ...` in constructors / in-place mutators),
  * `return e`, `return` / falling off the end (None), `raise <known exception>(...)`,
  * `if / elif / else` (returning, assigning, or acting branches), conditional expressions `a if c else b`,
    the flow-typed tests `x is None` / `x is not None` on optional values,
  * `match <name>: case "kw" | "kw2": ... case _: ...` on a keyword-or-integer argument,
  * `try: <body> except: raise ...` (bare except that re-raises),
  * integer arithmetic `+ - * // %`, unary minus, comparisons, `and/or/not`, truthiness of period-likes and lists,
  * calls / attributes / subscripts / operators on model values, ONLY through the NAME TABLE below,
  * `tuple(f(x) for x in xs)` over a list, `f(*t)` with `t` a tuple of known arity, `*args, **kwargs` pass-through
    when the target declares what they stand for.

The NAME TABLE (TYPES, ATTRS, METHODS, FUNCS, BINOPS, MODULE_NAMES, CLASSES, EXCEPTIONS, KEYWORDS, PRELUDE below) is
the trusted part of this tie: it says which function of the hand-written model stands for which Python callee.
It is copied into the header of the generated file.
"""
from __future__ import annotations
import ast

from py2lean import Source, Untranslatable, HEADER, strip_doc

DATES_PY = "src/irispie/dates.py"

# =====================================================================================================================
# NAME TABLE (trusted)
# =====================================================================================================================

# --- abstract Python-side types and the Lean types they are carried by
TYPES = {
    "Int": "Int", "Bool": "Bool", "Unit": "Unit",
    "Period": "Period",          # instance of a concrete Period class: (frequency, serial)
    "Endpoint": "Endpoint",      # Period (Endpoint.res p) or ContextualPeriod (Endpoint.ctx fromEnd offset)
    "Span": "Span", "Ctx": "Ctx",
    "Pos": "Pos",                # "start" | "middle" | "end"  (PositionType)
    "Class": "Freq",             # a Period class object, named by its frequency
    "Freq": "Freq",              # a Frequency member that has a period class
    "Date": "(Int × Int × Int)",  # datetime.date as (year, month, day)
    "Opaque": "Unit",            # a value the model does not represent (weekday of calendar.monthrange)
    "ShiftBy": "ShiftBy",        # the `by` argument of Period.shift: keyword or integer
    "PowResult": "PowResult",    # Period | Span | EmptySpan, result of `period ** n`
    "Str": "Str",                # a Python str as a list of characters (Model/DateFormats.lean)
}

# --- string literals that are keywords of the model
KEYWORDS = {
    "Pos": {"start": "Pos.start", "middle": "Pos.middle", "end": "Pos.end_"},
    "ShiftBy": {"yoy": "ShiftBy.yoy", "boy": "ShiftBy.soy", "soy": "ShiftBy.soy", "eopy": "ShiftBy.eopy", "tty": "ShiftBy.tty"},
}
SHIFTBY_INT = "ShiftBy.by_"      # `case _:` of Period.shift binds the integer payload

# --- attribute reads: (type, attribute) -> (lean template, type)
ATTRS = {
    ("Period", "serial"): ("{x}.serial", "Int"),
    ("Period", "frequency"): ("{x}.freq", "Freq"),
    ("Period", "needs_resolve"): ("false", "Bool"),
    ("Class", "frequency"): ("{x}", "Freq"),
    ("Freq", "value"): ("{x}.value", "Int"),
    ("Endpoint", "needs_resolve"): ("{x}.needsResolve", "Bool"),
    ("Span", "_start"): ("{x}.start", "Endpoint"),
    ("Span", "_end"): ("{x}.stop", "Endpoint"),
    ("Span", "_step"): ("{x}.step", "Int"),
    ("Span", "needs_resolve"): ("{x}.needsResolve", "Bool"),
    ("Date", "year"): ("{x}.1", "Int"),
    ("Date", "month"): ("{x}.2.1", "Int"),
    ("Date", "day"): ("{x}.2.2", "Int"),
}
SPAN_FIELDS = ("_start", "_end", "_step")          # Span record = ⟨_start, _end, _step⟩ (Model/Spans.lean: start, stop, step)

# --- methods: (receiver type, name) -> (parameters [(name, type, default lean term or None)], result type, monadic?, template)
#     "Seg" = a segment number, or the literal "end" which RegularPeriodMixin.from_year_segment replaces by
#     klass.frequency.value (that line of from_year_segment is checked structurally, see check_structure).
#     monadic = the model function returns `R τ = Except Err τ`.
METHODS = {
    ("Period", "to_year_segment"): ([], ("Tuple", ("Int", "Int")), True, "toYearSegment {self}"),
    ("Period", "to_ymd"): ([("position", "Pos", "Pos.start")], ("Tuple", ("Int", "Int", "Int")), True, "toYmd {self} {0}"),
    ("Period", "get_year"): ([], "Int", True, "Period.year {self}"),
    ("Period", "from_year_segment"): ([("year", "Int", None), ("per", "Seg", "1")], "Period", False, "(fromYearSegment {self}.freq {0} {1})"),
    ("Period", "create_soy"): ([], "Period", True, "createSoy {self}"),
    ("Period", "create_eoy"): ([], "Period", True, "createEoy {self}"),
    ("Period", "create_eopy"): ([], "Period", True, "createEopy {self}"),
    ("Period", "create_tty"): ([], "Period", True, "createTty {self}"),
    ("Period", "create_som"): ([], "Period", True, "GEN:DailyPeriod_create_som {self}"),   # no hand-written model: the generated definition
    ("Period", "refrequent"): ([("new_freq", "Class", None), ("position", "Pos", "Pos.start")], "Period", True, "refrequent {self} {0} {1}"),
    ("Period", "to_daily"): ([("position", "Pos", "Pos.start")], "Period", True, "toDaily {self} {0}"),
    ("Endpoint", "resolve"): ([("context", "Ctx", None)], "Endpoint", False, "(Endpoint.resolve {0} {self})"),
    ("Class", "from_ymd"): ([("year", "Int", None), ("month", "Int", "1"), ("day", "Int", "1")], "Period", True, "fromYmd {self} {0} {1} {2}"),
    ("Class", "from_year_segment"): ([("year", "Int", None), ("per", "Seg", "1")], "Period", False, "(fromYearSegment {self} {0} {1})"),
    ("Class", "month_to_segment"): ([("month", "Int", None)], "Int", False, "(monthToSegment {self} {0})"),
    ("Class", "from_sdmx_string"): ([("sdmx_string", "Str", None)], "Period", True, "fromSdmxAs {self} {0}"),
    ("Class", "__call__"): ([("serial", "Int", None)], "Period", False, "(Period.mk {self} {0})"),
}

# --- free functions / constructors: dotted callee -> list of overloads (parameters, result, monadic?, template); first fit wins
FUNCS = {
    "Span": [([("from_per", ("Opt", "Endpoint"), "none"), ("until_per", ("Opt", "Endpoint"), "none"), ("step", "Int", "1")], "Span", True, "Span.make {0} {1} {2}")],
    "EmptySpan": [([], "PowResult", False, "PowResult.empty")],
    "_check_periods": [
        ([("first", "Period", None), ("second", "Period", None)], "Unit", True, "checkPeriods {0} {1}"),
        ([("first", ("Opt", "Endpoint"), None), ("second", ("Opt", "Endpoint"), None)], "Unit", True, "checkPeriodsOE {0} {1}"),
    ],
    "_is_period": [([("x", "Int", None)], "Bool", False, "false"), ([("x", "Period", None)], "Bool", False, "true")],
    "_sign": [([("x", "Int", None)], "Int", False, "(sign {0})")],
    "int": [([("x", "Int", None)], "Int", False, "{0}")],
    "range": [([("a", "Int", None), ("b", "Int", None), ("c", "Int", None)], ("List", "Int"), True, "pyRangeR {0} {1} {2}")],
    "_dt.date.fromordinal": [([("n", "Int", None)], "Date", False, "(ord2ymd {0})")],
    "_ca.monthrange": [([("y", "Int", None), ("m", "Int", None)], ("Tuple", ("Opaque", "Int")), False, "((), daysInMonth {0} {1})")],
    # `_dt.date(y, m, d).toordinal()` is matched as a whole (datetime's ValueError for an impossible date or a year outside
    # 1..9999 is not represented: every (month, day) the targets pass is valid by construction)
    "_dt.date(...).toordinal": [([("y", "Int", None), ("m", "Int", None), ("d", "Int", None)], "Int", False, "(ymd2ord {0} {1} {2})")],
    # Frequency.from_sdmx_string: `none` = a frequency without a period class (weekly)
    "Frequency.from_sdmx_string": [([("sdmx_string", "Str", None)], ("Opt", "Freq"), True, "detectFreq {0}")],
    "daily_serial_from_ymd": [([("y", "Int", None), ("m", "Int", None), ("d", "Int", None)], "Int", True, "dailySerialFromYmd {0} {1} {2}")],
}

# --- binary operators on model values: (left type, operator, right type) -> (result type, monadic?, template)
BINOPS = {
    ("Period", "Add", "Int"): ("Period", False, "({a}.add {b})"),              # Period.__add__
    ("Period", "Sub", "Int"): ("Period", False, "({a}.add (-{b}))"),           # Period.__sub__ -> __add__(-int(other))
    ("Period", "Sub", "Period"): ("Int", True, "Period.subPeriod {a} {b}"),    # Period._sub_period (checked frequencies)
    ("Endpoint", "Add", "Int"): ("Endpoint", False, "({a}.add {b})"),          # Period.__add__ / ContextualPeriod.__add__
    ("Endpoint", "Sub", "Int"): ("Endpoint", False, "({a}.add (-{b}))"),
    ("Endpoint", "RShift", ("Opt", "Endpoint")): ("Span", True, "Span.rshift (some {a}) {b}"),   # _SpannableMixin.__rshift__
    ("Endpoint", "LShift", ("Opt", "Endpoint")): ("Span", True, "Span.lshift (some {a}) {b}"),   # _SpannableMixin.__lshift__
}

# --- module-level names (checked structurally: `start = ContextualPeriod("start_date")`, `end = ContextualPeriod("end_date")`)
MODULE_NAMES = {
    "start": ("(Endpoint.ctx false 0)", "Endpoint", ("ContextualPeriod", "start_date")),
    "end": ("(Endpoint.ctx true 0)", "Endpoint", ("ContextualPeriod", "end_date")),
}

# --- period classes as class objects (checked: class body has `frequency = Frequency.<X>`, and
#     PERIOD_CLASS_FROM_FREQUENCY_RESOLUTION[Frequency.<X>] is that class)
CLASSES = {
    "IntegerPeriod": ("Freq.I", "INTEGER"), "YearlyPeriod": ("Freq.Y", "YEARLY"), "HalfyearlyPeriod": ("Freq.H", "HALFYEARLY"),
    "QuarterlyPeriod": ("Freq.Q", "QUARTERLY"), "MonthlyPeriod": ("Freq.M", "MONTHLY"), "DailyPeriod": ("Freq.D", "DAILY"),
}

# --- exceptions -> the model's error enum (Err.mixedFreq is the model's name for IrisPieError of _check_periods;
#     Err.noPeriod is the model's name for "the method returns None")
EXCEPTIONS = {
    "ValueError": "Err.badInput", "IrisPieCritical": "Err.badInput", "_wrongdoings.IrisPieCritical": "Err.badInput",
    "_wrongdoings.IrisPieError": "Err.mixedFreq",
}
NONE_RESULT = "Err.noPeriod"

# --- fixed Lean text at the top of the generated file: helper functions the templates above refer to
PRELUDE = '''\
/-- `self._MONTH_DAY_RESOLUTION[position][per]` on the generated tables (KeyError -> badInput). -/
def mdrGet (f : Freq) (pos : Pos) (seg : Int) : R (Int × Option Int) :=
  match lookupSeg (mdrTable f pos) seg with
  | some v => pure v
  | none => throw Err.badInput

/-- `range(a, b, c)` as a list (ValueError for a zero step). -/
def pyRangeR (a b c : Int) : R (List Int) :=
  if c = 0 then throw Err.badInput else pure (pyRange a b c)

/-- `str(type(x))` of `None`, a contextual period, or a period of a concrete class. -/
inductive TypeTag where
  | none | contextual | period (f : Freq)
  deriving DecidableEq, Repr

def typeTag : Option Endpoint → TypeTag
  | Option.none => TypeTag.none
  | some (Endpoint.ctx _ _) => TypeTag.contextual
  | some (Endpoint.res p) => TypeTag.period p.freq

/-- `_check_periods(first, second)` on period-likes or `None`: the two `str(type(.))` must be equal. -/
def checkPeriodsOE (a b : Option Endpoint) : R Unit :=
  if typeTag a = typeTag b then pure () else throw Err.mixedFreq

/-- `daily_serial_from_ymd(y, m, d)` as the model has it inside `fromYmd .D` (datetime rejects impossible dates). -/
def dailySerialFromYmd (y m d : Int) : R Int :=
  if ValidYmd y m d then pure (ymd2ord y m d) else throw Err.badInput

/-- `xs[0]` (IndexError -> badInput) -/
def listHead {α : Type} : List α → R α
  | [] => throw Err.badInput
  | x :: _ => pure x

/-- catch-all handler of `try: ... except: raise E` -/
def reraise {α : Type} (x : R α) (e : Err) : R α :=
  match x with
  | Except.ok a => Except.ok a
  | Except.error _ => Except.error e
'''

# identifiers used by the templates / Lean keywords: a Python local with such a name gets a trailing underscore
RESERVED = {
    "end", "by", "from", "at", "do", "then", "else", "if", "in", "let", "fun", "match", "with", "type", "Type", "open", "def",
    "theorem", "section", "namespace", "instance", "class", "structure", "where", "have", "show", "this", "some", "none", "pure",
    "throw", "true", "false", "sign", "pyRange", "pyRangeR", "mdrGet", "checkPeriods", "checkPeriodsOE", "typeTag", "refrequent",
    "toDaily", "toYmd", "fromYmd", "toYearSegment", "fromYearSegment", "ymd2ord", "ord2ymd", "daysInMonth", "createSoy", "createEoy",
    "createEopy", "createTty", "reraise", "listHead", "detectFreq", "fromSdmxAs", "needSome", "Str", "dailySerialFromYmd", "mdrTable", "lookupSeg", "Period", "Span", "Endpoint", "Freq", "Pos",
    "Err", "R", "Int", "Bool", "Unit", "List", "Option", "Ctx", "ShiftBy", "PowResult", "TypeTag", "decide", "not", "and", "or",
}


# =====================================================================================================================
# Types
# =====================================================================================================================

def lty(t) -> str:
    if isinstance(t, str):
        if t not in TYPES:
            raise Untranslatable(f"no Lean type for {t}")
        return TYPES[t]
    if t[0] == "Opt":
        return f"(Option {lty(t[1])})"
    if t[0] == "List":
        return f"(List {lty(t[1])})"
    if t[0] == "Tuple":
        return "(" + " × ".join(lty(x) for x in t[1]) + ")"
    raise Untranslatable(f"no Lean type for {t}")


def show_ty(t) -> str:
    if isinstance(t, str):
        return t
    if t[0] == "Tuple":
        return "(" + ", ".join(show_ty(x) for x in t[1]) + ")"
    return f"{t[0]}[{show_ty(t[1])}]"


def coerce(term: str, t, want, where: str) -> str:
    """the Lean term of type `want` that stands for the same Python value (injections only), or Untranslatable"""
    if t == want:
        return term
    if want == "Endpoint" and t == "Period":
        return f"(Endpoint.res {term})"
    if isinstance(want, tuple) and want[0] == "Opt":
        if t == "NoneT":
            return "none"
        if isinstance(t, tuple) and t[0] == "Opt":
            raise Untranslatable(f"{where}: {show_ty(t)} where {show_ty(want)} is expected")
        return f"(some {coerce(term, t, want[1], where)})"
    if want == "PowResult":
        if t == "Period":
            return f"(PowResult.period {term})"
        if t == "Span":
            return f"(PowResult.span {term})"
    if want == ("Tuple", ("Int", "Int", "Int")) and t == "Date":
        return term
    if want == "ShiftBy" and t == "Int":
        return f"({SHIFTBY_INT} {term})"
    if want == "Class" and t == "Freq":
        return term
    if want == "Freq" and t == "Class":
        return term
    raise Untranslatable(f"{where}: a value of type {show_ty(t)} where {show_ty(want)} is expected")


def fits(t, want) -> bool:
    try:
        coerce("x", t, want, "")
        return True
    except Untranslatable:
        return False


# =====================================================================================================================
# Blocks (output structure) and rendering
# =====================================================================================================================

class Block:
    """stmts: ("let", pat, term) | ("bind", pat, mterm) | ("act", mterm) | ("letblk", pat, node) | ("bindblk", pat, node)
              | ("ifact", cond, Block, Block|None)
       tail:  ("pure", term) | ("tail", mterm) | ("throw", err) | node
       node:  ("if", cond, Block, Block) | ("match", scrutinee, [(pattern, Block)])"""
    def __init__(self):
        self.stmts: list = []
        self.tail = None


def _node_lines(node, ind: int, mon: bool) -> list[str]:
    """an if / match whose branches are blocks; in monadic mode every branch is an explicit `do` block"""
    pad = " " * ind
    do = " do" if mon else ""
    if node[0] == "if":
        _, cond, b1, b2 = node
        return [f"{pad}if {cond} then{do}"] + render(b1, ind + 2, mon) + [f"{pad}else{do}"] + render(b2, ind + 2, mon)
    if node[0] == "match":
        _, scrut, arms = node
        out = [f"{pad}match {scrut} with"]
        for pat, b in arms:
            out.append(f"{pad}| {pat} =>{do}")
            out += render(b, ind + 4, mon)
        return out
    raise AssertionError(node[0])


def render(b: Block, ind: int, mon: bool) -> list[str]:
    """lines of a do-sequence (mon; the caller has written the `do`) or of a term (not mon)"""
    pad = " " * ind
    out = []
    for s in b.stmts:
        k = s[0]
        if k == "let":
            out.append(f"{pad}let {s[1]} := {s[2]}")
        elif k == "bind":
            if not mon: raise Untranslatable("monadic binding in a pure definition")
            out.append(f"{pad}let {s[1]} ← {s[2]}")
        elif k == "act":
            if not mon: raise Untranslatable("monadic action in a pure definition")
            out.append(f"{pad}{s[1]}")
        elif k == "letblk":
            out.append(f"{pad}let {s[1]} :=")
            out += _node_lines(s[2], ind + 2, False)
        elif k == "bindblk":
            if not mon: raise Untranslatable("monadic binding in a pure definition")
            out.append(f"{pad}let {s[1]} ←")
            out += _node_lines(s[2], ind + 2, True)
        elif k == "ifact":
            if not mon: raise Untranslatable("monadic action in a pure definition")
            out.append(f"{pad}if {s[1]} then do")
            out += render(s[2], ind + 2, True)
            if s[3] is not None:
                out.append(f"{pad}else do")
                out += render(s[3], ind + 2, True)
        else:
            raise AssertionError(k)
    t = b.tail
    if t[0] == "pure":
        out.append(f"{pad}pure {t[1]}" if mon else f"{pad}{t[1]}")
    elif t[0] == "tail":
        if not mon: raise Untranslatable("monadic call in a pure definition")
        out.append(f"{pad}{t[1]}")
    elif t[0] == "throw":
        if not mon: raise Untranslatable("raise in a pure definition")
        out.append(f"{pad}throw {t[1]}")
    else:
        out += _node_lines(t, ind, mon)
    return out


# =====================================================================================================================
# The translator
# =====================================================================================================================

class Target:
    def __init__(self, qual, lean, params, ret, monadic=True, self_type=None, kind="function", varargs=None,
                 none_is_error=False, doc=""):
        self.qual, self.lean, self.params, self.ret, self.monadic = qual, lean, params, ret, monadic
        self.self_type, self.kind, self.varargs, self.none_is_error, self.doc = self_type, kind, varargs, none_is_error, doc


class FnTr:
    def __init__(self, src: Source, tgt: Target, generated: set[str]):
        self.src, self.tgt, self.generated = src, tgt, generated
        self.where = ".".join(tgt.qual)
        self.fn = src.find(*tgt.qual)
        if not isinstance(self.fn, ast.FunctionDef):
            raise Untranslatable(f"{self.where}: not a function definition")
        self.ntmp = 0
        self.used_names: set[str] = set()
        self.self_py = None
        self.attr_state: dict[str, tuple[str, object]] = {}      # constructor / mutator: attribute -> (lean term, type)
        self.locals_assigned = {n.id for n in ast.walk(self.fn) if isinstance(n, ast.Name) and isinstance(n.ctx, ast.Store)}
        self.vararg_names: set[str] = set()

    # ----------------------------------------------------------------------------------------------- helpers
    def fail(self, msg, node=None):
        at = f" (line {node.lineno})" if node is not None and hasattr(node, "lineno") else ""
        raise Untranslatable(f"{self.where}{at}: {msg}")

    def lean_name(self, py: str) -> str:
        if py == "_":
            return "_"
        n = py
        while n in RESERVED or n.startswith("__tmp"):
            n = n + "_"
        return n

    def tmp(self) -> str:
        self.ntmp += 1
        return f"t{self.ntmp}"

    def dotted(self, node) -> str | None:
        if isinstance(node, ast.Name):
            return node.id
        if isinstance(node, ast.Attribute):
            b = self.dotted(node.value)
            return None if b is None else b + "." + node.attr
        return None

    # ----------------------------------------------------------------------------------------------- signature
    def signature(self):
        a = self.fn.args
        names = [x.arg for x in a.posonlyargs + a.args]
        env: dict[str, tuple[str, object]] = {}
        binders = []
        t = self.tgt
        if t.self_type is not None:
            if not names:
                self.fail("no receiver argument")
            self.self_py = names[0]
            names = names[1:]
            if t.kind != "ctor":
                env[self.self_py] = (self.lean_name(self.self_py), t.self_type)
                binders.append(f"({self.lean_name(self.self_py)} : {lty(t.self_type)})")
        if a.kwonlyargs:
            self.fail("keyword-only arguments")
        # default values of the translated parameters: emitted as separate constants (the name table's call defaults and the
        # harness rely on them; GenTieC09.defaults states what they are)
        self.defaults: list[tuple[str, object, str]] = []
        allargs = a.posonlyargs + a.args
        for arg, dflt in zip(allargs[len(allargs) - len(a.defaults):], a.defaults):
            k = [x.arg for x in allargs].index(arg.arg) - (1 if t.self_type is not None else 0)
            if k < 0 or k >= len(t.params):
                self.fail(f"default value for `{arg.arg}`")
            ty = t.params[k]
            pre: list = []
            term, tt = self.expr(dflt, {}, pre, ty)
            if pre:
                self.fail(f"default value of `{arg.arg}` is not a constant")
            self.defaults.append((arg.arg, ty, coerce(term, tt, ty, self.where)))
        if t.varargs is None:
            if a.vararg or a.kwarg:
                self.fail("*args/**kwargs not declared for this target")
            if len(names) != len(t.params):
                self.fail(f"expected {len(t.params)} parameters, found {names}")
            for py, ty in zip(names, t.params):
                env[py] = (self.lean_name(py), ty)
                binders.append(f"({self.lean_name(py)} : {lty(ty)})")
        else:
            # fixed parameters first, then `*args, **kwargs` standing for ONE declared model argument
            nfix = len(t.params)
            if len(names) != nfix:
                self.fail(f"expected {nfix} fixed parameters, found {names}")
            for py, ty in zip(names, t.params):
                env[py] = (self.lean_name(py), ty)
                binders.append(f"({self.lean_name(py)} : {lty(ty)})")
            vname, vty, mode = t.varargs
            if mode == "both" and not (a.vararg and a.kwarg):
                self.fail("expected *args and **kwargs")
            if mode == "kw" and not (a.kwarg and not a.vararg):
                self.fail("expected **kwargs only")
            self.vararg_names = {x.arg for x in (a.vararg, a.kwarg) if x}
            self.varargs_val = (vname, vty)
            if mode != "ignored":
                binders.append(f"({vname} : {lty(vty)})")
        return env, binders

    # ----------------------------------------------------------------------------------------------- expressions
    def const(self, node, want=None):
        v = node.value
        if v is None:
            return "none", "NoneT"
        if isinstance(v, bool):
            return ("true" if v else "false"), "Bool"
        if isinstance(v, int):
            return (f"({v})" if v < 0 else str(v)), "Int"
        if isinstance(v, str):
            if want in KEYWORDS and v in KEYWORDS[want]:
                return KEYWORDS[want][v], want
            self.fail(f"string constant {v!r} where {show_ty(want) if want else 'a value'} is expected", node)
        self.fail(f"constant {v!r}", node)

    def expr(self, node, env, pre: list, want=None):
        """pure Lean term and type; monadic sub-calls are bound in `pre` (in Python's evaluation order)"""
        term, ty, mon = self.expr_m(node, env, pre, want)
        if mon:
            v = self.tmp()
            pre.append(("bind", v, term))
            return v, ty
        return term, ty

    def expr_as(self, node, env, pre, want):
        if want == "Seg":
            if isinstance(node, ast.Constant) and node.value == "end":
                return None   # caller substitutes the receiver's frequency value
            want = "Int"
        term, ty = self.expr(node, env, pre, want)
        return coerce(term, ty, want, self.where)

    def truth(self, node, env, pre) -> str:
        """a Lean Bool/Prop term for the truth value of a Python expression in test position"""
        if isinstance(node, ast.UnaryOp) and isinstance(node.op, ast.Not):
            return f"(!{self.truth_bool(node.operand, env, pre)})"
        if isinstance(node, ast.Compare) and len(node.ops) == 1 and isinstance(node.ops[0], (ast.Gt, ast.Lt, ast.GtE, ast.LtE)):
            a, ta = self.expr(node.left, env, pre)
            b, tb = self.expr(node.comparators[0], env, pre)
            if ta != "Int" or tb != "Int":
                self.fail("order comparison of non-integers", node)
            op = {ast.Gt: ">", ast.Lt: "<", ast.GtE: "≥", ast.LtE: "≤"}[type(node.ops[0])]
            return f"{a} {op} {b}"
        return self.truth_bool(node, env, pre)

    def truth_bool(self, node, env, pre) -> str:
        if isinstance(node, ast.BoolOp):
            op = " || " if isinstance(node.op, ast.Or) else " && "
            parts = []
            for v in node.values:
                sub: list = []
                parts.append(self.truth_bool(v, env, sub))
                if sub:
                    self.fail("monadic call under and/or (short-circuit evaluation)", node)
            return "(" + op.join(parts) + ")"
        if isinstance(node, ast.UnaryOp) and isinstance(node.op, ast.Not):
            return f"(!{self.truth_bool(node.operand, env, pre)})"
        if isinstance(node, ast.Compare):
            if len(node.ops) != 1:
                self.fail("chained comparison", node)
            op, rhs = node.ops[0], node.comparators[0]
            if isinstance(op, (ast.Is, ast.IsNot)):
                if not (isinstance(rhs, ast.Constant) and rhs.value is None):
                    self.fail("`is` with something other than None", node)
                a, ta = self.expr(node.left, env, pre)
                if not (isinstance(ta, tuple) and ta[0] == "Opt"):
                    self.fail(f"`is None` on a value of type {show_ty(ta)}", node)
                return f"{a}.isNone" if isinstance(op, ast.Is) else f"{a}.isSome"
            a, ta = self.expr(node.left, env, pre)
            b, tb = self.expr(rhs, env, pre)
            if ta != "Int" or tb != "Int":
                self.fail(f"comparison of {show_ty(ta)} with {show_ty(tb)}", node)
            if isinstance(op, ast.Eq): return f"({a} == {b})"
            if isinstance(op, ast.NotEq): return f"({a} != {b})"
            sym = {ast.Gt: ">", ast.Lt: "<", ast.GtE: "≥", ast.LtE: "≤"}.get(type(op))
            if sym is None:
                self.fail("comparison operator", node)
            return f"(decide ({a} {sym} {b}))"
        a, ta = self.expr(node, env, pre)
        if ta == "Bool":
            return a
        if ta == "Endpoint":
            return f"(!{a}.needsResolve)"      # Period.__bool__ = not needs_resolve; ContextualPeriod.__bool__ = False
        if ta == "Period":
            return "true"
        if isinstance(ta, tuple) and ta[0] == "List":
            return f"(!{a}.isEmpty)"
        self.fail(f"truth value of {show_ty(ta)}", node)

    def none_test(self, test, env):
        """(`name`, is_none_branch_first) when the test is `name is None` / `name is not None` on an optional local"""
        if (isinstance(test, ast.Compare) and len(test.ops) == 1 and isinstance(test.ops[0], (ast.Is, ast.IsNot))
                and isinstance(test.comparators[0], ast.Constant) and test.comparators[0].value is None
                and isinstance(test.left, ast.Name) and test.left.id in env):
            ty = env[test.left.id][1]
            if isinstance(ty, tuple) and ty[0] == "Opt":
                return test.left.id, isinstance(test.ops[0], ast.Is)
        return None

    def expr_m(self, node, env, pre, want=None):
        """(term, type, monadic)"""
        if isinstance(node, ast.Constant):
            t, ty = self.const(node, want)
            return t, ty, False
        if isinstance(node, ast.Name):
            return self.name(node, env) + (False,)
        if isinstance(node, ast.Attribute):
            return self.attribute(node, env, pre) + (False,)
        if isinstance(node, ast.UnaryOp):
            if isinstance(node.op, ast.USub):
                a, ta = self.expr(node.operand, env, pre)
                if ta != "Int": self.fail("unary minus on a non-integer", node)
                return f"(-{a})", "Int", False
            if isinstance(node.op, ast.Not):
                return self.truth_bool(node, env, pre), "Bool", False
            self.fail("unary operator", node)
        if isinstance(node, (ast.BoolOp, ast.Compare)):
            return self.truth_bool(node, env, pre), "Bool", False
        if isinstance(node, ast.BinOp):
            return self.binop(node, env, pre)
        if isinstance(node, ast.Tuple):
            parts = [self.expr(e, env, pre) for e in node.elts]
            if not parts:
                return "[]", ("List", "Any"), False
            return "(" + ", ".join(p[0] for p in parts) + ")", ("Tuple", tuple(p[1] for p in parts)), False
        if isinstance(node, ast.Subscript):
            return self.subscript(node, env, pre)
        if isinstance(node, ast.IfExp):
            return self.ifexp(node, env, pre, want)
        if isinstance(node, ast.Call):
            return self.call(node, env, pre)
        if isinstance(node, ast.GeneratorExp):
            # a lazy generator is modelled by the list of its values (errors surface when it is consumed)
            return self.genexp(node, env, pre)
        self.fail(f"expression `{ast.unparse(node)[:60]}`", node)

    def name(self, node, env):
        n = node.id
        if n in env:
            return env[n]
        if n in self.locals_assigned or n in self.vararg_names:
            self.fail(f"local `{n}` is read before it is assigned", node)
        if n in MODULE_NAMES:
            return MODULE_NAMES[n][0], MODULE_NAMES[n][1]
        if n in CLASSES:
            return CLASSES[n][0], "Class"
        self.fail(f"free name `{n}` is not in the name table", node)

    def attribute(self, node, env, pre):
        # attribute state of a constructor / mutator
        if isinstance(node.value, ast.Name) and node.value.id == self.self_py and node.attr in self.attr_state:
            return self.attr_state[node.attr]
        if isinstance(node.value, ast.Name) and node.value.id == self.self_py and self.tgt.kind == "ctor":
            self.fail(f"attribute `{node.attr}` is read before it is assigned", node)
        x, tx = self.expr(node.value, env, pre)
        key = (tx, node.attr)
        if key not in ATTRS:
            self.fail(f"attribute `.{node.attr}` of {show_ty(tx)} is not in the name table", node)
        tpl, ty = ATTRS[key]
        return tpl.format(x=x), ty

    def binop(self, node, env, pre):
        a, ta = self.expr(node.left, env, pre)
        b, tb = self.expr(node.right, env, pre)
        opn = type(node.op).__name__
        if ta == "Int" and tb == "Int":
            tpl = {"Add": "({a} + {b})", "Sub": "({a} - {b})", "Mult": "({a} * {b})",
                   "FloorDiv": "(Int.fdiv {a} {b})", "Mod": "(Int.fmod {a} {b})"}.get(opn)
            if tpl is None:
                self.fail(f"integer operator {opn}", node)
            return tpl.format(a=a, b=b), "Int", False
        for (l, o, r), (rt, mon, tpl) in BINOPS.items():
            if o == opn and fits(ta, l) and fits(tb, r):
                return tpl.format(a=coerce(a, ta, l, self.where), b=coerce(b, tb, r, self.where)), rt, mon
        self.fail(f"operator {opn} on {show_ty(ta)} and {show_ty(tb)} is not in the name table", node)

    def subscript(self, node, env, pre):
        # self._MONTH_DAY_RESOLUTION[position][per]
        if (isinstance(node.value, ast.Subscript) and isinstance(node.value.value, ast.Attribute)
                and node.value.value.attr == "_MONTH_DAY_RESOLUTION"):
            recv, tr = self.expr(node.value.value.value, env, pre)
            if tr != "Period":
                self.fail("_MONTH_DAY_RESOLUTION of a non-period", node)
            pos = self.expr_as(node.value.slice, env, pre, "Pos")
            seg = self.expr_as(node.slice, env, pre, "Int")
            return f"mdrGet {recv}.freq {pos} {seg}", ("Tuple", ("Int", ("Opt", "Int"))), True
        if self.dotted(node.value) == "PERIOD_CLASS_FROM_FREQUENCY_RESOLUTION":
            f, tf = self.expr(node.slice, env, pre)
            if tf == ("Opt", "Freq"):
                return f"needSome {f}", "Class", True     # KeyError for a frequency without a period class (or None)
            return coerce(f, tf, "Class", self.where), "Class", False
        # constant index into a tuple
        if isinstance(node.slice, ast.Constant) and isinstance(node.slice.value, int):
            x, tx = self.expr(node.value, env, pre)
            i = node.slice.value
            if tx == "Date":
                tx = ("Tuple", ("Int", "Int", "Int"))
            if isinstance(tx, tuple) and tx[0] == "Tuple" and 0 <= i < len(tx[1]):
                n = len(tx[1])
                proj = ".2" * i + (".1" if i < n - 1 else "")
                return f"{x}{proj}", tx[1][i], False
            if isinstance(tx, tuple) and tx[0] == "List" and i == 0:
                return f"listHead {x}", tx[1], True
        self.fail(f"subscript `{ast.unparse(node)[:60]}`", node)

    def ifexp(self, node, env, pre, want):
        nt = self.none_test(node.test, env)
        if nt is not None:
            name, none_first = nt
            lname, oty = env[name]
            env_some = dict(env); env_some[name] = (lname, oty[1])
            n_node, s_node = (node.body, node.orelse) if none_first else (node.orelse, node.body)
            sub: list = []
            s_term, s_ty = self.expr(s_node, env_some, sub, want)
            n_term, n_ty = self.expr(n_node, env, sub, want)
            if sub:
                self.fail("monadic call inside a conditional expression (not in return position)", node)
            ty = self.join(s_ty, n_ty, node)
            return (f"(match {lname} with | some {lname} => {coerce(s_term, s_ty, ty, self.where)} | none => {coerce(n_term, n_ty, ty, self.where)})",
                    ty, False)
        sub = []
        c = self.truth(node.test, env, pre)
        a, ta = self.expr(node.body, env, sub, want)
        b, tb = self.expr(node.orelse, env, sub, want)
        if sub:
            self.fail("monadic call inside a conditional expression (not in return position)", node)
        ty = self.join(ta, tb, node)
        return f"(if {c} then {coerce(a, ta, ty, self.where)} else {coerce(b, tb, ty, self.where)})", ty, False

    def join(self, a, b, node):
        if a == b: return a
        if fits(a, b): return b
        if fits(b, a): return a
        if a == "NoneT": return ("Opt", b)
        if b == "NoneT": return ("Opt", a)
        self.fail(f"branches of types {show_ty(a)} and {show_ty(b)}", node)

    # ----------------------------------------------------------------------------------------------- calls
    def bind_args(self, params, node, env, pre, callee, recv_class_value=None):
        """positional/keyword/default arguments against a parameter list -> list of Lean terms"""
        args: list = [None] * len(params)
        pos = list(node.args)
        # `f(*args, **kwargs)` pass-through of the declared model argument
        star = [a for a in pos if isinstance(a, ast.Starred)]
        dstar = [k for k in node.keywords if k.arg is None]
        if star or dstar:
            ok = (self.vararg_names and all(isinstance(a.value, ast.Name) and a.value.id in self.vararg_names for a in star)
                  and all(isinstance(k.value, ast.Name) and k.value.id in self.vararg_names for k in dstar)
                  and len(star) + len(dstar) == len(self.vararg_names))
            if not ok:
                self.fail(f"starred arguments in call to {callee}", node)
            vname, vty = self.varargs_val
            idx = [i for i, p in enumerate(params) if p[0] == vname]
            if not idx:
                self.fail(f"{callee} has no `{vname}` parameter to receive *args/**kwargs", node)
            if idx[0] != len([a for a in pos if not isinstance(a, ast.Starred)]):
                self.fail(f"*args would not land on `{vname}` of {callee}", node)
            args[idx[0]] = coerce(vname, vty, params[idx[0]][1], self.where)
            pos = [a for a in pos if not isinstance(a, ast.Starred)]
        if len(pos) > len(params):
            self.fail(f"too many arguments in call to {callee}", node)
        for i, a in enumerate(pos):
            args[i] = self.seg_or(params[i][1], a, env, pre, recv_class_value)
        for k in node.keywords:
            if k.arg is None:
                continue
            idx = [i for i, p in enumerate(params) if p[0] == k.arg]
            if not idx or args[idx[0]] is not None:
                self.fail(f"keyword argument `{k.arg}` in call to {callee}", node)
            args[idx[0]] = self.seg_or(params[idx[0]][1], k.value, env, pre, recv_class_value)
        for i, p in enumerate(params):
            if args[i] is None:
                if p[2] is None:
                    self.fail(f"missing argument `{p[0]}` in call to {callee}", node)
                args[i] = p[2]
        return args

    def seg_or(self, pty, a, env, pre, recv_class_value):
        t = self.expr_as(a, env, pre, pty)
        if t is None:
            if recv_class_value is None:
                self.fail('"end" segment without a receiver class')
            return f"{recv_class_value}.value"
        return t

    def apply_overloads(self, key, overloads, node, env, pre):
        last = None
        for params, rt, mon, tpl in overloads:
            sub: list = []
            ntmp = self.ntmp
            try:
                args = self.bind_args(params, node, env, sub, key)
            except Untranslatable as e:
                last = e
                self.ntmp = ntmp
                continue
            pre.extend(sub)
            return tpl.format(*args), rt, mon
        raise last

    def call(self, node, env, pre):
        f = node.func
        d = self.dotted(f)
        # tuple(<generator>) / tuple(<list>)
        if d == "tuple" and len(node.args) == 1 and not node.keywords:
            a = node.args[0]
            if isinstance(a, ast.GeneratorExp):
                return self.genexp(a, env, pre)
            x, tx = self.expr(a, env, pre)
            if isinstance(tx, tuple) and tx[0] == "List":
                return x, tx, False
            self.fail("tuple() of a non-list", node)
        # _dt.date(y, m, d).toordinal()
        if isinstance(f, ast.Attribute) and f.attr == "toordinal" and isinstance(f.value, ast.Call) and self.dotted(f.value.func) == "_dt.date":
            if node.args or node.keywords:
                self.fail("toordinal() with arguments", node)
            return self.apply_overloads("_dt.date(...).toordinal", FUNCS["_dt.date(...).toordinal"], f.value, env, pre)
        # type(self)(...)
        if isinstance(f, ast.Call) and self.dotted(f.func) == "type" and len(f.args) == 1 and not f.keywords:
            x, tx = self.expr(f.args[0], env, pre)
            if tx == "Span":
                return self.apply_overloads("Span", FUNCS["Span"], node, env, pre)
            if tx == "Period":
                params, rt, mon, tpl = METHODS[("Class", "__call__")]
                args = self.bind_args(params, node, env, pre, "type(self)")
                return tpl.format(*args, self=f"{x}.freq"), rt, mon
            self.fail(f"type(x)(...) for x of type {show_ty(tx)}", node)
        # type(x) of a period: its class
        if d == "type" and len(node.args) == 1 and not node.keywords and "type" not in env:
            x, tx = self.expr(node.args[0], env, pre)
            if tx != "Period":
                self.fail(f"type(x) for x of type {show_ty(tx)}", node)
            return f"{x}.freq", "Class", False
        # free functions and constructors
        if d is not None and d in FUNCS and not (isinstance(f, ast.Name) and f.id in env):
            if isinstance(f, ast.Name) and f.id in self.locals_assigned:
                self.fail(f"`{f.id}` is a local here", node)
            return self.apply_overloads(d, FUNCS[d], node, env, pre)
        # calling a class value: period_class(x)
        if isinstance(f, ast.Name) and (f.id in env or f.id in CLASSES):
            x, tx = self.name(f, env)
            if tx == "Class":
                params, rt, mon, tpl = METHODS[("Class", "__call__")]
                args = self.bind_args(params, node, env, pre, f.id)
                return tpl.format(*args, self=x), rt, mon
        # method calls
        if isinstance(f, ast.Attribute):
            # f(*tuple) with a tuple of known arity: DailyPeriod.from_ymd(*self.to_ymd(position=position))
            recv, tr = self.expr(f.value, env, pre)
            key = (tr, f.attr)
            if key not in METHODS:
                self.fail(f"method `.{f.attr}` of {show_ty(tr)} is not in the name table", node)
            params, rt, mon, tpl = METHODS[key]
            if tpl.startswith("GEN:"):
                tpl = tpl[4:]
                if tpl.split()[0] not in self.generated:
                    self.fail(f"`.{f.attr}` resolves to the generated {tpl.split()[0]}, which is not available", node)
            cls_val = recv if tr in ("Class", "Freq") else f"{recv}.freq"
            if (len(node.args) == 1 and isinstance(node.args[0], ast.Starred) and not node.keywords
                    and not (isinstance(node.args[0].value, ast.Name) and node.args[0].value.id in self.vararg_names)):
                t, tt = self.expr(node.args[0].value, env, pre)
                if tt == "Date": tt = ("Tuple", ("Int", "Int", "Int"))
                if not (isinstance(tt, tuple) and tt[0] == "Tuple" and len(tt[1]) == len(params)
                        and all(fits(x, p[1]) for x, p in zip(tt[1], params))):
                    self.fail(f"starred argument of type {show_ty(tt)} in call to .{f.attr}", node)
                names = [self.tmp() for _ in params]
                pre.append(("let", "(" + ", ".join(names) + ")", t))
                args = [coerce(n, x, p[1], self.where) for n, x, p in zip(names, tt[1], params)]
            else:
                args = self.bind_args(params, node, env, pre, f"{show_ty(tr)}.{f.attr}", cls_val)
            return tpl.format(*args, self=recv), rt, mon
        self.fail(f"call `{ast.unparse(node)[:60]}` is not in the name table", node)

    def genexp(self, g, env, pre):
        if len(g.generators) != 1:
            self.fail("nested generator", g)
        c = g.generators[0]
        if c.ifs or c.is_async or not isinstance(c.target, ast.Name):
            self.fail("generator with filter / pattern target", g)
        xs, txs = self.expr(c.iter, env, pre)
        if not (isinstance(txs, tuple) and txs[0] == "List"):
            self.fail(f"generator over {show_ty(txs)}", g)
        v = self.lean_name(c.target.id)
        env2 = dict(env); env2[c.target.id] = (v, txs[1])
        blk, te = self.value_block(g.elt, env2)
        if not self.block_is_monadic(blk) and not blk.stmts and blk.tail[0] == "pure":
            return f"({xs}.map (fun {v} => {blk.tail[1]}))", ("List", te), False
        return f"{xs}.mapM (fun {v} => {inline_block(blk, True)})", ("List", te), True

    def value_block(self, node, env, want=None):
        """an expression as a block (conditional expressions become if / match nodes); returns (Block, type)"""
        b = Block()
        if isinstance(node, ast.IfExp):
            nt = self.none_test(node.test, env)
            if nt is not None:
                name, none_first = nt
                lname, oty = env[name]
                env_some = dict(env); env_some[name] = (lname, oty[1])
                n_node, s_node = (node.body, node.orelse) if none_first else (node.orelse, node.body)
                bs, ts = self.value_block(s_node, env_some, want)
                bn, tn = self.value_block(n_node, env, want)
                ty = self.join(ts, tn, node)
                self.coerce_block(bs, ts, ty); self.coerce_block(bn, tn, ty)
                b.tail = ("match", lname, [(f"some {lname}", bs), ("none", bn)])
                return b, ty
            pre: list = []
            c = self.truth(node.test, env, pre)
            b.stmts = pre
            b1, t1 = self.value_block(node.body, env, want)
            b2, t2 = self.value_block(node.orelse, env, want)
            ty = self.join(t1, t2, node)
            self.coerce_block(b1, t1, ty); self.coerce_block(b2, t2, ty)
            b.tail = ("if", c, b1, b2)
            return b, ty
        pre = []
        term, ty, mon = self.expr_m(node, env, pre, want)
        b.stmts = pre
        b.tail = ("tail", term) if mon else ("pure", term)
        return b, ty

    def coerce_block(self, b: Block, t, want):
        if t == want:
            return
        if b.tail[0] == "pure":
            b.tail = ("pure", coerce(b.tail[1], t, want, self.where))
        elif b.tail[0] == "tail":
            v = self.tmp()
            b.stmts.append(("bind", v, b.tail[1]))
            b.tail = ("pure", coerce(v, t, want, self.where))
        elif b.tail[0] == "if":
            self.coerce_block(b.tail[2], t, want); self.coerce_block(b.tail[3], t, want)
        elif b.tail[0] == "match":
            for _, x in b.tail[2]: self.coerce_block(x, t, want)
        else:
            self.fail("cannot coerce a branch")

    # ----------------------------------------------------------------------------------------------- statements
    def returns(self, stmts) -> bool:
        """every path through `stmts` ends in return/raise"""
        for s in stmts:
            if isinstance(s, (ast.Return, ast.Raise)):
                return True
            if isinstance(s, ast.If) and s.orelse and self.returns(s.body) and self.returns(s.orelse):
                return True
            if isinstance(s, ast.Match) and all(self.returns(c.body) for c in s.cases) and any(
                    isinstance(c.pattern, ast.MatchAs) and c.pattern.pattern is None for c in s.cases):
                return True
            if isinstance(s, ast.Try) and self.returns(s.body):
                return True
        return False

    def assigned(self, stmts) -> list[str]:
        """names (locals, and `self.attr` as '.attr') assigned somewhere in stmts, in first-assignment order"""
        out = []
        def add(t):
            if isinstance(t, ast.Name):
                if t.id != "_" and t.id not in out: out.append(t.id)
            elif isinstance(t, ast.Attribute) and isinstance(t.value, ast.Name) and t.value.id == self.self_py:
                if "." + t.attr not in out: out.append("." + t.attr)
            elif isinstance(t, (ast.Tuple, ast.List)):
                for e in t.elts: add(e)
            elif isinstance(t, ast.Starred):
                add(t.value)
            else:
                self.fail("assignment target", t)
        for s in stmts:
            for n in ast.walk(s):
                if isinstance(n, ast.Assign):
                    for t in n.targets: add(t)
                elif isinstance(n, (ast.AugAssign, ast.AnnAssign)):
                    add(n.target)
        return out

    def ret_value(self, node, env, blk: Block):
        """translate `return <node>` into the tail of blk"""
        t = self.tgt
        if node is None or (isinstance(node, ast.Constant) and node.value is None):
            if t.none_is_error:
                blk.tail = ("throw", NONE_RESULT); return
            if t.ret == "Unit" and t.kind == "function":
                blk.tail = ("pure", "()"); return
            if t.kind in ("ctor", "mutator"):
                blk.tail = ("pure", self.record()); return
            self.fail("returns None", node)
        if t.kind in ("ctor", "mutator"):
            self.fail("constructor / in-place method returns a value", node)
        if isinstance(node, ast.IfExp):
            nt = self.none_test(node.test, env)
            if nt is None:
                pre: list = []
                c = self.truth(node.test, env, pre)
                blk.stmts += pre
                b1, b2 = Block(), Block()
                self.ret_value(node.body, env, b1)
                self.ret_value(node.orelse, env, b2)
                blk.tail = ("if", c, b1, b2)
                return
        if isinstance(node, ast.Tuple) and not node.elts and isinstance(t.ret, tuple) and t.ret[0] == "List":
            blk.tail = ("pure", "[]"); return
        pre = []
        term, ty, mon = self.expr_m(node, env, pre, t.ret)
        blk.stmts += pre
        if mon and ty == t.ret:
            blk.tail = ("tail", term)
        else:
            if mon:
                v = self.tmp(); blk.stmts.append(("bind", v, term)); term = v
            blk.tail = ("pure", coerce(term, ty, t.ret, self.where))

    def record(self) -> str:
        vals = []
        for a in SPAN_FIELDS:
            if a not in self.attr_state:
                self.fail(f"attribute `{a}` is never assigned")
            vals.append(self.attr_state[a][0])
        rec = f"(Span.mk {vals[0]} {vals[1]} {vals[2]})"
        if self.tgt.kind == "ctor":
            if "needs_resolve" not in self.attr_state:
                self.fail("attribute `needs_resolve` is never assigned")
            return f"({rec}, {self.attr_state['needs_resolve'][0]})"
        return rec

    def bind_target(self, tgt, term, ty, env, blk, mon):
        """emit the binding of an assignment target to a value"""
        kind = "bind" if mon else "let"
        if isinstance(tgt, ast.Name):
            if tgt.id == "_":
                blk.stmts.append((kind, "_", term)); return
            ln = self.lean_name(tgt.id)
            blk.stmts.append((kind, ln, term))
            env[tgt.id] = (ln, ty)
            return
        if isinstance(tgt, ast.Attribute) and isinstance(tgt.value, ast.Name) and tgt.value.id == self.self_py:
            if self.tgt.kind not in ("ctor", "mutator"):
                self.fail("attribute store outside a constructor / in-place method", tgt)
            want = {"_start": "Endpoint", "_end": "Endpoint", "_step": "Int", "needs_resolve": "Bool"}.get(tgt.attr)
            if want is None:
                self.fail(f"store to unknown attribute `{tgt.attr}`", tgt)
            ln = f"{self.lean_name(self.self_py)}{tgt.attr if tgt.attr.startswith('_') else '_' + tgt.attr}"
            if mon:
                v = self.tmp(); blk.stmts.append(("bind", v, term)); term = v
            blk.stmts.append(("let", ln, coerce(term, ty, want, self.where)))
            self.attr_state[tgt.attr] = (ln, want)
            return
        if isinstance(tgt, (ast.Tuple, ast.List)):
            if ty == "Date": ty = ("Tuple", ("Int", "Int", "Int"))
            if not (isinstance(ty, tuple) and ty[0] == "Tuple"):
                self.fail(f"unpacking a value of type {show_ty(ty)}", tgt)
            elts = list(tgt.elts)
            n = len(ty[1])
            star = [i for i, e in enumerate(elts) if isinstance(e, ast.Starred)]
            if star:
                if star != [len(elts) - 1] or not (isinstance(elts[-1].value, ast.Name) and elts[-1].value.id == "_"):
                    self.fail("only a trailing `*_` is supported in unpacking", tgt)
                if len(elts) - 1 > n:
                    self.fail("unpacking more values than the tuple has", tgt)
                elts = elts[:-1] + [ast.Name("_", ast.Store())] * (n - len(elts) + 1)
            if len(elts) != n:
                self.fail(f"unpacking {n} values into {len(elts)} targets", tgt)
            if any(not isinstance(e, ast.Name) for e in elts):
                # attribute targets: go through temporaries (simultaneous assignment)
                names = [self.tmp() for _ in elts]
                blk.stmts.append((kind, "(" + ", ".join(names) + ")", term))
                for e, nm, et in zip(elts, names, ty[1]):
                    self.bind_target(e, nm, et, env, blk, False)
                return
            pats = []
            for e, et in zip(elts, ty[1]):
                if e.id == "_":
                    pats.append("_")
                else:
                    ln = self.lean_name(e.id); pats.append(ln); env[e.id] = (ln, et)
            blk.stmts.append((kind, "(" + ", ".join(pats) + ")", term))
            return
        self.fail("assignment target", tgt)

    def block(self, stmts, env, end_of_function: bool) -> Block:
        """translate a statement list; the result's tail is set iff the list returns on every path or end_of_function"""
        blk = Block()
        env = dict(env)
        i = 0
        while i < len(stmts):
            s = stmts[i]
            rest = stmts[i + 1:]
            if isinstance(s, ast.Return):
                if rest: self.fail("statements after return", rest[0])
                self.ret_value(s.value, env, blk)
                return blk
            if isinstance(s, ast.Raise):
                if rest: self.fail("statements after raise", rest[0])
                blk.tail = ("throw", self.exception(s))
                return blk
            if isinstance(s, ast.Pass):
                i += 1; continue
            if isinstance(s, ast.Assign):
                if len(s.targets) != 1: self.fail("chained assignment", s)
                pre: list = []
                tgt = s.targets[0]
                if isinstance(s.value, ast.IfExp) and isinstance(tgt, ast.Name) and self.ifexp_is_monadic(s.value, env):
                    vb, ty = self.value_block(s.value, env)
                    blk.stmts += vb.stmts
                    ln = self.lean_name(tgt.id)
                    blk.stmts.append(("bindblk", ln, vb.tail))
                    env[tgt.id] = (ln, ty)
                else:
                    term, ty, mon = self.expr_m(s.value, env, pre, None)
                    blk.stmts += pre
                    self.bind_target(tgt, term, ty, env, blk, mon)
                i += 1; continue
            if isinstance(s, ast.AnnAssign):
                if s.value is None: self.fail("annotation without value", s)
                pre = []
                term, ty, mon = self.expr_m(s.value, env, pre, None)
                blk.stmts += pre
                self.bind_target(s.target, term, ty, env, blk, mon)
                i += 1; continue
            if isinstance(s, ast.AugAssign):
                load = ast.copy_location(ast.Attribute(s.target.value, s.target.attr, ast.Load()), s.target) if isinstance(s.target, ast.Attribute) \
                    else ast.copy_location(ast.Name(s.target.id, ast.Load()), s.target) if isinstance(s.target, ast.Name) else None
                if load is None: self.fail("augmented assignment target", s)
                val = ast.copy_location(ast.BinOp(load, s.op, s.value), s)
                pre = []
                term, ty, mon = self.expr_m(val, env, pre, None)
                blk.stmts += pre
                self.bind_target(s.target, term, ty, env, blk, mon)
                i += 1; continue
            if isinstance(s, ast.Expr):
                if isinstance(s.value, ast.Constant) and isinstance(s.value.value, str):
                    i += 1; continue
                pre = []
                term, ty, mon = self.expr_m(s.value, env, pre, None)
                blk.stmts += pre
                if not mon or ty != "Unit":
                    self.fail("expression statement that is not a checked action", s)
                blk.stmts.append(("act", term))
                i += 1; continue
            if isinstance(s, ast.If):
                done = self.if_stmt(s, rest, env, blk, end_of_function)
                if done:
                    return blk
                i += 1; continue
            if isinstance(s, ast.Match):
                if rest: self.fail("statements after match", rest[0])
                self.match_stmt(s, env, blk)
                return blk
            if isinstance(s, ast.Try):
                if rest: self.fail("statements after try", rest[0])
                self.try_stmt(s, env, blk)
                return blk
            self.fail(f"statement `{ast.unparse(s)[:60]}`", s)
        if end_of_function:
            self.ret_value(None, env, blk)
        self.env_out = env
        return blk

    def ifexp_is_monadic(self, node, env) -> bool:
        save_tmp, save_attr = self.ntmp, dict(self.attr_state)
        try:
            vb, _ = self.value_block(node, env)
            return self.block_is_monadic(vb)
        finally:
            self.ntmp, self.attr_state = save_tmp, save_attr

    def exception(self, s: ast.Raise) -> str:
        e = s.exc
        name = self.dotted(e.func) if isinstance(e, ast.Call) else self.dotted(e) if e is not None else None
        if name not in EXCEPTIONS:
            self.fail(f"raise of `{name}` is not in the name table", s)
        return EXCEPTIONS[name]

    def if_stmt(self, s: ast.If, rest, env, blk: Block, eof: bool) -> bool:
        """returns True when the if consumed the rest of the statement list (blk.tail is set)"""
        nt = self.none_test(s.test, env)
        body_ret = self.returns(s.body)
        else_ret = bool(s.orelse) and self.returns(s.orelse)
        # dead branch: `if _is_period(x)` with x statically an integer
        if (isinstance(s.test, ast.Call) and self.dotted(s.test.func) == "_is_period" and len(s.test.args) == 1):
            pre: list = []
            _, tx = self.expr(s.test.args[0], env, pre)
            if tx == "Int" and not pre:
                live = list(s.orelse) + list(rest)
                sub = self.block(live, env, eof)
                blk.stmts += sub.stmts
                blk.tail = sub.tail
                return True
        if body_ret or else_ret:
            # terminal if: each branch continues with the rest when it does not return by itself
            then_stmts = list(s.body) if body_ret else list(s.body) + list(rest)
            else_stmts = list(s.orelse) if else_ret else list(s.orelse) + list(rest)
            if body_ret and else_ret and rest:
                self.fail("statements after an if that always returns", rest[0])
            if nt is not None:
                name, none_first = nt
                lname, oty = env[name]
                env_some = dict(env); env_some[name] = (lname, oty[1])
                n_stmts, s_stmts = (then_stmts, else_stmts) if none_first else (else_stmts, then_stmts)
                save = dict(self.attr_state)
                bs = self.block(s_stmts, env_some, eof)
                self.attr_state = dict(save)
                bn = self.block(n_stmts, env, eof)
                self.attr_state = save
                blk.tail = ("match", lname, [(f"some {lname}", bs), ("none", bn)])
                return True
            pre = []
            c = self.truth(s.test, env, pre)
            blk.stmts += pre
            save = dict(self.attr_state)
            b1 = self.block(then_stmts, env, eof)
            self.attr_state = dict(save)
            b2 = self.block(else_stmts, env, eof)
            self.attr_state = save
            blk.tail = ("if", c, b1, b2)
            return True
        # non-returning if: branches assign and/or act
        names = self.assigned(list(s.body) + list(s.orelse))
        if not names:
            pre = []
            c = self.truth(s.test, env, pre)
            blk.stmts += pre
            b1 = self.block(list(s.body), env, False); b1.tail = b1.tail or ("pure", "()")
            b2 = None
            if s.orelse:
                b2 = self.block(list(s.orelse), env, False); b2.tail = b2.tail or ("pure", "()")
            self.strip_unit(b1);
            if b2: self.strip_unit(b2)
            blk.stmts.append(("ifact", c, b1, b2))
            return False
        # assignments: let (v1, ..) := if c then (..; (v1, ..)) else (..; (v1, ..))
        def branch(stmts, env_b):
            save = dict(self.attr_state)
            b = self.block(stmts, env_b, False)
            out_env, out_attr = self.env_out, self.attr_state
            self.attr_state = save
            vals = []
            for n in names:
                if n.startswith("."):
                    if n[1:] not in out_attr: self.fail(f"attribute `{n[1:]}` is not assigned on every path", s)
                    vals.append(out_attr[n[1:]])
                else:
                    if n not in out_env: self.fail(f"`{n}` is not assigned on every path", s)
                    vals.append(out_env[n])
            return b, vals
        if nt is not None:
            name, none_first = nt
            lname, oty = env[name]
            env_some = dict(env); env_some[name] = (lname, oty[1])
            n_stmts, s_stmts = (list(s.body), list(s.orelse)) if none_first else (list(s.orelse), list(s.body))
            b_s, v_s = branch(s_stmts, env_some)
            b_n, v_n = branch(n_stmts, env)
            arms = [(f"some {lname}", b_s, v_s), ("none", b_n, v_n)]
        else:
            pre = []
            c = self.truth(s.test, env, pre)
            blk.stmts += pre
            b1, v1 = branch(list(s.body), env)
            b2, v2 = branch(list(s.orelse), env)
            arms = [(None, b1, v1), (None, b2, v2)]
        tys = [self.join(a[1], b[1], s) for a, b in zip(arms[0][2], arms[1][2])]
        mon = False
        for _, b, vals in arms:
            terms = [coerce(v[0], v[1], t, self.where) for v, t in zip(vals, tys)]
            b.tail = ("pure", terms[0] if len(terms) == 1 else "(" + ", ".join(terms) + ")")
            mon = mon or self.block_is_monadic(b)
        lnames = []
        for n, t in zip(names, tys):
            if n.startswith("."):
                ln = f"{self.lean_name(self.self_py)}{n[1:] if n[1:].startswith('_') else '_' + n[1:]}"
                self.attr_state[n[1:]] = (ln, t)
            else:
                ln = self.lean_name(n); env[n] = (ln, t)
            lnames.append(ln)
        pat = lnames[0] if len(lnames) == 1 else "(" + ", ".join(lnames) + ")"
        node = ("match", lname, [(a[0], a[1]) for a in arms]) if nt is not None else ("if", c, arms[0][1], arms[1][1])
        blk.stmts.append(("bindblk" if mon else "letblk", pat, node))
        return False

    def strip_unit(self, b: Block):
        """`...; act; pure ()` -> tail call of the last action"""
        if b.tail == ("pure", "()") and b.stmts and b.stmts[-1][0] == "act":
            b.tail = ("tail", b.stmts.pop()[1])

    def block_is_monadic(self, b: Block) -> bool:
        for s in b.stmts:
            if s[0] in ("bind", "act", "bindblk", "ifact"): return True
        t = b.tail
        if t[0] in ("tail", "throw"): return True
        if t[0] == "if": return self.block_is_monadic(t[2]) or self.block_is_monadic(t[3])
        if t[0] == "match": return any(self.block_is_monadic(x[1]) for x in t[2])
        return False

    def match_stmt(self, s: ast.Match, env, blk: Block):
        if not (isinstance(s.subject, ast.Name) and s.subject.id in env and env[s.subject.id][1] == "ShiftBy"):
            self.fail("match on something other than a keyword-or-integer argument", s)
        subj = s.subject.id
        lsubj = env[subj][0]
        table = KEYWORDS["ShiftBy"]
        covered: list[str] = []
        arms = []
        wildcard = False
        for c in s.cases:
            if wildcard: self.fail("case after the wildcard", s)
            if c.guard is not None: self.fail("case guard", s)
            pats = c.pattern.patterns if isinstance(c.pattern, ast.MatchOr) else [c.pattern]
            if len(pats) == 1 and isinstance(pats[0], ast.MatchAs) and pats[0].pattern is None:
                # case _ (or case name): everything not matched above; with all keywords covered that is the integer payload
                missing = sorted(set(table.values()) - set(covered))
                if missing:
                    self.fail(f"keywords {missing} fall through to the wildcard case", s)
                env2 = dict(env); env2[subj] = (lsubj, "Int")
                if pats[0].name is not None: env2[pats[0].name] = (lsubj, "Int")
                if not self.returns(c.body): self.fail("case does not return", s)
                arms.append((f"{SHIFTBY_INT} {lsubj}", self.block(list(c.body), env2, False)))
                wildcard = True
                continue
            ctors = []
            for p in pats:
                if not (isinstance(p, ast.MatchValue) and isinstance(p.value, ast.Constant) and isinstance(p.value.value, str)):
                    self.fail("case pattern is not a string literal", s)
                if p.value.value not in table:
                    self.fail(f"keyword {p.value.value!r} is not in the name table", s)
                k = table[p.value.value]
                if k in covered:
                    self.fail(f"keyword {p.value.value!r} is shadowed by an earlier case", s)
                if k not in ctors: ctors.append(k)
            if not self.returns(c.body): self.fail("case does not return", s)
            # the keyword constructors carry no payload: inside the arm the subject is not usable as a number
            env2 = dict(env); del env2[subj]
            b = self.block(list(c.body), env2, False)
            for k in ctors:
                covered.append(k)
                arms.append((k, b))
        if not wildcard:
            self.fail("match without a wildcard case", s)
        blk.tail = ("match", lsubj, arms)

    def try_stmt(self, s: ast.Try, env, blk: Block):
        ok = (len(s.handlers) == 1 and s.handlers[0].type is None and not s.orelse and not s.finalbody
              and len(s.handlers[0].body) == 1 and isinstance(s.handlers[0].body[0], ast.Raise))
        if not ok:
            self.fail("try statement other than `try: ... except: raise E(...)`", s)
        h = s.handlers[0].body[0]
        name = self.dotted(h.exc.func) if isinstance(h.exc, ast.Call) else self.dotted(h.exc)
        # an undefined exception name raises NameError instead: still an exception of the same model kind
        err = EXCEPTIONS.get(name)
        if err is None:
            self.fail(f"raise of `{name}` is not in the name table", h)
        if not self.returns(s.body):
            self.fail("try body does not return", s)
        inner = self.block(list(s.body), env, False)
        lines = render(inner, 6, True)
        blk.tail = ("tail", "reraise (do\n" + "\n".join(lines) + f")\n    {err}")

    # ----------------------------------------------------------------------------------------------- whole function
    def translate(self) -> str:
        t = self.tgt
        env, binders = self.signature()
        if t.kind == "mutator":
            self.attr_state = {a: (ATTRS[("Span", a)][0].format(x=env[self.self_py][0]), ATTRS[("Span", a)][1]) for a in SPAN_FIELDS}
            self.attr_state["needs_resolve"] = (ATTRS[("Span", "needs_resolve")][0].format(x=env[self.self_py][0]), "Bool")
        body = strip_doc(self.fn.body)
        blk = self.block(body, env, True)
        mon = t.monadic
        if not mon and self.block_is_monadic(blk):
            self.fail("a pure target calls a checked (monadic) function")
        ret = lty(t.ret) if t.kind == "function" else ("Span" if t.kind == "mutator" else "(Span × Bool)")
        sig = f"def {t.lean} {' '.join(binders)} : {'R ' + ret if mon else ret} :={' do' if mon else ''}"
        lines = render(blk, 2, mon)
        text = sig + "\n" + "\n".join(lines) + "\n"
        for i, (name, ty, term) in enumerate(self.defaults):
            text += f"\n/-- default value of parameter {i + 1} with a default (`{name}`) of `{self.where}` -/\n"
            text += f"def {t.lean}_default{i + 1} : {lty(ty)} := {term}\n"
        return text


def inline_block(b: Block, mon: bool) -> str:
    """a small block on one line (element of a generator expression)"""
    parts = []
    for s in b.stmts:
        if s[0] == "let": parts.append(f"let {s[1]} := {s[2]}")
        elif s[0] == "bind": parts.append(f"let {s[1]} ← {s[2]}")
        elif s[0] == "act": parts.append(s[1])
        else: raise Untranslatable("control flow statement inside a generator element")
    t = b.tail
    if t[0] == "pure": parts.append(f"pure {t[1]}" if mon else t[1])
    elif t[0] == "tail": parts.append(t[1])
    elif t[0] == "throw": parts.append(f"throw {t[1]}")
    elif t[0] == "if": parts.append(f"if {t[1]} then {inline_block(t[2], mon)} else {inline_block(t[3], mon)}")
    elif t[0] == "match": parts.append(f"match {t[1]} with " + " ".join(f"| {p} => {inline_block(x, mon)}" for p, x in t[2]))
    if mon:
        return "(do " + "; ".join(parts) + ")"
    if len(parts) > 1:
        raise Untranslatable("statements inside a pure generator element")
    return "(" + parts[0] + ")"


# =====================================================================================================================
# Targets
# =====================================================================================================================

OE = ("Opt", "Endpoint")

TARGETS = [
    # ---- (a) year-anchored constructors and accessors
    Target(("RegularPeriodMixin", "to_year_segment"), "RegularPeriodMixin_to_year_segment", [], ("Tuple", ("Int", "Int")), False, "Period"),
    Target(("RegularPeriodMixin", "get_year"), "RegularPeriodMixin_get_year", [], "Int", True, "Period"),
    Target(("RegularPeriodMixin", "create_soy"), "RegularPeriodMixin_create_soy", [], "Period", True, "Period"),
    Target(("RegularPeriodMixin", "create_eoy"), "RegularPeriodMixin_create_eoy", [], "Period", True, "Period"),
    Target(("RegularPeriodMixin", "create_eopy"), "RegularPeriodMixin_create_eopy", [], "Period", True, "Period"),
    Target(("RegularPeriodMixin", "create_tty"), "RegularPeriodMixin_create_tty", [], "Period", True, "Period", none_is_error=True),
    Target(("DailyPeriod", "to_year_segment"), "DailyPeriod_to_year_segment", [], ("Tuple", ("Int", "Int")), False, "Period"),
    Target(("DailyPeriod", "get_year"), "DailyPeriod_get_year", [], "Int", False, "Period"),
    Target(("DailyPeriod", "to_ymd"), "DailyPeriod_to_ymd", [], ("Tuple", ("Int", "Int", "Int")), False, "Period",
           varargs=("position", "Pos", "ignored")),
    Target(("DailyPeriod", "create_soy"), "DailyPeriod_create_soy", [], "Period", True, "Period"),
    Target(("DailyPeriod", "create_som"), "DailyPeriod_create_som", [], "Period", True, "Period"),
    Target(("DailyPeriod", "create_eoy"), "DailyPeriod_create_eoy", [], "Period", True, "Period"),
    Target(("DailyPeriod", "create_eopy"), "DailyPeriod_create_eopy", [], "Period", True, "Period"),
    Target(("DailyPeriod", "create_eopm"), "DailyPeriod_create_eopm", [], "Period", True, "Period"),
    Target(("DailyPeriod", "create_tty"), "DailyPeriod_create_tty", [], "Period", True, "Period", none_is_error=True),
    # ---- (b) shift keywords, frequency conversion
    Target(("Period", "shift"), "Period_shift", ["ShiftBy"], "Period", True, "Period"),
    Target(("Period", "refrequent"), "Period_refrequent", ["Class"], "Period", True, "Period", varargs=("position", "Pos", "both")),
    Target(("refrequent",), "refrequent_function", ["Period", "Class"], "Period", True, None, varargs=("position", "Pos", "both")),
    Target(("RegularPeriodMixin", "to_ymd"), "RegularPeriodMixin_to_ymd", ["Pos"], ("Tuple", ("Int", "Int", "Int")), True, "Period"),
    Target(("RegularPeriodMixin", "to_daily"), "RegularPeriodMixin_to_daily", ["Pos"], "Period", True, "Period"),
    Target(("RegularPeriodMixin", "from_ymd"), "RegularPeriodMixin_from_ymd", ["Int", "Int", "Int"], "Period", False, "Class"),
    Target(("DailyPeriod", "from_ymd"), "DailyPeriod_from_ymd", ["Int", "Int", "Int"], "Period", True, "Class"),
    Target(("DailyPeriod", "from_year_segment"), "DailyPeriod_from_year_segment", ["Int", "Int"], "Period", False, "Class"),
    Target(("IntegerPeriod", "from_year_segment"), "IntegerPeriod_from_year_segment", ["Int", "Int"], "Period", False, "Class"),
    # ---- (c) span operators, constructor, resolution, in-place mutators, functional operators
    Target(("_SpannableMixin", "__rshift__"), "SpannableMixin_rshift", [OE], "Span", True, "Endpoint"),
    Target(("_SpannableMixin", "__rrshift__"), "SpannableMixin_rrshift", [OE], "Span", True, "Endpoint"),
    Target(("_SpannableMixin", "__lshift__"), "SpannableMixin_lshift", [OE], "Span", True, "Endpoint"),
    Target(("_SpannableMixin", "__rlshift__"), "SpannableMixin_rlshift", [OE], "Span", True, "Endpoint"),
    Target(("_SpannableMixin", "__pow__"), "SpannableMixin_pow", ["Int"], "PowResult", True, "Period"),
    Target(("Span", "__init__"), "Span_init", [OE, OE, "Int"], None, True, "Span", kind="ctor"),
    Target(("Span", "resolve"), "Span_resolve", ["Ctx"], "Span", True, "Span"),
    Target(("Span", "reverse"), "Span_reverse", [], None, False, "Span", kind="mutator"),
    Target(("Span", "shift"), "Span_shift", ["Int"], None, False, "Span", kind="mutator"),
    Target(("Span", "shift_start"), "Span_shift_start", ["Int"], None, False, "Span", kind="mutator"),
    Target(("Span", "shift_end"), "Span_shift_end", ["Int"], None, False, "Span", kind="mutator"),
    Target(("Span", "__add__"), "Span_add", ["Int"], "Span", True, "Span"),
    Target(("Span", "__sub__"), "Span_sub", ["Int"], "Span", True, "Span"),
    Target(("Span", "__rshift__"), "Span_rshift_step", ["Int"], "Span", True, "Span"),
    Target(("Span", "__lshift__"), "Span_lshift_step", ["Int"], "Span", True, "Span"),
    # ---- (d) module-level helpers
    Target(("_sign",), "sign_function", ["Int"], "Int", False, None),
    Target(("periods_from_until",), "periods_from_until", ["Period", "Period", "Int"], ("List", "Period"), True, None),
    Target(("period_indexes",), "period_indexes", [("List", ("Opt", "Period")), "Period"], ("List", ("Opt", "Int")), True, None),
    Target(("daily_serial_from_ymd",), "daily_serial_from_ymd", ["Int", "Int", "Int"], "Int", False, None),
    Target(("periods_from_sdmx_strings",), "periods_from_sdmx_strings", [("List", "Str"), ("Opt", "Freq")], ("List", "Period"), True, None),
]

# targets whose callee table differs from the default: inside these bodies a name resolves differently
#   DailyPeriod.from_ymd:  daily_serial_from_ymd -> the checked prelude function (datetime rejects impossible dates)
#   daily_serial_from_ymd itself is translated with the unchecked `_dt.date(...).toordinal` entry (its ValueError is stated
#   separately in the tie theorem).


# =====================================================================================================================
# Structural checks that justify table entries
# =====================================================================================================================

def check_structure(src: Source):
    # module-level contextual ends
    for name, (_, _, (cls, arg)) in MODULE_NAMES.items():
        node = src.find(name)
        ok = (isinstance(node, ast.Call) and isinstance(node.func, ast.Name) and node.func.id == cls and len(node.args) == 1
              and not node.keywords and isinstance(node.args[0], ast.Constant) and node.args[0].value == arg)
        if not ok:
            raise Untranslatable(f"module-level `{name}` is not {cls}(\"{arg}\")")
    # ContextualPeriod: needs_resolve = True, __bool__ -> False, resolve = getattr(context, self._resolve_from) + self._offset
    cp = src.find("ContextualPeriod")
    flat = {ast.unparse(n).replace(" ", "") for n in cp.body}
    if "needs_resolve=True" not in flat:
        raise Untranslatable("ContextualPeriod.needs_resolve is not True")
    want = {"__bool__": "return False", "resolve": "return getattr(context, self._resolve_from) + self._offset",
            "__add__": "return type(self)(self._resolve_from, self._offset + offset)",
            "__sub__": "return type(self)(self._resolve_from, self._offset - offset)"}
    for m, text in want.items():
        fn = src.find("ContextualPeriod", m)
        got = [ast.unparse(s) for s in strip_doc(fn.body)]
        if got != [text]:
            raise Untranslatable(f"ContextualPeriod.{m} is `{'; '.join(got)[:80]}`, the name table assumes `{text}`")
    # Period: needs_resolve = False, __bool__ = not needs_resolve, resolve returns self, __add__/__sub__ as the table says
    want = {"__bool__": ["return not self.needs_resolve"], "resolve": ["return self"],
            "__add__": ["return type(self)(self.serial + int(other))"],
            "__sub__": ["if _is_period(other):\n    return self._sub_period(other)\nelse:\n    return self.__add__(-int(other))"],
            "_sub_period": ["return self.serial - other.serial"]}
    for m, text in want.items():
        fn = src.find("Period", m)
        got = [ast.unparse(s) for s in strip_doc(fn.body)]
        if got != text:
            raise Untranslatable(f"Period.{m} is `{'; '.join(got)[:80]}`, the name table assumes `{'; '.join(text)}`")
    fn = src.find("Period", "_sub_period")
    if [ast.unparse(d) for d in fn.decorator_list] != ["_check_periods_decorator"]:
        raise Untranslatable("Period._sub_period is not decorated with _check_periods_decorator")
    # classes <-> frequencies, PERIOD_CLASS_FROM_FREQUENCY_RESOLUTION
    table = src.find("PERIOD_CLASS_FROM_FREQUENCY_RESOLUTION")
    if not isinstance(table, ast.Dict):
        raise Untranslatable("PERIOD_CLASS_FROM_FREQUENCY_RESOLUTION is not a dict literal")
    entries = {ast.unparse(k): ast.unparse(v) for k, v in zip(table.keys, table.values)}
    for cls, (_, fname) in CLASSES.items():
        node = src.find(cls, "frequency")
        if node is None or ast.unparse(node) != f"Frequency.{fname}":
            raise Untranslatable(f"{cls}.frequency is not Frequency.{fname}")
        if entries.get(f"Frequency.{fname}") != cls:
            raise Untranslatable(f"PERIOD_CLASS_FROM_FREQUENCY_RESOLUTION[Frequency.{fname}] is not {cls}")
        c = src.find(cls)
        nr = [ast.unparse(n.value) for n in c.body if isinstance(n, (ast.Assign, ast.AnnAssign))
              and ast.unparse(n.targets[0] if isinstance(n, ast.Assign) else n.target) == "needs_resolve"]
        if nr != ["False"]:
            raise Untranslatable(f"{cls}.needs_resolve is not False")
    # RegularPeriodMixin.from_year_segment: the "end" keyword, then the generated _serial_from_ysf
    fn = src.find("RegularPeriodMixin", "from_year_segment")
    got = [ast.unparse(s) for s in strip_doc(fn.body)]
    want_body = ["per = per if per != 'end' else klass.frequency.value",
                 "new_serial = _serial_from_ysf(year, per, klass.frequency.value)",
                 "return klass(new_serial)"]
    if got != want_body:
        raise Untranslatable("RegularPeriodMixin.from_year_segment changed: `" + "; ".join(got)[:120] + "`")
    # _check_periods: equality of str(type(.)), IrisPieError otherwise
    fn = src.find("_check_periods")
    got = [ast.unparse(s) for s in strip_doc(fn.body)]
    ok = (len(got) == 3 and got[0] == "if str(type(first)) == str(type(second)):\n    return"
          and got[2] == "raise _wrongdoings.IrisPieError(message)" and got[1].startswith("message = "))
    if not ok or [a.arg for a in fn.args.args] != ["first", "second"]:
        raise Untranslatable("_check_periods changed: `" + "; ".join(got)[:120] + "`")
    fn = src.find("_is_period")
    if [ast.unparse(s) for s in strip_doc(fn.body)] != ["return isinstance(x, Period)"]:
        raise Untranslatable("_is_period changed")
    # aliases the model relies on
    for cls, alias, orig in (("RegularPeriodMixin", "create_boy", "create_soy"), ("Period", "convert", "refrequent"),
                             ("Period", "convert_to_new_freq", "refrequent"), ("Period", "convert_to_new_frequency", "refrequent")):
        node = src.find(cls, alias)
        if not (isinstance(node, ast.Name) and node.id == orig):
            raise Untranslatable(f"{cls}.{alias} is not an alias of {orig}")
    for alias, orig in (("periods_from_to", "periods_from_until"), ("convert_to_new_freq", "refrequent"), ("daters_from_to", "periods_from_to")):
        node = src.find(alias)
        if not (isinstance(node, ast.Name) and node.id == orig):
            raise Untranslatable(f"{alias} is not an alias of {orig}")


# =====================================================================================================================
# The generated file
# =====================================================================================================================

def _table_doc() -> list[str]:
    out = ["NAME TABLE (the trusted part of this tie; tools/gens/dates_stmt.py)", ""]
    out.append("types:      " + "; ".join(f"{k} = {v}" for k, v in TYPES.items()))
    out.append("keywords:   " + "; ".join(f'"{k}" -> {v}' for t in KEYWORDS.values() for k, v in t.items()) + f'; other `by` -> {SHIFTBY_INT} k')
    out.append("attributes: " + "; ".join(f"{show_ty(t)}.{a} -> {tpl.format(x='x')}" for (t, a), (tpl, _) in ATTRS.items()))
    out.append("methods:")
    for (t, m), (params, rt, mon, tpl) in METHODS.items():
        ps = ", ".join(p[0] for p in params)
        out.append(f"  {show_ty(t)}.{m}({ps}) -> {tpl.format(*['<' + p[0] + '>' for p in params], self='x')} : {'R ' if mon else ''}{show_ty(rt)}")
    out.append("functions:")
    for name, ovs in FUNCS.items():
        for params, rt, mon, tpl in ovs:
            ps = ", ".join(f"{p[0]}: {show_ty(p[1])}" for p in params)
            out.append(f"  {name}({ps}) -> {tpl.format(*['<' + p[0] + '>' for p in params])} : {'R ' if mon else ''}{show_ty(rt)}")
    out.append("  type(x)(serial) for a period x -> Period.mk x.freq serial;  type(s)(a, b, step) for a span s -> Span.make (some a) (some b) step")
    out.append("  self._MONTH_DAY_RESOLUTION[position][per] -> mdrGet self.freq position per;  PERIOD_CLASS_FROM_FREQUENCY_RESOLUTION[f] -> f")
    out.append('  from_year_segment(year, "end") -> segment = the class\'s frequency.value (line checked in RegularPeriodMixin.from_year_segment)')
    out.append("operators:")
    for (l, o, r), (rt, mon, tpl) in BINOPS.items():
        out.append(f"  {show_ty(l)} {o} {show_ty(r)} -> {tpl.format(a='a', b='b')} : {'R ' if mon else ''}{show_ty(rt)}")
    out.append("  truth value of a period-like x -> !x.needsResolve; of a list -> !l.isEmpty")
    out.append("module names: " + "; ".join(f"{k} -> {v[0]}" for k, v in MODULE_NAMES.items()) + "; " + "; ".join(f"{k} -> {v[0]}" for k, v in CLASSES.items()))
    out.append("exceptions: " + "; ".join(f"{k} -> {v}" for k, v in EXCEPTIONS.items()) + f"; `return None` of create_tty -> {NONE_RESULT}")
    out.append("receivers:  `self` of RegularPeriodMixin/DailyPeriod/Period methods is a Period (the class is its .freq); of _SpannableMixin")
    out.append("            operators an Endpoint; of __pow__ a Period; classmethods take the class (Freq) as receiver;")
    out.append("            `*args, **kwargs` of refrequent stand for the one `position` argument of to_ymd; Span.__init__ returns (record, needs_resolve);")
    out.append("            in-place Span methods return the updated record; Ranger/Dater subclasses and datetime's own range checks are not represented.")
    return out


def gen_dates_stmt(repo: str) -> str:
    src = Source(repo, DATES_PY)
    check_structure(src)
    out = [HEADER.format(src=DATES_PY), "/-", *_table_doc(), "-/",
           "import IrisVerif.Model.Dates", "import IrisVerif.Model.Spans", "import IrisVerif.Model.DateFormats", "",
           "set_option linter.unusedVariables false", "",
           "namespace IrisVerif.Gen.DatesStmt", "open IrisVerif.Dates", "", PRELUDE]
    generated: set[str] = set()
    for t in TARGETS:
        tr = FnTr(src, t, generated)
        text = tr.translate()
        py = ".".join(t.qual)
        out.append(f"/-- `{py}` (dates.py), translated statement by statement. -/")
        out.append(text)
        generated.add(t.lean)
    out.append("end IrisVerif.Gen.DatesStmt\n")
    return "\n".join(out)


GENERATORS = {
    "DatesStmtGen.lean": (gen_dates_stmt, {"C09", "C11", "C12", "C13"}),
}
