"""
Shared machinery of the /verif checks (see DESIGN.md sections 2-6).

Per property X the flow of `./check X --tier T` is

  1. translator (tools/py2lean.py --only X): regenerate the Lean fragments from /repo's source
  2. lake build of IrisVerif.Props.X and IrisVerif.Driver.<driver of X>
  3. audit: forbidden-token grep + `#print axioms` of every theorem of Props/X.lean
  4. harness/cXX.py: corpus, correspondence (model vs implementation), property oracle on the
     implementation for every case
  5. decision (DESIGN.md section 5), evidence, exit code

Exit codes: 0 property held on everything explored; 1 violation (a VIOLATION line is printed);
2 internal error / timeout (never a VIOLATION line).
"""
from __future__ import annotations

import os, sys, json, time, subprocess, struct, re, tempfile, shutil, traceback, math, fractions, hashlib

VERIF = os.path.dirname(os.path.dirname(os.path.abspath(__file__)))
LEAN_DIR = os.path.join(VERIF, "lean")
REPO = os.environ.get("VERIF_REPO", "/repo")
ALLOWED_AXIOMS = {"propext", "Classical.choice", "Quot.sound"}
FORBIDDEN = re.compile(r"\bsorry\b|\badmit\b|^\s*axiom\s|native_decide|bv_decide|implemented_by|\bunsafe\s|maxHeartbeats\s+0|\bextern\b")

TRUSTED_BASE = [
    "Lean 4.33.0 kernel (thorough tier: leanchecker re-check of the compiled .olean files)",
    "axioms: propext, Classical.choice, Quot.sound only (audited with #print axioms on every run); no sorry, native_decide, bv_decide or own axioms",
    "Mathlib v4.33.0 definitions (Matrix, HasDerivAt, Real.log ...) as the meaning of the statements that use them",
    "tools/py2lean.py (Python-AST -> Lean translator of closed-form fragments) and its name table",
    "harness: generators, canonicalisers, float<->rational conversion, independent oracles, the Lean driver's parsing",
    "CPython, numpy, scipy and irispie's other third-party dependencies as unmodelled execution substrate",
    "the editable install in /venv executes /repo/src (checked at start-up: irispie.__file__)",
]


class InternalError(Exception):
    """Infrastructure failure (exit 2); never reported as a violation."""


# ----------------------------------------------------------------------------------------
# PRNG: one SplitMix64 state per run, forked per case so that a case replays from its sub-seed
# ----------------------------------------------------------------------------------------

MASK = (1 << 64) - 1


class Rng:
    def __init__(self, seed: int):
        self.state = seed & MASK

    def next(self) -> int:
        self.state = (self.state + 0x9E3779B97F4A7C15) & MASK
        z = self.state
        z = ((z ^ (z >> 30)) * 0xBF58476D1CE4E5B9) & MASK
        z = ((z ^ (z >> 27)) * 0x94D049BB133111EB) & MASK
        return z ^ (z >> 31)

    def fork(self, tag: int | str = 0) -> "Rng":
        if isinstance(tag, str):
            tag = int.from_bytes(hashlib.sha256(tag.encode()).digest()[:8], "big")
        return Rng(self.next() ^ (tag * 0x9E3779B97F4A7C15 & MASK))

    def randint(self, a: int, b: int) -> int:
        """uniform in [a, b]"""
        return a + self.next() % (b - a + 1)

    def random(self) -> float:
        return (self.next() >> 11) / float(1 << 53)

    def chance(self, p: float) -> bool:
        return self.random() < p

    def choice(self, seq):
        return seq[self.next() % len(seq)]

    def weighted(self, pairs):
        """pairs: [(item, weight)]"""
        tot = sum(w for _, w in pairs)
        x = self.random() * tot
        for it, w in pairs:
            x -= w
            if x < 0:
                return it
        return pairs[-1][0]

    def shuffle(self, lst):
        for i in range(len(lst) - 1, 0, -1):
            j = self.next() % (i + 1)
            lst[i], lst[j] = lst[j], lst[i]
        return lst

    def sample(self, seq, k):
        lst = list(seq)
        self.shuffle(lst)
        return lst[:k]

    def dyadic(self, lo=-8, hi=8, bits=3) -> float:
        """small dyadic rational k / 2**bits in [lo, hi]: + - * of a few of these are exact in IEEE double"""
        return self.randint(lo * (1 << bits), hi * (1 << bits)) / float(1 << bits)


# ----------------------------------------------------------------------------------------
# float <-> exact rational text
# ----------------------------------------------------------------------------------------

def rat_of_float(x) -> str:
    """exact value of a float as `num/den`, `nan` for NaN; infinities are `inf`/`-inf`"""
    x = float(x)
    if x != x:
        return "nan"
    if x in (float("inf"), float("-inf")):
        return "inf" if x > 0 else "-inf"
    n, d = x.as_integer_ratio()
    return f"{n}/{d}" if d != 1 else f"{n}"


def frac_of_text(s: str):
    if s in ("nan", "inf", "-inf"):
        return s
    return fractions.Fraction(s)


def float_bits(x: float) -> int:
    return struct.unpack("<Q", struct.pack("<d", float(x)))[0]


# ----------------------------------------------------------------------------------------
# Lean side
# ----------------------------------------------------------------------------------------

def _run(cmd, timeout, cwd=None, stdin=None, env=None):
    try:
        p = subprocess.run(cmd, cwd=cwd, stdin=stdin, stdout=subprocess.PIPE, stderr=subprocess.STDOUT,
                           timeout=timeout, env=env, text=True)
        return p.returncode, p.stdout
    except subprocess.TimeoutExpired as e:
        raise InternalError(f"timeout after {timeout}s: {' '.join(cmd)[:200]}")


def strip_lean_comments(text: str) -> str:
    # nested block comments /- ... -/ and line comments --
    out, i, depth, n = [], 0, 0, len(text)
    while i < n:
        if text.startswith("/-", i):
            depth += 1; i += 2; continue
        if depth and text.startswith("-/", i):
            depth -= 1; i += 2; continue
        if depth:
            if text[i] == "\n": out.append("\n")
            i += 1; continue
        if text.startswith("--", i):
            j = text.find("\n", i)
            i = n if j < 0 else j
            continue
        out.append(text[i]); i += 1
    return "".join(out)


def lean_sources():
    for root, _, files in os.walk(os.path.join(LEAN_DIR, "IrisVerif")):
        for f in files:
            if f.endswith(".lean"):
                yield os.path.join(root, f)


def import_closure(modules: list[str]) -> list[str]:
    """source files of the IrisVerif modules reachable from `modules` through `import IrisVerif.…` lines"""
    seen, todo = {}, list(modules)
    while todo:
        m = todo.pop()
        if m in seen:
            continue
        path = os.path.join(LEAN_DIR, *m.split(".")) + ".lean"
        if not os.path.exists(path):
            continue
        seen[m] = path
        for line in strip_lean_comments(open(path).read()).split("\n"):
            mm = re.match(r"\s*(?:public\s+)?import\s+(IrisVerif\.\S+)", line)
            if mm:
                todo.append(mm.group(1))
    return sorted(seen.values())


def grep_forbidden(modules: list[str] | None = None) -> list[str]:
    """forbidden tokens in the Lean sources this property depends on (its Props/bridge/driver modules and everything they
    import); a use of `sorry` anywhere in that closure is also caught independently by the axiom audit (sorryAx)"""
    hits = []
    for path in (import_closure(modules) if modules else lean_sources()):
        body = strip_lean_comments(open(path).read())
        for ln, line in enumerate(body.split("\n"), 1):
            if FORBIDDEN.search(line):
                hits.append(f"{os.path.relpath(path, LEAN_DIR)}:{ln}: {line.strip()[:100]}")
    return hits


def theorems_of(props_file: str) -> list[str]:
    """fully qualified names of every `theorem` in a Props file (namespaces tracked line by line)"""
    text = strip_lean_comments(open(props_file).read())
    ns: list[str] = []
    names = []
    for line in text.split("\n"):
        m = re.match(r"\s*namespace\s+(\S+)", line)
        if m:
            ns.append(m.group(1)); continue
        m = re.match(r"\s*end\s+(\S+)\s*$", line)
        if m and ns and ns[-1] == m.group(1):
            ns.pop(); continue
        m = re.match(r"\s*(?:@\[[^\]]*\]\s*)?(?:private\s+|protected\s+)?theorem\s+(\S+)", line)
        if m:
            names.append(".".join(ns + [m.group(1)]))
    return names


class Lean:
    def __init__(self, prop: str, drivers: list[str], log, extra_props: list[str] | None = None):
        self.prop, self.drivers, self.log = prop, drivers, log
        self.extra_props = list(extra_props or [])   # further Props modules (e.g. QMatBridge) built and audited with this property
        self.broken: list[str] = []       # named ties that no longer check
        self.model_ok = False
        self.theorems: list[str] = []
        self.discharged: list[str] = []
        self.axioms_seen: set[str] = set()
        self.build_s = 0.0

    def translate(self):
        rc, out = _run([sys.executable, os.path.join(VERIF, "tools", "py2lean.py"), "--repo", REPO, "--only", self.prop], 300)
        for line in out.strip().split("\n"):
            if line.startswith("UNTRANSLATABLE"):
                self.broken.append("translator: " + line)
            if line.strip():
                self.log("  " + line)
        if rc not in (0, 3):
            raise InternalError("py2lean.py crashed:\n" + out)

    def build(self):
        t0 = time.time()
        props_mod = f"IrisVerif.Props.{self.prop}"
        drv_mods = [f"IrisVerif.Driver.{d}" for d in self.drivers]
        # the drivers (models) first, on their own, so that a broken proof does not take the model down with it
        rc, out = _run(["lake", "build"] + drv_mods, 2400, cwd=LEAN_DIR)
        self.model_ok = rc == 0
        if rc != 0:
            self.broken.append("model build: " + first_error(out))
            self.log(tail(out, 30))
        rc, out = _run(["lake", "build", props_mod] + [f"IrisVerif.Props.{x}" for x in self.extra_props], 3000, cwd=LEAN_DIR)
        self.props_ok = rc == 0
        if rc != 0:
            self.broken.append("theorem build: " + first_error(out))
            self.log(tail(out, 40))
        self.build_s = time.time() - t0

    def audit(self):
        props_file = os.path.join(LEAN_DIR, "IrisVerif", "Props", f"{self.prop}.lean")
        self.theorems = theorems_of(props_file)
        if not self.theorems:
            raise InternalError(f"no theorems found in {props_file}")
        for x in self.extra_props:
            self.theorems += theorems_of(os.path.join(LEAN_DIR, "IrisVerif", "Props", f"{x}.lean"))
        hits = grep_forbidden([f"IrisVerif.Props.{x}" for x in [self.prop] + self.extra_props] + [f"IrisVerif.Driver.{d}" for d in self.drivers])
        if hits:
            self.broken.append("forbidden token in Lean sources: " + "; ".join(hits[:5]))
        if not self.props_ok:
            return
        src = f"import IrisVerif.Props.{self.prop}\n" + "".join(f"import IrisVerif.Props.{x}\n" for x in self.extra_props) + "".join(f"#print axioms {t}\n" for t in self.theorems)
        d = tempfile.mkdtemp(prefix="verif-audit-")
        try:
            f = os.path.join(d, "Audit.lean")
            open(f, "w").write(src)
            rc, out = _run(["lake", "env", "lean", f], 900, cwd=LEAN_DIR)
        finally:
            shutil.rmtree(d, ignore_errors=True)
        if rc != 0:
            self.broken.append("audit: " + first_error(out))
            self.log(tail(out, 20))
            return
        flat = re.sub(r"\s+", " ", out)
        for t in self.theorems:
            m = re.search(r"'" + re.escape(t) + r"' (does not depend on any axioms|depends on axioms: \[([^\]]*)\])", flat)
            if not m:
                self.broken.append(f"audit: no axiom report for {t}")
                continue
            axs = set(a.strip() for a in (m.group(2) or "").split(",") if a.strip())
            self.axioms_seen |= axs
            bad = axs - ALLOWED_AXIOMS
            if bad:
                self.broken.append(f"audit: {t} depends on {sorted(bad)}")
            else:
                self.discharged.append(t)

    def leanchecker(self):
        mods = [f"IrisVerif.Props.{self.prop}"] + [f"IrisVerif.Props.{x}" for x in self.extra_props]
        rc, out = _run(["lake", "env", "leanchecker"] + mods, 3000, cwd=LEAN_DIR)
        if rc != 0:
            self.broken.append("leanchecker: " + tail(out, 5))
        return rc == 0

    def run_driver(self, driver: str, lines: list[str], timeout=1800) -> list[str] | None:
        """pipe request lines through `lake env lean --run IrisVerif/Driver/<driver>.lean`; None when the model does not build"""
        if not self.model_ok:
            return None
        if not lines:
            return []
        d = tempfile.mkdtemp(prefix="verif-drv-")
        try:
            fin = os.path.join(d, "in.txt")
            with open(fin, "w") as f:
                f.write("\n".join(lines) + "\n")
            with open(fin) as f:
                p = subprocess.run(["lake", "env", "lean", "--run", f"IrisVerif/Driver/{driver}.lean"], cwd=LEAN_DIR,
                                   stdin=f, stdout=subprocess.PIPE, stderr=subprocess.PIPE, text=True, timeout=timeout)
        except subprocess.TimeoutExpired:
            raise InternalError(f"Lean driver {driver} timed out after {timeout}s on {len(lines)} lines")
        finally:
            shutil.rmtree(d, ignore_errors=True)
        if p.returncode != 0:
            raise InternalError(f"Lean driver {driver} failed (rc={p.returncode}): {p.stderr[-2000:]}{p.stdout[-500:]}")
        out = p.stdout.split("\n")
        if out and out[-1] == "":
            out.pop()
        if len(out) != len(lines):
            raise InternalError(f"Lean driver {driver}: {len(lines)} requests but {len(out)} replies")
        return out


def first_error(out: str) -> str:
    for line in out.split("\n"):
        if "error" in line:
            msg = line.strip()[:300]
            m = re.search(r"(IrisVerif/\S+\.lean):(\d+):", line)
            if m:
                decl = enclosing_decl(os.path.join(LEAN_DIR, m.group(1)), int(m.group(2)))
                if decl:
                    msg = f"in `{decl}`: " + msg
            return msg
    return tail(out, 3)


def enclosing_decl(path: str, lineno: int) -> str | None:
    try:
        lines = open(path).read().split("\n")
    except OSError:
        return None
    for i in range(min(lineno, len(lines)) - 1, -1, -1):
        m = re.match(r"\s*(?:@\[[^\]]*\]\s*)?(?:private\s+|protected\s+|noncomputable\s+)*(theorem|lemma|def|example|instance|abbrev)\s+(\S+)?", lines[i])
        if m:
            return f"{m.group(1)} {m.group(2) or ''}".strip()
    return None


def tail(s: str, n: int) -> str:
    return "\n".join(s.rstrip().split("\n")[-n:])


# ----------------------------------------------------------------------------------------
# Run context handed to the property modules
# ----------------------------------------------------------------------------------------

class Ctx:
    def __init__(self, prop: str, tier: str, seed: int, lean: Lean | None, log):
        self.prop, self.tier, self.seed, self.lean, self.log = prop, tier, seed, lean, log
        self.rng = Rng(seed * 1000003 + int(prop[1:]))
        self.counts: dict[str, int] = {}
        self.samples: list = []
        self.nontrivial: set = set()
        self.evaluations = 0
        self.disagreements: list[dict] = []   # correspondence: model != implementation
        self.failures: list[dict] = []        # property oracle fails on the implementation
        self.exhaustive = False
        self.rule = ""
        self.extra: dict = {}
        self.assumptions: list[str] = []
        self.streams_compared: dict[str, int] = {}

    @property
    def quick(self) -> bool:
        return self.tier == "quick"

    def n(self, quick: int, thorough: int) -> int:
        return quick if self.quick else thorough

    def count(self, key: str, k: int = 1):
        self.counts[key] = self.counts.get(key, 0) + k

    def sample(self, case, limit=6):
        if len(self.samples) < limit:
            self.samples.append(case)

    def nontriv(self, key):
        self.nontrivial.add(key if isinstance(key, (str, int, tuple)) else json.dumps(key, sort_keys=True, default=str))

    def model(self, driver: str, lines: list[str]) -> list[str] | None:
        if self.lean is None:
            return None
        return self.lean.run_driver(driver, lines)

    def disagree(self, stream: str, case, impl, model):
        self.disagreements.append({"stream": stream, "case": case, "impl": impl, "model": model})

    def fail(self, site: str, case, detail: str):
        """the property itself fails on the real code for `case`; `site` is the stable key used by known_findings.json"""
        self.failures.append({"site": site, "case": case, "detail": detail})

    def compare(self, stream: str, cases: list, impl_out: list[str], model_out: list[str] | None):
        """line-by-line exact comparison of canonical outputs"""
        if model_out is None:
            return
        self.streams_compared[stream] = self.streams_compared.get(stream, 0) + len(cases)
        for c, a, b in zip(cases, impl_out, model_out):
            if a != b:
                if len([d for d in self.disagreements if d["stream"] == stream]) < 25:
                    self.disagree(stream, c, a, b)
                else:
                    self.count(f"disagreements_not_listed:{stream}")


def err_kind(e: BaseException) -> str:
    """map implementation exceptions to the small enum of the models"""
    name = type(e).__name__
    msg = str(e)
    if name in ("IrisPieError", "IrisPieCritical") and "different time frequencies" in msg:
        return "err:mixed"
    return "err:bad"


# ----------------------------------------------------------------------------------------
# known findings
# ----------------------------------------------------------------------------------------

def load_known(prop: str):
    path = os.path.join(VERIF, "known_findings.json")
    if not os.path.exists(path):
        return []
    data = json.load(open(path))
    return [f for f in data.get("findings", []) if f.get("property") == prop]


# ----------------------------------------------------------------------------------------
# main entry
# ----------------------------------------------------------------------------------------

def write_replay(prop, seed, idx, payload) -> str:
    d = os.path.join(VERIF, "replays")
    os.makedirs(d, exist_ok=True)
    path = os.path.join(d, f"{prop}-seed{seed}-{idx}.json")
    with open(path, "w") as f:
        json.dump(payload, f, indent=1, default=str)
    return path


def run_check(prop: str, tier: str, replay: str | None, module) -> int:
    t0 = time.time()
    seed = int(os.environ.get("VERIF_SEED", "0") or 0)
    logs: list[str] = []

    def log(msg):
        print(msg, flush=True)

    import irispie  # noqa
    impl_file = os.path.realpath(irispie.__file__)
    want = os.path.realpath(os.path.join(REPO, "src", "irispie", "__init__.py"))
    if impl_file != want:
        raise InternalError(f"irispie is imported from {impl_file}, not from {want}")

    # watchdog: a run that does not finish (a LAPACK routine that never returns on non-finite input has been seen once while the
    # checks were being built) ends as an internal error (exit 2, "timeouts are exit 2"), never as a silent hang
    import threading
    limit = int(os.environ.get("VERIF_TIMEOUT_S") or (1800 if tier == "quick" else 7200))

    def _watchdog():
        print(f"INTERNAL-ERROR property={prop}: no result after {limit}s (watchdog)", flush=True)
        os._exit(2)
    _timer = threading.Timer(limit, _watchdog)
    _timer.daemon = True
    _timer.start()

    level = getattr(module, "LEVEL", "proof")
    drivers = getattr(module, "DRIVERS", [prop])
    lean = Lean(prop, drivers, log, getattr(module, "EXTRA_PROPS", None))
    log(f"[{prop}] tier={tier} seed={seed}")
    lean.translate()
    lean.build()
    lean.audit()
    checker_ok = None
    if tier == "thorough" and lean.props_ok and not os.environ.get("VERIF_SKIP_LEANCHECKER"):
        checker_ok = lean.leanchecker()
    log(f"[{prop}] lean: {len(lean.discharged)}/{len(lean.theorems)} theorems audited, model_ok={lean.model_ok}, "
        f"broken={lean.broken} ({lean.build_s:.1f}s build)")

    ctx = Ctx(prop, tier, seed, lean, log)
    # An exception inside the harness while it digests the implementation's output (a NaN where the oracle converts to a
    # rational, a shape the comparison code does not expect, an exception class of irispie the stream does not map ...) means
    # the correspondence between model and code could not be established on that input: it is handled like any other broken
    # tie (failures recorded so far are used, otherwise the failing-input search runs) instead of ending the check with exit 2.
    # InternalError (the machinery itself is broken: Lean driver crashed, wrong irispie imported) still propagates.
    try:
        if replay:
            payload = json.load(open(replay))
            module.replay(ctx, payload)
        else:
            module.run(ctx)
    except InternalError:
        raise
    except Exception as e:
        import traceback
        tb = traceback.extract_tb(e.__traceback__)
        where = next((f"{os.path.basename(fr.filename)}:{fr.lineno} in {fr.name}" for fr in reversed(tb) if "/harness/" in fr.filename), "?")
        log(f"[{prop}] harness raised {type(e).__name__}: {str(e)[:300]} at {where}")
        log("".join(traceback.format_exception(e))[-1500:])
        lean.broken.append(f"correspondence: harness raised {type(e).__name__}({str(e)[:200]}) at {where} while checking the implementation's output")

    # ---- decision -------------------------------------------------------------------
    known = load_known(prop)
    known_sites = {k["site"]: k for k in known}
    violations: list[str] = []
    printed_known = set()
    idx = 0
    new_fail_sites = {}
    for f in ctx.failures:
        if f["site"] in known_sites:
            if f["site"] not in printed_known:
                printed_known.add(f["site"])
                log(f"KNOWN-FINDING: property={prop} {known_sites[f['site']]['what']}")
            continue
        new_fail_sites.setdefault(f["site"], f)
    for site, f in new_fail_sites.items():
        idx += 1
        path = write_replay(prop, seed, idx, {"property": prop, "kind": "property-fails-on-implementation", "site": site,
                                              "case": f["case"], "detail": f["detail"], "seed": seed, "tier": tier})
        violations.append(f"VIOLATION property={prop} replay={path}")
    tie_broken = list(lean.broken)
    for stream in sorted(set(d["stream"] for d in ctx.disagreements)):
        ds = [d for d in ctx.disagreements if d["stream"] == stream]
        tie_broken.append(f"correspondence stream `{stream}`: {len(ds)} disagreement(s), first: case={json.dumps(ds[0]['case'], default=str)[:300]} impl={str(ds[0]['impl'])[:200]} model={str(ds[0]['model'])[:200]}")
    if tie_broken and not new_fail_sites:
        # a broken tie is not by itself a violation: search the real code for a failing input (bigger budget, seeded by the disagreements)
        found = None
        if hasattr(module, "search"):
            sctx = Ctx(prop, tier, seed, None, log)
            # the search is best-effort and capped (a broken tie must not turn the check into a timeout): whatever oracle
            # failures were recorded before the cap are used
            import signal
            cap = int(getattr(module, "SEARCH_CAP_S", 120 if tier == "quick" else 300))

            class _SearchTimeout(Exception):
                pass

            def _on_alarm(signum, frame):
                raise _SearchTimeout()
            old_handler = signal.signal(signal.SIGALRM, _on_alarm)
            signal.alarm(cap)
            try:
                module.search(sctx, [d["case"] for d in ctx.disagreements])
            except _SearchTimeout:
                log(f"[{prop}] search stopped after {cap}s (cap)")
            except Exception as e:
                log(f"[{prop}] search raised {e!r}")
            finally:
                signal.alarm(0)
                signal.signal(signal.SIGALRM, old_handler)
            for f in sctx.failures:
                if f["site"] not in known_sites:
                    found = f
                    break
        idx += 1
        if found:
            path = write_replay(prop, seed, idx, {"property": prop, "kind": "property-fails-on-implementation", "site": found["site"],
                                                  "case": found["case"], "detail": found["detail"], "seed": seed, "tier": tier,
                                                  "broken_ties": tie_broken})
            violations.append(f"VIOLATION property={prop} replay={path}")
        else:
            path = write_replay(prop, seed, idx, {"property": prop, "kind": "tie-no-longer-checks", "broken_ties": tie_broken,
                                                  "disagreements": ctx.disagreements[:10], "seed": seed, "tier": tier})
            violations.append(f"VIOLATION property={prop} replay={path} no-failing-input-found")
    elif tie_broken:
        for v in tie_broken:
            log(f"[{prop}] tie no longer checks: {v}")

    # ---- evidence -------------------------------------------------------------------
    wall = time.time() - t0
    cov = {
        "evaluations": ctx.evaluations,
        "distinct_nontrivial": len(ctx.nontrivial),
        "rule": ctx.rule,
        "samples": ctx.samples[:8],
        "obligations": len(lean.theorems),
        "discharged": len(lean.discharged),
        "checker_cmd": f"cd {LEAN_DIR} && lake build " + " ".join(f"IrisVerif.Props.{x}" for x in [prop] + lean.extra_props)
                       + " && lake env lean <generated file with `#print axioms` for every theorem of those modules>"
                       + ((" && lake env leanchecker " + " ".join(f"IrisVerif.Props.{x}" for x in [prop] + lean.extra_props)) if tier == "thorough" else ""),
        "trusted_base": TRUSTED_BASE,
        "theorems": lean.theorems,
        "axioms_seen": sorted(lean.axioms_seen),
        "leanchecker_ok": checker_ok,
        "traces_validated_against_impl": sum(ctx.streams_compared.values()),
        "correspondence_streams": ctx.streams_compared,
        "disagreements_checked": len(ctx.disagreements),
        "input_distribution": dict(sorted(ctx.counts.items())),
        "exhaustive": ctx.exhaustive,
        "known_findings_hit": sorted(printed_known),
        "broken_ties": tie_broken,
    }
    if level == "translation_validation":
        cov["programs"] = ctx.extra.get("programs", ctx.evaluations)
    cov.update(ctx.extra)
    ev = {
        "property_id": prop, "tier": tier, "seed": seed, "level": level, "coverage": cov,
        "assumptions": ctx.assumptions + getattr(module, "ASSUMPTIONS", []),
        "wall_s": round(wall, 2), "violations": len(violations),
    }
    evidence_dir = os.environ.get("VERIF_EVIDENCE_DIR") or os.path.join(VERIF, "evidence")   # sweeps write elsewhere
    os.makedirs(evidence_dir, exist_ok=True)
    with open(os.path.join(evidence_dir, f"{prop}.json"), "w") as f:
        json.dump(ev, f, indent=1, default=str)
    for v in violations:
        print(v, flush=True)
    log(f"[{prop}] evaluations={ctx.evaluations} distinct_nontrivial={len(ctx.nontrivial)} "
        f"disagreements={len(ctx.disagreements)} failures={len(ctx.failures)} wall={wall:.1f}s -> {'VIOLATION' if violations else 'ok'}")
    return 1 if violations else 0
