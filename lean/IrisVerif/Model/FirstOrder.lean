/-
Executable model of irispie's first-order machinery (property C01), over exact rationals (`QMat`):

* `fords/descriptors.py`: the stacked system vector (tokens `min+1 … max` per variable, sorted leads first),
  the solution vector (system vector minus the leads), `true_initials`, the dynamic identities;
* the **certificate**: from the unsolved system `A ζ[t] + B ζ[t-1] + C + D u[t] = 0` and the solution matrices
  `T K P X J Ru` the residual-identity matrices `E1 E2 E3`, the anticipated ones `E4_1 … E4_smax` and the tail
  matrix `W`, derived from the lead structure of the token vector (any lead depth);
* `fords/solutions.py: _get_solution_expansion`, `fords/shock_simulators.py` (impact of anticipated shocks),
  `fords/simulators.py: simulate_flat`, `_simulate_measurement`, `create_deviation_solution`,
  `frames.py` (single frame / split frames, prune, write-back) and the frame loop of `simultaneous/_simulate.py`.

Log-variables: the model works on the transformed data (the harness applies log / exp: abstract inverse pair).
No Mathlib import: this file is interpreted by the driver.
-/
import IrisVerif.Model.QMat

namespace IrisVerif.FirstOrder

open IrisVerif

/-! ## Tokens and the vectors of `descriptors.py` -/

structure Token where
  qid : Nat
  shift : Int
  deriving DecidableEq, Repr, BEq, Inhabited

def dedup (l : List Token) : List Token :=
  l.foldl (fun acc t => if acc.contains t then acc else acc ++ [t]) []

def qidsOf (l : List Token) : List Nat :=
  (l.map (·.qid)).foldl (fun acc q => if acc.contains q then acc else acc ++ [q]) []

def shiftsOf (l : List Token) (q : Nat) : List Int := (l.filter (·.qid == q)).map (·.shift)

def minOf (l : List Int) (d : Int) : Int := l.foldl (fun m x => if x < m then x else m) (l.headD d)
def maxOf (l : List Int) (d : Int) : Int := l.foldl (fun m x => if m < x then x else m) (l.headD d)

/-- `sort_tokens`: by `(-shift, qid)` (insertion sort; tokens are distinct, so the order is unique) -/
def tokenLe (a b : Token) : Bool := a.shift > b.shift || (a.shift == b.shift && a.qid ≤ b.qid)

def insertSorted (t : Token) : List Token → List Token
  | [] => [t]
  | x :: xs => if tokenLe t x then t :: x :: xs else x :: insertSorted t xs

def sortTokens (l : List Token) : List Token := l.foldr insertSorted []

/-- integers `lo, lo+1, …, hi` -/
def intRange (lo hi : Int) : List Int := (List.range (hi + 1 - lo).toNat).map (fun (k : Nat) => lo + Int.ofNat k)

/-- `_adjust_for_measurement_equations` + `_create_system_transition_vector` + `sort_tokens`:
`actual` = transition-variable tokens occurring in any equation plus the zero-shift token of every transition variable,
`meas` = those occurring in measurement equations. -/
def systemVector (actual meas : List Token) : List Token :=
  let adjusted := dedup (actual ++ meas.map (fun t => ⟨t.qid, t.shift - 1⟩))
  let toks := (qidsOf adjusted).flatMap fun q =>
    let sh := shiftsOf adjusted q
    let lo := (fun m => if m < -1 then m else -1) (minOf sh 0)
    let hi := maxOf sh 0
    (intRange (lo + 1) hi).map (fun s => (⟨q, s⟩ : Token))
  sortTokens toks

def numForwards (sysvec : List Token) : Nat := (sysvec.filter (fun t => t.shift > 0)).length

/-- `populate_true_initials`: `(q, s)` is a true initial condition iff `min_shift(q) ≤ s - 1 < 0` over the ACTUAL tokens -/
def trueInitials (actual sysvec : List Token) : List Bool :=
  sysvec.map fun t =>
    let m := minOf (shiftsOf actual t.qid) 0
    decide (m ≤ t.shift - 1) && decide (t.shift - 1 < 0)

def solutionVector (sysvec : List Token) : List Token := sysvec.drop (numForwards sysvec)

def indexOf? (l : List Token) (t : Token) : Option Nat :=
  let i := l.findIdx (· == t)
  if i < l.length then some i else none

/-- `_create_dynid_matrices`: for every token that is not the maximum shift of its variable one row
`ζ[t](q,s) - ζ[t-1](q,s+1) = 0`; returned as the list of `(column of +1 in A, column of -1 in B)` in row order -/
def dynidPairs (sysvec : List Token) : List (Nat × Nat) :=
  (sysvec.zipIdx).filterMap fun (t, i) =>
    let mx := maxOf (shiftsOf sysvec t.qid) 0
    if t.shift == mx then none else
      match indexOf? sysvec ⟨t.qid, t.shift + 1⟩ with
      | some j => some (i, j)
      | none => none

/-- positions (in the solution vector) of the current-dated tokens, with their qids: `get_curr_transition_indexes` -/
def currIndexes (solvec : List Token) : List (Nat × Nat) :=
  (solvec.zipIdx).filterMap fun (t, i) => if t.shift == 0 then some (t.qid, i) else none

/-! ## Lead structure and the residual certificate -/

structure LeadStruct where
  nf : Nat
  nb : Nat
  sh : Array Nat          -- depth of every lead token
  src : Array Nat         -- position in the solution vector of the zero-shift token of the same variable
  smax : Nat
  deriving Repr

def leadStruct (sysvec : List Token) : Option LeadStruct := do
  let nf := numForwards sysvec
  let sol := solutionVector sysvec
  let leads := sysvec.take nf
  let src ← leads.mapM (fun t => indexOf? sol ⟨t.qid, 0⟩)
  let sh := leads.map (fun t => t.shift.toNat)
  pure ⟨nf, sol.length, sh.toArray, src.toArray, sh.foldl max 0⟩

/-- rows of the stacked system on which the residual identity is claimed: the `ne` genuine equations and the lag
identities `(q,s)`, `s ≤ -1` (they read `ζ[t-1]` in its `ξ` part only). The lead identities `s ≥ 0` hold in expectation
only (they *define* the lead read) and are not rows of the claim. -/
def claimRows (sysvec : List Token) (ne : Nat) : List Nat :=
  let nonMax := sysvec.filter fun t => !(t.shift == maxOf (shiftsOf sysvec t.qid) 0)
  (List.range ne) ++ ((nonMax.zipIdx).filterMap fun (t, k) => if t.shift ≤ -1 then some (ne + k) else none)

def powers (T : QMat) (n : Nat) : Array QMat :=
  (List.range n).foldl (fun acc _ => acc.push (acc.back! * T)) #[QMat.identity T.rows]

/-- `𝓛_a(Y)`: row `i` is row `src i` of `T^(sh i - a) · Y` when `1 ≤ a ≤ sh i`, zero otherwise -/
def leadRows (ls : LeadStruct) (Tp : Array QMat) (a : Nat) (Y : QMat) : QMat :=
  let prods := Tp.map (· * Y)
  QMat.ofFn ls.nf Y.cols fun i j =>
    let s := ls.sh.getD i 0
    if 1 ≤ a ∧ a ≤ s then (prods.getD (s - a) (QMat.zero 0 0)).get (ls.src.getD i 0) j else 0

structure System where
  A : QMat
  B : QMat
  C : QMat      -- column
  D : QMat
  deriving Repr

structure Solution where
  T : QMat
  K : QMat      -- column
  P : QMat
  X : QMat
  J : QMat
  Ru : QMat
  deriving Repr

structure Certificate where
  bLead : QMat            -- B on the claimed rows, lead columns: must be exactly zero
  E1 : QMat
  E2 : QMat
  E3 : QMat
  E4 : List QMat          -- E4_1 … E4_smax
  W : QMat
  scale : Rat

def colsFrom (a : QMat) (c0 : Nat) : QMat := a.block 0 a.rows c0 a.cols
def colsTo (a : QMat) (c1 : Nat) : QMat := a.block 0 a.rows 0 c1

def certificate (sysvec : List Token) (ne : Nat) (sys : System) (sol : Solution) : Option Certificate := do
  let ls ← leadStruct sysvec
  let rows := claimRows sysvec ne
  let A := sys.A.selectRows rows
  let B := sys.B.selectRows rows
  let C := sys.C.selectRows rows
  let D := sys.D.selectRows rows
  let Af := colsTo A ls.nf
  let Ab := colsFrom A ls.nf
  let Bf := colsTo B ls.nf
  let Bb := colsFrom B ls.nf
  let Tp := powers sol.T ls.smax
  -- L: row i = row (src i) of T^(sh i);   lK: row i = row (src i) of (1 + T + … + T^(sh i - 1)) K
  let L := QMat.ofFn ls.nf ls.nb fun i j => (Tp.getD (ls.sh.getD i 0) (QMat.zero 0 0)).get (ls.src.getD i 0) j
  let geomK : Array QMat := (List.range ls.smax).foldl (fun acc k => acc.push (acc.back! + (Tp.getD k (QMat.zero 0 0)) * sol.K))
      #[QMat.zero ls.nb 1]
  let lK := QMat.ofFn ls.nf 1 fun i _ => (geomK.getD (ls.sh.getD i 0) (QMat.zero 0 0)).get (ls.src.getD i 0) 0
  let M := Af * L + Ab
  let E1 := M * sol.T + Bb
  let E2 := M * sol.K + Af * lK + C
  let E3 := M * sol.P + D
  -- anticipated part: V_0 = -M X;  E4_a = Af 𝓛_a(P) + V_(a-1) Ru;  V_a = V_(a-1) J - Af 𝓛_a(X);  W = V_smax
  let (V, E4) := (List.range ls.smax).foldl (fun (VE : QMat × List QMat) k =>
      let a := k + 1
      let e4 := Af * leadRows ls Tp a sol.P + VE.1 * sol.Ru
      let v := VE.1 * sol.J - Af * leadRows ls Tp a sol.X
      (v, VE.2 ++ [e4])) (-(M * sol.X), [])
  let scale := [sys.A, sys.B, sys.C, sys.D, sol.T, sol.K, sol.P, sol.X, sol.J, sol.Ru].foldl
      (fun m a => if m < a.maxAbs then a.maxAbs else m) 1
  pure ⟨Bf, E1, E2, E3, E4, V, scale⟩

/-! ## Stability certificate -/

def absR (x : Rat) : Rat := if x < 0 then -x else x

/-- maximum absolute row sum -/
def infNorm (a : QMat) : Rat :=
  a.data.foldl (fun m r => let s := r.foldl (fun s x => s + absR x) 0; if m < s then s else m) 0

/-- `T^(2^k)` by repeated squaring -/
def powTwo (T : QMat) : Nat → QMat
  | 0 => T
  | k + 1 => let p := powTwo T k; p * p

/-- the certificate `‖T^(2^k)‖∞ < 1` -/
def stableCert (T : QMat) (k : Nat) : Bool := decide (infNorm (powTwo T k) < 1)

/-! ## Square / triangular consistency (`_square_from_triangular`) -/

/-- max-abs of `T Ua - Ua Ta`, `P - Ua Pa`, `K - Ua Ka`, `X - Ua Xa`, and the scale of the inputs -/
def squareTriangularResiduals (T Ua Ta P Pa K Ka X Xa : QMat) : Rat × Rat × Rat × Rat × Rat :=
  let scale := [T, Ua, Ta, P, Pa, K, Ka, X, Xa].foldl (fun m a => if m < a.maxAbs then a.maxAbs else m) 1
  ((T * Ua - Ua * Ta).maxAbs, (P - Ua * Pa).maxAbs, (K - Ua * Ka).maxAbs, (X - Ua * Xa).maxAbs, scale)

/-! ## Forward expansion and the impact of anticipated shocks -/

/-- `_get_solution_expansion`: `[R_0, …, R_forward]`, `R_0 = P`, `R_k = -X J^(k-1) Ru` -/
def expansion (P X J Ru : QMat) (forward : Nat) : Array QMat :=
  let Jp := powers J forward
  #[P] ++ (Array.range forward).map (fun k => -(X * (Jp.getD k (QMat.zero 0 0)) * Ru))

def colOf (a : QMat) (t : Nat) : QMat := a.block 0 a.rows t (t + 1)

def colIsZero (a : QMat) (t : Nat) : Bool := (colOf a t).isZero

/-- `_simulate_anticipated_shock_values`: per data column the sum `Σ_k R_k v[:, t+k]` up to the last non-zero
anticipated column of the frame (`none` outside the frame or when the frame has no anticipated shock) -/
def antImpact (sol : Solution) (v : QMat) (first last ncols : Nat) : Array (Option QMat) :=
  let none_ : Array (Option QMat) := Array.replicate ncols none
  if v.rows == 0 then none_ else
  let cols := (List.range (last + 1 - first)).map (· + first)
  let inc := cols.map (fun t => !colIsZero v t)
  if !inc.any id then none_ else
  let forward := (inc.length - 1) - (inc.reverse.findIdx id)
  let Rx := expansion sol.P sol.X sol.J sol.Ru forward
  let lastAnt := first + forward
  cols.foldl (fun imp t =>
    let s := (List.range (lastAnt + 1 - t)).foldl
      (fun acc k => acc + (Rx.getD k (QMat.zero 0 0)) * colOf v (t + k)) (QMat.zero sol.T.rows 1)
    imp.setIfInBounds t (some s)) none_

/-! ## `simulate_flat`, measurement, frames -/

structure MeasSol where
  Z : QMat
  H : QMat
  D : QMat      -- column
  deriving Repr

structure Data where
  x : QMat      -- transition variables (row = qid), all data columns, transformed space
  u : QMat      -- unanticipated transition shocks
  v : QMat      -- anticipated shock values
  w : QMat      -- measurement shocks
  y : QMat      -- measurement variables
  deriving Repr

def setCol (a : QMat) (rowsIdx : List (Nat × Nat)) (t : Nat) (vals : QMat) : QMat :=
  -- write vals[idx] into row q, column t for every (q, idx)
  ⟨a.rows, a.cols, rowsIdx.foldl (fun d (q, idx) =>
      d.setIfInBounds q ((d.getD q #[]).setIfInBounds t (vals.get idx 0))) a.data⟩

/-- `create_deviation_solution`: `K`, `D` replaced by zeros -/
def deviationSolution (sol : Solution) : Solution := { sol with K := QMat.zero sol.K.rows 1 }
def deviationMeas (ms : MeasSol) : MeasSol := { ms with D := QMat.zero ms.D.rows 1 }

/-- `get_init_xi` + `zero_false_init_xi` -/
def initXi (solvec : List Token) (trueInit : List Bool) (x : QMat) (first : Nat) : QMat :=
  let vals := (solvec.zip trueInit).map fun (t, ti) =>
    let c : Int := (first : Int) - 1 + t.shift
    if ti && c ≥ 0 then x.get t.qid c.toNat else 0
  QMat.col vals.toArray

/-- `simulate_flat` followed by `_simulate_measurement` on one frame `[first, simLast]`; returns the frame's data -/
def simulateFrame (sol : Solution) (ms : MeasSol) (deviation : Bool) (solvec : List Token) (trueInit : List Bool)
    (d : Data) (first simLast : Nat) : Data :=
  let solT := if deviation then deviationSolution sol else sol
  let msT := if deviation then deviationMeas ms else ms
  let curr := currIndexes solvec
  let imp := antImpact sol d.v first simLast d.x.cols
  let Pu := if d.u.rows == 0 then QMat.zero sol.T.rows d.x.cols else solT.P * d.u
  let cols := (List.range (simLast + 1 - first)).map (· + first)
  let (_, x, y) := cols.foldl (fun (st : QMat × QMat × QMat) t =>
      let (xi, x, y) := st
      let xi := solT.T * xi + solT.K
      let xi := xi + colOf Pu t
      let xi := match imp.getD t none with | some s => xi + s | none => xi
      let x := setCol x curr t xi
      let yv := msT.Z * xi + (if d.w.rows == 0 then QMat.zero msT.Z.rows 1 else msT.H * colOf d.w t) + msT.D
      let y := setCol y ((List.range y.rows).map (fun r => (r, r))) t yv
      (xi, x, y)) (initXi solvec trueInit d.x first, d.x, d.y)
  { d with x := x, y := y }

/-- copy columns `[c0, c1]` of `src` into `dst` -/
def copyCols (dst src : QMat) (c0 c1 : Nat) : QMat :=
  QMat.ofFn dst.rows dst.cols fun i j => if c0 ≤ j ∧ j ≤ c1 then src.get i j else dst.get i j

def zeroColsFrom (a : QMat) (c0 : Nat) : QMat :=
  QMat.ofFn a.rows a.cols fun i j => if c0 ≤ j then 0 else a.get i j

/-- `_populate_base_break_points` without a plan: the first base column and every base column with a non-zero
unanticipated shock; returns the frames `(start, end)` (`split_into_frames_by_breakpoints`) -/
def splitFrames (u : QMat) (first last : Nat) : List (Nat × Nat) :=
  let cols := (List.range (last + 1 - first)).map (· + first)
  let breaks := cols.filter (fun t => t == first || !colIsZero u t)
  let nexts := breaks.drop 1 ++ [last + 1]
  breaks.zip (nexts.map (· - 1))

/-- the frame loop of `Simultaneous.simulate(method="first_order")` without a plan -/
def simulate (sol : Solution) (ms : MeasSol) (deviation split : Bool) (solvec : List Token) (trueInit : List Bool)
    (d : Data) (first last : Nat) : Data :=
  if !split then
    simulateFrame sol ms deviation solvec trueInit d first last
  else
    (splitFrames d.u first last).foldl (fun main (f, e) =>
      -- frame copy, prune the unanticipated shocks after the first frame column, simulate to the end of the base span
      let fd := if f == last then main else { main with u := zeroColsFrom main.u (f + 1) }
      let out := simulateFrame sol ms deviation solvec trueInit fd f last
      -- write back: regular rows on the frame slice, unanticipated shocks in the first frame column (unchanged)
      { main with x := copyCols main.x out.x f e, y := copyCols main.y out.y f e,
                  v := copyCols main.v out.v f e, w := copyCols main.w out.w f e }) d


/-! ## Object state: the expansion memo, histories on one model object, the variant loop (generic and executable) -/

/-- `_get_solution_expansion` on the cached list `existing_expansion`: `for k in range(len(memo), forward): memo.append(gen k)` -/
def extendMemo {α : Type} (gen : Nat → α) (memo : List α) (forward : Nat) : List α :=
  (List.range (forward - memo.length)).foldl (fun m _ => m ++ [gen m.length]) memo

/-- one request for horizon `forward`: the new memo and the returned list `[R0] + memo[:forward]` -/
def requestMemo {α : Type} (r0 : α) (gen : Nat → α) (memo : List α) (forward : Nat) : List α × List α :=
  let memo' := extendMemo gen memo forward
  (memo', r0 :: memo'.take forward)

/-- a sequence of horizon requests on one `Solution` object -/
def runRequests {α : Type} (r0 : α) (gen : Nat → α) : List α → List Nat → List (List α)
  | _, [] => []
  | memo, f :: fs => (requestMemo r0 gen memo f).2 :: runRequests r0 gen (requestMemo r0 gen memo f).1 fs

/-- `R_(k+1) = -X J^k Ru` -/
def expansionGen (X J Ru : QMat) (k : Nat) : QMat := -(X * QMat.pow J k * Ru)

/-- a model object: the parameters in force, the stored solution (set by `solve`), copies taken so far -/
structure ObjState (π σ : Type) where
  params : π
  solution : σ
  copies : List (π × σ)

inductive ObjOp (π : Type) where
  | assign (p : π)
  | solve
  | obs (deviation : Bool)          -- `_gets_solution(deviation)`: a FRESH deviation solution from the stored one, no memo
  | copy
  | obsCopy (k : Nat) (deviation : Bool)

/-- one step; an observation reports (parameters in force of the observed object, deviation flag, solution used) -/
def objStep {π σ : Type} (solveF : π → σ) (devF : σ → σ) (s : ObjState π σ) : ObjOp π → ObjState π σ × Option (π × Bool × σ)
  | .assign p => ({ s with params := p }, none)
  | .solve => ({ s with solution := solveF s.params }, none)
  | .obs d => (s, some (s.params, d, if d then devF s.solution else s.solution))
  | .copy => ({ s with copies := s.copies ++ [(s.params, s.solution)] }, none)
  | .obsCopy k d => (s, (s.copies[k]?).map fun c => (c.1, d, if d then devF c.2 else c.2))

def runObj {π σ : Type} (solveF : π → σ) (devF : σ → σ) : ObjState π σ → List (ObjOp π) → List (π × Bool × σ)
  | _, [] => []
  | s, op :: ops =>
    match (objStep solveF devF s op).2 with
    | some o => o :: runObj solveF devF (objStep solveF devF s op).1 ops
    | none => runObj solveF devF (objStep solveF devF s op).1 ops

/-- the variant loop of `solve` / `simulate`: output `k` uses model variant `min k (M-1)` (exhaust, then the last one) and data
variant `0` when the data carry one variant, `k` when they carry `n`; any other number of data variants is rejected -/
def variantPlan (n M D : Nat) : Option (List (Nat × Nat)) :=
  if M = 0 then none
  else if D = 1 then some ((List.range n).map fun k => (min k (M - 1), 0))
  else if D = n then some ((List.range n).map fun k => (min k (M - 1), k))
  else none

def simulateAll {μ δ ρ : Type} (sim : μ → δ → ρ) (models : List μ) (datas : List δ) (n : Nat) : Option (List ρ) :=
  (variantPlan n models.length datas.length).bind fun plan =>
    plan.mapM fun (i, j) => do
      let m ← models[i]?
      let d ← datas[j]?
      pure (sim m d)


/-! ## Measurement certificate (`_solve_measurement_equations`: `Z = -F \ G[:, nf:]`, `H = -F \ J`, `D = -F \ H`) -/

/-- max-abs of `G[:, :nf]` (leads of transition variables inside measurement equations: the code drops these columns, so the
measurement equations are claimed only when this block is exactly zero), of `F Z + G[:, nf:]`, `F D + H`, `F Hm + J`, and the scale -/
def measurementCertificate (nf : Nat) (F G Hc Jm Z Hm D : QMat) : Rat × Rat × Rat × Rat × Rat :=
  let scale := [F, G, Hc, Jm, Z, Hm, D].foldl (fun m a => if m < a.maxAbs then a.maxAbs else m) 1
  ((colsTo G nf).maxAbs, (F * Z + colsFrom G nf).maxAbs, (F * D + Hc).maxAbs, (F * Hm + Jm).maxAbs, scale)

/-- discipline of a history (no observation and no copy between an `assign` and the next `solve`): the hypothesis of `runObj_pure` -/
def disciplinedOps {π : Type} : Bool → List (ObjOp π) → Bool
  | _, [] => true
  | _, .assign _ :: ops => disciplinedOps false ops
  | _, .solve :: ops => disciplinedOps true ops
  | fr, .obs _ :: ops => fr && disciplinedOps fr ops
  | fr, .copy :: ops => fr && disciplinedOps fr ops
  | fr, .obsCopy _ _ :: ops => disciplinedOps fr ops

end IrisVerif.FirstOrder
