/-
C08 — Smoothed estimates reproduce the data and are a simulation of the model.

Theorems about the Kalman recursion `IrisVerif.KalmanAbs` (Lemmas/Kalman.lean: the recursion of Model/Kalman.lean =
fords/kalmans.py over Mathlib matrices, any commutative ring with 2 invertible, any number of states/shocks/observables,
any horizon `N`, any missing-data pattern `p : ℕ → Type`).
-/
import IrisVerif.Lemmas.Kalman
import Mathlib.Algebra.Order.Field.Rat
import Mathlib.Tactic.NormNum

open Matrix

set_option linter.unusedSectionVars false

namespace IrisVerif.C08
open IrisVerif.KalmanAbs

variable {n q w k : Type} [Fintype n] [Fintype q] [Fintype w] [Fintype k] [DecidableEq n] [DecidableEq q] [DecidableEq w]
variable {K : Type} [CommRing K]

section core
variable {p : Type} [Fintype p] [DecidableEq p]

/-- Measurement identity of one `one_step_back` step, for arbitrary matrices: whatever `r_{t+1}` (`rn`) is handed back,
`Z a₂ + H w₂ + D = y` on the observed rows, because `F Fi = 1` makes the `rn`-terms cancel. -/
theorem smooth_measurement_identity
    (T : Matrix n n K) (Z : Matrix p n K) (H : Matrix p w K) (Q0 : Matrix n n K) (Sw : Matrix w w K)
    (F Fi : Matrix p p K) (a0 rn : Matrix n k K) (w0 : Matrix w k K) (y D : Matrix p k K)
    (hQ : Q0ᵀ = Q0) (hS : Swᵀ = Sw)
    (hF : F = Z * Q0 * Zᵀ + H * Sw * Hᵀ) (hFi : F * Fi = 1) (hFiT : Fiᵀ = Fi) :
    let G := Q0 * (Zᵀ * Fi)
    let L := T - T * G * Z
    let pe := y - (Z * a0 + D + H * w0)
    let r := Zᵀ * Fi * pe + Lᵀ * rn
    let a2 := a0 + Q0 * r
    let w2 := w0 + (H * Sw)ᵀ * (Fi * pe - (T * G)ᵀ * rn)
    Z * a2 + H * w2 + D = y := by
  intro G L pe r a2 w2
  have key1 : Z * Q0 * Zᵀ * Fi + H * Sw * Hᵀ * Fi = 1 := by
    rw [← Matrix.add_mul, ← hF, hFi]
  have GT : Gᵀ = Fi * Z * Q0 := by
    simp only [G, Matrix.transpose_mul, Matrix.transpose_transpose, hQ, hFiT, Matrix.mul_assoc]
  have key2 : Z * Q0 * Lᵀ - H * Sw * Hᵀ * (T * G)ᵀ = 0 := by
    simp only [L, Matrix.transpose_sub, Matrix.transpose_mul, GT]
    have : Z * Q0 * (Tᵀ - Zᵀ * (Fi * Z * Q0 * Tᵀ)) - H * Sw * Hᵀ * (Fi * Z * Q0 * Tᵀ)
        = Z * Q0 * Tᵀ - (Z * Q0 * Zᵀ * Fi + H * Sw * Hᵀ * Fi) * (Z * Q0 * Tᵀ) := by
      simp only [Matrix.mul_sub, Matrix.add_mul, Matrix.mul_assoc]; abel
    simp only [Matrix.mul_assoc] at this ⊢
    rw [this]
    have k1 := key1; simp only [Matrix.mul_assoc] at k1
    rw [k1, Matrix.one_mul, sub_self]
  have e : Z * a2 + H * w2 + D
      = (Z * a0 + D + H * w0) + (Z * Q0 * Zᵀ * Fi + H * Sw * Hᵀ * Fi) * pe
        + (Z * Q0 * Lᵀ - H * Sw * Hᵀ * (T * G)ᵀ) * rn := by
    simp only [a2, w2, r, Matrix.mul_add, Matrix.mul_sub, Matrix.add_mul, Matrix.sub_mul,
      Matrix.transpose_mul, hS, Matrix.mul_assoc]
    abel
  rw [e, key1, key2, Matrix.one_mul, Matrix.zero_mul, add_zero]
  simp only [pe]; abel

/-- Transition identity of one backward step, for arbitrary matrices (no invertibility needed, only symmetry):
with `Q1 = Q0 - G Z Q0`, next-period `Q0' = T Q1 Tᵀ + P Σ Pᵀ`, `a0' = T (a0 + G pe) + K + P u0'`,
the smoothed `a2' = a0' + Q0' r'`, `a2 = a0 + Q0 (Zᵀ Fi pe + Lᵀ r')`, `u2' = u0' + (P Σ)ᵀ r'` satisfy `a2' = T a2 + K + P u2'`. -/
theorem smooth_transition_identity
    (T : Matrix n n K) (P : Matrix n q K) (Kc a0 a0' : Matrix n k K) (Q0 Q0' Q1 : Matrix n n K)
    (Z : Matrix p n K) (Fi : Matrix p p K) (G : Matrix n p K) (Su' : Matrix q q K) (pe : Matrix p k K)
    (u0' : Matrix q k K) (r' : Matrix n k K)
    (hG : G = Q0 * (Zᵀ * Fi)) (hGT : Gᵀ = Fi * Z * Q0) (hQ1 : Q1 = Q0 - G * Z * Q0)
    (hQ0' : Q0' = T * Q1 * Tᵀ + P * Su' * Pᵀ) (ha0' : a0' = T * (a0 + G * pe) + Kc + P * u0') (hSu : Su'ᵀ = Su') :
    a0' + Q0' * r' = T * (a0 + Q0 * (Zᵀ * Fi * pe + (T - T * G * Z)ᵀ * r')) + Kc + P * (u0' + (P * Su')ᵀ * r') := by
  have e1 : Q0 * (Zᵀ * Fi * pe) = G * pe := by rw [hG]; simp only [Matrix.mul_assoc]
  have e2 : Q0 * ((T - T * G * Z)ᵀ * r') = Q1 * Tᵀ * r' := by
    rw [hQ1, Matrix.transpose_sub, Matrix.transpose_mul, Matrix.transpose_mul, hGT, hG]
    simp only [Matrix.mul_sub, Matrix.sub_mul, Matrix.mul_assoc]
  rw [Matrix.mul_add Q0, e1, e2, ha0', hQ0', Matrix.transpose_mul, hSu]
  simp only [Matrix.mul_add, Matrix.add_mul, Matrix.mul_assoc]
  abel

end core

variable [Invertible (2 : K)]
variable {p : ℕ → Type} [∀ t, Fintype (p t)] [∀ t, DecidableEq (p t)]
variable (I : Inputs n q w k p K)

/-- **Measurement identity** (smoothed estimates reproduce the data): for every period `t < N` of a sample of `N` periods and
any missing-data pattern, the smoothed state and smoothed measurement shocks satisfy every observed measurement equation
exactly: `Z_t a₂(t) + H_t w₂(t) + D_t = y_t`. -/
theorem measurement_identity (hI : I.Regular) {N t : ℕ} (ht : t < N) (hF : I.F t * I.Fi t = 1) :
    I.Z t * I.a2 N t + I.H t * I.w2 N t + I.D t = I.y t := by
  have h := smooth_measurement_identity I.T (I.Z t) (I.H t) (I.Q0 t) (I.Sw t) (I.F t) (I.Fi t) (I.a0 t) (I.r N (t + 1))
    (I.w0 t) (I.y t) (I.D t) (I.Q0_symm t) (hI.Sw_symm t) (I.F_eq hI t) hF (hI.Fi_symm t)
  simp only at h
  unfold Inputs.a2 Inputs.w2
  rw [I.r_of_lt ht]
  exact h

/-- **Transition identity**: smoothed states and smoothed transition shocks satisfy the transition equation exactly,
`a₂(t+1) = T a₂(t) + K + P u₂(t+1)`, for every `t < N`. -/
theorem transition_identity (hI : I.Regular) {N t : ℕ} (ht : t < N) :
    I.a2 N (t + 1) = I.T * I.a2 N t + I.Kc + I.P * I.u2 N (t + 1) := by
  unfold Inputs.a2 Inputs.u2
  rw [I.r_of_lt ht]
  exact smooth_transition_identity I.T I.P I.Kc (I.a0 t) (I.a0 (t + 1)) (I.Q0 t) (I.Q0 (t + 1)) (I.Q1 t) (I.Z t) (I.Fi t)
    (I.G t) (I.Su (t + 1)) (I.pe t) (I.u0 (t + 1)) (I.r N (t + 1)) rfl (I.G_transpose hI t) (I.Q1_eq hI t)
    (I.Q0_eq hI (t + 1)) rfl (hI.Su_symm (t + 1))

/-- **Re-simulation**: simulating the model from the smoothed state of any period `s` with the smoothed shocks of the
following periods reproduces the smoothed states, up to the end of the sample (induction over the horizon). -/
theorem resimulation (hI : I.Regular) {N s : ℕ} (j : ℕ) (hj : s + j ≤ N) :
    I.sim (I.a2 N s) (I.u2 N) s j = I.a2 N (s + j) := by
  induction j with
  | zero => rfl
  | succ j ih =>
    have h1 : s + j < N := by omega
    show I.T * I.sim (I.a2 N s) (I.u2 N) s j + I.Kc + I.P * I.u2 N (s + j + 1) = I.a2 N (s + (j + 1))
    rw [ih (by omega), ← add_assoc]
    exact (transition_identity I hI h1).symm


/-! ### deviation mode -/

/-- the run in deviation mode: constants `K`, `D` set to zero, data and initial mean taken as deviations from a steady
state `x̄` (`ȳ_t = Z_t x̄ + D_t`); everything else unchanged -/
def deviation (x : Matrix n k K) : Inputs n q w k p K :=
  { I with Kc := 0, D := fun _ => 0, y := fun t => I.y t - (I.Z t * x + I.D t), aInit := I.aInit - x }

theorem dev_a0f (x : Matrix n k K) (hx : x = I.T * x + I.Kc) (t : ℕ) (a : Matrix n k K) :
    (deviation I x).a0f t (a - x) = I.a0f t a - x := by
  show I.T * (a - x) + 0 + I.P * I.u0 t = I.T * a + I.Kc + I.P * I.u0 t - x
  have h2 : I.T * x = x - I.Kc := by rw [eq_sub_iff_add_eq]; exact hx.symm
  rw [Matrix.mul_sub, h2]
  abel

theorem dev_pef (x : Matrix n k K) (hx : x = I.T * x + I.Kc) (t : ℕ) (a : Matrix n k K) :
    (deviation I x).pef t (a - x) = I.pef t a := by
  show (I.y t - (I.Z t * x + I.D t)) - (I.Z t * (deviation I x).a0f t (a - x) + 0 + I.H t * I.w0 t)
      = I.y t - (I.Z t * I.a0f t a + I.D t + I.H t * I.w0 t)
  rw [dev_a0f I x hx, Matrix.mul_sub]
  abel

theorem dev_state (x : Matrix n k K) (hx : x = I.T * x + I.Kc) (t : ℕ) :
    ((deviation I x).state t).2 = (I.state t).2 ∧ ((deviation I x).state t).1 = (I.state t).1 - x := by
  induction t with
  | zero => exact ⟨rfl, rfl⟩
  | succ t ih =>
    constructor
    · show I.Q1f t ((deviation I x).state t).2 = I.Q1f t (I.state t).2
      rw [ih.1]
    · show (deviation I x).a0f t ((deviation I x).state t).1
          + I.Gf t ((deviation I x).state t).2 * (deviation I x).pef t ((deviation I x).state t).1
        = I.a0f t (I.state t).1 + I.Gf t (I.state t).2 * I.pef t (I.state t).1 - x
      rw [ih.1, ih.2, dev_a0f I x hx, dev_pef I x hx]
      abel

theorem dev_G (x : Matrix n k K) (hx : x = I.T * x + I.Kc) (t : ℕ) : (deviation I x).G t = I.G t := by
  show I.Gf t ((deviation I x).state t).2 = I.Gf t (I.state t).2
  rw [(dev_state I x hx t).1]

theorem dev_Q0 (x : Matrix n k K) (hx : x = I.T * x + I.Kc) (t : ℕ) : (deviation I x).Q0 t = I.Q0 t := by
  show I.Q0f t ((deviation I x).state t).2 = I.Q0f t (I.state t).2
  rw [(dev_state I x hx t).1]

theorem dev_pe (x : Matrix n k K) (hx : x = I.T * x + I.Kc) (t : ℕ) : (deviation I x).pe t = I.pe t := by
  show (deviation I x).pef t ((deviation I x).state t).1 = I.pef t (I.state t).1
  rw [(dev_state I x hx t).2, dev_pef I x hx]

theorem dev_a0 (x : Matrix n k K) (hx : x = I.T * x + I.Kc) (t : ℕ) : (deviation I x).a0 t = I.a0 t - x := by
  show (deviation I x).a0f t ((deviation I x).state t).1 = I.a0f t (I.state t).1 - x
  rw [(dev_state I x hx t).2, dev_a0f I x hx]

theorem dev_r (x : Matrix n k K) (hx : x = I.T * x + I.Kc) (N : ℕ) :
    ∀ (d t : ℕ), N - t = d → (deviation I x).r N t = I.r N t := by
  intro d
  induction d with
  | zero =>
    intro t h
    rw [Inputs.r_of_ge _ (by omega), Inputs.r_of_ge _ (by omega)]
  | succ d ih =>
    intro t h
    have ht : t < N := by omega
    rw [Inputs.r_of_lt _ ht, Inputs.r_of_lt _ ht, ih (t + 1) (by omega), dev_pe I x hx]
    have hL : (deviation I x).L t = I.L t := by
      show I.T - I.T * (deviation I x).G t * I.Z t = I.T - I.T * I.G t * I.Z t
      rw [dev_G I x hx]
    rw [hL]
    rfl

/-- **Deviation equivariance** (the filter and smoother are affine in the data): if `x̄ = T x̄ + K`, running in deviation mode
(`K = 0`, `D = 0`) on `y_t − (Z_t x̄ + D_t)` from the initial mean minus `x̄` gives, for every period of every horizon and any
missing-data pattern: the same MSEs, gains and prediction errors, predicted / updated / smoothed states equal to the
level-mode ones minus `x̄`, predicted observables minus `ȳ_t`, and identical smoothed shocks. -/
theorem deviation_equivariance (x : Matrix n k K) (hx : x = I.T * x + I.Kc) (N t : ℕ) :
    (deviation I x).Q0 t = I.Q0 t ∧ (deviation I x).Q1 t = I.Q1 t ∧ (deviation I x).F t = I.F t
    ∧ (deviation I x).a0 t = I.a0 t - x ∧ (deviation I x).a1 t = I.a1 t - x
    ∧ (deviation I x).y0 t = I.y0 t - (I.Z t * x + I.D t) ∧ (deviation I x).pe t = I.pe t
    ∧ (deviation I x).a2 N t = I.a2 N t - x ∧ (deviation I x).u2 N t = I.u2 N t ∧ (deviation I x).w2 N t = I.w2 N t := by
  refine ⟨dev_Q0 I x hx t, (dev_state I x hx (t + 1)).1, ?_, dev_a0 I x hx t, (dev_state I x hx (t + 1)).2, ?_,
    dev_pe I x hx t, ?_, ?_, ?_⟩
  · show I.Ff t ((deviation I x).state t).2 = I.Ff t (I.state t).2
    rw [(dev_state I x hx t).1]
  · show I.Z t * (deviation I x).a0 t + 0 + I.H t * I.w0 t = I.Z t * I.a0 t + I.D t + I.H t * I.w0 t - (I.Z t * x + I.D t)
    rw [dev_a0 I x hx, Matrix.mul_sub]
    abel
  · show (deviation I x).a0 t + (deviation I x).Q0 t * (deviation I x).r N t = I.a0 t + I.Q0 t * I.r N t - x
    rw [dev_a0 I x hx, dev_Q0 I x hx, dev_r I x hx N _ t rfl]
    abel
  · show I.u0 t + (I.P * I.Su t)ᵀ * (deviation I x).r N t = I.u0 t + (I.P * I.Su t)ᵀ * I.r N t
    rw [dev_r I x hx N _ t rfl]
  · show I.w0 t + (I.H t * I.Sw t)ᵀ * (I.Fi t * (deviation I x).pe t - (I.T * (deviation I x).G t)ᵀ * (deviation I x).r N (t + 1))
      = I.w0 t + (I.H t * I.Sw t)ᵀ * (I.Fi t * I.pe t - (I.T * I.G t)ᵀ * I.r N (t + 1))
    rw [dev_pe I x hx, dev_G I x hx, dev_r I x hx N _ (t + 1) rfl]

/-! ### deviation mode relative to a time-varying steady path (unit root with drift / balanced growth)

With a unit root and a drift the steady state is a PATH `x̄_t` with `x̄_{t+1} = T x̄_t + K` (`xp t` = the path value handed to period
`t`), not a fixed point.  The deviation run takes the data minus `Z_t x̄_{t+1} + D_t` and starts from `aInit − x̄_0`. -/

def deviationPath (xp : ℕ → Matrix n k K) : Inputs n q w k p K :=
  { I with Kc := 0, D := fun _ => 0, y := fun t => I.y t - (I.Z t * xp (t + 1) + I.D t), aInit := I.aInit - xp 0 }

theorem devp_state (xp : ℕ → Matrix n k K) (hx : ∀ t, xp (t + 1) = I.T * xp t + I.Kc) (t : ℕ) :
    ((deviationPath I xp).state t).2 = (I.state t).2 ∧ ((deviationPath I xp).state t).1 = (I.state t).1 - xp t := by
  induction t with
  | zero => exact ⟨rfl, rfl⟩
  | succ t ih =>
    constructor
    · show I.Q1f t ((deviationPath I xp).state t).2 = I.Q1f t (I.state t).2
      rw [ih.1]
    · show I.T * ((deviationPath I xp).state t).1 + 0 + I.P * I.u0 t
          + I.Gf t ((deviationPath I xp).state t).2
            * ((I.y t - (I.Z t * xp (t + 1) + I.D t))
                - (I.Z t * (I.T * ((deviationPath I xp).state t).1 + 0 + I.P * I.u0 t) + 0 + I.H t * I.w0 t))
        = I.T * (I.state t).1 + I.Kc + I.P * I.u0 t
          + I.Gf t (I.state t).2 * (I.y t - (I.Z t * (I.T * (I.state t).1 + I.Kc + I.P * I.u0 t) + I.D t + I.H t * I.w0 t))
          - xp (t + 1)
      rw [ih.1, ih.2, hx t]
      simp only [Matrix.mul_add, Matrix.mul_sub, Matrix.add_mul, add_zero]
      abel

theorem devp_pe (xp : ℕ → Matrix n k K) (hx : ∀ t, xp (t + 1) = I.T * xp t + I.Kc) (t : ℕ) :
    (deviationPath I xp).pe t = I.pe t := by
  show (I.y t - (I.Z t * xp (t + 1) + I.D t))
      - (I.Z t * (I.T * ((deviationPath I xp).state t).1 + 0 + I.P * I.u0 t) + 0 + I.H t * I.w0 t)
    = I.y t - (I.Z t * (I.T * (I.state t).1 + I.Kc + I.P * I.u0 t) + I.D t + I.H t * I.w0 t)
  rw [(devp_state I xp hx t).2, hx t]
  simp only [Matrix.mul_add, Matrix.mul_sub, add_zero]
  abel

theorem devp_G (xp : ℕ → Matrix n k K) (hx : ∀ t, xp (t + 1) = I.T * xp t + I.Kc) (t : ℕ) :
    (deviationPath I xp).G t = I.G t := by
  show I.Gf t ((deviationPath I xp).state t).2 = I.Gf t (I.state t).2
  rw [(devp_state I xp hx t).1]

theorem devp_r (xp : ℕ → Matrix n k K) (hx : ∀ t, xp (t + 1) = I.T * xp t + I.Kc) (N : ℕ) :
    ∀ (d t : ℕ), N - t = d → (deviationPath I xp).r N t = I.r N t := by
  intro d
  induction d with
  | zero =>
    intro t h
    rw [Inputs.r_of_ge _ (by omega), Inputs.r_of_ge _ (by omega)]
  | succ d ih =>
    intro t h
    have ht : t < N := by omega
    rw [Inputs.r_of_lt _ ht, Inputs.r_of_lt _ ht, ih (t + 1) (by omega), devp_pe I xp hx]
    have hL : (deviationPath I xp).L t = I.L t := by
      show I.T - I.T * (deviationPath I xp).G t * I.Z t = I.T - I.T * I.G t * I.Z t
      rw [devp_G I xp hx]
    rw [hL]
    rfl

/-- **deviation equivariance along a steady PATH**: same MSEs, gains and prediction errors; predicted, updated and smoothed states
equal to the level-mode ones minus the path value of their period; identical smoothed shocks — for every period, horizon and
missing-data pattern.  (`deviation_equivariance` is the case of a constant path.) -/
theorem deviation_equivariance_path (xp : ℕ → Matrix n k K) (hx : ∀ t, xp (t + 1) = I.T * xp t + I.Kc) (N t : ℕ) :
    (deviationPath I xp).Q0 t = I.Q0 t ∧ (deviationPath I xp).Q1 t = I.Q1 t
    ∧ (deviationPath I xp).a0 t = I.a0 t - xp (t + 1) ∧ (deviationPath I xp).a1 t = I.a1 t - xp (t + 1)
    ∧ (deviationPath I xp).pe t = I.pe t
    ∧ (deviationPath I xp).a2 N t = I.a2 N t - xp (t + 1) ∧ (deviationPath I xp).u2 N t = I.u2 N t
    ∧ (deviationPath I xp).w2 N t = I.w2 N t := by
  have hs := devp_state I xp hx t
  have hQ0 : (deviationPath I xp).Q0 t = I.Q0 t := by
    show I.Q0f t ((deviationPath I xp).state t).2 = I.Q0f t (I.state t).2
    rw [hs.1]
  have ha0 : (deviationPath I xp).a0 t = I.a0 t - xp (t + 1) := by
    show I.T * ((deviationPath I xp).state t).1 + 0 + I.P * I.u0 t = I.T * (I.state t).1 + I.Kc + I.P * I.u0 t - xp (t + 1)
    rw [hs.2, hx t, Matrix.mul_sub]; abel
  refine ⟨hQ0, (devp_state I xp hx (t + 1)).1, ha0, (devp_state I xp hx (t + 1)).2, devp_pe I xp hx t, ?_, ?_, ?_⟩
  · show (deviationPath I xp).a0 t + (deviationPath I xp).Q0 t * (deviationPath I xp).r N t = I.a0 t + I.Q0 t * I.r N t - xp (t + 1)
    rw [ha0, hQ0, devp_r I xp hx N _ t rfl]; abel
  · show I.u0 t + (I.P * I.Su t)ᵀ * (deviationPath I xp).r N t = I.u0 t + (I.P * I.Su t)ᵀ * I.r N t
    rw [devp_r I xp hx N _ t rfl]
  · show I.w0 t + (I.H t * I.Sw t)ᵀ * (I.Fi t * (deviationPath I xp).pe t
        - (I.T * (deviationPath I xp).G t)ᵀ * (deviationPath I xp).r N (t + 1))
      = I.w0 t + (I.H t * I.Sw t)ᵀ * (I.Fi t * I.pe t - (I.T * I.G t)ᵀ * I.r N (t + 1))
    rw [devp_pe I xp hx, devp_G I xp hx, devp_r I xp hx N _ (t + 1) rfl]

/-! ### re-simulation of the measurement block, with the mode flag (`simulators._simulate_measurement(deviation=…)`)

The simulator computes `y = Z ξ + H w + D` in level mode and `y = Z ξ + H w` in deviation mode, always with the matrices of the
SAME model object (`I`).  Re-simulating the smoother output with the flag of the filter run reproduces the data of that run; with
the wrong flag the result is off by exactly the intercept `D` (the seeded change C08-r4-1). -/

/-- the measurement block of the simulator with its mode flag -/
def simMeas (dev : Bool) (t : ℕ) (a : Matrix n k K) (wv : Matrix w k K) : Matrix (p t) k K :=
  I.Z t * a + I.H t * wv + (if dev then 0 else I.D t)

theorem deviation_regular (hI : I.Regular) (x : Matrix n k K) : (deviation I x).Regular :=
  ⟨hI.QInit_symm, hI.Su_symm, hI.Sw_symm, hI.Fi_symm⟩

/-- level mode: the re-simulated observables are the data, in every period of the sample -/
theorem resimulate_measurement_level (hI : I.Regular) {N t : ℕ} (ht : t < N) (hF : I.F t * I.Fi t = 1) :
    simMeas I false t (I.a2 N t) (I.w2 N t) = I.y t := by
  have h := measurement_identity I hI ht hF
  simpa [simMeas] using h

/-- deviation mode: the deviation-mode smoother output re-simulated with `deviation=True` (no intercept, matrices of the level
model object) reproduces the deviation data `y − ȳ` -/
theorem resimulate_measurement_deviation (hI : I.Regular) (x : Matrix n k K) (hx : x = I.T * x + I.Kc) {N t : ℕ} (ht : t < N)
    (hF : I.F t * I.Fi t = 1) :
    simMeas I true t ((deviation I x).a2 N t) ((deviation I x).w2 N t) = I.y t - (I.Z t * x + I.D t) := by
  have hF' : (deviation I x).F t * (deviation I x).Fi t = 1 := by
    rw [(deviation_equivariance I x hx N t).2.2.1]; exact hF
  have h := measurement_identity (deviation I x) (deviation_regular I hI x) ht hF'
  have h' : I.Z t * (deviation I x).a2 N t + I.H t * (deviation I x).w2 N t + 0 = I.y t - (I.Z t * x + I.D t) := h
  simpa [simMeas] using h'

/-- with the wrong flag (level intercept on deviation-mode output) the re-simulation is off by exactly `D` -/
theorem resimulate_measurement_wrong_flag (hI : I.Regular) (x : Matrix n k K) (hx : x = I.T * x + I.Kc) {N t : ℕ} (ht : t < N)
    (hF : I.F t * I.Fi t = 1) :
    simMeas I false t ((deviation I x).a2 N t) ((deviation I x).w2 N t) = (I.y t - (I.Z t * x + I.D t)) + I.D t := by
  have h := resimulate_measurement_deviation I hI x hx ht hF
  simp only [simMeas, if_true, Bool.false_eq_true, if_false, add_zero] at h ⊢
  rw [h]

/-! ### non-vacuity: a concrete system over ℚ meets the hypotheses -/

section nonvacuous
local instance inv2 : Invertible (2 : ℚ) := ⟨1/2, by norm_num, by norm_num⟩

/-- a bivariate random walk with drift observed without noise: `T = P = Z = 1`, `H = 0`, unit covariances, data `y_t = t` -/
def exI : Inputs (Fin 2) (Fin 2) (Fin 2) (Fin 1) (fun _ => Fin 2) ℚ :=
  { T := 1, P := 1, Kc := fun _ _ => 1, Z := fun _ => 1, H := fun _ => 0, D := fun _ _ _ => 0,
    y := fun t _ _ => t, Su := fun _ => 1, Sw := fun _ => 1, u0 := fun _ => 0, w0 := fun _ => 0,
    Fi := fun _ => (⅟ (2 : ℚ)) • 1, aInit := 0, QInit := 1 }

/-- the hypotheses of `measurement_identity` / `transition_identity` are met by a concrete system -/
example : exI.Regular ∧ exI.F 0 * exI.Fi 0 = 1 := by
  have hs : IrisVerif.KalmanAbs.symm (1 + 1 : Matrix (Fin 2) (Fin 2) ℚ) = 1 + 1 :=
    symm_of_symmetric _ (by simp)
  refine ⟨⟨?_, ?_, ?_, ?_⟩, ?_⟩
  · simp [exI]
  · intro t; simp [exI]
  · intro t; simp [exI]
  · intro t; simp [exI]
  · have hF : exI.F 0 = 1 + 1 := by
      simp [Inputs.F, Inputs.Ff, Inputs.Q0f, exI, Inputs.state, hs]
    rw [hF]
    show (1 + 1 : Matrix (Fin 2) (Fin 2) ℚ) * ((⅟ (2 : ℚ)) • 1) = 1
    rw [Matrix.mul_smul, mul_one, ← two_smul ℚ (1 : Matrix (Fin 2) (Fin 2) ℚ), smul_smul, invOf_mul_self, one_smul]

/-- the same with a stationary transition matrix `T = 0` -/
def exJ : Inputs (Fin 2) (Fin 2) (Fin 2) (Fin 1) (fun _ => Fin 2) ℚ :=
  { T := 0, P := 1, Kc := fun _ _ => 1, Z := fun _ => 1, H := fun _ => 0, D := fun _ _ _ => 0,
    y := fun t _ _ => t, Su := fun _ => 1, Sw := fun _ => 1, u0 := fun _ => 0, w0 := fun _ => 0,
    Fi := fun _ => 1, aInit := 0, QInit := 1 }

/-- the steady-state hypothesis of `deviation_equivariance` is met (`x̄ = K`) -/
example : ∃ x : Matrix (Fin 2) (Fin 1) ℚ, x = exJ.T * x + exJ.Kc := ⟨exJ.Kc, by show exJ.Kc = (0 : Matrix (Fin 2) (Fin 2) ℚ) * exJ.Kc + exJ.Kc; rw [Matrix.zero_mul, zero_add]⟩

/-- the path of the random walk with drift `exI` (`T = 1`, `K = 1`): `x̄_t = t` -/
def exPath (s : ℕ) : Matrix (Fin 2) (Fin 1) ℚ := fun _ _ => (s : ℚ)

/-- the path hypothesis of `deviation_equivariance_path` is met by it -/
example : ∀ t : ℕ, exPath (t + 1) = exI.T * exPath t + exI.Kc := by
  intro t
  ext i j
  show exPath (t + 1) i j = ((1 : Matrix (Fin 2) (Fin 2) ℚ) * exPath t) i j + (1 : ℚ)
  rw [Matrix.one_mul]
  simp [exPath]

end nonvacuous

end IrisVerif.C08
