/-
Helper lemmas for C12 about the aggregate / disaggregate model (IrisVerif.Model.Conversions):
the reductions, the period-indexed view `Ser.get` under trimming and table construction, the index
arithmetic of regular-to-regular conversion. Core Lean + the C09 calendar theorems (no Mathlib).
-/
import IrisVerif.Model.Conversions
import IrisVerif.Props.C09

set_option linter.unusedSimpArgs false
set_option linter.unusedVariables false

namespace IrisVerif.Conv
open IrisVerif.Dates IrisVerif.Gen.Dates IrisVerif.Dates.C09

/-! reductions -/
theorem addVal_none_left (x : Val) : addVal none x = none := by cases x <;> rfl
theorem mulVal_none_left (x : Val) : mulVal none x = none := by cases x <;> rfl

theorem foldl_addVal_none (l : List Val) : l.foldl addVal none = none := by
  induction l with
  | nil => rfl
  | cons x xs ih => simp [List.foldl, addVal_none_left, ih]

theorem foldl_mulVal_none (l : List Val) : l.foldl mulVal none = none := by
  induction l with
  | nil => rfl
  | cons x xs ih => simp [List.foldl, mulVal_none_left, ih]

theorem foldl_addVal_of_mem_none (l : List Val) (a : Val) (h : none ∈ l) : l.foldl addVal a = none := by
  induction l generalizing a with
  | nil => cases h
  | cons x xs ih =>
    simp only [List.foldl]
    rcases List.mem_cons.1 h with h | h
    · subst h; cases a <;> simp [addVal, foldl_addVal_none]
    · exact ih _ h

theorem foldl_mulVal_of_mem_none (l : List Val) (a : Val) (h : none ∈ l) : l.foldl mulVal a = none := by
  induction l generalizing a with
  | nil => cases h
  | cons x xs ih =>
    simp only [List.foldl]
    rcases List.mem_cons.1 h with h | h
    · subst h; cases a <;> simp [mulVal, foldl_mulVal_none]
    · exact ih _ h

theorem pySum_of_mem_none (l : List Val) (h : none ∈ l) : pySum l = none := foldl_addVal_of_mem_none l _ h
theorem npProd_of_mem_none (l : List Val) (h : none ∈ l) : npProd l = none := foldl_mulVal_of_mem_none l _ h
theorem stMean_of_mem_none (l : List Val) (h : none ∈ l) : stMean l = none := by
  simp [stMean, pySum_of_mem_none l h]

/-- sum of a list without NaN is the rational sum -/
theorem foldl_addVal_some (l : List Rat) (a : Rat) :
    (l.map some).foldl addVal (some a) = some (l.foldl (· + ·) a) := by
  induction l generalizing a with
  | nil => rfl
  | cons x xs ih => simp [List.foldl, addVal, ih]

theorem foldl_mulVal_some (l : List Rat) (a : Rat) :
    (l.map some).foldl mulVal (some a) = some (l.foldl (· * ·) a) := by
  induction l generalizing a with
  | nil => rfl
  | cons x xs ih => simp [List.foldl, mulVal, ih]


/-! ### reductions on constant groups -/

theorem foldl_min_replicate (k : Nat) (x : Val) :
    (List.replicate k x).foldl (fun cur it => if ltVal it cur then it else cur) x = x := by
  induction k with
  | zero => rfl
  | succ k ih => simp [List.replicate_succ, List.foldl, ih]

theorem foldl_max_replicate (k : Nat) (x : Val) :
    (List.replicate k x).foldl (fun cur it => if ltVal cur it then it else cur) x = x := by
  induction k with
  | zero => rfl
  | succ k ih => simp [List.replicate_succ, List.foldl, ih]

theorem pyMin_replicate (k : Nat) (x : Val) : pyMin (List.replicate (k + 1) x) = x := by
  simp [List.replicate_succ, pyMin, foldl_min_replicate]

theorem pyMax_replicate (k : Nat) (x : Val) : pyMax (List.replicate (k + 1) x) = x := by
  simp [List.replicate_succ, pyMax, foldl_max_replicate]

/-! ### `aggWithin` without `select` is a pure function -/

def aggPure (discard : Bool) (m : Method) (w : List Val) : Val :=
  let w := if discard then w.filter Option.isSome else w
  if w.isEmpty then none else m.apply w

theorem aggWithin_no_select (d : Bool) (m : Method) (w : List Val) : aggWithin none d m w = .ok (aggPure d m w) := rfl

theorem mapM_ok {α β} (l : List α) (f : α → β) : l.mapM (fun x => (Except.ok (f x) : R β)) = .ok (l.map f) := by
  induction l with
  | nil => rfl
  | cons x xs ih => simp [List.mapM_cons, ih, bind, Except.bind, pure, Except.pure]

theorem apply_replicate_none (m : Method) (k : Nat) : m.apply (List.replicate (k + 1) none) = none := by
  have hmem : (none : Val) ∈ List.replicate (k + 1) none := by simp
  cases m
  · exact stMean_of_mem_none _ hmem
  · exact pySum_of_mem_none _ hmem
  · exact npProd_of_mem_none _ hmem
  · simp [Method.apply, List.replicate_succ]
  · simp [Method.apply, List.getLast?_replicate]
  · exact pyMin_replicate k none
  · exact pyMax_replicate k none

theorem aggPure_replicate_none (d : Bool) (m : Method) (k : Nat) : aggPure d m (List.replicate k none) = none := by
  cases k with
  | zero => cases d <;> simp [aggPure]
  | succ k =>
    cases d
    · simp only [aggPure, Bool.false_eq_true, if_false]
      rw [apply_replicate_none]; simp
    · simp [aggPure]

theorem aggPure_all_none (d : Bool) (m : Method) (k : Nat) (f : Nat → Val) (h : ∀ i, i < k → f i = none) :
    aggPure d m ((List.range k).map f) = none := by
  have : (List.range k).map f = List.replicate k none := by
    apply List.ext_getElem
    · simp
    · intro i h1 h2
      simp only [List.getElem_map, List.getElem_range, List.getElem_replicate]
      exact h i (by simpa using h1)
  rw [this, aggPure_replicate_none]

def rowsGet (rows : List (List Val)) (v : Nat) (i : Nat) : Val := ((rows[i]?).bind (·[v]?)).join

theorem Ser.get_eq (s : Ser) (v : Nat) (t : Int) :
    s.get v t = if t < s.start then none else rowsGet s.rows v (t - s.start).toNat := rfl

theorem rowMissing_get (r : List Val) (h : rowMissing r = true) (v : Nat) : (r[v]?).join = none := by
  unfold rowMissing at h
  rw [List.all_eq_true] at h
  cases hv : r[v]? with
  | none => rfl
  | some x =>
    have hx : x ∈ r := List.mem_of_getElem? hv
    have := h x hx
    cases x <;> simp_all

theorem rowsGet_cons_zero (r : List Val) (rs : List (List Val)) (v : Nat) : rowsGet (r :: rs) v 0 = (r[v]?).join := by
  simp [rowsGet]

theorem rowsGet_cons_succ (r : List Val) (rs : List (List Val)) (v i : Nat) : rowsGet (r :: rs) v (i + 1) = rowsGet rs v i := by
  simp [rowsGet]

theorem rowsGet_nil (v i : Nat) : rowsGet [] v i = none := by simp [rowsGet]

theorem rowsGet_drop (rows : List (List Val)) (k v i : Nat) : rowsGet (rows.drop k) v i = rowsGet rows v (k + i) := by
  simp [rowsGet, List.getElem?_drop]

theorem rowsGet_lead (rows : List (List Val)) (v i : Nat) (h : i < leadMissing rows) : rowsGet rows v i = none := by
  induction rows generalizing i with
  | nil => simp [leadMissing] at h
  | cons r rs ih =>
    unfold leadMissing at h
    split at h
    · rename_i hr
      cases i with
      | zero => rw [rowsGet_cons_zero]; exact rowMissing_get r hr v
      | succ i => rw [rowsGet_cons_succ]; exact ih i (by omega)
    · omega

theorem rowsGet_rtrim (rows : List (List Val)) (v i : Nat) : rowsGet (rtrimRows rows) v i = rowsGet rows v i := by
  induction rows generalizing i with
  | nil => rfl
  | cons r rs ih =>
    unfold rtrimRows
    split
    · rename_i hnil
      have hrs : ∀ j, rowsGet rs v j = none := by
        intro j; rw [← ih j, hnil]; exact rowsGet_nil v j
      split
      · rename_i hr
        cases i with
        | zero => rw [rowsGet_cons_zero, rowMissing_get r hr v]; exact rowsGet_nil v 0
        | succ i => rw [rowsGet_cons_succ, hrs i]; exact rowsGet_nil v _
      · cases i with
        | zero => simp [rowsGet_cons_zero]
        | succ i => rw [rowsGet_cons_succ, rowsGet_cons_succ, hrs i]; exact rowsGet_nil v _
    · rename_i y ys hys
      cases i with
      | zero => simp [rowsGet_cons_zero]
      | succ i => rw [rowsGet_cons_succ, rowsGet_cons_succ, ← hys, ih i]

/-- **Trimming never changes the period-indexed map.** -/
theorem Ser.get_trim (s : Ser) (v : Nat) (t : Int) : s.trim.get v t = s.get v t := by
  simp only [Ser.get_eq, Ser.trim]
  rw [rowsGet_rtrim, rowsGet_drop]
  by_cases h1 : t < s.start
  · have : t < s.start + (leadMissing s.rows : Int) := by omega
    simp [h1, this]
  · by_cases h2 : t < s.start + (leadMissing s.rows : Int)
    · simp only [h1, h2, if_true, if_false]
      symm
      apply rowsGet_lead
      omega
    · simp only [h1, h2, if_false]
      congr 1
      omega

theorem Ser.trim_freq (s : Ser) : s.trim.freq = s.freq := rfl
theorem Ser.trim_nv (s : Ser) : s.trim.nv = s.nv := rfl


/-! ### tables, regular aggregation -/

theorem rowsGet_table (n nv : Nat) (f : Nat → Nat → Val) (v i : Nat) :
    rowsGet ((List.range n).map fun j => (List.range nv).map fun w => f j w) v i
      = if i < n ∧ v < nv then f i v else none := by
  unfold rowsGet
  by_cases hi : i < n
  · by_cases hv : v < nv
    · simp [hi, hv]
    · simp [hi, hv]
  · simp [hi]

theorem Ser.get_outside (s : Ser) (v : Nat) (t : Int) (h : t < s.start ∨ s.endSerial < t) : s.get v t = none := by
  rw [Ser.get_eq]
  rcases h with h | h
  · simp [h]
  · split
    · rfl
    · unfold Ser.endSerial at h
      have : s.rows.length ≤ (t - s.start).toNat := by omega
      simp [rowsGet, List.getElem?_eq_none this]

/-- the rows `aggregateRegular` builds (no `select`) -/
def aggRows (s : Ser) (d : Bool) (m : Method) (soy : Int) (k n : Nat) : List (List Val) :=
  (List.range n).map fun j => (List.range s.nv).map fun v => aggPure d m (regularGroup s v soy k j)

/-- **Core of regular aggregation**: as a period-indexed map, the result is the method applied to the values at
serials `T*k … T*k + k-1`, for every `T` (inside or outside the stored rows). -/
theorem aggRows_get (s : Ser) (lo : Freq) (d : Bool) (m : Method) (k n : Nat) (hk : 0 < k) (newStart soy : Int)
    (h1 : soy = newStart * k) (h2 : soy ≤ s.start) (h3 : s.endSerial < soy + n * k)
    (v : Nat) (hv : v < s.nv) (T : Int) :
    (Ser.trim ⟨lo, s.nv, newStart, aggRows s d m soy k n⟩).get v T
      = aggPure d m ((List.range k).map fun (i : Nat) => s.get v (T * k + i)) := by
  rw [Ser.get_trim, Ser.get_eq]
  simp only [aggRows, rowsGet_table]
  by_cases c1 : T < newStart
  · simp only [c1, if_true]
    symm
    apply aggPure_all_none
    intro i hi
    apply Ser.get_outside
    left
    have : (T + 1) * (k : Int) ≤ newStart * k := Int.mul_le_mul_of_nonneg_right (by omega) (by omega)
    rw [Int.add_mul] at this
    omega
  · simp only [c1, if_false]
    by_cases c2 : (T - newStart).toNat < n
    · simp only [c2, hv, and_self, if_true]
      congr 1
      unfold regularGroup
      apply List.map_congr_left
      intro i _
      congr 1
      have e : (((T - newStart).toNat : Nat) : Int) = T - newStart := by omega
      rw [e, h1, Int.sub_mul]
      omega
    · simp only [c2, false_and, if_false]
      symm
      apply aggPure_all_none
      intro i hi
      apply Ser.get_outside
      right
      have hn : newStart + n ≤ T := by omega
      have : (newStart + n) * (k : Int) ≤ T * k := Int.mul_le_mul_of_nonneg_right hn (by omega)
      rw [Int.add_mul] at this
      omega


/-! ### the six regular pairs -/

/-- (high, low) pairs of regular frequencies -/
def regularPairs : List (Freq × Freq) := [(.M, .Q), (.M, .H), (.M, .Y), (.Q, .H), (.Q, .Y), (.H, .Y)]

/-- number of high-frequency periods per low-frequency period -/
def factorOf (hi lo : Freq) : Nat := (hi.value / lo.value).toNat

macro "refreq_tac" h:ident : tactic => `(tactic|
  (simp [refrequent, toYmd, toYearSegment, toYearSegmentYear, toYearSegmentSeg, Freq.value, freqMonthly, freqQuarterly,
    freqHalfyearly, freqYearly, Int.fdiv_eq_ediv_of_nonneg, Int.fmod_eq_emod_of_nonneg, mdrTable, mdrM_end, mdrM_start,
    mdrM_middle, mdrQ_end, mdrQ_start, mdrQ_middle, mdrH_end, mdrH_start, mdrH_middle, lookupSeg,
    bind, Except.bind, pure, Except.pure, $h:ident, fromYmd, fromYearSegment, monthToSegment, monthToSegmentQ, monthToSegmentH,
    monthToSegmentY, serialFromYsf] <;> omega))

theorem refrequent_M (lo : Freq) (hlo : lo = .Q ∨ lo = .H ∨ lo = .Y) (t : Int) (pos : Pos) :
    refrequent ⟨.M, t⟩ lo pos = .ok ⟨lo, t / (12 / lo.value)⟩ := by
  have hr : t % 12 = 0 ∨ t % 12 = 1 ∨ t % 12 = 2 ∨ t % 12 = 3 ∨ t % 12 = 4 ∨ t % 12 = 5 ∨ t % 12 = 6 ∨
      t % 12 = 7 ∨ t % 12 = 8 ∨ t % 12 = 9 ∨ t % 12 = 10 ∨ t % 12 = 11 := by omega
  rcases hlo with rfl | rfl | rfl <;>
  rcases hr with h | h | h | h | h | h | h | h | h | h | h | h <;> cases pos <;> refreq_tac h

theorem refrequent_Q (lo : Freq) (hlo : lo = .H ∨ lo = .Y) (t : Int) (pos : Pos) :
    refrequent ⟨.Q, t⟩ lo pos = .ok ⟨lo, t / (4 / lo.value)⟩ := by
  have hr : t % 4 = 0 ∨ t % 4 = 1 ∨ t % 4 = 2 ∨ t % 4 = 3 := by omega
  rcases hlo with rfl | rfl <;>
  rcases hr with h | h | h | h <;> cases pos <;> refreq_tac h

theorem refrequent_H (t : Int) (pos : Pos) :
    refrequent ⟨.H, t⟩ .Y pos = .ok ⟨.Y, t / 2⟩ := by
  have hr : t % 2 = 0 ∨ t % 2 = 1 := by omega
  rcases hr with h | h <;> cases pos <;> refreq_tac h

/-- **Regular → regular conversion is integer division of the serial** (all six pairs, all positions). -/
theorem refrequent_regular (hi lo : Freq) (hp : (hi, lo) ∈ regularPairs) (t : Int) (pos : Pos) :
    refrequent ⟨hi, t⟩ lo pos = .ok ⟨lo, t / (factorOf hi lo : Nat)⟩ := by
  simp only [regularPairs, List.mem_cons, Prod.mk.injEq, List.mem_nil_iff, or_false] at hp
  rcases hp with ⟨rfl, rfl⟩ | ⟨rfl, rfl⟩ | ⟨rfl, rfl⟩ | ⟨rfl, rfl⟩ | ⟨rfl, rfl⟩ | ⟨rfl, rfl⟩
  · simpa [factorOf, Freq.value, freqMonthly, freqQuarterly] using refrequent_M .Q (by simp) t pos
  · simpa [factorOf, Freq.value, freqMonthly, freqHalfyearly] using refrequent_M .H (by simp) t pos
  · simpa [factorOf, Freq.value, freqMonthly, freqYearly] using refrequent_M .Y (by simp) t pos
  · simpa [factorOf, Freq.value, freqQuarterly, freqHalfyearly] using refrequent_Q .H (by simp) t pos
  · simpa [factorOf, Freq.value, freqQuarterly, freqYearly] using refrequent_Q .Y (by simp) t pos
  · simpa [factorOf, Freq.value, freqHalfyearly, freqYearly] using refrequent_H t pos

theorem aggregateRegular_eq (hi lo : Freq) (hp : (hi, lo) ∈ regularPairs) (s : Ser) (hs : s.freq = hi) (m : Method) (d : Bool) :
    aggregateRegular s lo m d none = .ok (Ser.trim ⟨lo, s.nv, (s.start / hi.value) * lo.value,
      aggRows s d m ((s.start / hi.value) * hi.value) (factorOf hi lo)
        ((s.endSerial / hi.value - s.start / hi.value + 1) * lo.value).toNat⟩) := by
  simp only [regularPairs, List.mem_cons, Prod.mk.injEq, List.mem_nil_iff, or_false] at hp
  unfold aggregateRegular
  rcases hp with ⟨rfl, rfl⟩ | ⟨rfl, rfl⟩ | ⟨rfl, rfl⟩ | ⟨rfl, rfl⟩ | ⟨rfl, rfl⟩ | ⟨rfl, rfl⟩ <;>
  (simp [hs, factorOf, Freq.value, freqMonthly, freqQuarterly, freqHalfyearly, freqYearly, toYearSegmentYear, fromYearSegment,
    serialFromYsf, Int.fdiv_eq_ediv_of_nonneg, aggWithin_no_select, mapM_ok, bind, Except.bind, pure, Except.pure, aggRows]
   simp (disch := omega) only [if_pos, if_neg]
   iterate 5 apply congrArg
   omega)


/-! ### disaggregation -/

/-- does stride offset `off` keep position `j` of a group? -/
def keeps (off : Option Nat) (j : Nat) : Bool :=
  match off with
  | none => true
  | some o => j == o

theorem replicate_none_get (nv v : Nat) : ((List.replicate nv (none : Val))[v]?).join = none := by
  by_cases h : v < nv
  · simp [List.getElem?_replicate, h]
  · simp [List.getElem?_replicate, h]

theorem disaggRows_get (k : Nat) (hk : 0 < k) (off : Option Nat) (nv : Nat) (rows : List (List Val)) (v i : Nat) :
    rowsGet (disaggRows k off nv rows) v i = if keeps off (i % k) then rowsGet rows v (i / k) else none := by
  induction rows generalizing i with
  | nil => simp [disaggRows, rowsGet]
  | cons r rs ih =>
    have hcons : disaggRows k off nv (r :: rs)
        = ((List.range k).map fun j => match off with | none => r | some o => if j = o then r else List.replicate nv none)
          ++ disaggRows k off nv rs := by
      simp only [disaggRows, List.flatMap_cons]
      congr 1
      apply List.map_congr_left
      intro a _
      cases off <;> rfl
    by_cases hi : i < k
    · have h1 : i / k = 0 := Nat.div_eq_of_lt hi
      have h2 : i % k = i := Nat.mod_eq_of_lt hi
      rw [hcons, h1, h2, rowsGet_cons_zero]
      unfold rowsGet
      rw [List.getElem?_append_left (by simpa using hi)]
      simp only [List.getElem?_map, List.getElem?_range hi, Option.map_some, Option.bind_some]
      cases off with
      | none => simp [keeps]
      | some o =>
        by_cases hio : i = o
        · simp [keeps, hio]
        · simp [keeps, hio, replicate_none_get]
    · obtain ⟨j, rfl⟩ : ∃ j, i = j + k := ⟨i - k, by omega⟩
      have h1 : (j + k) / k = j / k + 1 := Nat.add_div_right j hk
      have h2 : (j + k) % k = j % k := Nat.add_mod_right j k
      rw [hcons, h1, h2, rowsGet_cons_succ, ← ih j]
      unfold rowsGet
      rw [List.getElem?_append_right (by simp)]
      simp


macro "disagg_tac" h:ident hs:ident he:ident : tactic => `(tactic|
  (simp [disaggregate, $hs:ident, $he:ident, factorOf, toYmd, toYearSegment, toYearSegmentYear, toYearSegmentSeg, Freq.value, freqMonthly,
    freqQuarterly, freqHalfyearly, freqYearly, Int.fdiv_eq_ediv_of_nonneg, Int.fmod_eq_emod_of_nonneg, mdrTable,
    mdrQ_start, mdrH_start, mdrY_start, lookupSeg, bind, Except.bind, pure, Except.pure, $h:ident, fromYmd, fromYearSegment,
    monthToSegment, monthToSegmentQ, monthToSegmentH, monthToSegmentM, serialFromYsf]
   try (first | (congr 3; omega) | (congr 2; omega) | (congr 1; omega))))

theorem disaggregate_eq (hi lo : Freq) (hp : (hi, lo) ∈ regularPairs) (s : Ser) (hs : s.freq = lo) (hne : s.rows ≠ [])
    (dm : DMethod) :
    disaggregate s hi dm = .ok (Ser.trim ⟨hi, s.nv, s.start * (factorOf hi lo : Nat),
      disaggRows (factorOf hi lo) (dm.offset (factorOf hi lo)) s.nv s.rows⟩) := by
  have he : s.rows.isEmpty = false := by cases h : s.rows <;> simp_all
  have h4 : s.start % 4 = 0 ∨ s.start % 4 = 1 ∨ s.start % 4 = 2 ∨ s.start % 4 = 3 := by omega
  have h2 : s.start % 2 = 0 ∨ s.start % 2 = 1 := by omega
  simp only [regularPairs, List.mem_cons, Prod.mk.injEq, List.mem_nil_iff, or_false] at hp
  rcases hp with ⟨rfl, rfl⟩ | ⟨rfl, rfl⟩ | ⟨rfl, rfl⟩ | ⟨rfl, rfl⟩ | ⟨rfl, rfl⟩ | ⟨rfl, rfl⟩
  · rcases h4 with h | h | h | h <;> disagg_tac h hs he
  · rcases h2 with h | h <;> disagg_tac h hs he
  · disagg_tac he hs he
  · rcases h2 with h | h <;> disagg_tac h hs he
  · disagg_tac he hs he
  · disagg_tac he hs he


end IrisVerif.Conv
