/-
Line-protocol driver for the plans / conditional-simulation model (property C07).

  plan NP NEXO NENDO | op;op;… | qperiods | cols | firstOffset | endogenous qids | exo qids | endoAnt qids | endoUnant qids
      op = `w <ea|na|eu|nu> <T|F> <period offsets csv> <row indices csv>`
  cond <col|row> | T | K | P | X | J | Ru | currIdx | init | trueInit bits | N | u0 | v0 | stdU | stdV
       | exo bits | target | endoU bits | endoV bits
      matrices in `QMat.toText` form, bit tables as rows of 0/1 separated by commas
-/
import IrisVerif.Model.Plans
import IrisVerif.Model.PlanFrames
import IrisVerif.Driver.Util

open IrisVerif IrisVerif.Plans IrisVerif.Driver

namespace IrisVerif.Driver.C07

def sections (line : String) : List String := (line.splitOn "|").map (fun s => s.trimAscii.toString)

def csvInts? (s : String) : Option (List Int) :=
  if s.trimAscii.toString = "" || s.trimAscii.toString = "-" then some [] else (s.trimAscii.toString.splitOn ",").mapM (fun w => w.trimAscii.toString.toInt?)

def csvNats? (s : String) : Option (List Nat) := (csvInts? s).bind fun l => l.mapM (fun i => if i < 0 then none else some i.toNat)

def bits? (s : String) : Option (List (List Bool)) :=
  if s.trimAscii.toString = "-" then some [] else
  (s.trimAscii.toString.splitOn ",").mapM fun row =>
    row.trimAscii.toString.toList.mapM fun ch => if ch = '1' then some true else if ch = '0' then some false else none

def showBits (t : List (List Bool)) : String :=
  if t.isEmpty then "-" else ",".intercalate (t.map fun row => String.ofList (row.map fun b => if b then '1' else '0'))

def kind? : String → Option Kind
  | "ea" => some .exoAnt | "na" => some .endoAnt | "eu" => some .exoUnant | "nu" => some .endoUnant | _ => none

def showSpots (l : List Spot) : String := ";".intercalate (l.map fun (q, c) => s!"{q}:{c}")

def endPt? (s : String) : Option EndPt :=
  match s.splitOn ":" with
  | [t] => t.toInt?.map EndPt.abs
  | ["cs", a] => a.toInt?.map EndPt.fromStart
  | ["ce", o] => o.toInt?.map EndPt.fromEnd
  | _ => none

/-- the dates of a plan call: `t1,t2,…` (a collection of periods, any order) or `s/<e1>/<e2>/<step>` (a `Span`; end points `t`,
`cs:a` = `ir.start + a`, `ce:o` = `ir.end + o`) -/
def dateArg? (s : String) : Option DateArg :=
  match s.splitOn "/" with
  | ["s", e1, e2, st] => do
    let e1 ← endPt? e1
    let e2 ← endPt? e2
    let st ← st.toInt?
    pure (.span e1 e2 st)
  | [_] => (csvInts? s).map DateArg.periods
  | _ => none

def runOps (p : Plan) : List String → Option (Plan × List String)
  | [] => some (p, [])
  | op :: rest =>
    match words op with
    | ["w", k, st, per, nm] =>
      match kind? k, dateArg? per, csvNats? nm with
      | some k, some per, some nm =>
        if st ≠ "T" ∧ st ≠ "F" then none else
        match p.writeDates k per nm (st = "T") with
        | .ok p' => (runOps p' rest).map fun (q, out) => (q, "ok" :: out)
        | .error .badName => (runOps p rest).map fun (q, out) => (q, "err:name" :: out)
        | .error .badPeriod => (runOps p rest).map fun (q, out) => (q, "err:period" :: out)
      | _, _, _ => none
    | _ => none

def stepPlan (secs : List String) : String :=
  match secs with
  | [hd, ops, qper, cols, first, endog, exoQ, endoAntQ, endoUnantQ] =>
    match words hd, csvInts? qper, csvNats? cols, first.toInt?, csvNats? endog, csvNats? exoQ, csvNats? endoAntQ, csvNats? endoUnantQ with
    | ["plan", np, nexo, nendo], some qper, some cols, some first, some endog, some exoQ, some endoAntQ, some endoUnantQ =>
      match np.toNat?, nexo.toNat?, nendo.toNat? with
      | some np, some nexo, some nendo =>
        let opl := (ops.splitOn ";").map (fun s => s.trimAscii.toString) |>.filter (· ≠ "")
        match runOps (Plan.empty np nexo nendo) opl with
        | none => "bad-op"
        | some (p, outs) =>
          let arr (k : Kind) := showBits (p.boolArray k qper)
          let run : List Int := (List.range cols.length).map fun (i : Nat) => first + (i : Int)
          let sp := getWrtSpots cols endog (p.boolArray .exoAnt run) (p.boolArray .exoUnant run)
            (p.boolArray .endoAnt run) (p.boolArray .endoUnant run) exoQ exoQ endoAntQ endoUnantQ
          ",".intercalate outs ++ " | ea=" ++ arr .exoAnt ++ " na=" ++ arr .endoAnt ++ " eu=" ++ arr .exoUnant ++
            " nu=" ++ arr .endoUnant ++ " | empty=" ++ showBool p.isEmpty ++ " antx=" ++ showBool p.anyEndoAntExceptStart ++
            " | wrt=" ++ showSpots sp.wrt ++ " | exo=" ++ showSpots sp.exogenized
      | _, _, _ => "bad-op"
    | _, _, _, _, _, _, _, _ => "bad-op"
  | _ => "bad-op"

def mat? (s : String) : Option QMat := (QMat.parse? (words s)).map (·.1)

def showOut (n : Nat) (o : CondOutput) : String :=
  (ofCols n o.xi).toText ++ " | " ++ o.u.toText ++ " | " ++ o.v.toText

def stepCond (secs : List String) : String :=
  match secs with
  | [hd, T, K, P, X, J, Ru, ci, init, ti, N, u0, v0, sU, sV, exo, tgt, eU, eV] =>
    match words hd, mat? T, mat? K, mat? P, mat? X, mat? J, mat? Ru, csvNats? ci, mat? init with
    | ["cond", ord], some T, some K, some P, some X, some J, some Ru, some ci, some init =>
      match bits? ti, N.toNat?, mat? u0, mat? v0, mat? sU, mat? sV, bits? exo, mat? tgt, bits? eU, bits? eV with
      | some ti, some N, some u0, some v0, some sU, some sV, some exo, some tgt, some eU, some eV =>
        if ord ≠ "col" ∧ ord ≠ "row" then "bad-op" else
        let sol : Sol := ⟨T, K.toVec, P, X, J, Ru⟩
        let initV : QVec := zeroFalseInit init.toVec (ti.headD [])
        let c : CondInput := CondInput.mk sol ci initV N u0 v0 sU sV exo tgt eU eV
        let n := sol.numXi
        let kal := condSimulate c (if ord = "col" then .colMajor else .rowMajor)
        let stk := stackedSolve c
        let flags (o : CondOutput) := "hit=" ++ showBool (hitsTargets c o) ++ " moved=" ++ showBool (onlyEndogenizedMoved c o) ++
          " sim=" ++ showBool (isSimulation c o)
        let ks := match kal with
          | .ok o => "kalman ok " ++ flags o ++ " | " ++ showOut n o
          | .error _ => "kalman err:singular | - | - | -"
        let ss := match stk with
          | .ok (o, _) => "stacked ok " ++ flags o ++ " | " ++ showOut n o
          | .error .singular => "stacked err:singular | - | - | -"
          | .error .notSquare => "stacked err:notsquare | - | - | -"
        let agree := match kal, stk with
          | .ok a, .ok (b, _) => showBool (sameOutput a b)
          | _, _ => "-"
        "agree=" ++ agree ++ " | " ++ ks ++ " | " ++ ss
      | _, _, _, _, _, _, _, _, _, _ => "bad-op"
    | _, _, _, _, _, _, _, _, _ => "bad-op"
  | _ => "bad-op"

/-- `memo | P | X | J | Ru | forward values csv`: one solution object, a history of `expand_square_solution(forward)` calls -/
def stepMemo (secs : List String) : String :=
  match secs with
  | [_, P, X, J, Ru, fw] =>
    match mat? P, mat? X, mat? J, mat? Ru, csvNats? fw with
    | some P, some X, some J, some Ru, some fw =>
      let s : Sol := ⟨QMat.zero P.rows P.rows, #[], P, X, J, Ru⟩
      " || ".intercalate ((s.expandHistory fw).map fun call => " & ".intercalate (call.map QMat.toText))
    | _, _, _, _, _ => "bad-op"
  | _ => "bad-op"

def step (line : String) : String :=
  let secs := sections line
  match (secs.headD "").splitOn " " |>.headD "" with
  | "plan" => stepPlan secs
  | "cond" => stepCond secs
  | "memo" => stepMemo secs
  | "method" => match words (secs.headD "") with
    | ["method", sp] => match resolveMethod (if sp = "-" then none else some sp) with
      | some m => m.name
      | none => "err:bad"
    | _ => "bad-op"
  | _ => "bad-op"

end IrisVerif.Driver.C07

def main : IO Unit := IrisVerif.Driver.runMain IrisVerif.Driver.C07.step
