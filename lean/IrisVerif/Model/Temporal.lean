/-
Model of irispie/series/_temporal.py (property C13): temporal change functions (diff, diff_log, pct, roc,
their annualised variants and the keyword shifts yoy/soy/eopy/tty), the conversion helpers between percent,
gross and annualised rates, and the forward/backward cumulation loops.

Core Lean only (no Mathlib) so that the driver can be interpreted quickly.  The closed-form fragments (the
eight change lambdas, their neutral values, the five conversion formulas, the `_CUMULATIVE_FACTORY` table) come
from `IrisVerif.Generated.TemporalGen`, regenerated from the Python source on every run; everything with
control flow (copy/shift/_binop, the two cumulation loops, span resolution) is written by hand here and tied to
the code by the correspondence run of harness/c13.py.

A series (one variant) is a frequency, a row range `lo..hi` and a cell map `Int → Option α` (`none` = NaN =
missing); only `get` (cells outside the row range are missing) is observable.  The carrier `α` is abstract:
`+ - * /`, literals through `NatCast`/`IntCast`, and a `Sym` record with the symbols `log exp pw` and the two
domain tests the formulas need.  Where numpy does not return a finite number for finite arguments (division by
zero, logarithm of a non-positive number, fractional power of a negative number) the model returns `none`
explicitly instead of Lean's totalised `x / 0 = 0`.
-/
import IrisVerif.Model.Spans
import IrisVerif.Generated.TemporalGen

namespace IrisVerif.Temporal
open IrisVerif.Dates
open IrisVerif.Gen.Temporal

/-- The symbols of the formulas that are not field operations, and the domain tests of the carrier. -/
structure Sym (α : Type) where
  log : α → α
  exp : α → α
  pw : α → α → α
  isZero : α → Bool
  isPos : α → Bool

/-- One variant of a time series: frequency, row range, cells. -/
structure Ser (α : Type) where
  freq : Freq
  lo : Int
  hi : Int
  val : Int → Option α

section
variable {α : Type}

namespace Ser

/-- the observable content: the value at serial `t`; outside the rows everything is missing -/
def get (s : Ser α) (t : Int) : Option α := if s.lo ≤ t ∧ t ≤ s.hi then s.val t else none

/-- `Series()` / a series whose data were all missing (start is `None`) -/
def isEmpty (s : Ser α) : Bool := decide (s.hi < s.lo)

def empty (f : Freq) : Ser α := ⟨f, 0, -1, fun _ => none⟩

/-- first serial in `lo, lo+1, …` (`n` candidates) with a value -/
def firstSomeFrom (v : Int → Option α) (lo : Int) : Nat → Option Int
  | 0 => none
  | n + 1 => if (v lo).isSome then some lo else firstSomeFrom v (lo + 1) n

/-- last serial in `hi, hi-1, …` (`n` candidates) with a value -/
def lastSomeFrom (v : Int → Option α) (hi : Int) : Nat → Option Int
  | 0 => none
  | n + 1 => if (v hi).isSome then some hi else lastSomeFrom v (hi - 1) n

/-- `Series.trim()`: drop leading and trailing missing rows; nothing left -> `reset()` -/
def trim (s : Ser α) : Ser α :=
  let n := (s.hi + 1 - s.lo).toNat
  match firstSomeFrom s.val s.lo n with
  | none => { s with lo := 0, hi := -1 }
  | some a =>
    match lastSomeFrom s.val s.hi n with
    | none => { s with lo := 0, hi := -1 }
    | some b => { s with lo := a, hi := b }

/-- rows `start, start+1, …` from a list of cells (as `Series(start=…, values=array)` does, including the trim) -/
def ofCells (f : Freq) (start : Int) (cells : Array (Option α)) : Ser α :=
  trim ⟨f, start, start + cells.size - 1, fun t => (cells[(t - start).toNat]?).join⟩

/-- the cells of the row range, in order -/
def cells (s : Ser α) : List (Option α) :=
  (List.range (s.hi + 1 - s.lo).toNat).map (fun (i : Nat) => s.val (s.lo + (i : Int)))

/-- `Series._shift_by_number(by)`: `self.start -= by` (nothing to do without a start) -/
def shiftBy (s : Ser α) (k : Int) : Ser α :=
  if s.isEmpty then s else { s with lo := s.lo - k, hi := s.hi - k, val := fun t => s.val (t + k) }

/-- serials of the row range -/
def rows (s : Ser α) : List Int :=
  (List.range (s.hi + 1 - s.lo).toNat).map (fun (i : Nat) => s.lo + (i : Int))

/-- a reference-period computation that does not raise ("no such period" is `create_tty()` returning `None`) -/
def refOk : R Int → Bool
  | .ok _ => true
  | .error .noPeriod => true
  | .error _ => false

/-- the new cell of a row whose reference period is `r` -/
def refCell (s : Ser α) (neutral : Option α) : R Int → Option α
  | .ok r => s.get r
  | .error .noPeriod => neutral
  | .error _ => none

/-- `_shift_soy`, `_shift_eopy`, `_shift_tty`: the reference period `ref t` is computed for every row `t` of the
series (an exception there propagates; "no such period" is not an exception: those rows receive `neutral`);
the new cell at `t` is the old value at `ref t`. -/
def shiftRef (s : Ser α) (ref : Int → R Int) (neutral : Option α) : R (Ser α) :=
  if s.rows.all (fun t => refOk (ref t)) then pure { s with val := fun t => s.refCell neutral (ref t) }
  else throw .badInput

def refSoy (f : Freq) (t : Int) : R Int := (createSoy ⟨f, t⟩).map (·.serial)
def refEopy (f : Freq) (t : Int) : R Int := (createEopy ⟨f, t⟩).map (·.serial)
def refTty (f : Freq) (t : Int) : R Int := (createTty ⟨f, t⟩).map (·.serial)

/-- `Series.shift(by, neutral_value=…)` -/
def shift (s : Ser α) (by_ : ShiftBy) (neutral : Option α) : R (Ser α) :=
  match by_ with
  | .by_ k => pure (s.shiftBy k)
  | .yoy => pure (s.shiftBy (-(s.freq.value)))
  | .soy => s.shiftRef (refSoy s.freq) none
  | .eopy => s.shiftRef (refEopy s.freq) none
  | .tty => s.shiftRef (refTty s.freq) neutral

/-- `Series._binop(other, func, new=self)` for a NaN-strict `func`, on the encompassing row range, then trimmed.
(`other` is a shifted copy of `self` here, so frequencies cannot differ; two empty series give the empty series.) -/
def binop (g : Option α → Option α → Option α) (a b : Ser α) : Ser α :=
  trim ⟨a.freq, min a.lo b.lo, max a.hi b.hi, fun t => g (a.get t) (b.get t)⟩

/-- `set_data(t, v)` for one period as a map update (rows are extended as needed) -/
def setCell (s : Ser α) (t : Int) (v : Option α) : Ser α :=
  if s.isEmpty then ⟨s.freq, t, t, fun _ => v⟩
  else ⟨s.freq, min s.lo t, max s.hi t, fun u => if u = t then v else s.get u⟩

/-- apply a function to `self.data` (all rows) -/
def mapCells (s : Ser α) (g : Option α → Option α) : Ser α := trim { s with val := fun t => g (s.get t) }

end Ser

/-- a numpy ufunc of two arguments restricted to where it returns a finite number; NaN-strict -/
def lift2 (dom : α → α → Bool) (f : α → α → α) : Option α → Option α → Option α
  | some x, some y => if dom x y then some (f x y) else none
  | _, _ => none

def lift1 (dom : α → Bool) (f : α → α) : Option α → Option α
  | some x => if dom x then some (f x) else none
  | none => none

/-- `_catch_invalid_shift`: a number must be a negative integer; any string passes this test -/
def validShift : ShiftBy → Bool
  | .by_ k => decide (k < 0)
  | _ => true

variable [Add α] [Sub α] [Mul α] [Div α] [NatCast α] [IntCast α]

/-- `factor = self.frequency.value or 1` on the carrier -/
def factorOf (f : Freq) : α := ((annualFactor f.value : Int) : α)

/-! ### Temporal change -/

inductive ChangeKind where
  | diff | diffLog | pct | roc | adiff | adiffLog | apct | aroc
  deriving DecidableEq, Repr

/-- the generated lambda of each method -/
def ChangeKind.fn (S : Sym α) : ChangeKind → α → α → α → α
  | .diff => diffF S.log S.exp S.pw
  | .diffLog => diffLogF S.log S.exp S.pw
  | .pct => pctF S.log S.exp S.pw
  | .roc => rocF S.log S.exp S.pw
  | .adiff => adiffF S.log S.exp S.pw
  | .adiffLog => adiffLogF S.log S.exp S.pw
  | .apct => apctF S.log S.exp S.pw
  | .aroc => arocF S.log S.exp S.pw

/-- where the lambda returns a finite number: logs need positive arguments, ratios a non-zero reference value -/
def ChangeKind.dom (S : Sym α) : ChangeKind → α → α → Bool
  | .diff | .adiff => fun _ _ => true
  | .diffLog | .adiffLog => fun x y => S.isPos x && S.isPos y
  | .pct | .roc | .apct | .aroc => fun _ y => !S.isZero y

/-- the generated `neutral_value` keyword (used by `shift("tty")` in start-of-year periods; `None` -> missing) -/
def ChangeKind.neutral : ChangeKind → Option Int
  | .diff => diffNeutral | .diffLog => diffLogNeutral | .pct => pctNeutral | .roc => rocNeutral
  | .adiff => adiffNeutral | .adiffLog => adiffLogNeutral | .apct => apctNeutral | .aroc => arocNeutral

/-- annualised variants take no `shift` argument: it is fixed in the method body (generated) -/
def ChangeKind.fixedShift : ChangeKind → Option Int
  | .adiff => some adiffShift | .adiffLog => some adiffLogShift | .apct => some apctShift | .aroc => some arocShift
  | _ => none

/-- `Inlay.temporal_change(by, func, neutral_value=…)`: `other = self.copy(); other.shift(by, …); self._binop(other, func)` -/
def temporalChange (S : Sym α) (kind : ChangeKind) (by_ : ShiftBy) (s : Ser α) : R (Ser α) :=
  if !validShift by_ then throw .badInput
  else do          -- (an empty series passes through: shifting and `_binop` of two empty series give the empty series)
    let other ← s.shift by_ (kind.neutral.map (fun (n : Int) => (n : α)))
    pure (Ser.binop (lift2 (kind.dom S) (kind.fn S (factorOf s.freq))) s other)

/-- the public functions: `diff(x, shift)`, …, `adiff(x)`, … (`by_` is ignored by the annualised variants, which
have no such parameter) -/
def change (S : Sym α) (kind : ChangeKind) (by_ : ShiftBy) (s : Ser α) : R (Ser α) :=
  match kind.fixedShift with
  | some k => temporalChange S kind (.by_ k) s
  | none => temporalChange S kind by_ s

/-! ### Conversion helpers -/

inductive ConvKind where
  | rocFromPct | pctFromRoc | pctFromApct | rocFromApct | rocFromAroc
  deriving DecidableEq, Repr

def ConvKind.fn (S : Sym α) : ConvKind → α → α → α
  | .rocFromPct => Gen.Temporal.rocFromPct S.log S.exp S.pw
  | .pctFromRoc => Gen.Temporal.pctFromRoc S.log S.exp S.pw
  | .pctFromApct => Gen.Temporal.pctFromApct S.log S.exp S.pw
  | .rocFromApct => Gen.Temporal.rocFromApct S.log S.exp S.pw
  | .rocFromAroc => Gen.Temporal.rocFromAroc S.log S.exp S.pw

/-- fractional powers need a positive base (the gross rate `1 + data/100` resp. `data`); with the annualisation factor 1
(yearly and integer periods) the exponent is `1/1 = 1.0` and numpy's power is defined for every base -/
def ConvKind.dom (S : Sym α) (f : Freq) : ConvKind → α → Bool
  | .rocFromPct | .pctFromRoc => fun _ => true
  | .pctFromApct | .rocFromApct => fun d => decide (annualFactor f.value = 1) || S.isPos ((1 : Nat) + d / ((100 : Nat) : α))
  | .rocFromAroc => fun d => decide (annualFactor f.value = 1) || S.isPos d

/-- `self.data = <formula>(self.data)` -/
def convert (S : Sym α) (c : ConvKind) (s : Ser α) : Ser α :=
  s.mapCells (lift1 (c.dom S s.freq) (c.fn S (factorOf s.freq)))

/-! ### Temporal cumulation -/

inductive CumKind where
  | diff | diffLog | pct | roc
  deriving DecidableEq, Repr

def CumKind.forward (S : Sym α) : CumKind → α → α → α
  | .diff => cumDiffForward S.log S.exp S.pw
  | .diffLog => cumDiffLogForward S.log S.exp S.pw
  | .pct => cumPctForward S.log S.exp S.pw
  | .roc => cumRocForward S.log S.exp S.pw

def CumKind.backward (S : Sym α) : CumKind → α → α → α
  | .diff => cumDiffBackward S.log S.exp S.pw
  | .diffLog => cumDiffLogBackward S.log S.exp S.pw
  | .pct => cumPctBackward S.log S.exp S.pw
  | .roc => cumRocBackward S.log S.exp S.pw

def CumKind.initial : CumKind → Int
  | .diff => cumDiffInitial | .diffLog => cumDiffLogInitial | .pct => cumPctInitial | .roc => cumRocInitial

/-- the forward formulas are total (`exp` of anything is finite and positive) -/
def CumKind.domF (_S : Sym α) : CumKind → α → α → Bool
  | _ => fun _ _ => true

/-- the backward formulas divide by the gross rate implied by the change -/
def CumKind.domB (S : Sym α) : CumKind → α → α → Bool
  | .diff | .diffLog => fun _ _ => true
  | .pct => fun _ c => !S.isZero ((1 : Nat) + c / ((100 : Nat) : α))
  | .roc => fun _ c => !S.isZero c

/-- the `initial` argument: a number or a series -/
inductive Init (α : Type) where
  | scalar (a : α)
  | series (s : Ser α)

/-- The variant broadcast rule of `Series.set_data` (`has_variants.iter_variants` = `exhaust_then_last`): receiving
variant `j` takes the `j`-th supplied variant and, once the supplied ones are exhausted, the LAST supplied one
(`initial` with fewer variants than the change series; a list of numbers; a single number or series). Nothing
supplied: nothing to take. -/
def pickVariant {β : Type} (supplied : List β) (j : Nat) : Option β :=
  supplied[min j (supplied.length - 1)]?

def Init.get : Init α → Int → Option α
  | .scalar a, _ => some a
  | .series s, t => s.get t

def Init.freqOk : Init α → Freq → Bool
  | .scalar _, _ => true
  | .series s, f => s.isEmpty || decide (s.freq = f)

/-- `tuple((t, t.shift(shift)) for t in span)` without the pairs whose shifted period is `None`;
any other failure of `Period.shift` propagates -/
def zipShift (f : Freq) (by_ : ShiftBy) : List Int → R (List (Int × Int))
  | [] => pure []
  | t :: ts =>
    match Period.shift ⟨f, t⟩ by_ with
    | .ok p => do let rest ← zipShift f by_ ts; pure ((t, p.serial) :: rest)
    | .error .noPeriod => zipShift f by_ ts
    | .error e => throw e

/-- `min(xs, default=d)` -/
def minOr (d : Int) : List Int → Int
  | [] => d
  | x :: xs => xs.foldl min x

/-- one step of the forward loop: `self.set_data(t, cum_func(self.get_data(sh), change.get_data(t)))` -/
def stepForward (S : Sym α) (kind : CumKind) (change : Ser α) (self : Ser α) (p : Int × Int) : Ser α :=
  self.setCell p.1 (lift2 (kind.domF S) (kind.forward S) (self.get p.2) (change.get p.1))

/-- `Inlay._cumulate_forward(shift, cum_func, initial, span)` for the resolved span `a, a+step, … ≤ b` (`step > 0`) -/
def cumulateForward (S : Sym α) (kind : CumKind) (by_ : ShiftBy) (initial : Init α)
    (f : Freq) (a b step : Int) (change : Ser α) : R (Ser α) :=
  do
    let zipped ← zipShift f by_ (pyRange a (b + 1) step)
    if b < a then
      -- empty span: `set_data` of an empty initial span raises for a series, and is a no-op for a number
      match initial with
      | .series _ => throw .badInput
      | .scalar _ => pure (Ser.empty f)
    else if (!change.isEmpty && change.freq ≠ f) ∨ !initial.freqOk f then throw .mixedFreq
    else
      let minP := minOr a (zipped.map (·.2))
      let init : Ser α := ⟨f, minP, b, fun t => initial.get t⟩     -- self.empty(); self.set_data(Span(min_period, span.end), initial)
      pure (Ser.trim (zipped.foldl (stepForward S kind change) init))

/-- one step of the backward loop: `self.set_data(sh, cum_func(self.get_data(t), orig.get_data(t)))`, `t = sh - shift` -/
def stepBackward (S : Sym α) (kind : CumKind) (k : Int) (orig : Ser α) (self : Ser α) (sh : Int) : Ser α :=
  self.setCell sh (lift2 (kind.domB S) (kind.backward S) (self.get (sh - k)) (orig.get (sh - k)))

/-- `Inlay._cumulate_backward(shift, cum_func, initial, span)` for the resolved span `a, a+step, … ≥ b` (`step < 0`)
of the periods being written; only integer shifts work there (`Span.shift` of a keyword raises) -/
def cumulateBackward (S : Sym α) (kind : CumKind) (by_ : ShiftBy) (initial : Init α)
    (f : Freq) (a b step : Int) (orig : Ser α) : R (Ser α) :=
  match by_ with
  | .by_ k =>
    let shs := pyRange a (b - 1) step
    if shs.isEmpty then throw .badInput     -- min() of an empty sequence
    else if (!orig.isEmpty && orig.freq ≠ f) ∨ !initial.freqOk f then throw .mixedFreq
    else
      let init : Ser α := ⟨f, minOr a shs, a - k, fun t => initial.get t⟩   -- Span(min(span), span.start - shift)
      pure (Ser.trim (shs.foldl (stepBackward S kind k orig) init))
  | _ => throw .badInput

/-- `Inlay.temporal_cumulation(func_name, shift, initial, span)` -/
def temporalCumulation (S : Sym α) (kind : CumKind) (by_ : ShiftBy) (initial : Option (Init α))
    (span : Option Span) (self : Ser α) : R (Ser α) :=
  if !validShift by_ then throw .badInput
  else do
    let span0 ← match span with
      | none => Span.make none none 1
      | some sp => pure sp
    -- resolving an open end against a series without a start raises; a fully explicit span does not look at `self`
    if self.isEmpty && span0.needsResolve then throw .badInput
    let sp ← span0.resolve ⟨⟨self.freq, self.lo⟩, ⟨self.freq, self.hi⟩⟩
    let ini : Init α := match initial with
      | none => .scalar ((kind.initial : Int) : α)
      | some i => i
    match sp.start, sp.stop with
    | .res p, .res q =>
      if sp.step > 0 then cumulateForward S kind by_ ini p.freq p.serial q.serial sp.step self
      else if sp.step < 0 then cumulateBackward S kind by_ ini p.freq p.serial q.serial sp.step self
      else throw .badInput
    | _, _ => throw .badInput

end

/-! ### The shift argument as the caller passes it (Python `int`, `float`, keyword string, other string) -/

/-- what the `shift` argument can be: a Python `int`, a `float` (exact value as a rational), one of the four keywords,
or any other string -/
inductive ShiftArg where
  | int (k : Int)
  | float (q : Rat)
  | kw (b : ShiftBy)
  | otherString
  deriving Repr

/-- `_catch_invalid_shift`: `not isinstance(shift, str) and (int(shift) != shift or shift >= 0)` raises -/
def ShiftArg.invalid : ShiftArg → Bool
  | .int k => decide (0 ≤ k)
  | .float q => decide (q.den ≠ 1) || decide (0 ≤ q)
  | .kw _ => false
  | .otherString => false

section
variable {α : Type} [Add α] [Sub α] [Mul α] [Div α] [NatCast α] [IntCast α]

/-- a flexible change function called with an arbitrary shift argument: after `_catch_invalid_shift`, `Series.shift`
dispatches on `isinstance(by, int)`; anything else is looked up as a method `_shift_<by>`, which exists for the four
keywords only -- so a float-valued shift (`-1.0`) is rejected even when it is a negative whole number -/
def changeArg (S : Sym α) (kind : ChangeKind) (a : ShiftArg) (s : Ser α) : R (Ser α) :=
  match kind.fixedShift with
  | some k => temporalChange S kind (.by_ k) s          -- annualised variants have no shift parameter
  | none =>
    if a.invalid then throw .badInput
    else match a with
      | .int k => temporalChange S kind (.by_ k) s
      | .kw b => temporalChange S kind b s
      | .float _ => throw .badInput
      | .otherString => throw .badInput

/-- a cumulation function called with an arbitrary shift argument: the loops hand the shift to `Period.shift` /
`Span.shift`, which do plain arithmetic on a number: a negative whole-number float acts as the integer; a string that is
not a keyword is rejected -/
def cumArg (S : Sym α) (kind : CumKind) (a : ShiftArg) (initial : Option (Init α)) (span : Option Span)
    (self : Ser α) : R (Ser α) :=
  if a.invalid then throw .badInput
  else match a with
    | .int k => temporalCumulation S kind (.by_ k) initial span self
    | .float q => temporalCumulation S kind (.by_ q.num) initial span self
    | .kw b => temporalCumulation S kind b initial span self
    | .otherString => throw .badInput

end

/-! ### Several variants -/

/-- A series with `nv` variants (columns) sharing one row range. -/
structure MSer (α : Type) where
  freq : Freq
  lo : Int
  hi : Int
  nv : Nat
  val : Int → Nat → Option α

section
variable {α : Type}

namespace MSer

def get (m : MSer α) (t : Int) (j : Nat) : Option α :=
  if m.lo ≤ t ∧ t ≤ m.hi ∧ j < m.nv then m.val t j else none

def isEmpty (m : MSer α) : Bool := decide (m.hi < m.lo)

/-- variant `j` as a one-variant series ON THE SHARED ROWS (that is what `self.span` is for every variant) -/
def column (m : MSer α) (j : Nat) : Ser α :=
  ⟨m.freq, m.lo, m.hi, fun t => if j < m.nv then m.val t j else none⟩

/-- a row with an observation in at least one variant -/
def rowMark (m : MSer α) (t : Int) : Option Unit :=
  if (List.range m.nv).any (fun j => (m.val t j).isSome) then some () else none

/-- `Series.trim()` with several variants: leading and trailing rows are dropped while they are missing in ALL variants -/
def trim (m : MSer α) : MSer α :=
  let n := (m.hi + 1 - m.lo).toNat
  match Ser.firstSomeFrom m.rowMark m.lo n with
  | none => { m with lo := 0, hi := -1 }
  | some a =>
    match Ser.lastSomeFrom m.rowMark m.hi n with
    | none => { m with lo := 0, hi := -1 }
    | some b => { m with lo := a, hi := b }

/-- union of the rows of the non-empty series of a list -/
def rowsUnion : List (Ser α) → Option (Int × Int)
  | [] => none
  | o :: os =>
    match rowsUnion os with
    | none => if o.isEmpty then none else some (o.lo, o.hi)
    | some (a, b) => if o.isEmpty then some (a, b) else some (min a o.lo, max b o.hi)

/-- the multi-variant series whose variant `j` is `outs[j]` (rows: the union, then trimmed) -/
def ofSers (f : Freq) (outs : List (Ser α)) : MSer α :=
  match rowsUnion outs with
  | none => ⟨f, 0, -1, outs.length, fun _ _ => none⟩
  | some (a, b) => trim ⟨f, a, b, outs.length, fun t j => (outs[j]?).bind (fun o => o.get t)⟩

/-- columns given as cells from a common start (what `Series(start=…, values=2-D array)` builds, trim included) -/
def ofColumns (f : Freq) (start : Int) (len : Nat) (cols : List (Array (Option α))) : MSer α :=
  trim ⟨f, start, start + len - 1, cols.length, fun t j => ((cols[j]?).bind (fun c => c[(t - start).toNat]?)).join⟩

def cells (m : MSer α) (j : Nat) : List (Option α) :=
  (List.range (m.hi + 1 - m.lo).toNat).map (fun (i : Nat) => m.val (m.lo + (i : Int)) j)

end MSer

/-- `mapM` in the error monad, written out (first failure wins) -/
def mapR {β γ : Type} (g : β → R γ) : List β → R (List γ)
  | [] => pure []
  | b :: bs =>
    match g b with
    | .error e => .error e
    | .ok c =>
      match mapR g bs with
      | .error e => .error e
      | .ok cs => .ok (c :: cs)

variable [Add α] [Sub α] [Mul α] [Div α] [NatCast α] [IntCast α]

/-- a change function on a series with several variants: numpy applies the lambda to whole 2-D blocks, i.e. variant by
variant; every variant sees the shared rows -/
def mchange (S : Sym α) (kind : ChangeKind) (a : ShiftArg) (m : MSer α) : R (MSer α) :=
  match mapR (fun j => changeArg S kind a (m.column j)) (List.range m.nv) with
  | .error e => .error e
  | .ok outs => .ok (MSer.ofSers m.freq outs)

def mconvert (S : Sym α) (c : ConvKind) (m : MSer α) : MSer α :=
  MSer.ofSers m.freq ((List.range m.nv).map (fun j => convert S c (m.column j)))

/-- a cumulation function on a change series with several variants and an `initial` carrying possibly fewer:
variant `j` of the result is the cumulation of variant `j` of the change with the initial condition chosen by the
broadcast rule `pickVariant` -/
def mcum (S : Sym α) (kind : CumKind) (a : ShiftArg) (initials : List (Option (Init α))) (span : Option Span)
    (m : MSer α) : R (MSer α) :=
  match mapR (fun j => match pickVariant initials j with
      | some ini => cumArg S kind a ini span (m.column j)
      | none => .error .badInput) (List.range m.nv) with
  | .error e => .error e
  | .ok outs => .ok (MSer.ofSers m.freq outs)

end

/-! ### The two executable carriers of the driver -/

/-- exact rationals: only the formulas without `log exp pw` are meaningful (the driver refuses the others) -/
def symRat : Sym Rat :=
  { log := fun _ => 0, exp := fun _ => 0, pw := fun _ _ => 0, isZero := fun x => x == 0, isPos := fun x => decide (0 < x) }

instance : NatCast Float := ⟨Float.ofNat⟩
instance : IntCast Float := ⟨Float.ofInt⟩

/-- IEEE doubles with the C library's `log exp pow` (what numpy calls) -/
def symFloat : Sym Float :=
  { log := Float.log, exp := Float.exp, pw := Float.pow, isZero := fun x => x == 0, isPos := fun x => x > 0 }

end IrisVerif.Temporal
