#!/usr/bin/env python3
"""record_fixed.py: add a `fixed:` entry to known_findings.json for every fix commit of /repo not yet recorded
(property id and text taken from the matching pending_fixes/<slug>.msg)."""
import json, os, subprocess, glob, re
HERE = os.path.dirname(os.path.dirname(os.path.abspath(__file__)))
p = os.path.join(HERE, "known_findings.json")
d = json.load(open(p))
log = subprocess.check_output(["git", "-C", "/repo", "log", "--format=%h\t%s"], text=True).strip().split("\n")
for msgf in sorted(glob.glob(os.path.join(HERE, "pending_fixes", "*.msg"))):
    slug = os.path.basename(msgf)[:-4]
    prop = slug.split("-")[0]
    first = open(msgf).read().strip().split("\n")[0]
    commit = next((h for h, s in (l.split("\t", 1) for l in log) if s.strip() == first.strip()[:len(s.strip())] and s.strip()), None)
    if not commit:
        continue
    if any(commit in e for e in d["fixed"]):
        continue
    what = re.sub(r"^fix:\s*", "", " ".join(open(msgf).read().split()))[:420]
    d["fixed"].append(f"fixed: property={prop} {commit} {what} (patch: pending_fixes/{slug}.diff)")
    print("recorded", prop, commit, slug)
json.dump(d, open(p, "w"), indent=1)
